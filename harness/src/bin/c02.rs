//! C02: concurrent clients on one node see a linearizable per-key history.
//!
//! One case = one concurrent run of the real `ShardedActorState` on a tokio runtime (several
//! workers, or one worker): M client tasks, R rounds separated by a barrier.  In a round every
//! client issues a few commands on a small shared key set through every kind of entry point
//! (`execute`, `fast_get/set`, `pooled_fast_get/set`, `fast_batch_get/set_pipeline`, EVAL),
//! over string, list, set and hash keys: GET, SET [NX|XX] [GET], SETNX, GETSET, GETDEL,
//! INCR/DECR/INCRBY/DECRBY, APPEND, SETRANGE, DEL, EXISTS, LPUSH/RPUSH/LPOP/RPOP/LRANGE,
//! SADD/SREM/SMEMBERS, HSET/HDEL/HGETALL.  Invocation and response are stamped with a global
//! atomic counter.  After the barrier every key is read in full; that read is the last
//! operation of the window and the initial state of the next window.  Per round and key the
//! window is printed as a Coq term and judged by `lin_check` (Corr/C02.v); the same window is
//! judged here by an independent memoised search (the direct oracle on the implementation).
//! Case classes: ordinary mixes; first-writer races (all clients release the same conditional
//! write on one key at the same instant, interleaved with DEL); saboteurs that abandon requests
//! mid-flight (pending operations) followed by response-pool cycling; slow shards (a busy-loop
//! Lua script occupies the shard for 0.3-6 s while other clients queue non-idempotent commands).
//! Thread scheduling is not derived from the seed: histories are explored, not replayable bit
//! for bit; the scripts of case i are.  A failing window is stored in full in the replay.
use bytes::Bytes;
use rand::Rng as _;
use redis_sim::io::TimeSource;
use redis_sim::production::{PerformanceConfig, ShardConfig, ShardedActorState};
use redis_sim::redis::{Command, RespValue, SDS};
use serde::{Deserialize, Serialize};
use serde_json::{json, Value};
use std::collections::{BTreeMap, HashSet};
use std::sync::atomic::{AtomicU64, Ordering};
use std::sync::Arc;
use vharness::util::*;

const HEADER: &str = "From RV Require Import Corr.C02.\nLocal Open Scope string_scope.\nLocal Open Scope list_scope.\nLocal Open Scope nat_scope.";
/// Key names: plain ones, Redis-Cluster hash-tag shapes, multi-byte UTF-8, and names of
/// 7/8/9/16/17 bytes (SipHash block boundaries).  Every entry path must agree on the shard.
const KEYPOOL: [&str; 28] = [
    "a", "b", "k1", "k2", "key:3", "user:7", "x", "zz",
    "{a}", "x{a}y", "{a}:b", "{a}:c", "{}", "{tenant-0}:counter", "{u1}:name", "pre{u1}", "{", "}{", "a{b", "{}{z}",
    "\u{e9}", "\u{43a}\u{43b}\u{44e}\u{447}", "\u{65e5}\u{672c}\u{8a9e}",
    "abcdefg", "abcdefgh", "abcdefghi", "0123456789abcdef", "0123456789abcdefg",
];
const JUNK_KEY: &str = "c02-junk";
const NEVER_KEY: &str = "c02-never"; // never written: DEL / EXISTS of [k, never] answers for k alone
const NFILL: usize = 128;           // filler keys for large pipeline batches (not part of any window)
const PAD_KEY: &str = "c02-pad";
const SCRIPT_GETSET: &str = "local v = redis.call('GET', KEYS[1]); local s = redis.call('SET', KEYS[1], ARGV[1]); return {v or false, s}";
const SCRIPT_INCRGET: &str = "local n = redis.call('INCR', KEYS[1]); local v = redis.call('GET', KEYS[1]); return {n, v or false}";
const SCRIPT_INCR: &str = "return redis.call('INCR', KEYS[1])";
const BUSY: &str = "local n = tonumber(ARGV[1]); local x = 0; for i = 1, n do x = x + (i % 7) end; ";

static CLOCK: AtomicU64 = AtomicU64::new(0);
fn stamp() -> u64 {
    CLOCK.fetch_add(1, Ordering::SeqCst)
}

/// The node's time source: a counter only the harness moves, and only at instants when no
/// request is in flight (between waves); there are no real sleeps behind deadlines.
#[derive(Clone)]
struct Clock(Arc<AtomicU64>);
impl Clock {
    fn new() -> Clock { Clock(Arc::new(AtomicU64::new(1_700_000_000_000))) }
    fn advance(&self, ms: u64) { self.0.fetch_add(ms, Ordering::SeqCst); }
}
impl TimeSource for Clock {
    fn now_millis(&self) -> u64 { self.0.load(Ordering::SeqCst) }
}
type Node = ShardedActorState<Clock>;
fn node(n: usize, clock: &Clock) -> Node {
    ShardedActorState::with_config_and_time_source(ShardConfig::with_shards(n), clock.clone())
}
/// A node with a response pool of the given (capacity, prewarm) and optionally the adaptive actor.
fn node_with(n: usize, clock: &Clock, pool: (usize, usize), adaptive: bool) -> Node {
    let mut perf = PerformanceConfig::default();
    perf.num_shards = n;
    perf.response_pool.capacity = pool.0;
    perf.response_pool.prewarm = pool.1;
    let sc = if adaptive { ShardConfig::with_shards(n).with_adaptive() } else { ShardConfig::with_shards(n) };
    ShardedActorState::with_perf_config_and_time_source(&perf, sc, clock.clone())
}

/// Coq string literal with the hex of `b`; long values in pieces (`cat [..]`, Corr/C02.v).
fn hx(b: &[u8]) -> String {
    if b.len() <= 4000 { return chex(b); }
    // the longest run of one byte: written as `big head ff m tail`
    let (mut best, mut best_at, mut i) = (0usize, 0usize, 0usize);
    while i < b.len() {
        let mut j = i;
        while j < b.len() && b[j] == b[i] { j += 1; }
        if j - i > best { best = j - i; best_at = i; }
        i = j;
    }
    if best >= 1000 {
        return format!("(big {} {} {}%N {})", hx(&b[..best_at]), chex(&b[best_at..best_at + 1]), best, hx(&b[best_at + best..]));
    }
    format!("(cat {})", clist(b.chunks(4000), |c| chex(c)))
}

type B = Vec<u8>;
#[derive(Clone, Debug, PartialEq, Eq, Hash, Serialize, Deserialize)]
enum State {
    None,
    Str(B),
    List(Vec<B>),
    Set(Vec<B>),
    Hash(Vec<(B, B)>),
}
/// value, deadline (virtual ms), clock (virtual ms); a present key's deadline is > now
#[derive(Clone, Debug, PartialEq, Eq, Hash, Serialize, Deserialize)]
struct TState {
    val: State,
    dl: Option<u64>,
    now: u64,
}
fn tstate0() -> TState { TState { val: State::None, dl: None, now: 0 } }
#[derive(Clone, Copy, Debug, PartialEq, Eq, Hash, Serialize, Deserialize)]
enum GetExOpt { Plain, Persist, Px(u64), Ex(u64) }
type Flags = (bool, bool, bool, bool); // NX XX GT LT
#[derive(Clone, Copy, Debug, PartialEq, Eq)]
enum Kind {
    Str,
    List,
    Set,
    Hash,
}
#[derive(Clone, Debug, PartialEq, Eq, Hash, Serialize, Deserialize)]
enum Prim {
    Get,
    Set(B),
    IncrBy(i64),
    Append(B),
    Del,
    SetNx(B),
    SetOpt(B, bool, bool, bool), // value, NX, XX, GET
    GetSet(B),
    GetDel,
    SetRange(usize, B),
    Exists,
    LPush(B),
    RPush(B),
    LPop,
    RPop,
    LRange,
    SAdd(B),
    SRem(B),
    SMembers,
    HSet(B, B),
    HDel(B),
    HGetAll,
    Flush, // FLUSHDB / FLUSHALL, seen from one key
    // ---- commands that mention time
    Advance(u64),      // the harness moves the clock to this virtual instant
    SetPx(B, u64),     // SET k v PX ms
    SetEx(B, u64),     // SET k v EX s
    SetKeep(B),        // SET k v KEEPTTL
    PExpire(u64, Flags),
    Expire(u64, Flags),
    Persist,
    Ttl,
    Pttl,
    GetEx(GetExOpt),
}
#[derive(Clone, Debug, PartialEq, Eq, Serialize, Deserialize)]
enum Rep {
    Val(Option<B>),
    Ok,
    Int(i64),
    ErrNotInt,
    ErrOverflow,
    WrongType,
    Arr(Vec<B>),
    Other(String),
}
fn is_read(p: &Prim) -> bool {
    matches!(p, Prim::Get | Prim::Exists | Prim::LRange | Prim::SMembers | Prim::HGetAll | Prim::Ttl | Prim::Pttl | Prim::GetEx(GetExOpt::Plain))
}
fn prim_name(p: &Prim) -> &'static str {
    match p {
        Prim::Get => "GET", Prim::Set(_) => "SET", Prim::IncrBy(1) => "INCR", Prim::IncrBy(-1) => "DECR",
        Prim::IncrBy(z) if *z > 0 => "INCRBY", Prim::IncrBy(_) => "DECRBY", Prim::Append(_) => "APPEND", Prim::Del => "DEL",
        Prim::SetNx(_) => "SETNX", Prim::SetOpt(_, true, _, _) => "SET-NX", Prim::SetOpt(_, _, true, _) => "SET-XX",
        Prim::SetOpt(..) => "SET-GET", Prim::GetSet(_) => "GETSET", Prim::GetDel => "GETDEL", Prim::SetRange(..) => "SETRANGE",
        Prim::Exists => "EXISTS", Prim::LPush(_) => "LPUSH", Prim::RPush(_) => "RPUSH", Prim::LPop => "LPOP", Prim::RPop => "RPOP",
        Prim::LRange => "LRANGE", Prim::SAdd(_) => "SADD", Prim::SRem(_) => "SREM", Prim::SMembers => "SMEMBERS",
        Prim::HSet(..) => "HSET", Prim::HDel(_) => "HDEL", Prim::HGetAll => "HGETALL", Prim::Flush => "FLUSH",
        Prim::Advance(_) => "CLOCK", Prim::SetPx(..) => "SET-PX", Prim::SetEx(..) => "SET-EX", Prim::SetKeep(_) => "SET-KEEPTTL",
        Prim::PExpire(..) => "PEXPIRE", Prim::Expire(..) => "EXPIRE", Prim::Persist => "PERSIST", Prim::Ttl => "TTL", Prim::Pttl => "PTTL",
        Prim::GetEx(_) => "GETEX",
    }
}
fn prim_term(p: &Prim) -> String {
    match p {
        Prim::Get => "G".into(),
        Prim::Set(v) => format!("St {}", hx(v)),
        Prim::IncrBy(1) => "Ic".into(),
        Prim::IncrBy(z) => format!("Ib ({})%Z", z),
        Prim::Append(v) => format!("Ap {}", hx(v)),
        Prim::Del => "Dl".into(),
        Prim::SetNx(v) => format!("Nx {}", hx(v)),
        Prim::SetOpt(v, nx, xx, get) => format!("So {} {} {} {}", hx(v), cbool(*nx), cbool(*xx), cbool(*get)),
        Prim::GetSet(v) => format!("Gs {}", hx(v)),
        Prim::GetDel => "Gd".into(),
        Prim::SetRange(o, v) => format!("Sr {} {}", o, hx(v)),
        Prim::Exists => "Ex".into(),
        Prim::LPush(v) => format!("Lp {}", hx(v)),
        Prim::RPush(v) => format!("Rp {}", hx(v)),
        Prim::LPop => "Lo".into(),
        Prim::RPop => "Ro".into(),
        Prim::LRange => "Lr".into(),
        Prim::SAdd(v) => format!("Sa {}", hx(v)),
        Prim::SRem(v) => format!("Sm {}", hx(v)),
        Prim::SMembers => "Ms".into(),
        Prim::HSet(f, v) => format!("Hs {} {}", hx(f), hx(v)),
        Prim::HDel(f) => format!("Hd {}", hx(f)),
        Prim::HGetAll => "Ha".into(),
        Prim::Flush => "Fl".into(),
        Prim::Advance(t) => format!("Ad {}%N", t),
        Prim::SetPx(v, ms) => format!("Sx {} {}%N", hx(v), ms),
        Prim::SetEx(v, s) => format!("Sx {} {}%N", hx(v), s * 1000),
        Prim::SetKeep(v) => format!("Sk {}", hx(v)),
        Prim::PExpire(ms, f) => format!("Xp {}%N {} {} {} {}", ms, cbool(f.0), cbool(f.1), cbool(f.2), cbool(f.3)),
        Prim::Expire(sec, f) => format!("Xp {}%N {} {} {} {}", sec * 1000, cbool(f.0), cbool(f.1), cbool(f.2), cbool(f.3)),
        Prim::Persist => "Pe".into(),
        Prim::Ttl => "Tt".into(),
        Prim::Pttl => "Pt".into(),
        Prim::GetEx(GetExOpt::Plain) => "Ge None".into(),
        Prim::GetEx(GetExOpt::Persist) => "Ge (Some None)".into(),
        Prim::GetEx(GetExOpt::Px(ms)) => format!("Ge (Some (Some {}%N))", ms),
        Prim::GetEx(GetExOpt::Ex(sec)) => format!("Ge (Some (Some {}%N))", sec * 1000),
    }
}
fn rep_term(r: &Rep) -> String {
    match r {
        Rep::Val(None) => "V0".into(),
        Rep::Val(Some(v)) => format!("Vs {}", hx(v)),
        Rep::Ok => "OK".into(),
        Rep::Int(n) => format!("Ni ({})%Z", n),
        Rep::ErrNotInt => "ENI".into(),
        Rep::ErrOverflow => "EOV".into(),
        Rep::WrongType => "EWT".into(),
        Rep::Arr(l) => format!("Ar {}", clist(l.iter(), |v| hx(v))),
        Rep::Other(s) => format!("EX {}", hx(s.as_bytes())),
    }
}
fn state_term(s: &State) -> String {
    match s {
        State::None => "I0".into(),
        State::Str(v) => format!("(IS {})", hx(v)),
        State::List(l) => format!("(IL {})", clist(l.iter(), |v| hx(v))),
        State::Set(l) => format!("(IT {})", clist(l.iter(), |v| hx(v))),
        State::Hash(l) => format!("(IH {})", clist(l.iter(), |(f, v)| format!("({}, {})", hx(f), hx(v)))),
    }
}
fn bulk_list(r: &RespValue) -> Option<Vec<B>> {
    match r {
        RespValue::Array(Some(a)) => a.iter().map(|x| match x { RespValue::BulkString(Some(b)) => Some(b.clone()), _ => None }).collect(),
        _ => None,
    }
}
/// Canonical form of a reply, given the command it answers (unordered arrays are sorted).
fn canon(p: &Prim, r: &RespValue) -> Rep {
    match r {
        RespValue::BulkString(v) => Rep::Val(v.clone()),
        RespValue::SimpleString(s) if s.as_ref() == "OK" => Rep::Ok,
        RespValue::Integer(n) => Rep::Int(*n),
        RespValue::Error(e) if e.as_ref() == "ERR value is not an integer or out of range" => Rep::ErrNotInt,
        RespValue::Error(e) if e.as_ref() == "ERR increment or decrement would overflow" => Rep::ErrOverflow,
        RespValue::Error(e) if e.starts_with("WRONGTYPE") => Rep::WrongType,
        RespValue::Array(_) => match (p, bulk_list(r)) {
            (Prim::LRange, Some(l)) => Rep::Arr(l),
            (Prim::SMembers, Some(mut l)) => { l.sort(); Rep::Arr(l) }
            (Prim::HGetAll, Some(l)) if l.len() % 2 == 0 => {
                let mut ps: Vec<(B, B)> = l.chunks(2).map(|c| (c[0].clone(), c[1].clone())).collect();
                ps.sort();
                Rep::Arr(ps.into_iter().flat_map(|(f, v)| [f, v]).collect())
            }
            _ => Rep::Other(format!("{:?}", r)),
        },
        other => Rep::Other(format!("{:?}", other)),
    }
}
/// What a command can answer at all.  Anything else is a reply that belongs to another request.
fn shape_ok(p: &Prim, r: &Rep) -> bool {
    let wt = matches!(r, Rep::WrongType);
    match p {
        Prim::Get | Prim::GetSet(_) | Prim::GetDel | Prim::LPop | Prim::RPop => wt || matches!(r, Rep::Val(_)),
        Prim::Set(_) => matches!(r, Rep::Ok),
        Prim::SetOpt(_, _, _, get) => matches!(r, Rep::Val(_)) || (!*get && matches!(r, Rep::Ok)) || (*get && wt),
        Prim::IncrBy(_) => wt || matches!(r, Rep::Int(_) | Rep::ErrNotInt | Rep::ErrOverflow),
        Prim::Append(_) | Prim::SetRange(..) | Prim::LPush(_) | Prim::RPush(_) => wt || matches!(r, Rep::Int(_)),
        Prim::Del | Prim::Exists | Prim::SetNx(_) => matches!(r, Rep::Int(0) | Rep::Int(1)),
        Prim::SAdd(_) | Prim::SRem(_) | Prim::HSet(..) | Prim::HDel(_) => wt || matches!(r, Rep::Int(0) | Rep::Int(1)),
        Prim::LRange | Prim::SMembers | Prim::HGetAll => wt || matches!(r, Rep::Arr(_)),
        Prim::Flush | Prim::Advance(_) | Prim::SetPx(..) | Prim::SetEx(..) | Prim::SetKeep(_) => matches!(r, Rep::Ok),
        Prim::PExpire(..) | Prim::Expire(..) | Prim::Persist => matches!(r, Rep::Int(0) | Rep::Int(1)),
        Prim::Ttl | Prim::Pttl => matches!(r, Rep::Int(n) if *n >= -2),
        Prim::GetEx(_) => wt || matches!(r, Rep::Val(_)),
    }
}

// ---- the reference per-key machine, written independently of the Coq one -------------------
/// Redis string2ll: optional '-', a digit 1-9, digits; "0" is the only zero; must fit i64.
fn parse_i64(b: &[u8]) -> Option<i64> {
    let d = b.strip_prefix(b"-").unwrap_or(b);
    if !(b == b"0" || (matches!(d.first(), Some(b'1'..=b'9')) && d.iter().all(|c| c.is_ascii_digit()))) {
        return None;
    }
    std::str::from_utf8(b).ok()?.parse::<i64>().ok()
}
fn nonempty_list(l: Vec<B>) -> State { if l.is_empty() { State::None } else { State::List(l) } }
fn apply(st: &State, p: &Prim) -> (State, Rep) {
    use State as S;
    let present = !matches!(st, S::None);
    let wt = || (st.clone(), Rep::WrongType);
    match p {
        Prim::Get => match st { S::None => (S::None, Rep::Val(None)), S::Str(b) => (st.clone(), Rep::Val(Some(b.clone()))), _ => wt() },
        Prim::Set(v) => (S::Str(v.clone()), Rep::Ok),
        Prim::IncrBy(z) => match st {
            S::None => (S::Str(z.to_string().into_bytes()), Rep::Int(*z)),
            S::Str(b) => match parse_i64(b) {
                None => (st.clone(), Rep::ErrNotInt),
                Some(n) => match n.checked_add(*z) {
                    None => (st.clone(), Rep::ErrOverflow),
                    Some(m) => (S::Str(m.to_string().into_bytes()), Rep::Int(m)),
                },
            },
            _ => wt(),
        },
        Prim::Append(v) => match st {
            S::None => (S::Str(v.clone()), Rep::Int(v.len() as i64)),
            S::Str(b) => { let mut n = b.clone(); n.extend_from_slice(v); let l = n.len() as i64; (S::Str(n), Rep::Int(l)) }
            _ => wt(),
        },
        Prim::Del => (S::None, Rep::Int(present as i64)),
        Prim::Flush => (S::None, Rep::Ok),
        Prim::SetNx(v) => if present { (st.clone(), Rep::Int(0)) } else { (S::Str(v.clone()), Rep::Int(1)) },
        Prim::SetOpt(v, nx, xx, get) => {
            let old = match st { S::Str(b) => Some(b.clone()), _ => None };
            if *get && present && !matches!(st, S::Str(_)) { return wt(); }
            if *nx && present { return (st.clone(), if *get { Rep::Val(old) } else { Rep::Val(None) }); }
            if *xx && !present { return (st.clone(), Rep::Val(None)); }
            (S::Str(v.clone()), if *get { Rep::Val(old) } else { Rep::Ok })
        }
        Prim::GetSet(v) => match st { S::None => (S::Str(v.clone()), Rep::Val(None)), S::Str(b) => (S::Str(v.clone()), Rep::Val(Some(b.clone()))), _ => wt() },
        Prim::GetDel => match st { S::None => (S::None, Rep::Val(None)), S::Str(b) => (S::None, Rep::Val(Some(b.clone()))), _ => wt() },
        Prim::SetRange(off, v) => {
            let cur = match st { S::None => Vec::new(), S::Str(b) => b.clone(), _ => return wt() };
            if v.is_empty() { return (st.clone(), Rep::Int(cur.len() as i64)); }
            let mut b = cur;
            let need = off + v.len();
            if b.len() < need { b.resize(need, 0); }
            b[*off..need].copy_from_slice(v);
            let l = b.len() as i64;
            (S::Str(b), Rep::Int(l))
        }
        Prim::Exists => (st.clone(), Rep::Int(present as i64)),
        Prim::LPush(v) | Prim::RPush(v) => {
            let mut l = match st { S::None => Vec::new(), S::List(l) => l.clone(), _ => return wt() };
            if matches!(p, Prim::LPush(_)) { l.insert(0, v.clone()); } else { l.push(v.clone()); }
            let n = l.len() as i64;
            (S::List(l), Rep::Int(n))
        }
        Prim::LPop | Prim::RPop => {
            let mut l = match st { S::None => return (S::None, Rep::Val(None)), S::List(l) => l.clone(), _ => return wt() };
            if l.is_empty() { return (S::None, Rep::Val(None)); }
            let x = if matches!(p, Prim::LPop) { l.remove(0) } else { l.pop().unwrap() };
            (nonempty_list(l), Rep::Val(Some(x)))
        }
        Prim::LRange => match st { S::None => (S::None, Rep::Arr(vec![])), S::List(l) => (st.clone(), Rep::Arr(l.clone())), _ => wt() },
        Prim::SAdd(v) => match st {
            S::None => (S::Set(vec![v.clone()]), Rep::Int(1)),
            S::Set(l) => if l.contains(v) { (st.clone(), Rep::Int(0)) } else { let mut n = l.clone(); n.push(v.clone()); (S::Set(n), Rep::Int(1)) },
            _ => wt(),
        },
        Prim::SRem(v) => match st {
            S::None => (S::None, Rep::Int(0)),
            S::Set(l) => if l.contains(v) { let n: Vec<B> = l.iter().filter(|x| *x != v).cloned().collect(); (if n.is_empty() { S::None } else { S::Set(n) }, Rep::Int(1)) } else { (st.clone(), Rep::Int(0)) },
            _ => wt(),
        },
        Prim::SMembers => match st { S::None => (S::None, Rep::Arr(vec![])), S::Set(l) => { let mut n = l.clone(); n.sort(); (st.clone(), Rep::Arr(n)) } _ => wt() },
        Prim::HSet(f, v) => match st {
            S::None => (S::Hash(vec![(f.clone(), v.clone())]), Rep::Int(1)),
            S::Hash(l) => {
                let mut n = l.clone();
                if let Some(e) = n.iter_mut().find(|e| &e.0 == f) { e.1 = v.clone(); (S::Hash(n), Rep::Int(0)) } else { n.push((f.clone(), v.clone())); (S::Hash(n), Rep::Int(1)) }
            }
            _ => wt(),
        },
        Prim::HDel(f) => match st {
            S::None => (S::None, Rep::Int(0)),
            S::Hash(l) => if l.iter().any(|e| &e.0 == f) { let n: Vec<(B, B)> = l.iter().filter(|e| &e.0 != f).cloned().collect(); (if n.is_empty() { S::None } else { S::Hash(n) }, Rep::Int(1)) } else { (st.clone(), Rep::Int(0)) },
            _ => wt(),
        },
        Prim::HGetAll => match st {
            S::None => (S::None, Rep::Arr(vec![])),
            S::Hash(l) => { let mut n = l.clone(); n.sort(); (st.clone(), Rep::Arr(n.into_iter().flat_map(|(f, v)| [f, v]).collect())) }
            _ => wt(),
        },
        _ => unreachable!("timed commands are handled by apply_t"),
    }
}

/// The machine with deadlines: Redis semantics as the executor documents them.  Plain SET (every
/// write path), SETNX and SET NX/XX/GET when they write clear the deadline; SET KEEPTTL, GETSET,
/// APPEND, INCRBY, SETRANGE keep it; a key that stops existing loses it; expiry is `deadline <= now`.
fn apply_t(ts: &TState, p: &Prim) -> (TState, Rep) {
    let present = !matches!(ts.val, State::None);
    let same = |r: Rep| (ts.clone(), r);
    let with = |val: State, dl: Option<u64>, r: Rep| (TState { val, dl, now: ts.now }, r);
    let expire = |ms: u64, f: &Flags| -> (TState, Rep) {
        if !present { return same(Rep::Int(0)); }
        let new = ts.now + ms;
        if f.0 && ts.dl.is_some() { return same(Rep::Int(0)); }
        if f.1 && ts.dl.is_none() { return same(Rep::Int(0)); }
        if f.2 && ts.dl.map(|d| new <= d).unwrap_or(true) { return same(Rep::Int(0)); }
        if f.3 && ts.dl.map(|d| new >= d).unwrap_or(false) { return same(Rep::Int(0)); }
        if new <= ts.now { return with(State::None, None, Rep::Int(1)); }
        with(ts.val.clone(), Some(new), Rep::Int(1))
    };
    match p {
        Prim::Advance(t) => {
            if ts.dl.map(|d| d <= *t).unwrap_or(false) { (TState { val: State::None, dl: None, now: *t }, Rep::Ok) }
            else { (TState { val: ts.val.clone(), dl: ts.dl, now: *t }, Rep::Ok) }
        }
        Prim::SetPx(v, ms) => with(State::Str(v.clone()), Some(ts.now + ms), Rep::Ok),
        Prim::SetEx(v, s) => with(State::Str(v.clone()), Some(ts.now + s * 1000), Rep::Ok),
        Prim::SetKeep(v) => with(State::Str(v.clone()), if present { ts.dl } else { None }, Rep::Ok),
        Prim::PExpire(ms, f) => expire(*ms, f),
        Prim::Expire(s, f) => expire(*s * 1000, f),
        Prim::Persist => if present && ts.dl.is_some() { with(ts.val.clone(), None, Rep::Int(1)) } else { same(Rep::Int(0)) },
        Prim::Ttl => same(Rep::Int(if !present { -2 } else { match ts.dl { None => -1, Some(d) => { let r = (d - ts.now) as i64; r / 1000 + (r % 1000 + 500) / 1000 } } })),
        Prim::Pttl => same(Rep::Int(if !present { -2 } else { match ts.dl { None => -1, Some(d) => (d - ts.now) as i64 } })),
        Prim::GetEx(o) => match &ts.val {
            State::None => same(Rep::Val(None)),
            State::Str(b) => {
                let r = Rep::Val(Some(b.clone()));
                match o {
                    GetExOpt::Plain => same(r),
                    GetExOpt::Persist => with(ts.val.clone(), None, r),
                    GetExOpt::Px(ms) => with(ts.val.clone(), Some(ts.now + ms), r),
                    GetExOpt::Ex(s) => with(ts.val.clone(), Some(ts.now + s * 1000), r),
                }
            }
            _ => same(Rep::WrongType),
        },
        _ => {
            let (val, r) = apply(&ts.val, p);
            let clears = match p {
                Prim::Set(_) => true,
                Prim::SetNx(_) => !present,
                Prim::SetOpt(_, nx, xx, get) => {
                    let wrong = present && !matches!(ts.val, State::Str(_));
                    !((*get && wrong) || (*nx && present) || (*xx && !present))
                }
                _ => false,
            };
            let dl = if matches!(val, State::None) || clears { None } else { ts.dl };
            (TState { val, dl, now: ts.now }, r)
        }
    }
}

#[derive(Clone, Debug, Serialize, Deserialize)]
struct OpRec {
    id: usize,
    inv: u64,
    /// response stamp; meaningless when `pending`
    ret: u64,
    prims: Vec<Prim>,
    reps: Vec<Rep>,
    via: String,
    /// abandoned after it was started: no reply was observed; it may take effect at any
    /// instant after `inv`, or never
    pending: bool,
}
#[derive(Clone, Debug, Serialize, Deserialize)]
struct Window {
    key: String,
    round: usize,
    init: TState,
    ops: Vec<OpRec>,
}
fn window_shapes_ok(w: &Window) -> bool {
    w.ops.iter().filter(|o| !o.pending).all(|o| o.prims.len() == o.reps.len() && o.prims.iter().zip(o.reps.iter()).all(|(p, r)| shape_ok(p, r)))
}

/// Exhaustive search over the real-time-respecting orders of the completed operations plus any
/// subset of the pending ones, memoised on (set placed, value).  Returns the witness: indices
/// into `w.ops` in linearization order, with the replies the reference machine gives.
fn linearize(w: &Window) -> Option<Vec<(usize, Vec<Rep>)>> {
    let n = w.ops.len();
    if n > 60 || w.ops.iter().any(|o| !o.pending && o.inv >= o.ret) {
        return None;
    }
    let mut cm = 0u64;
    for (i, o) in w.ops.iter().enumerate() {
        if !o.pending {
            cm |= 1 << i;
        }
    }
    fn go(w: &Window, cm: u64, done: u64, st: &TState, seen: &mut HashSet<(u64, TState)>, order: &mut Vec<(usize, Vec<Rep>)>) -> bool {
        let n = w.ops.len();
        if done & cm == cm {
            return true;
        }
        if seen.contains(&(done, st.clone())) {
            return false;
        }
        for i in 0..n {
            if done & (1 << i) != 0 {
                continue;
            }
            let o = &w.ops[i];
            // minimal: no other remaining COMPLETED operation returned before o was invoked
            if (0..n).any(|j| j != i && done & (1 << j) == 0 && !w.ops[j].pending && w.ops[j].ret < o.inv) {
                continue;
            }
            let mut cur = st.clone();
            let mut ok = o.pending || o.prims.len() == o.reps.len();
            let mut got = Vec::new();
            if ok {
                for (k, p) in o.prims.iter().enumerate() {
                    let (nx, rr) = apply_t(&cur, p);
                    if !o.pending && rr != o.reps[k] {
                        ok = false;
                        break;
                    }
                    got.push(rr);
                    cur = nx;
                }
            }
            if ok {
                order.push((i, got));
                if go(w, cm, done | (1 << i), &cur, seen, order) {
                    return true;
                }
                order.pop();
            }
        }
        seen.insert((done, st.clone()));
        false
    }
    let mut seen = HashSet::new();
    let mut order = Vec::new();
    if go(w, cm, 0, &w.init, &mut seen, &mut order) { Some(order) } else { None }
}
fn linearizable(w: &Window) -> bool {
    linearize(w).is_some()
}

/// The window as a Coq term (a COMPLETE history for `lin_check`).
/// * linearizable: the completed operations plus the pending ones the witness uses, each of
///   those completed with a response stamp after everything else and the replies the reference
///   machine assigns - the completion the classical definition asks to exist; Coq re-judges
///   it.  Listed in witness order (`lin_check` is complete: the order cannot change its answer).
/// * not linearizable (no completion is): the completed operations alone.
fn window_term(w: &Window, verdict: bool) -> String {
    let maxstamp = w.ops.iter().map(|o| if o.pending { o.inv } else { o.ret.max(o.inv) }).max().unwrap_or(0);
    let one = |o: &OpRec, ret: u64, reps: &[Rep]| format!("Oc {} {} {} {} {}", o.id, o.inv, ret, clist(o.prims.iter(), prim_term), clist(reps.iter(), rep_term));
    let items: Vec<String> = match linearize(w) {
        Some(order) => {
            let mut k = 0;
            order.iter().map(|(i, reps)| {
                let o = &w.ops[*i];
                let ret = if o.pending { k += 1; maxstamp + k } else { o.ret };
                one(o, ret, reps)
            }).collect()
        }
        None => w.ops.iter().filter(|o| !o.pending).map(|o| one(o, o.ret, &o.reps)).collect(),
    };
    format!("W2 {} {} {}%N [{}] {}", state_term(&w.init.val), copt(&w.init.dl, |d| format!("{}%N", d)), w.init.now, items.join("; "), cbool(verdict))
}
fn show(b: &[u8]) -> String {
    String::from_utf8_lossy(b).into_owned()
}
fn window_json(w: &Window, verdict: bool) -> Value {
    json!({
        "key": w.key, "round": w.round,
        "harness_verdict_linearizable": verdict,
        "reply_shapes_possible": window_shapes_ok(w),
        "readable": w.ops.iter().map(|o| format!("#{} [{}..{}] {} {} -> {}", o.id, o.inv, if o.pending { "PENDING".to_string() } else { o.ret.to_string() }, o.via,
            o.prims.iter().map(|p| match p { Prim::Set(v) | Prim::SetNx(v) | Prim::Append(v) | Prim::GetSet(v) | Prim::LPush(v) | Prim::RPush(v) | Prim::SAdd(v) | Prim::SRem(v) | Prim::SetOpt(v, ..) => format!("{} {}", prim_name(p), show(v)), Prim::IncrBy(z) => format!("INCRBY {}", z), Prim::Advance(t) => format!("CLOCK:={}ms", t), Prim::SetPx(v, ms) => format!("SET {} PX {}", show(v), ms), Prim::SetEx(v, x) => format!("SET {} EX {}", show(v), x), Prim::SetKeep(v) => format!("SET {} KEEPTTL", show(v)), Prim::PExpire(ms, f) => format!("PEXPIRE {} {:?}", ms, f), Prim::Expire(x, f) => format!("EXPIRE {} {:?}", x, f), Prim::GetEx(o) => format!("GETEX {:?}", o), _ => prim_name(p).to_string() }).collect::<Vec<_>>().join("+"),
            o.reps.iter().map(|r| match r { Rep::Val(Some(v)) => format!("\"{}\"", show(v)), Rep::Val(None) => "nil".into(), Rep::Arr(l) => format!("{:?}", l.iter().map(|v| show(v)).collect::<Vec<_>>()), other => format!("{:?}", other) }).collect::<Vec<_>>().join(","))).collect::<Vec<_>>(),
        "coq_window": window_term(w, verdict),
        "window": serde_json::to_value(w).unwrap(),
    })
}

// ---- scripts of the clients -----------------------------------------------------------------
#[derive(Clone, Copy, Debug, PartialEq)]
enum Via {
    Generic,
    Fast,
    Pooled,
    Batch,
    Eval,
    /// multi-key arms of `execute`: MSET, MGET, DEL k never, EXISTS k never, FLUSHDB, FLUSHALL
    Multi,
}
#[derive(Clone, Debug)]
struct Step {
    via: Via,
    /// (key index, primitive) in command order; Generic/Fast/Pooled: exactly one entry;
    /// Batch: all GETs or all SETs (keys may repeat); Eval: the script's commands on one key.
    items: Vec<(usize, Prim)>,
    /// 0 GET+SET, 1 INCR+GET, 2 INCR; busy-loop scripts: 3 INCR then loop, 4 loop then INCR,
    /// 5 loop then GET, 6 loop then LPUSH
    script: u8,
    iters: u64,
    yield_before: bool,
    delay_ms: u64,
    /// scripts 0-2: call EVALSHA with the digest SCRIPT LOAD returned (shared script cache)
    evalsha: bool,
    /// Via::Multi: 0 MSET, 1 MGET, 2 DEL [k, never], 3 EXISTS [k, never], 4 FLUSHDB, 5 FLUSHALL
    multi: u8,
}
fn step(via: Via, items: Vec<(usize, Prim)>) -> Step {
    Step { via, items, script: 0, iters: 0, yield_before: false, delay_ms: 0, evalsha: false, multi: 0 }
}
#[derive(Clone, Copy, Debug, PartialEq)]
enum Mode {
    Mixed,
    GenericOnly,
    FastOnly,
}

/// largest value size of this run (quick 64 KiB, thorough 256 KiB)
static BIG: AtomicU64 = AtomicU64::new(65536);
fn gen_value(rng: &mut Rng, client: usize, serial: &mut u64) -> Vec<u8> {
    *serial += 1;
    let c = rng.gen_range(0..1000);
    if c < 25 {
        return Vec::new(); // the empty string is a value
    }
    if c < 45 {
        return b"same".to_vec(); // repeated identical content
    }
    if c < 70 {
        // sizes at and around allocator / buffer / optimisation thresholds, unique by prefix
        const SIZES: [usize; 15] = [15, 16, 17, 63, 64, 65, 255, 256, 257, 1023, 1024, 1025, 4095, 4096, 4097];
        let n = if c < 64 { SIZES[rng.gen_range(0..SIZES.len())] } else if c < 69 { 8191 + rng.gen_range(0..3) } else { (if rng.gen_bool(0.25) { BIG.load(Ordering::Relaxed) as usize } else { 65536 }) - 1 + rng.gen_range(0..3) };
        let mut v = format!("c{}v{}:", client, serial).into_bytes();
        let fill = (b'a' + (*serial % 26) as u8) as u8;
        while v.len() < n { v.push(fill); }
        v.truncate(n.max(1));
        return v;
    }
    if rng.gen_bool(0.4) {
        format!("{}", (client as u64 + 1) * 100_000 + *serial).into_bytes()
    } else if rng.gen_bool(0.03) {
        b"9223372036854775807".to_vec()
    } else if rng.gen_bool(0.02) {
        b"-9223372036854775808".to_vec()
    } else {
        format!("c{}v{}", client, serial).into_bytes()
    }
}

/// One generic-path command for a key of the given kind.
fn gen_generic_prim(rng: &mut Rng, kind: Kind, client: usize, serial: &mut u64) -> Prim {
    let c = rng.gen_range(0..100);
    if c < 6 { return Prim::Del; }
    if c < 10 { return Prim::Exists; }
    match kind {
        Kind::Str => match c {
            10..=21 => Prim::Get,
            22..=33 => Prim::Set(gen_value(rng, client, serial)),
            34..=43 => Prim::IncrBy(1),
            44..=47 => Prim::IncrBy(-1),
            48..=51 => Prim::IncrBy(rng.gen_range(2..50)),
            52..=55 => Prim::IncrBy(-rng.gen_range(2..50)),
            56..=61 => { *serial += 1; Prim::Append(format!("+{}.{}", client, serial).into_bytes()) }
            62..=71 => Prim::SetNx(gen_value(rng, client, serial)),
            72..=81 => { let v = gen_value(rng, client, serial); match rng.gen_range(0..5) { 0 => Prim::SetOpt(v, true, false, false), 1 => Prim::SetOpt(v, false, true, false), 2 => Prim::SetOpt(v, false, false, true), 3 => Prim::SetOpt(v, true, false, true), _ => Prim::SetOpt(v, false, true, true) } }
            82..=88 => Prim::GetSet(gen_value(rng, client, serial)),
            89..=93 => Prim::GetDel,
            _ => { *serial += 1; Prim::SetRange(rng.gen_range(0..7), if rng.gen_bool(0.1) { vec![] } else { format!("r{}", serial).into_bytes() }) }
        },
        Kind::List => match c {
            10..=34 => { *serial += 1; Prim::LPush(format!("l{}.{}", client, serial).into_bytes()) }
            35..=59 => { *serial += 1; Prim::RPush(format!("r{}.{}", client, serial).into_bytes()) }
            60..=74 => Prim::LPop,
            75..=89 => Prim::RPop,
            _ => Prim::LRange,
        },
        Kind::Set => match c {
            10..=54 => Prim::SAdd(format!("m{}", rng.gen_range(0..4)).into_bytes()),
            55..=84 => Prim::SRem(format!("m{}", rng.gen_range(0..4)).into_bytes()),
            _ => Prim::SMembers,
        },
        Kind::Hash => match c {
            10..=54 => { *serial += 1; Prim::HSet(format!("f{}", rng.gen_range(0..3)).into_bytes(), format!("h{}.{}", client, serial).into_bytes()) }
            55..=84 => Prim::HDel(format!("f{}", rng.gen_range(0..3)).into_bytes()),
            _ => Prim::HGetAll,
        },
    }
}

fn gen_step(rng: &mut Rng, mode: Mode, kinds: &[Kind], client: usize, serial: &mut u64, eval: bool) -> Step {
    let nkeys = kinds.len();
    let k = rng.gen_range(0..nkeys);
    let yield_before = rng.gen_bool(0.3);
    let class_fast = match mode { Mode::FastOnly => true, Mode::GenericOnly => false, Mode::Mixed => rng.gen_bool(if kinds[k] == Kind::Str { 0.45 } else { 0.12 }) };
    let mut s = if class_fast {
        let via = match rng.gen_range(0..3) { 0 => Via::Fast, 1 => Via::Pooled, _ => Via::Batch };
        // a fast-path SET would turn a list/set/hash key into a string: only GET there (WRONGTYPE or nil)
        let is_get = kinds[k] != Kind::Str || rng.gen_bool(0.5);
        if via == Via::Batch {
            let n = rng.gen_range(1..=3);
            let items = (0..n).map(|j| {
                let mut kk = if j == 0 { k } else { rng.gen_range(0..nkeys) };
                if !is_get && kinds[kk] != Kind::Str { kk = k; }
                (kk, if is_get { Prim::Get } else { Prim::Set(gen_value(rng, client, serial)) })
            }).collect();
            step(via, items)
        } else {
            step(via, vec![(k, if is_get { Prim::Get } else { Prim::Set(gen_value(rng, client, serial)) })])
        }
    } else if eval && kinds[k] == Kind::Str && rng.gen_range(0..100) < 12 {
        let mut s = match rng.gen_range(0..3) {
            0 => { let mut s = step(Via::Eval, vec![(k, Prim::Get), (k, Prim::Set(gen_value(rng, client, serial)))]); s.script = 0; s }
            1 => { let mut s = step(Via::Eval, vec![(k, Prim::IncrBy(1)), (k, Prim::Get)]); s.script = 1; s }
            _ => { let mut s = step(Via::Eval, vec![(k, Prim::IncrBy(1))]); s.script = 2; s }
        };
        s.yield_before = yield_before;
        return s;
    } else {
        step(Via::Generic, vec![(k, gen_generic_prim(rng, kinds[k], client, serial))])
    };
    s.yield_before = yield_before;
    s
}

const TTL_VALUES: [&[u8]; 3] = [b"va", b"vb", b"7"];
/// One command of a 'ttl' case: deadlines, plain writes of few distinct values through every
/// write path (so that a write often stores the value the key already holds), reads through
/// every read path.
fn gen_ttl_step(rng: &mut Rng, mode: Mode, nkeys: usize) -> Step {
    let k = rng.gen_range(0..nkeys);
    let v = TTL_VALUES[rng.gen_range(0..TTL_VALUES.len())].to_vec();
    let fastok = mode == Mode::Mixed;
    let path = |rng: &mut Rng| if !fastok { Via::Generic } else { match rng.gen_range(0..4) { 0 => Via::Generic, 1 => Via::Fast, 2 => Via::Pooled, _ => Via::Batch } };
    let ms = [50u64, 100, 150, 1000][rng.gen_range(0..4)];
    let flags = |rng: &mut Rng| -> Flags { if rng.gen_bool(0.7) { (false, false, false, false) } else { match rng.gen_range(0..4) { 0 => (true, false, false, false), 1 => (false, true, false, false), 2 => (false, false, true, false), _ => (false, false, false, true) } } };
    let g = |p: Prim| step(Via::Generic, vec![(k, p)]);
    match rng.gen_range(0..100) {
        0..=14 => g(Prim::SetPx(v, ms)),
        15..=19 => g(Prim::SetEx(v, rng.gen_range(1..=2))),
        20..=39 => {
            let via = path(rng);
            if via == Via::Batch && rng.gen_bool(0.5) {
                let k2 = rng.gen_range(0..nkeys);
                step(via, vec![(k, Prim::Set(v)), (k2, Prim::Set(TTL_VALUES[rng.gen_range(0..TTL_VALUES.len())].to_vec()))])
            } else { step(via, vec![(k, Prim::Set(v))]) }
        }
        40..=44 => g(Prim::SetKeep(v)),
        45..=49 => g(Prim::Persist),
        50..=57 => { let f = flags(rng); g(Prim::PExpire(ms, f)) }
        58..=61 => { let f = flags(rng); g(Prim::Expire(rng.gen_range(1..=2), f)) }
        62..=67 => g(Prim::Ttl),
        68..=73 => g(Prim::Pttl),
        74..=79 => g(Prim::GetEx(match rng.gen_range(0..4) { 0 => GetExOpt::Plain, 1 => GetExOpt::Persist, 2 => GetExOpt::Px(100), _ => GetExOpt::Ex(1) })),
        80..=91 => { let via = path(rng); step(via, vec![(k, Prim::Get)]) }
        92..=93 => g(Prim::IncrBy(1)),
        94 => g(Prim::Append(b"+".to_vec())),
        95 => g(Prim::GetSet(v)),
        96 => g(Prim::SetNx(v)),
        97 => g(Prim::Del),
        98 => g(Prim::Exists),
        _ => g(Prim::GetDel),
    }
}

/// Route some commands through the other entry arms that reach the same key: MSET / MGET,
/// the multi-key DEL / EXISTS fan-out (with a never-written second key, so the count is the
/// key's own), EVALSHA with the digest of SCRIPT LOAD, FLUSHDB / FLUSHALL, and pipeline batches
/// padded with filler keys to 15..128 entries.
fn diversify(rng: &mut Rng, st: &mut Step, kinds: &[Kind], allow_flush: bool) {
    let nk = kinds.len();
    let strs: Vec<usize> = (0..nk).filter(|k| kinds[*k] == Kind::Str).collect();
    match st.via {
        Via::Eval if st.script <= 2 => st.evalsha = rng.gen_bool(0.5),
        Via::Generic => {
            let (k, p) = st.items[0].clone();
            if allow_flush && rng.gen_range(0..1000) < 4 {
                st.via = Via::Multi;
                st.multi = if rng.gen_bool(0.5) { 4 } else { 5 };
                st.items = (0..nk).map(|k| (k, Prim::Flush)).collect();
            } else if matches!(p, Prim::Get | Prim::Set(_)) && kinds[k] == Kind::Str && rng.gen_bool(0.25) {
                st.via = Via::Multi;
                st.multi = if matches!(p, Prim::Get) { 1 } else { 0 };
                for _ in 0..rng.gen_range(0..3) {
                    let k2 = strs[rng.gen_range(0..strs.len())];
                    let p2 = match &p { Prim::Get => Prim::Get, Prim::Set(v) => { let mut w = v.clone(); w.push(b'~'); Prim::Set(w) } _ => unreachable!() };
                    st.items.push((k2, p2));
                }
            } else if matches!(p, Prim::Del | Prim::Exists) && rng.gen_bool(0.35) {
                st.via = Via::Multi;
                st.multi = if matches!(p, Prim::Del) { 2 } else { 3 };
            }
        }
        Via::Batch if rng.gen_bool(0.08) => {
            const SIZES: [usize; 7] = [15, 16, 17, 63, 64, 65, 128];
            let n = SIZES[rng.gen_range(0..SIZES.len())];
            let is_get = matches!(st.items[0].1, Prim::Get);
            let mut f = 0;
            while st.items.len() < n {
                let pos = rng.gen_range(0..=st.items.len());
                st.items.insert(pos, (nk + 2 + f % NFILL, if is_get { Prim::Get } else { Prim::Set(format!("fill{}", f).into_bytes()) }));
                f += 1;
            }
        }
        _ => {}
    }
}

/// The same conditional write for every client (own value), for first-writer races on key 0.
fn race_prim(rng: &mut Rng, kind: Kind, which: u32, client: usize, serial: &mut u64) -> Prim {
    match kind {
        Kind::Str => match which % 6 {
            0 | 1 => Prim::SetNx(gen_value(rng, client, serial)),
            2 => Prim::SetOpt(gen_value(rng, client, serial), true, false, false),
            3 => Prim::SetOpt(gen_value(rng, client, serial), true, false, true),
            4 => Prim::GetSet(gen_value(rng, client, serial)),
            _ => Prim::IncrBy(1),
        },
        Kind::List => { *serial += 1; Prim::LPush(format!("l{}.{}", client, serial).into_bytes()) }
        Kind::Set => Prim::SAdd(b"m0".to_vec()),
        Kind::Hash => { *serial += 1; Prim::HSet(b"f0".to_vec(), format!("h{}.{}", client, serial).into_bytes()) }
    }
}

fn cmd_of(key: &str, p: &Prim) -> Command {
    let k = key.to_string();
    let s = |v: &B| SDS::new(v.clone());
    match p {
        Prim::Get => Command::Get(k),
        Prim::Set(v) => Command::set(k, s(v)),
        Prim::IncrBy(1) => Command::Incr(k),
        Prim::IncrBy(-1) => Command::Decr(k),
        Prim::IncrBy(z) if *z > 0 => Command::IncrBy(k, *z),
        Prim::IncrBy(z) => Command::DecrBy(k, -*z),
        Prim::Append(v) => Command::Append(k, s(v)),
        Prim::Del => Command::Del(vec![k]),
        Prim::SetNx(v) => Command::SetNx(k, s(v)),
        Prim::SetOpt(v, nx, xx, get) => Command::Set { key: k, value: s(v), ex: None, px: None, exat: None, pxat: None, nx: *nx, xx: *xx, get: *get, keepttl: false },
        Prim::GetSet(v) => Command::GetSet(k, s(v)),
        Prim::GetDel => Command::GetDel(k),
        Prim::SetRange(o, v) => Command::SetRange(k, *o, s(v)),
        Prim::Exists => Command::Exists(vec![k]),
        Prim::LPush(v) => Command::LPush(k, vec![s(v)]),
        Prim::RPush(v) => Command::RPush(k, vec![s(v)]),
        Prim::LPop => Command::LPop(k),
        Prim::RPop => Command::RPop(k),
        Prim::LRange => Command::LRange(k, 0, -1),
        Prim::SAdd(v) => Command::SAdd(k, vec![s(v)]),
        Prim::SRem(v) => Command::SRem(k, vec![s(v)]),
        Prim::SMembers => Command::SMembers(k),
        Prim::HSet(f, v) => Command::HSet(k, vec![(s(f), s(v))]),
        Prim::HDel(f) => Command::HDel(k, vec![s(f)]),
        Prim::HGetAll => Command::HGetAll(k),
        Prim::SetPx(v, ms) => Command::Set { key: k, value: s(v), ex: None, px: Some(*ms as i64), exat: None, pxat: None, nx: false, xx: false, get: false, keepttl: false },
        Prim::SetEx(v, sec) => Command::Set { key: k, value: s(v), ex: Some(*sec as i64), px: None, exat: None, pxat: None, nx: false, xx: false, get: false, keepttl: false },
        Prim::SetKeep(v) => Command::Set { key: k, value: s(v), ex: None, px: None, exat: None, pxat: None, nx: false, xx: false, get: false, keepttl: true },
        Prim::PExpire(ms, f) => Command::PExpire { key: k, milliseconds: *ms as i64, nx: f.0, xx: f.1, gt: f.2, lt: f.3 },
        Prim::Expire(sec, f) => Command::Expire { key: k, seconds: *sec as i64, nx: f.0, xx: f.1, gt: f.2, lt: f.3 },
        Prim::Persist => Command::Persist(k),
        Prim::Ttl => Command::Ttl(k),
        Prim::Pttl => Command::Pttl(k),
        Prim::GetEx(o) => Command::GetEx { key: k, ex: if let GetExOpt::Ex(x) = o { Some(*x as i64) } else { None }, px: if let GetExOpt::Px(x) = o { Some(*x as i64) } else { None }, exat: None, pxat: None, persist: *o == GetExOpt::Persist },
        Prim::Flush => Command::FlushDb,
        Prim::Advance(_) => unreachable!("the clock is moved by the harness, not by a command"),
    }
}

struct Done {
    inv: u64,
    ret: u64,
    via: String,
    /// per key index: primitives and replies, in command order
    per_key: BTreeMap<usize, (Vec<Prim>, Vec<Rep>)>,
}

async fn run_step(state: &Node, keys: &[String], st: &Step) -> Done {
    if st.delay_ms > 0 {
        tokio::time::sleep(std::time::Duration::from_millis(st.delay_ms)).await;
    }
    if st.yield_before {
        tokio::task::yield_now().await;
    }
    let kb = |i: usize| Bytes::from(keys[i].clone().into_bytes());
    let mut per_key: BTreeMap<usize, (Vec<Prim>, Vec<Rep>)> = BTreeMap::new();
    let mut push = |k: usize, p: &Prim, r: Rep| {
        let e = per_key.entry(k).or_insert_with(|| (Vec::new(), Vec::new()));
        e.0.push(p.clone());
        e.1.push(r);
    };
    let (inv, ret, via): (u64, u64, String);
    match st.via {
        Via::Generic => {
            let (k, p) = &st.items[0];
            let cmd = cmd_of(&keys[*k], p);
            inv = stamp();
            let r = state.execute(&cmd).await;
            ret = stamp();
            via = format!("execute({})", prim_name(p));
            push(*k, p, canon(p, &r));
        }
        Via::Fast | Via::Pooled => {
            let (k, p) = &st.items[0];
            let pooled = st.via == Via::Pooled;
            let r;
            match p {
                Prim::Get => {
                    inv = stamp();
                    r = if pooled { state.pooled_fast_get(kb(*k)).await } else { state.fast_get(kb(*k)).await };
                    ret = stamp();
                    via = if pooled { "pooled_fast_get".into() } else { "fast_get".into() };
                }
                Prim::Set(v) => {
                    let val = Bytes::from(v.clone());
                    inv = stamp();
                    r = if pooled { state.pooled_fast_set(kb(*k), val).await } else { state.fast_set(kb(*k), val).await };
                    ret = stamp();
                    via = if pooled { "pooled_fast_set".into() } else { "fast_set".into() };
                }
                _ => unreachable!("fast paths carry GET/SET only"),
            }
            push(*k, p, canon(p, &r));
        }
        Via::Batch => {
            let is_get = matches!(st.items[0].1, Prim::Get);
            let rs: Vec<RespValue>;
            if is_get {
                let ks: Vec<Bytes> = st.items.iter().map(|(k, _)| kb(*k)).collect();
                inv = stamp();
                rs = state.fast_batch_get_pipeline(ks).await;
                ret = stamp();
                via = "fast_batch_get_pipeline".into();
            } else {
                let ps: Vec<(Bytes, Bytes)> = st.items.iter().map(|(k, p)| match p {
                    Prim::Set(v) => (kb(*k), Bytes::from(v.clone())),
                    _ => unreachable!(),
                }).collect();
                inv = stamp();
                rs = state.fast_batch_set_pipeline(ps).await;
                ret = stamp();
                via = "fast_batch_set_pipeline".into();
            }
            for (j, (k, p)) in st.items.iter().enumerate() {
                let r = rs.get(j).map(|r| canon(p, r)).unwrap_or_else(|| Rep::Other("missing batch reply".into()));
                push(*k, p, r);
            }
        }
        Via::Multi => {
            let first = st.items[0].0;
            let cmd = match st.multi {
                0 => Command::MSet(st.items.iter().map(|(k, p)| (keys[*k].clone(), match p { Prim::Set(v) => SDS::new(v.clone()), _ => unreachable!() })).collect()),
                1 => Command::MGet(st.items.iter().map(|(k, _)| keys[*k].clone()).collect()),
                2 => Command::Del(if first % 2 == 0 { vec![keys[first].clone(), NEVER_KEY.to_string()] } else { vec![NEVER_KEY.to_string(), keys[first].clone()] }),
                3 => Command::Exists(if first % 2 == 0 { vec![keys[first].clone(), NEVER_KEY.to_string()] } else { vec![NEVER_KEY.to_string(), keys[first].clone()] }),
                4 => Command::FlushDb,
                _ => Command::FlushAll,
            };
            inv = stamp();
            let r = state.execute(&cmd).await;
            ret = stamp();
            via = format!("execute({})", ["MSET", "MGET", "DEL k never", "EXISTS k never", "FLUSHDB", "FLUSHALL"][st.multi.min(5) as usize]);
            match (st.multi, &r) {
                (1, RespValue::Array(Some(a))) if a.len() == st.items.len() => {
                    for ((k, p), x) in st.items.iter().zip(a.iter()) { push(*k, p, canon(p, x)); }
                }
                (1, other) => { for (k, p) in st.items.iter() { push(*k, p, Rep::Other(format!("{:?}", other))); } }
                // one reply for the whole command: OK (MSET, FLUSH*), or the count for k alone
                _ => { for (k, p) in st.items.iter() { push(*k, p, canon(p, &r)); } }
            }
        }
        Via::Eval => {
            let k = st.items[0].0;
            let it = SDS::new(st.iters.to_string().into_bytes());
            let (script, args): (String, Vec<SDS>) = match st.script {
                0 => (SCRIPT_GETSET.into(), vec![match &st.items[1].1 { Prim::Set(v) => SDS::new(v.clone()), _ => unreachable!() }]),
                1 => (SCRIPT_INCRGET.into(), vec![]),
                2 => (SCRIPT_INCR.into(), vec![]),
                3 => (format!("local r = redis.call('INCR', KEYS[1]); {}return r", BUSY), vec![it]),
                4 => (format!("{}return redis.call('INCR', KEYS[1])", BUSY), vec![it]),
                5 => (format!("{}return redis.call('GET', KEYS[1])", BUSY), vec![it]),
                _ => (format!("{}return redis.call('LPUSH', KEYS[1], ARGV[2])", BUSY), vec![it, match &st.items[0].1 { Prim::LPush(v) => SDS::new(v.clone()), _ => unreachable!() }]),
            };
            // keys[len-3..] hold the SHA1 digests SCRIPT LOAD returned for scripts 0, 1, 2
            let cmd = if st.evalsha && st.script <= 2 {
                Command::EvalSha { sha1: keys[keys.len() - 3 + st.script as usize].clone(), keys: vec![keys[k].clone()], args }
            } else {
                Command::Eval { script, keys: vec![keys[k].clone()], args }
            };
            inv = stamp();
            let r = state.execute(&cmd).await;
            ret = stamp();
            via = format!("execute({} script {}{})", if st.evalsha && st.script <= 2 { "EVALSHA" } else { "EVAL" }, st.script, if st.iters > 0 { format!(", busy loop {} iterations", st.iters) } else { String::new() });
            let first = &st.items[0].1;
            match &r {
                RespValue::Array(Some(a)) if a.len() == 2 && st.script <= 1 => {
                    push(k, &st.items[0].1, canon(&st.items[0].1, &a[0]));
                    push(k, &st.items[1].1, canon(&st.items[1].1, &a[1]));
                }
                // a command raised inside the script: the script aborts with that error, nothing after it runs
                RespValue::Error(e) if matches!(first, Prim::IncrBy(_)) && e.contains("not an integer") => push(k, first, Rep::ErrNotInt),
                RespValue::Error(e) if matches!(first, Prim::IncrBy(_)) && e.contains("would overflow") => push(k, first, Rep::ErrOverflow),
                other if st.script >= 2 && !matches!(other, RespValue::Error(_)) => push(k, first, canon(first, other)),
                other => push(k, first, Rep::Other(format!("{:?}", other))),
            }
        }
    }
    Done { inv, ret, via, per_key }
}

/// A request a saboteur starts and gives up on.
#[derive(Clone, Debug)]
struct SabStep {
    step: Step,
    how: u8, // 0: poll once then drop; 1: tokio::time::timeout(0); 2: spawn + abort; 3: spawn, yield, abort
    /// enters the history as a pending operation (only requests that write)
    record: bool,
}

async fn poll_once<F: std::future::Future>(fut: F) -> Option<F::Output> {
    let mut fut = std::pin::pin!(fut);
    std::future::poll_fn(|cx| match fut.as_mut().poll(cx) {
        std::task::Poll::Ready(v) => std::task::Poll::Ready(Some(v)),
        std::task::Poll::Pending => std::task::Poll::Ready(None),
    })
    .await
}

/// Start the request, abandon it; `Some` if it completed before it could be abandoned.
async fn abandon(state: &Node, keys: &Arc<Vec<String>>, sab: &SabStep) -> Option<Done> {
    match sab.how {
        0 => poll_once(run_step(state, keys, &sab.step)).await,
        1 => tokio::time::timeout(std::time::Duration::ZERO, run_step(state, keys, &sab.step)).await.ok(),
        _ => {
            let (st, ks, sp) = (state.clone(), keys.clone(), sab.step.clone());
            let h = tokio::spawn(async move { run_step(&st, &ks, &sp).await });
            if sab.how == 3 {
                tokio::task::yield_now().await;
            }
            h.abort();
            h.await.ok()
        }
    }
}

/// 'ttl' cases: by how many virtual ms the clock moves before each wave and before the barrier reads
#[derive(Clone, Debug)]
struct TtlPlan {
    before_wave: Vec<Vec<u64>>, // [round][wave]
    before_reads: Vec<u64>,     // [round]
}

#[derive(Clone, Copy, Debug)]
struct NodeCfg {
    pool: (usize, usize), // response pool (capacity, prewarm); default (256, 64)
    adaptive: bool,       // ShardConfig::with_adaptive(): adaptive actor beside the shards
    evict_on_move: bool,  // ttl cases: call evict_expired_all_shards() after each clock move
}

struct CaseRun {
    windows: Vec<Window>,
    panicked: Option<String>,
    abandoned: usize,
    abandoned_pooled: usize,
    completed_before_abandon: usize,
    padding_ops: usize,
    longest_ms: u64,
}

fn read_prim(kind: Kind) -> Prim {
    match kind { Kind::Str => Prim::Get, Kind::List => Prim::LRange, Kind::Set => Prim::SMembers, Kind::Hash => Prim::HGetAll }
}
/// The key's whole value, from the reply of the barrier read.
fn state_of_read(kind: Kind, r: &Rep) -> State {
    match (kind, r) {
        (Kind::Str, Rep::Val(Some(v))) => State::Str(v.clone()),
        (Kind::List, Rep::Arr(l)) if !l.is_empty() => State::List(l.clone()),
        (Kind::Set, Rep::Arr(l)) if !l.is_empty() => State::Set(l.clone()),
        (Kind::Hash, Rep::Arr(l)) if !l.is_empty() && l.len() % 2 == 0 => State::Hash(l.chunks(2).map(|c| (c[0].clone(), c[1].clone())).collect()),
        _ => State::None,
    }
}

fn run_case(rt: &tokio::runtime::Runtime, nshards: usize, keys: &[String], kinds: &[Kind], mode: Mode,
            scripts: &[Vec<Vec<Step>>], rounds: usize, wave: bool,
            sabs: &[Vec<Vec<SabStep>>], padding: usize, ttl: Option<&TtlPlan>, ncfg: NodeCfg) -> CaseRun {
    let nk = keys.len();
    // indices nk, nk+1: the junk key and the padding key; then NFILL filler keys; the last three
    // entries are the digests SCRIPT LOAD returns (none of these has a window)
    let mut allkeys = keys.to_vec();
    allkeys.push(JUNK_KEY.to_string());
    allkeys.push(PAD_KEY.to_string());
    for f in 0..NFILL {
        allkeys.push(format!("c02-fill-{}", f));
    }
    let kinds: Vec<Kind> = kinds.to_vec();
    let scripts: Arc<Vec<Vec<Vec<Step>>>> = Arc::new(scripts.to_vec());
    let sabs: Arc<Vec<Vec<Vec<SabStep>>>> = Arc::new(sabs.to_vec());
    let ttl: Option<Arc<TtlPlan>> = ttl.map(|t| Arc::new(t.clone()));
    rt.block_on(async move {
        let clock = Clock::new();
        let state = node_with(nshards, &clock, ncfg.pool, ncfg.adaptive);
        // SCRIPT LOAD goes to shard 0; EVALSHA goes to the key's shard: the script cache is shared
        let mut allkeys = allkeys;
        for sc in [SCRIPT_GETSET, SCRIPT_INCRGET, SCRIPT_INCR] {
            let r = state.execute(&Command::ScriptLoad(sc.to_string())).await;
            allkeys.push(match r { RespValue::BulkString(Some(b)) => String::from_utf8_lossy(&b).into_owned(), other => format!("SCRIPT LOAD answered {:?}", other) });
        }
        let keys: Arc<Vec<String>> = Arc::new(allkeys);
        let vnow = Arc::new(AtomicU64::new(0)); // the node's virtual time (ms since it was created)
        let nclients = scripts.len();
        let mut windows: Vec<Window> = Vec::new();
        let mut init: Vec<TState> = vec![tstate0(); nk];
        let mut panicked = None;
        let (mut abandoned, mut abandoned_pooled, mut completed_before_abandon, mut padding_ops) = (0usize, 0usize, 0usize, 0usize);
        let mut longest_ms = 0u64;
        let mut pad_value = tstate0();
        let mut pad_serial = 0u64;
        for round in 0..rounds {
            let barrier = Arc::new(tokio::sync::Barrier::new(nclients));
            let mut handles = Vec::new();
            for c in 0..nclients {
                let state = state.clone();
                let keys = keys.clone();
                let scripts = scripts.clone();
                let barrier = barrier.clone();
                let (ttl, clock, vnow) = (ttl.clone(), clock.clone(), vnow.clone());
                let evict_on_move = ncfg.evict_on_move;
                let adaptive = ncfg.adaptive;
                handles.push(tokio::spawn(async move {
                    barrier.wait().await;
                    let mut out = Vec::new();
                    let mut longest = 0u64;
                    let mut advances: Vec<(u64, u64, u64)> = Vec::new();
                    for (j, st) in scripts[c][round].iter().enumerate() {
                        if wave {
                            // release the j-th command of every client at the same moment
                            barrier.wait().await;
                            if let Some(plan) = &ttl {
                                // everybody has its previous reply: nothing is in flight.  Client 0
                                // moves the clock, then a second barrier releases the wave.
                                let d = plan.before_wave[round].get(j).cloned().unwrap_or(0);
                                if c == 0 && d > 0 {
                                    let inv = stamp();
                                    clock.advance(d);
                                    let t = vnow.fetch_add(d, Ordering::SeqCst) + d;
                                    if evict_on_move {
                                        // the TTL manager's sweep: EvictExpired on every shard
                                        let _ = state.evict_expired_all_shards().await;
                                    }
                                    let ret = stamp();
                                    advances.push((inv, ret, t));
                                }
                                barrier.wait().await;
                            }
                        }
                        if adaptive {
                            for (k, p) in st.items.iter() { state.observe_access(&keys[*k], !is_read(p)); }
                        }
                        let t0 = std::time::Instant::now();
                        out.push(run_step(&state, &keys, st).await);
                        longest = longest.max((t0.elapsed().as_millis() as u64).saturating_sub(st.delay_ms));
                    }
                    (out, longest, advances)
                }));
            }
            // saboteurs: start requests on the shared keys and abandon them mid-flight
            let mut sab_handles = Vec::new();
            for sb in 0..sabs.len() {
                let state = state.clone();
                let keys = keys.clone();
                let sabs = sabs.clone();
                sab_handles.push(tokio::spawn(async move {
                    let mut completed: Vec<Done> = Vec::new();
                    let mut pend: Vec<(u64, SabStep)> = Vec::new();
                    let mut n_pooled = 0usize;
                    let mut kept_ghosts = 0usize;
                    for sab in sabs[sb][round].iter() {
                        let inv = stamp();
                        match abandon(&state, &keys, sab).await {
                            // completed before it could be abandoned: an ordinary completed operation;
                            // ghost requests are kept up to 5 per round, or when the reply shape is impossible
                            Some(d) => {
                                let shapes = d.per_key.values().all(|(ps, rs)| ps.iter().zip(rs.iter()).all(|(q, r)| shape_ok(q, r)));
                                if sab.record || !shapes || kept_ghosts < 5 {
                                    if !sab.record { kept_ghosts += 1; }
                                    completed.push(d);
                                }
                            }
                            None => {
                                if sab.step.via == Via::Pooled {
                                    n_pooled += 1;
                                }
                                pend.push((inv, sab.clone()));
                            }
                        }
                        tokio::task::yield_now().await;
                    }
                    (completed, pend, n_pooled)
                }));
            }
            let mut done: Vec<Done> = Vec::new();
            let mut advances: Vec<(u64, u64, u64)> = Vec::new();
            for h in handles {
                match h.await {
                    Ok((v, l, a)) => { done.extend(v); longest_ms = longest_ms.max(l); advances.extend(a); }
                    Err(e) => panicked = Some(format!("client task failed: {:?}", e)),
                }
            }
            let mut pend: Vec<(u64, SabStep)> = Vec::new();
            for h in sab_handles {
                match h.await {
                    Ok((c, p, np)) => {
                        completed_before_abandon += c.len();
                        abandoned += p.len();
                        abandoned_pooled += np;
                        done.extend(c);
                        pend.extend(p);
                    }
                    Err(e) => panicked = Some(format!("saboteur task failed: {:?}", e)),
                }
            }
            // a completed request on the junk key answered with an impossible shape
            for d in done.iter() {
                if let Some((ps, rs)) = d.per_key.get(&nk) {
                    if !ps.iter().zip(rs.iter()).all(|(p, r)| shape_ok(p, r)) {
                        windows.push(Window { key: JUNK_KEY.to_string(), round, init: tstate0(),
                            ops: vec![OpRec { id: 0, inv: 0, ret: 1, prims: ps.clone(), reps: rs.clone(), pending: false, via: d.via.clone() }] });
                    }
                }
            }
            // padding: cycle the response pool with pooled requests of one sequential client on
            // its own key; every reply is determined exactly (SET -> OK, GET -> the last value)
            for j in 0..padding {
                let kb = Bytes::from(PAD_KEY.as_bytes().to_vec());
                let (prim, rep);
                if j % 2 == 0 {
                    pad_serial += 1;
                    let v = format!("pad{}", pad_serial).into_bytes();
                    let r = state.pooled_fast_set(kb, Bytes::from(v.clone())).await;
                    prim = Prim::Set(v);
                    rep = canon(&prim, &r);
                } else {
                    let r = state.pooled_fast_get(kb).await;
                    prim = Prim::Get;
                    rep = canon(&prim, &r);
                }
                padding_ops += 1;
                let (nx, want) = apply_t(&pad_value, &prim);
                if rep != want {
                    windows.push(Window { key: PAD_KEY.to_string(), round, init: pad_value.clone(),
                        ops: vec![OpRec { id: 0, inv: 0, ret: 1, prims: vec![prim.clone()], reps: vec![rep], pending: false,
                                          via: format!("padding {} #{}", if j % 2 == 0 { "pooled_fast_set" } else { "pooled_fast_get" }, j) }] });
                }
                pad_value = nx;
            }
            // barrier reads: the whole value of every key, through the path class of this case
            if let Some(plan) = &ttl {
                let d = plan.before_reads[round];
                if d > 0 {
                    let inv = stamp();
                    clock.advance(d);
                    let t = vnow.fetch_add(d, Ordering::SeqCst) + d;
                    if ncfg.evict_on_move {
                        let _ = state.evict_expired_all_shards().await;
                    }
                    advances.push((inv, stamp(), t));
                }
            }
            let now_at_reads = vnow.load(Ordering::SeqCst);
            let mut pttls: Vec<Option<(u64, u64, Rep)>> = Vec::new();
            let mut finals: Vec<(u64, u64, Prim, Rep)> = Vec::new();
            for k in 0..nk {
                let p = read_prim(kinds[k]);
                let inv = stamp();
                let r = if mode == Mode::FastOnly {
                    state.fast_get(Bytes::from(keys[k].clone().into_bytes())).await
                } else {
                    state.execute(&cmd_of(&keys[k], &p)).await
                };
                let ret = stamp();
                let rep = canon(&p, &r);
                finals.push((inv, ret, p, rep));
                // with deadlines in play the remaining time is part of the key's state
                pttls.push(if ttl.is_some() {
                    let inv = stamp();
                    let r = state.execute(&cmd_of(&keys[k], &Prim::Pttl)).await;
                    Some((inv, stamp(), canon(&Prim::Pttl, &r)))
                } else { None });
            }
            for k in 0..nk {
                let mut ops: Vec<OpRec> = Vec::new();
                for d in done.iter() {
                    if let Some((ps, rs)) = d.per_key.get(&k) {
                        ops.push(OpRec { id: 0, inv: d.inv, ret: d.ret, prims: ps.clone(), reps: rs.clone(), via: d.via.clone(), pending: false });
                    }
                }
                // abandoned requests that write this key: pending forever (a pending read is dropped)
                for (inv, sab) in pend.iter() {
                    if !sab.record {
                        continue;
                    }
                    let ps: Vec<Prim> = sab.step.items.iter().filter(|(kk, _)| *kk == k).map(|(_, p)| p.clone()).collect();
                    if ps.iter().any(|p| !is_read(p)) {
                        ops.push(OpRec { id: 0, inv: *inv, ret: 0, prims: ps, reps: vec![], pending: true,
                                         via: format!("ABANDONED {:?} (how {})", sab.step.via, sab.how) });
                    }
                }
                for (inv, ret, t) in advances.iter() {
                    ops.push(OpRec { id: 0, inv: *inv, ret: *ret, prims: vec![Prim::Advance(*t)], reps: vec![Rep::Ok], pending: false, via: "harness moves the clock".into() });
                }
                ops.sort_by_key(|o| o.inv);
                let (inv, ret, p, rep) = finals[k].clone();
                ops.push(OpRec { id: 0, inv, ret, prims: vec![p.clone()], reps: vec![rep.clone()], pending: false,
                                 via: if mode == Mode::FastOnly { "barrier fast_get".into() } else { format!("barrier execute({})", prim_name(&p)) } });
                let mut dl_next = None;
                if let Some((inv, ret, r)) = &pttls[k] {
                    ops.push(OpRec { id: 0, inv: *inv, ret: *ret, prims: vec![Prim::Pttl], reps: vec![r.clone()], pending: false, via: "barrier execute(PTTL)".into() });
                    if let Rep::Int(n) = r { if *n >= 0 { dl_next = Some(now_at_reads + *n as u64); } }
                }
                // stamps -> ranks inside the window
                let mut all: Vec<u64> = ops.iter().flat_map(|o| if o.pending { vec![o.inv] } else { vec![o.inv, o.ret] }).collect();
                all.sort();
                let rank = |x: u64| all.binary_search(&x).unwrap() as u64;
                for (j, o) in ops.iter_mut().enumerate() {
                    o.id = j;
                    o.inv = rank(o.inv);
                    if !o.pending {
                        o.ret = rank(o.ret);
                    }
                }
                windows.push(Window { key: keys[k].clone(), round, init: init[k].clone(), ops });
                init[k] = TState { val: state_of_read(kinds[k], &rep), dl: dl_next, now: now_at_reads };
            }
        }
        CaseRun { windows, panicked, abandoned, abandoned_pooled, completed_before_abandon, padding_ops, longest_ms }
    })
}

fn overlap_pairs(w: &Window) -> usize {
    let mut n = 0;
    for i in 0..w.ops.len() {
        for j in i + 1..w.ops.len() {
            let (a, b) = (&w.ops[i], &w.ops[j]);
            if !a.pending && !b.pending && a.inv < b.ret && b.inv < a.ret {
                n += 1;
            }
        }
    }
    n
}

fn replay_dir() -> std::path::PathBuf {
    if let Ok(r) = std::env::var("VERIF_ROOT") {
        return std::path::PathBuf::from(r).join("replays").join("C02");
    }
    let exe = std::env::current_exe().unwrap_or_default();
    // <root>/.cache/target/<profile>/c02
    exe.ancestors().nth(4).map(|p| p.join("replays").join("C02")).unwrap_or_else(|| "/verif/replays/C02".into())
}

/// Recorded failing windows for (seed, case), from the replay files the driver wrote.
fn recorded_windows(seed: u64, case: u64) -> Vec<Window> {
    let mut out = Vec::new();
    if let Ok(rd) = std::fs::read_dir(replay_dir()) {
        for e in rd.flatten() {
            let p = e.path();
            if p.extension().map(|x| x != "json").unwrap_or(true) {
                continue;
            }
            if let Ok(txt) = std::fs::read_to_string(&p) {
                if let Ok(v) = serde_json::from_str::<Value>(&txt) {
                    if v["seed"].as_u64() == Some(seed) && v["case"].as_u64() == Some(case) {
                        if let Some(ws) = v["detail"]["failing_windows"].as_array() {
                            out.extend(ws.iter().filter_map(|w| serde_json::from_value::<Window>(w["window"].clone()).ok()));
                        }
                    }
                }
            }
        }
    }
    out
}

#[derive(Clone)]
struct Cfg {
    max_clients: usize,
    mixed_multishard: bool,
    eval: bool,
    wide: bool,
    sab_pct: u64,
    race_pct: u64,
    ttl_pct: u64,
    slow_every: u64,
    slow_long: bool,
    iters_per_sec: f64,
    only: bool,
}
fn is_slow(cfg: &Cfg, i: u64) -> bool {
    cfg.slow_every > 0 && i % cfg.slow_every == 5
}

/// Everything one case produces; applied to `Out` by the main thread.
struct CaseOut {
    idx: u64,
    counts: Vec<String>,
    adds: Vec<(String, u64)>,
    impl_checks: u64,
    violations: Vec<(String, Value)>,
    term: String,
    nontrivial: bool,
    canon: String,
    sample: Option<Value>,
    lines: Vec<String>,
}

fn pick_kind(rng: &mut Rng) -> Kind {
    match rng.gen_range(0..100) { 0..=54 => Kind::Str, 55..=69 => Kind::List, 70..=84 => Kind::Set, _ => Kind::Hash }
}

fn do_case(seed: u64, i: u64, cfg: &Cfg, rt: &tokio::runtime::Runtime, rt1: &tokio::runtime::Runtime) -> CaseOut {
    let mut co = CaseOut { idx: i, counts: vec![], adds: vec![], impl_checks: 0, violations: vec![], term: String::new(), nontrivial: false, canon: String::new(), sample: None, lines: vec![] };
    let mut rng = case_rng(seed, i);
    let slow = is_slow(cfg, i);
    let shard_set: &[usize] = if cfg.wide { &[1, 2, 4, 16] } else { &[1, 4] };
    let nshards = shard_set[rng.gen_range(0..shard_set.len())];
    let mut nclients = rng.gen_range(2..=cfg.max_clients.max(2));
    let nkeys = rng.gen_range(1..=3usize);
    let mut rounds = rng.gen_range(2..=4usize);
    let mut mode = if nshards == 1 || cfg.mixed_multishard {
        match rng.gen_range(0..10) { 0 => Mode::GenericOnly, 1 => Mode::FastOnly, _ => Mode::Mixed }
    } else if rng.gen_bool(0.5) { Mode::GenericOnly } else { Mode::FastOnly };
    let race = !slow && rng.gen_range(0..100) < cfg.race_pct;
    // 'ttl' class: deadlines on string keys; the clock moves only between waves
    let ttl = !slow && !race && rng.gen_range(0..100) < cfg.ttl_pct;
    if (race || slow) && mode == Mode::FastOnly {
        mode = Mode::GenericOnly;
    }
    if ttl {
        mode = if nshards == 1 || cfg.mixed_multishard { Mode::Mixed } else { Mode::GenericOnly };
    }
    let mut pool: Vec<&str> = KEYPOOL.to_vec();
    let mut keys: Vec<String> = Vec::new();
    let mut kinds: Vec<Kind> = Vec::new();
    for _ in 0..nkeys {
        let j = rng.gen_range(0..pool.len());
        keys.push(pool.remove(j).to_string());
        kinds.push(if mode == Mode::FastOnly || ttl { Kind::Str } else { pick_kind(&mut rng) });
    }
    if slow {
        kinds[0] = if rng.gen_bool(0.75) { Kind::Str } else { Kind::List };
    }
    let mut serial = 0u64;
    let mut wave = rng.gen_bool(0.7);
    // (a slow-shard case needs the waiting clients to run while the script occupies a worker)
    let single_worker = rng.gen_bool(if race { 0.4 } else { 0.2 }) && !slow;
    let mut scripts: Vec<Vec<Vec<Step>>>;
    let mut slow_secs = 0.0f64;
    let mut ttl_plan: Option<TtlPlan> = None;
    let mut wave_len_ttl0: Option<usize> = None;
    if slow {
        // ---- slow shard: client 0 occupies the shard of key 0 with a busy-loop script; the others
        // queue non-idempotent commands on key 0 behind it (and some elsewhere)
        let durs: &[f64] = if cfg.slow_long { &[0.3, 1.6, 3.2, 6.0] } else { &[0.3, 1.6, 3.2] };
        slow_secs = durs[((i / cfg.slow_every) as usize) % durs.len()];
        let iters = (slow_secs * cfg.iters_per_sec) as u64;
        rounds = 1;
        wave = false;
        nclients = nclients.clamp(3, 5);
        let busy = |rng: &mut Rng, serial: &mut u64, client: usize, iters: u64| -> Step {
            let mut s = match kinds[0] {
                Kind::List => { *serial += 1; let mut s = step(Via::Eval, vec![(0, Prim::LPush(format!("busy{}.{}", client, serial).into_bytes()))]); s.script = 6; s }
                _ => match rng.gen_range(0..3) {
                    0 => { let mut s = step(Via::Eval, vec![(0, Prim::IncrBy(1))]); s.script = 3; s }
                    1 => { let mut s = step(Via::Eval, vec![(0, Prim::IncrBy(1))]); s.script = 4; s }
                    _ => { let mut s = step(Via::Eval, vec![(0, Prim::Get)]); s.script = 5; s }
                },
            };
            s.iters = iters;
            s
        };
        let second_long = rng.gen_bool(0.3);
        scripts = Vec::new();
        for c in 0..nclients {
            let mut v = Vec::new();
            if c == 0 {
                v.push(busy(&mut rng, &mut serial, c, iters));
            } else if c == 1 && second_long {
                let mut s = busy(&mut rng, &mut serial, c, iters / 2);
                s.delay_ms = 20;
                v.push(s);
            } else {
                let n = rng.gen_range(1..=3);
                for j in 0..n {
                    // non-idempotent commands on key 0, generic path; now and then another key / a read
                    let k = if nkeys > 1 && rng.gen_bool(0.2) { rng.gen_range(0..nkeys) } else { 0 };
                    let p = loop {
                        let p = gen_generic_prim(&mut rng, kinds[k], c, &mut serial);
                        if !is_read(&p) && !matches!(p, Prim::Del | Prim::Set(_)) || rng.gen_bool(0.1) { break p; }
                    };
                    let mut s = if kinds[k] == Kind::Str && rng.gen_bool(0.25) { let mut s = step(Via::Eval, vec![(k, Prim::IncrBy(1))]); s.script = 2; s } else { step(Via::Generic, vec![(k, p)]) };
                    if j == 0 { s.delay_ms = 40 + 10 * c as u64; }
                    v.push(s);
                }
            }
            scripts.push(vec![v]);
        }
    } else {
        let per_client = (14 / nclients).clamp(1, 4);
        if race || ttl { wave = true; }
        let wave_len: Vec<usize> = (0..rounds).map(|_| rng.gen_range(1..=per_client)).collect();
        scripts = (0..nclients).map(|c| {
            (0..rounds).map(|r| {
                let n = if wave { wave_len[r] } else { rng.gen_range(1..=per_client) };
                (0..n).map(|_| if ttl { gen_ttl_step(&mut rng, mode, nkeys) } else { gen_step(&mut rng, mode, &kinds, c, &mut serial, cfg.eval) }).collect()
            }).collect()
        }).collect();
        for c in scripts.iter_mut() { for r in c.iter_mut() { for st in r.iter_mut() { diversify(&mut rng, st, &kinds, true); } } }
        if ttl {
            const DELTAS: [u64; 14] = [1, 49, 50, 51, 99, 100, 101, 149, 150, 151, 500, 999, 1000, 2000];
            let mut delta = |rng: &mut Rng| if rng.gen_bool(0.4) { 0 } else { DELTAS[rng.gen_range(0..DELTAS.len())] };
            let mut plan = TtlPlan { before_wave: Vec::new(), before_reads: Vec::new() };
            if rng.gen_bool(0.4) {
                // directed "refresh" round: SET v PX 150 | plain SET of the SAME value through
                // every write path | clock +200 | reads through every read path
                let v = TTL_VALUES[rng.gen_range(0..TTL_VALUES.len())].to_vec();
                for c in 0..nclients {
                    let k = c % nkeys;
                    let w = match (c / nkeys) % 4 { 0 => Via::Fast, 1 => Via::Pooled, 2 => Via::Batch, _ => Via::Generic };
                    let r = match c % 4 { 0 => Via::Generic, 1 => Via::Fast, 2 => Via::Pooled, _ => Via::Batch };
                    let fastok = mode == Mode::Mixed;
                    scripts[c][0] = vec![
                        step(Via::Generic, vec![(k, Prim::SetPx(v.clone(), 150))]),
                        step(if fastok { w } else { Via::Generic }, vec![(k, Prim::Set(v.clone()))]),
                        step(if fastok { r } else { Via::Generic }, vec![(k, Prim::Get)]),
                    ];
                }
                wave_len_ttl0 = Some(3);
            }
            for r in 0..rounds {
                let n = if r == 0 { wave_len_ttl0.unwrap_or(wave_len[r]) } else { wave_len[r] };
                let mut v: Vec<u64> = (0..n).map(|_| delta(&mut rng)).collect();
                if r == 0 && wave_len_ttl0.is_some() { v = vec![delta(&mut rng), 0, 200]; }
                plan.before_wave.push(v);
                plan.before_reads.push(delta(&mut rng));
            }
            ttl_plan = Some(plan);
        }
        if race {
            // ---- first-writer races on key 0: in a race wave every client issues the same
            // conditional write (own value) at the same instant; in between, one client deletes
            // the key while the others race again
            for r in 0..rounds {
                for j in 0..wave_len[r] {
                    let c = rng.gen_range(0..100);
                    if c < 15 { continue; } // leave the ordinary mix
                    let which = rng.gen_range(0..6u32);
                    let deleter = if c >= 60 { Some(rng.gen_range(0..nclients)) } else { None };
                    for cl in 0..nclients {
                        let p = if deleter == Some(cl) { if rng.gen_bool(0.7) { Prim::Del } else if kinds[0] == Kind::Str { Prim::GetDel } else { Prim::Del } } else { race_prim(&mut rng, kinds[0], which, cl, &mut serial) };
                        scripts[cl][r][j] = step(Via::Generic, vec![(0, p)]);
                    }
                }
            }
        }
    }

    // ---- cancellation: saboteur scripts (seed-determined like the client scripts)
    let sabotage = !slow && !ttl && (nshards == 1 || cfg.mixed_multishard) && mode != Mode::FastOnly && rng.gen_range(0..100) < cfg.sab_pct;
    let mut sabs: Vec<Vec<Vec<SabStep>>> = Vec::new();
    let mut padding = 0usize;
    if sabotage {
        padding = rng.gen_range(72..=96);
        let nsab = rng.gen_range(1..=2usize);
        for sb in 0..nsab {
            let mut per_round = Vec::new();
            for _ in 0..rounds {
                let attempts = rng.gen_range(6..=20usize);
                let mut recorded = 0usize;
                let mut v = Vec::new();
                for _ in 0..attempts {
                    let how = rng.gen_range(0..4u8);
                    let c = rng.gen_range(0..100);
                    if c < 25 && recorded < 2 {
                        let mut st = gen_step(&mut rng, Mode::Mixed, &kinds, 90 + sb, &mut serial, cfg.eval);
                        st.yield_before = false;
                        if st.items.iter().any(|(_, p)| !is_read(p)) {
                            recorded += 1;
                        }
                        v.push(SabStep { step: st, how, record: true });
                    } else {
                        // ghost requests: reads of shared keys / reads and writes of the junk key, mostly pooled
                        let via = match rng.gen_range(0..10) { 0 => Via::Fast, 1 => Via::Generic, _ => Via::Pooled };
                        let junk = rng.gen_bool(0.4);
                        let k = if junk { nkeys } else { rng.gen_range(0..nkeys) };
                        let p = if junk && rng.gen_bool(0.5) { serial += 1; Prim::Set(format!("junk{}", serial).into_bytes()) } else { Prim::Get };
                        v.push(SabStep { step: step(via, vec![(k, p)]), how, record: false });
                    }
                }
                per_round.push(v);
            }
            sabs.push(per_round);
        }
    }

    if sabotage {
        // the padding client knows its key's value exactly: no FLUSH in these cases
        for c in scripts.iter_mut() { for r in c.iter_mut() { for st in r.iter_mut() {
            if st.via == Via::Multi && st.multi >= 4 { st.multi = 2; st.items.truncate(1); st.items[0].1 = Prim::Del; }
        } } }
    }
    const POOLS: [(usize, usize); 10] = [(1, 0), (1, 1), (2, 1), (3, 2), (4, 4), (8, 3), (63, 63), (64, 64), (65, 64), (256, 0)];
    let ncfg = NodeCfg {
        pool: if rng.gen_bool(0.5) { (256, 64) } else { POOLS[rng.gen_range(0..POOLS.len())] },
        adaptive: rng.gen_range(0..100) < 8,
        evict_on_move: ttl && rng.gen_bool(0.3),
    };
    let the_rt = if single_worker { rt1 } else { rt };
    let run = match std::panic::catch_unwind(std::panic::AssertUnwindSafe(|| run_case(the_rt, nshards, &keys, &kinds, mode, &scripts, rounds, wave, &sabs, padding, ttl_plan.as_ref(), ncfg))) {
        Ok(r) => r,
        Err(_) => CaseRun { windows: vec![], panicked: Some("panic while driving the case".into()), abandoned: 0, abandoned_pooled: 0, completed_before_abandon: 0, padding_ops: 0, longest_ms: 0 },
    };
    let mut count = |s: String| co.counts.push(s);
    count(format!("shards:{}", nshards));
    count(format!("clients:{}", nclients));
    count(format!("mode:{:?}", mode));
    count(format!("class:{}", if slow { "slow-shard" } else if race { "first-writer-race" } else if ttl { "ttl" } else { "mix" }));
    count((if wave { "release:wave" } else { "release:free" }).into());
    count((if single_worker { "runtime:1-worker" } else { "runtime:multi-worker" }).into());
    count((if sabotage { "sabotage:yes" } else { "sabotage:no" }).into());
    count(format!("pool(cap,prewarm):{:?}", ncfg.pool));
    if ncfg.adaptive { count("adaptive_actor:on".into()); }
    if ncfg.evict_on_move { count("evict_expired_all_shards_after_clock_move:yes".into()); }
    for c in scripts.iter() { for r in c.iter() { for s in r.iter() { count(format!("via:{:?}", s.via)); if s.via == Via::Multi { count(format!("multi:{}", ["MSET", "MGET", "DEL-fanout", "EXISTS-fanout", "FLUSHDB", "FLUSHALL"][s.multi.min(5) as usize])); } if s.evalsha { count("evalsha:yes".into()); } if s.via == Via::Batch && s.items.len() > 3 { count(format!("batch_size:{}", s.items.len())); } for (_, p) in s.items.iter() { if let Prim::Set(v) | Prim::SetNx(v) | Prim::GetSet(v) = p { if v.is_empty() { count("value_size:0".into()); } else if v.len() >= 63 { count(format!("value_size:{}", match v.len() { 0..=257 => "63-257", 258..=1025 => "1023-1025", 1026..=4097 => "4095-4097", 4098..=9000 => "8 KiB", _ => "big" })); } } } for (_, p) in s.items.iter() { count(format!("prim:{}", prim_name(p))); } } } }
    for (k, kd) in keys.iter().zip(kinds.iter()) {
        count((if k.contains('{') || k.contains('}') { "keyshape:braces" } else if !k.is_ascii() { "keyshape:multibyte" } else if [7, 8, 9, 16, 17].contains(&k.len()) { "keyshape:block-boundary" } else { "keyshape:plain" }).into());
        count(format!("keykind:{:?}", kd));
    }
    if slow {
        count(format!("slow_target_s:{}", slow_secs));
        count(format!("slow_longest_command:{}", match run.longest_ms { 0..=199 => "<0.2s", 200..=999 => "0.2-1s", 1000..=1999 => "1-2s", 2000..=3999 => "2-4s", _ => ">=4s" }));
    }
    if sabotage {
        co.adds.push(("total_abandoned".into(), run.abandoned as u64));
        co.adds.push(("total_abandoned_pooled".into(), run.abandoned_pooled as u64));
        co.adds.push(("total_completed_before_abandon".into(), run.completed_before_abandon as u64));
        co.adds.push(("total_padding_pooled_ops".into(), run.padding_ops as u64));
        co.impl_checks += run.padding_ops as u64;
        let pend: usize = run.windows.iter().map(|w| w.ops.iter().filter(|o| o.pending).count()).sum();
        co.adds.push(("total_pending_ops_in_windows".into(), pend as u64));
    }
    if let Some(p) = &run.panicked {
        co.violations.push(("a client task or the node panicked during a concurrent run".into(), json!({"panic": p, "shards": nshards, "clients": nclients})));
    }
    let mut terms = Vec::new();
    let mut bad = Vec::new();
    let mut overlaps = 0usize;
    let mut maxlen = 0usize;
    for w in run.windows.iter() {
        let v = linearizable(w);
        co.impl_checks += 1;
        overlaps += overlap_pairs(w);
        maxlen = maxlen.max(w.ops.len());
        terms.push(window_term(w, v));
        if !v {
            bad.push(window_json(w, v));
        }
    }
    if race {
        // how many race waves had more than one "winner"-capable command overlapping
        let contended = run.windows.iter().filter(|w| w.key == keys[0]).map(overlap_pairs).sum::<usize>();
        co.counts.push(format!("race_overlap_on_key0:{}", match contended { 0 => "0", 1..=9 => "1-9", _ => "10+" }));
    }
    co.counts.push(format!("windows:{}", run.windows.len()));
    co.counts.push(format!("max_window_ops:{}", match maxlen { 0..=5 => "<=5", 6..=10 => "6-10", 11..=15 => "11-15", 16..=25 => "16-25", _ => "26+" }));
    co.counts.push((if overlaps > 0 { "overlap:yes" } else { "overlap:no" }).into());
    co.counts.push(format!("overlapping_pairs:{}", match overlaps { 0 => "0", 1..=3 => "1-3", 4..=9 => "4-9", 10..=29 => "10-29", _ => "30+" }));
    if !bad.is_empty() {
        let wrong_shape = run.windows.iter().any(|w| !window_shapes_ok(w));
        let what = if wrong_shape {
            "a command was answered with a reply of a shape it cannot produce (an error the code does not document, or a reply that belongs to another request); per-key history not linearizable"
        } else {
            "per-key history of a concurrent run is not linearizable"
        };
        co.violations.push((what.into(), json!({
            "shards": nshards, "clients": nclients, "mode": format!("{:?}", mode), "keys": keys,
            "class": if slow { "slow-shard" } else if race { "first-writer-race" } else if ttl { "ttl" } else { "mix" },
            "slow_target_seconds": slow_secs, "longest_command_ms": run.longest_ms,
            "sabotage": sabotage, "abandoned_requests": run.abandoned, "abandoned_pooled_requests": run.abandoned_pooled,
            "single_worker_runtime": single_worker,
            "failing_windows": bad,
            "note": "the schedule is not derived from the seed; this file holds the full failing window(s); ./check C02 --replay re-judges them in Coq (lin_check) and with the harness's search"})));
    }
    co.term = format!("K2 {}", clist(terms.iter(), |t| format!("({})", t)));
    if cfg.only {
        co.lines.push(format!("case {}: shards {} clients {} mode {:?} keys {:?} kinds {:?} rounds {} wave {} race {} slow {} ({} s, longest command {} ms) sabotage {} (abandoned {}, pooled {}) single-worker {}", i, nshards, nclients, mode, keys, kinds, rounds, wave, race, slow, slow_secs, run.longest_ms, sabotage, run.abandoned, run.abandoned_pooled, single_worker));
        for (w, t) in run.windows.iter().zip(terms.iter()) {
            co.lines.push(format!("  key {:?} round {} ({} ops, {} overlapping pairs): {}", w.key, w.round, w.ops.len(), overlap_pairs(w), t));
        }
    }
    if i < 3 {
        co.sample = Some(json!({"case": i, "shards": nshards, "clients": nclients, "mode": format!("{:?}", mode),
                               "first_window": run.windows.first().map(|w| window_json(w, true))}));
    }
    co.nontrivial = overlaps > 0;
    co.canon = terms.join(";");
    co
}

/// Lua busy-loop speed (iterations per second) measured through the real node.
fn calibrate(rt: &tokio::runtime::Runtime) -> f64 {
    rt.block_on(async {
        let state = node(1, &Clock::new());
        let n = 30_000_000u64;
        let cmd = Command::Eval { script: format!("{}return x", BUSY), keys: vec!["cal".into()], args: vec![SDS::new(n.to_string().into_bytes())] };
        let _ = state.execute(&cmd).await; // warm up
        let t0 = std::time::Instant::now();
        let _ = state.execute(&cmd).await;
        n as f64 / t0.elapsed().as_secs_f64().max(1e-6)
    })
}

fn apply_out(out: &mut Out, co: CaseOut) {
    for c in co.counts.iter() { out.count(c); }
    for (k, n) in co.adds.iter() { *out.dist.entry(k.clone()).or_insert(0) += n; }
    out.impl_checks += co.impl_checks;
    for (what, d) in co.violations.iter() { out.violation(co.idx, what, d.clone()); }
    for l in co.lines.iter() { println!("{}", l); }
    if let Some(s) = co.sample { out.sample(s); }
    out.case(co.idx, co.term, co.nontrivial, &co.canon);
}

fn main() {
    let a: Vec<String> = std::env::args().collect();
    let args = &Args::parse(&a[1..]);
    let mut out = Out::new(&args.out, "C02", args.shards, HEADER);
    let workers = args.get("workers", 4) as usize;
    let mut cfg = Cfg {
        max_clients: args.get("clients", 4) as usize,
        mixed_multishard: args.get("mixed", 0) == 1,
        eval: args.get("eval", 0) == 1,
        wide: args.get("wide", 0) == 1,
        sab_pct: args.get("sabotage", 30),
        race_pct: args.get("race", 30),
        ttl_pct: args.get("ttl", 15),
        slow_every: args.get("slow-every", 0),
        slow_long: args.get("slow-long", 0) == 1,
        iters_per_sec: 0.0,
        only: args.only.is_some(),
    };
    out.nontrivial_rule = format!(
        "one case = one concurrent run of the real ShardedActorState on a {}-worker (20-40% of cases: 1-worker) tokio runtime: 2..{} client tasks, 1-4 rounds separated by barriers, <= 14 commands per round over 1-3 shared keys (string / list / set / hash; names plain, hash-tag shapes, multi-byte UTF-8, 7/8/9/16/17 bytes), shard counts {}, entry points execute (GET, SET [NX|XX] [GET], SETNX, GETSET, GETDEL, INCR/DECR/INCRBY/DECRBY, APPEND, SETRANGE, DEL, EXISTS, LPUSH/RPUSH/LPOP/RPOP/LRANGE, SADD/SREM/SMEMBERS, HSET/HDEL/HGETALL, MSET/MGET, multi-key DEL/EXISTS fan-out, FLUSHDB/FLUSHALL{}) / fast_* / pooled_fast_* / fast_batch_*_pipeline (batches padded with filler keys to 15..128 entries) / evict_expired_all_shards; response pool (capacity, prewarm) default or one of (1,0) .. (65,64); values of 0 B, 15..8193 B around powers of two, 64 KiB, 1 MiB in thorough; mixed path classes on > 1 shard: {}. Classes: ordinary mix; FIRST-WRITER RACE (~{}% of cases: in a wave all clients release the same conditional write - SETNX, SET NX [GET], GETSET, INCR, LPUSH, SADD of one member, HSET of one field - on key 0 at the same instant, interleaved with waves in which one client DELs / GETDELs the key while the others race again); CANCELLATION (~{}%: saboteur tasks abandon pooled / fast / batch / generic / EVAL requests mid-flight - poll once + drop, timeout(0), JoinHandle::abort; an abandoned write is a PENDING operation of its window, the search tries every subset; then 72-96 exactly-checked pooled requests cycle the 64-slot response pool); TTL (~{}% of cases: string keys with deadlines on a harness-driven clock that moves only between waves, when nothing is in flight - the move is an operation of every key's window; SET PX/EX/KEEPTTL, EXPIRE/PEXPIRE [NX|XX|GT|LT], PERSIST, TTL/PTTL, GETEX, plain SET of three possible values through generic / fast / pooled / batch paths, reads through every read path before and after each deadline, a directed 'SET v PX 150 | SET v by every write path | +200 ms | GET by every read path' round in 40% of them; the barrier reads GET and PTTL); SLOW SHARD (every {}th case, run in parallel threads: a Lua busy loop calibrated to 0.3 / 1.6 / 3.2{} s occupies the shard of key 0 - alone, or followed by an INCR / GET / LPUSH, sometimes a second long script - while 2-4 other clients queue non-idempotent generic commands and INCR scripts on that key; a command applied twice, or answered with an error the code does not document, makes the window non-linearizable). Per round and key one window (incl. the barrier read of the whole value) judged by Coq lin_check and by the harness's own search; non-trivial = at least one window in which two operations on the same key overlap in time; distinct by the printed histories. Thread scheduling is NOT derived from the seed: the scripts of case i are (seed,i)-determined, the interleavings are explored, not replayable bit for bit; a failing window is stored in full in the replay file and re-judged by --replay",
        workers, cfg.max_clients, if cfg.wide { "{1,2,4,16}" } else { "{1,4}" }, if cfg.eval { ", EVAL and SCRIPT LOAD + EVALSHA of scripts GET+SET / INCR+GET / INCR" } else { "" },
        if cfg.mixed_multishard { "enabled" } else { "disabled (one class per case)" }, cfg.race_pct, cfg.sab_pct, cfg.ttl_pct, cfg.slow_every, if cfg.slow_long { " / 6" } else { "" });
    BIG.store(args.get("big", 65536), Ordering::Relaxed);
    let rt = tokio::runtime::Builder::new_multi_thread().worker_threads(workers).enable_all().build().unwrap();
    // all tasks of a case on ONE worker thread: interleaving only at await points
    let rt1 = tokio::runtime::Builder::new_multi_thread().worker_threads(1).enable_all().build().unwrap();

    let range: Vec<u64> = match args.only { Some(i) => vec![i], None => (0..args.n).collect() };
    // ---- replay of a recorded failing history
    if let Some(i) = args.only {
        let rec = recorded_windows(args.seed, i);
        if !rec.is_empty() {
            println!("re-judging {} recorded failing window(s) of seed {} case {} (the schedule itself is not replayable)", rec.len(), args.seed, i);
            let mut terms = Vec::new();
            let mut bad = Vec::new();
            for w in rec.iter() {
                let v = linearizable(w);
                println!("  key {:?} round {}: harness verdict linearizable = {}", w.key, w.round, v);
                println!("  {}", window_term(w, v));
                terms.push(window_term(w, v));
                if !v {
                    bad.push(window_json(w, v));
                }
            }
            out.impl_checks += rec.len() as u64;
            if !bad.is_empty() {
                out.violation(i, "recorded per-key history is not linearizable", json!({"failing_windows": bad}));
            }
            out.case(i, format!("K2 {}", clist(terms.iter(), |t| format!("({})", t))), true, &terms.join(";"));
            out.finish(args.seed);
            return;
        }
    }
    let slow_idx: Vec<u64> = range.iter().cloned().filter(|i| is_slow(&cfg, *i)).collect();
    if !slow_idx.is_empty() {
        cfg.iters_per_sec = calibrate(&rt);
        out.count(&format!("lua_busy_loop_Miters_per_s:{}", (cfg.iters_per_sec / 1e6).round()));
    }
    // slow-shard cases run beside the others, each in its own thread with its own runtime
    let queue = Arc::new(std::sync::Mutex::new(slow_idx.clone()));
    let results: Arc<std::sync::Mutex<Vec<CaseOut>>> = Arc::new(std::sync::Mutex::new(Vec::new()));
    let nthreads = (args.get("slow-threads", 8) as usize).min(slow_idx.len());
    let mut threads = Vec::new();
    for _ in 0..nthreads {
        let (queue, results, cfg, seed) = (queue.clone(), results.clone(), cfg.clone(), args.seed);
        threads.push(std::thread::spawn(move || {
            let rt = tokio::runtime::Builder::new_multi_thread().worker_threads(3).enable_all().build().unwrap();
            let rt1 = tokio::runtime::Builder::new_multi_thread().worker_threads(1).enable_all().build().unwrap();
            loop {
                let next = queue.lock().unwrap().pop();
                match next {
                    Some(i) => { let co = do_case(seed, i, &cfg, &rt, &rt1); results.lock().unwrap().push(co); }
                    None => break,
                }
            }
        }));
    }
    for i in range {
        if is_slow(&cfg, i) {
            continue;
        }
        let co = do_case(args.seed, i, &cfg, &rt, &rt1);
        apply_out(&mut out, co);
    }
    for t in threads {
        let _ = t.join();
    }
    let mut rs = std::mem::take(&mut *results.lock().unwrap());
    rs.sort_by_key(|c| c.idx);
    for co in rs {
        apply_out(&mut out, co);
    }
    out.finish(args.seed);
}

//! C20: simulation is reproducible (same seed, same trace, same verdict).
//!
//! Two roles in one binary.
//!
//! * `c20 --role worker --harness <h> --preset <p> --hseed <s>` runs ONE built-in simulation /
//!   DST harness of the crate through its public API and prints a canonical text: per-step
//!   trace (where the harness exposes one), final state dump, verdict and statistics.  Only
//!   what is unordered *by type* is sorted before printing (members of a Redis set, fields of a
//!   Redis hash, the key space of an executor, `HashMap`-typed statistics fields); sequences
//!   (histories, queues, lists, violation lists) are printed in the order the harness holds
//!   them.  No wall-clock value and no address is printed.
//! * default role (driven by ./check: `--seed --n --out [--dseeds k] [--only i]`):
//!   cases `0 .. n` are *kernel* cases: a small scripted `MultiNodeSimulation` scenario whose
//!   gossip rounds are printed as a Coq term for Corr/C20.v (the model must reproduce queue
//!   contents, delivery, and the number of RNG draws consumed);
//!   cases `1000000 ..` are (harness, preset, seed) triples: the worker is spawned twice as a child
//!   process (fresh `RandomState` keys each) and run once more in this process; the three
//!   outputs must be byte-identical.  A difference is a violation whose detail carries the
//!   first differing lines; `--only i` replays one case of either kind.
//!   TIME DILATION: the same triple is run again while wall-clock time is stretched, and must
//!   still give the identical output (a harness that reads the real clock - e.g. a component
//!   built with ProductionClock - passes a plain double run on a fast machine):
//!     mode "stall": the worker (`--dilate stall`) sleeps 70 ms before selected steps of a
//!       step-wise harness - for streaming/compaction before every rare operation (flush,
//!       crash-recover, compact) found in a first undilated pass, for the others at a seeded
//!       subset of steps;
//!     mode "stop": the parent stops the running child with SIGSTOP for 70 ms every ~3 ms of
//!       run time (works for every harness, also those that run in one call).
//!   HISTORY INDEPENDENCE: the same triple is run again (`--history <seed>`) on a thread that
//!   first ran, and between the target's steps keeps creating / stepping / dropping, a seeded
//!   sequence of other simulations (other kinds, same kind other seed, same preset, same kind
//!   with nearby parameter values, live background simulations interleaved step by step); the
//!   target's output must not change.  Two design-level dependences on the thread-local
//!   BUGGIFY context are classified as known findings (see `mask_stats`, `foreign_config`).
use rand::{Rng as _, RngCore, SeedableRng};
use rand_chacha::ChaCha8Rng;
use redis_sim::redis::{Command, CommandExecutor, Value as RValue, SDS};
use redis_sim::simulator::multi_node::MultiNodeSimulation;
use redis_sim::simulator::DeterministicRng;
use serde_json::json;
use std::collections::{BTreeMap, BTreeSet};
use std::fmt::Write as _;
use std::panic::{catch_unwind, AssertUnwindSafe};
use vharness::util::*;

const HEADER: &str = "From RV Require Import Corr.C20.\nLocal Open Scope N_scope.\nLocal Open Scope list_scope.";

// ---------------------------------------------------------------------------------------
// canonical printing helpers
// ---------------------------------------------------------------------------------------

fn sorted_map<K: Ord + std::fmt::Debug, V: std::fmt::Debug>(m: impl IntoIterator<Item = (K, V)>) -> String {
    let b: BTreeMap<K, V> = m.into_iter().collect();
    format!("{:?}", b)
}

fn dump_value(v: &RValue) -> String {
    match v {
        RValue::String(s) => format!("string {}", hex(s.as_bytes())),
        RValue::List(l) => format!("list [{}]", l.range(0, -1).iter().map(|x| hex(x.as_bytes())).collect::<Vec<_>>().join(",")),
        RValue::Set(s) => {
            // a Redis set is unordered: members sorted
            let mut m: Vec<String> = s.members().iter().map(|x| hex(x.as_bytes())).collect();
            m.sort();
            format!("set {{{}}}", m.join(","))
        }
        RValue::Hash(h) => {
            // a Redis hash is unordered: fields sorted
            let mut m: Vec<String> = h.get_all().iter().map(|(f, x)| format!("{}={}", hex(f.as_bytes()), hex(x.as_bytes()))).collect();
            m.sort();
            format!("hash {{{}}}", m.join(","))
        }
        RValue::SortedSet(z) => {
            // ordered by (score, member) by definition: printed in the order the structure yields
            format!("zset [{}]", z.range(0, -1).iter().map(|(m, s)| format!("{}:{:016x}", hex(m.as_bytes()), s.to_bits())).collect::<Vec<_>>().join(","))
        }
        RValue::Null => "null".to_string(),
    }
}

/// key space of an executor, sorted by key (the key space is a map); deadlines are not readable
/// through the public API (PTTL is refused by execute_readonly)
fn dump_executor(o: &mut String, tag: &str, e: &CommandExecutor) {
    let d = e.get_data();
    let keys: BTreeSet<&String> = d.keys().collect();
    writeln!(o, "{} keys={} now={:?}", tag, keys.len(), e.get_current_time()).unwrap();
    for k in keys {
        writeln!(o, "{}   {} = {}", tag, hex(k.as_bytes()), dump_value(&d[k])).unwrap();
    }
}

fn lines_of<T: std::fmt::Debug>(o: &mut String, tag: &str, xs: &[T]) {
    for (i, x) in xs.iter().enumerate() {
        writeln!(o, "{}[{}] {:?}", tag, i, x).unwrap();
    }
}

// ---------------------------------------------------------------------------------------
// the harnesses (worker role)
// ---------------------------------------------------------------------------------------

/// (harness, presets)
const HARNESSES: &[(&str, &[&str])] = &[
    ("executor", &["new", "calm", "chaos", "string_heavy"]),
    ("list", &["new", "high_churn", "modify_heavy"]),
    ("set", &["new", "small_members", "high_churn", "large_members"]),
    ("hash", &["new", "small_fields", "high_churn"]),
    ("sorted_set", &["new", "small_keyspace", "large_keyspace"]),
    ("transaction", &["new", "high_conflict", "error_heavy"]),
    ("crdt_gcounter", &["calm", "moderate", "chaos"]),
    ("crdt_pncounter", &["calm", "moderate", "chaos"]),
    ("crdt_orset", &["calm", "moderate", "chaos"]),
    ("crdt_vectorclock", &["calm", "moderate", "chaos"]),
    ("multi_node", &["broadcast3", "broadcast5_loss30", "partitioned5_rf3", "partitioned5_rf3_loss30", "partitioned8_rf3_loss20_delay30", "partitioned5_rf2_loss30_heal"]),
    ("partition", &["isolate", "split_brain", "asymmetric", "ring"]),
    ("core_dst", &["calm", "chaos", "default_skew", "max_time_500"]),
    ("redis_dst", &["calm", "moderate", "chaos"]),
    ("streaming", &["calm", "moderate", "chaos"]),
    ("compaction", &["calm", "aggressive", "chaos"]),
    ("wal", &["baseline", "crash_only", "chaos", "default_faults"]),
    ("connection", &["batched", "unbatched", "partial50", "pipeline_sim"]),
    ("scenario", &["plain", "buggify10", "eviction"]),
    ("event_sim", &["drop0", "drop30_partition"]),
    ("io_sim", &["calm", "moderate", "chaos"]),
    // RedisDSTSimulation::with_key_distribution / new_uniform with NON-preset parameters
    ("redis_dst_dist", &["zipf_1000_1.004", "zipf_1000_0.995", "zipf_999_1.3", "zipf_50_0.7", "zipf_1001_1.0", "uniform_500"]),
    // coverage audit: the public batch drivers and their summaries
    ("batch", &["dst_batches", "crdt_batches", "core_batch", "redis_dst_batch", "partition_batch", "wal_batch", "streaming_batches"]),
    // CrashSimulator driven directly (register / maybe_crash / crash / recover / checkpoint / state loss)
    ("crash_sim", &["default", "lossy"]),
    // ZipfianGenerator driven directly, sizes 1 .. 100 000
    ("zipf", &["1_1.0", "2_0.5", "1000_1.0", "1024_0.99", "100000_1.2"]),
    // size boundaries: > max_keys_per_sync keys through anti-entropy, pipelines across the 8 KiB
    // connection buffers, WAL files of 64 B .. 64 KiB, long runs
    ("big", &["multi_node_heal_999keys", "multi_node_heal_1000keys", "multi_node_heal_1001keys", "multi_node_heal_1200keys", "multi_node_full_anti_entropy", "connection_8k_boundary", "connection_64k_values", "wal_tiny_files", "wal_64k_files_1000_writes", "executor_3000_ops", "streaming_600_ops"]),
];

// ---- time dilation inside the worker ("stall" mode) ------------------------------------
const STALL_MS: u64 = 70; // above the 50 ms flush_interval of WriteBufferConfig::test()
struct Stall {
    on: bool,
    seed: u64,
    used: usize,
    targeted: Option<BTreeSet<usize>>,
}
static STALL: std::sync::Mutex<Stall> = std::sync::Mutex::new(Stall { on: false, seed: 0, used: 0, targeted: None });

/// called before step `i` of a step-wise harness: sleeps in dilated runs, runs other
/// simulations on this thread in history runs, does nothing otherwise
fn stall_point(i: usize) {
    history_hook(i);
    let go = {
        let mut st = STALL.lock().unwrap();
        if !st.on {
            return;
        }
        let hit = match &st.targeted {
            Some(set) => set.contains(&i),
            None => st.used < 8 && (i == 1 || (st.seed ^ (i as u64).wrapping_mul(0x9E37_79B9_7F4A_7C15)).rotate_left(17) % 23 == 0),
        };
        if hit {
            st.used += 1;
        }
        hit
    };
    if go {
        std::thread::sleep(std::time::Duration::from_millis(STALL_MS));
    }
}
fn stall_target(set: Option<BTreeSet<usize>>) {
    let mut st = STALL.lock().unwrap();
    st.targeted = set;
}
fn stalling() -> bool {
    STALL.lock().unwrap().on
}
/// indices of the rare operations of a history (everything that is not a plain write/delete),
/// at most `cap`, the rarest kind first
fn rare_ops(kinds: &[String], cap: usize) -> BTreeSet<usize> {
    let mut by_kind: BTreeMap<&str, Vec<usize>> = BTreeMap::new();
    for (i, k) in kinds.iter().enumerate() {
        if k != "Write" && k != "Delete" {
            by_kind.entry(k.as_str()).or_default().push(i);
        }
    }
    let mut groups: Vec<Vec<usize>> = by_kind.into_values().collect();
    groups.sort_by_key(|g| g.len());
    let mut out = BTreeSet::new();
    for g in groups {
        for i in g {
            if out.len() < cap {
                out.insert(i);
            }
        }
    }
    out
}
fn kind_of<T: std::fmt::Debug>(op: &T) -> String {
    let s = format!("{:?}", op);
    s.split(|c: char| !c.is_alphanumeric()).next().unwrap_or("").to_string()
}

// ---- history independence ("--history <seed>") --------------------------------------------
// The target run R = worker(h, p, s) is executed on a thread that (a) first ran a random
// sequence of OTHER simulations (other kinds, same kind with another seed, same preset,
// same kind with nearby parameter values), some dropped, some kept alive, and (b) keeps
// creating, stepping and dropping other simulations between R's steps.  R's output must be
// the bytes of R alone on a fresh thread.
enum Live {
    Dst(redis_sim::simulator::dst::DSTSimulation),
    Redis(redis_sim::simulator::dst_integration::RedisDSTSimulation),
    Multi(MultiNodeSimulation, u64),
    Exec(redis_sim::redis::executor_dst::ExecutorDSTHarness),
}
struct History {
    g: ChaCha8Rng,
    target: (String, String, u64),
    live: Vec<Live>,
    during: usize,
    log: Vec<String>,
    /// class predicate of the known finding C20-ambient-fault-config: while R was live, a
    /// simulation installed a thread-local fault configuration other than the one R installed
    foreign_config: bool,
    /// a quarter of the histories may install foreign fault presets while R is live
    allow_foreign: bool,
    in_async: bool,
}
thread_local! { static HIST: std::cell::RefCell<Option<History>> = std::cell::RefCell::new(None); }

/// the BUGGIFY preset a harness installs in the thread-local context (None: installs nothing)
fn fault_preset_of(h: &str, p: &str) -> Option<&'static str> {
    let name = |p: &str| match p { "calm" => "calm", "chaos" => "chaos", _ => "moderate" };
    match h {
        "core_dst" | "redis_dst" | "io_sim" => Some(name(p)),
        "redis_dst_dist" => Some("moderate"),
        "crash_sim" => Some("chaos"),
        "batch" if p == "core_batch" || p == "redis_dst_batch" => Some("chaos"),
        _ => None,
    }
}
const SYNC_KINDS: &[&str] = &["crash_sim", "zipf", "executor", "list", "set", "hash", "sorted_set", "transaction", "crdt_gcounter", "crdt_orset", "multi_node", "partition", "core_dst", "redis_dst", "redis_dst_dist", "wal", "connection", "scenario", "event_sim", "io_sim"];

fn presets_of(h: &str) -> &'static [&'static str] {
    HARNESSES.iter().find(|(k, _)| *k == h).map(|(_, ps)| *ps).unwrap_or(&[])
}

fn zipf_params(h: &str, p: &str) -> Option<(u64, f64)> {
    match h {
        "redis_dst" => Some((1000, 1.0)),
        "redis_dst_dist" if p.starts_with("zipf_") => {
            let mut it = p[5..].split('_');
            Some((it.next()?.parse().ok()?, it.next()?.parse().ok()?))
        }
        _ => None,
    }
}

/// the same KIND as (h, p) with nearby parameter values; built, run a little, dropped
fn near_variant(h: &str, p: &str, s: u64, g: &mut ChaCha8Rng, allow_async: bool) -> String {
    let tiny = |g: &mut ChaCha8Rng| (g.gen_range(1..5) as f64) * 0.001 * if g.gen_bool(0.5) { 1.0 } else { -1.0 };
    let s2 = if g.gen_bool(0.5) { s } else { s.wrapping_add(g.gen_range(1..4)) };
    match h {
        "redis_dst" | "redis_dst_dist" => {
            use redis_sim::buggify::FaultConfig;
            use redis_sim::simulator::dst_integration::{KeyDistribution, RedisDSTSimulation};
            let (nk, sk) = zipf_params(h, p).unwrap_or((500, 1.0));
            let (nk2, sk2) = (if g.gen_bool(0.3) { nk + 1 } else if g.gen_bool(0.2) { nk.saturating_sub(1).max(1) } else { nk }, if g.gen_bool(0.2) { 1.0 } else { (sk + tiny(g)).max(0.001) });
            let fc = match fault_preset_of(h, p) { Some("calm") => FaultConfig::calm(), Some("chaos") => FaultConfig::chaos(), _ => FaultConfig::moderate() };
            let mut sim = RedisDSTSimulation::with_key_distribution(s2, 5, KeyDistribution::Zipfian { num_keys: nk2, skew: sk2 }).with_faults(fc);
            sim.run(20);
            format!("near {}: zipfian num_keys={} skew={} seed={}", h, nk2, sk2, s2)
        }
        "multi_node" => {
            let loss = (0.3 + tiny(g)).clamp(0.0, 1.0);
            let mut sim = MultiNodeSimulation::new_partitioned(5, 3, s2).with_packet_loss(loss);
            for r in 0..6 {
                sim.execute(0, r % 5, Command::set(format!("key_{}", r), SDS::from_str("x")));
                sim.advance_time_ms(7);
                sim.gossip_round();
            }
            format!("near multi_node: new_partitioned(5,3,{}) loss={}", s2, loss)
        }
        "core_dst" => {
            use redis_sim::simulator::dst::*;
            let mut cfg = match p { "calm" => DSTConfig::calm(s2), "chaos" => DSTConfig::chaos(s2), _ => DSTConfig::new(s2).with_nodes(5).with_clock_skew(true) };
            cfg.crash_config.base_crash_probability = (cfg.crash_config.base_crash_probability + tiny(g) * 0.1).max(0.0);
            cfg.max_clock_skew_ms += g.gen_range(0..2);
            let mut sim = DSTSimulation::with_config(cfg);
            for _ in 0..g.gen_range(1..25) {
                sim.step();
            }
            format!("near core_dst: preset {} seed {} crash_prob/skew nudged", p, s2)
        }
        "wal" => {
            use redis_sim::streaming::wal_dst::*;
            let mut cfg = match p { "baseline" => WalDSTConfig::baseline(), "crash_only" => WalDSTConfig::crash_only(), "chaos" => WalDSTConfig::chaos(), _ => WalDSTConfig::default() };
            cfg.num_writes = cfg.num_writes + 1 - g.gen_range(0..3);
            cfg.max_file_size = cfg.max_file_size + 1 - g.gen_range(0..3);
            let r = WalDSTHarness::new(s2, cfg).run();
            format!("near wal: preset {} seed {} writes={}", p, s2, r.total_writes)
        }
        "streaming" if allow_async => {
            use redis_sim::streaming::dst::*;
            let mut cfg = match p { "moderate" => StreamingDSTConfig::moderate(s2), "chaos" => StreamingDSTConfig::chaos(s2), _ => StreamingDSTConfig::calm(s2) };
            cfg.flush_probability = (cfg.flush_probability + tiny(g)).clamp(0.0, 1.0);
            cfg.crash_probability = (cfg.crash_probability + tiny(g)).clamp(0.0, 1.0);
            let rt = tokio::runtime::Builder::new_current_thread().enable_all().start_paused(true).build().unwrap();
            rt.block_on(async {
                let mut h = StreamingDSTHarness::new(cfg).await;
                h.run(40).await;
            });
            format!("near streaming: preset {} seed {} probabilities nudged", p, s2)
        }
        "compaction" if allow_async => {
            use redis_sim::streaming::compaction_dst::*;
            let mut cfg = match p { "aggressive" => CompactionDSTConfig::aggressive(s2), "chaos" => CompactionDSTConfig::chaos(s2), _ => CompactionDSTConfig::calm(s2) };
            cfg.flush_probability = (cfg.flush_probability + tiny(g)).clamp(0.0, 1.0);
            cfg.compact_probability = (cfg.compact_probability + tiny(g)).clamp(0.0, 1.0);
            let rt = tokio::runtime::Builder::new_current_thread().enable_all().start_paused(true).build().unwrap();
            rt.block_on(async {
                let mut h = CompactionDSTHarness::new(cfg).await;
                h.run(40).await;
            });
            format!("near compaction: preset {} seed {} probabilities nudged", p, s2)
        }
        "crdt_gcounter" | "crdt_pncounter" | "crdt_orset" | "crdt_vectorclock" => {
            use redis_sim::replication::crdt_dst::*;
            let mut cfg = match p { "moderate" => CRDTDSTConfig::moderate(s2), "chaos" => CRDTDSTConfig::chaos(s2), _ => CRDTDSTConfig::calm(s2) };
            cfg.message_drop_prob = (cfg.message_drop_prob + tiny(g)).clamp(0.0, 1.0);
            let mut hh = ORSetDSTHarness::new(cfg.clone());
            hh.run(20);
            hh.sync_all();
            let mut h2 = GCounterDSTHarness::new(cfg);
            h2.run(20);
            h2.sync_all();
            format!("near crdt: preset {} seed {} drop prob nudged", p, s2)
        }
        "set" => {
            use redis_sim::redis::set_dst::*;
            let mut cfg = SetDSTConfig::new(s2);
            cfg.remove_prob = (cfg.remove_prob + tiny(g)).clamp(0.0, 1.0);
            cfg.num_members += 1;
            let mut hh = SetDSTHarness::new(cfg);
            hh.run(40);
            format!("near set: seed {} remove_prob nudged", s2)
        }
        "list" => {
            use redis_sim::redis::list_dst::*;
            let mut cfg = ListDSTConfig::new(s2);
            cfg.pop_prob = (cfg.pop_prob + tiny(g)).clamp(0.0, 1.0);
            let mut hh = ListDSTHarness::new(cfg);
            hh.run(40);
            format!("near list: seed {} pop_prob nudged", s2)
        }
        "executor" => {
            use redis_sim::redis::executor_dst::*;
            let mut cfg = match p { "calm" => ExecutorDSTConfig::calm(s2), "chaos" => ExecutorDSTConfig::chaos(s2), "string_heavy" => ExecutorDSTConfig::string_heavy(s2), _ => ExecutorDSTConfig::new(s2) };
            cfg.num_keys += 1;
            cfg.zipf_exponent += tiny(g);
            let mut hh = ExecutorDSTHarness::new(cfg);
            hh.run(60);
            format!("near executor: preset {} seed {} num_keys+1 zipf nudged", p, s2)
        }
        _ => {
            // no public parameters to nudge: the same kind and preset with a neighbouring seed
            if allow_async || SYNC_KINDS.contains(&h) {
                let s3 = s.wrapping_add(1);
                let _ = run_worker_caught(h, p, s3);
                format!("same kind {} preset {} seed {}", h, p, s3)
            } else {
                String::from("skipped (async kind inside a runtime)")
            }
        }
    }
}

/// the fault preset a background simulation installs: R's own, except in the histories that
/// are allowed to install foreign ones
fn pick_preset(hs: &mut History, r_reads: Option<&'static str>, default: &'static str) -> &'static str {
    match r_reads {
        Some(rp) if !(hs.allow_foreign && hs.g.gen_bool(0.4)) => rp,
        Some(_) => ["calm", "moderate", "chaos"][hs.g.gen_range(0..3)],
        None => if hs.g.gen_bool(0.5) { default } else { ["calm", "moderate", "chaos"][hs.g.gen_range(0..3)] },
    }
}

fn step_live(l: &mut Live, g: &mut ChaCha8Rng) {
    for _ in 0..g.gen_range(1..4) {
        match l {
            Live::Dst(sim) => sim.step(),
            Live::Redis(sim) => {
                sim.run(1);
            }
            Live::Multi(sim, n) => {
                *n += 1;
                sim.execute(0, (*n % 3) as usize, Command::set(format!("bg_{}", *n % 7), SDS::from_str("b")));
                sim.advance_time_ms(5);
                sim.gossip_round();
            }
            Live::Exec(hh) => hh.run(1),
        }
    }
}

/// one action of the thread's history; `during` = R is live (between two of its steps)
fn history_action(hs: &mut History, during: bool, force: Option<u32>) {
    let (h, p, s) = hs.target.clone();
    let r_reads = fault_preset_of(&h, &p);
    let allow_async = !hs.in_async;
    let mut installs: Option<&'static str> = None;
    let roll: u32 = hs.g.gen_range(0..100);
    let what = match force.unwrap_or(roll) {
        // keep-alive background simulations: create one, or step the ones alive
        0..=29 => {
            if hs.live.len() < 3 && (hs.live.is_empty() || hs.g.gen_bool(0.3)) {
                let s2 = hs.g.gen_range(0..1_000_000u64);
                match hs.g.gen_range(0..4) {
                    0 => {
                        use redis_sim::simulator::dst::*;
                        // mostly R's own preset (a compatible neighbour), sometimes a foreign one
                        let want = pick_preset(hs, r_reads, "chaos");
                        let cfg = match want { "calm" => DSTConfig::calm(s2), "chaos" => DSTConfig::chaos(s2), _ => DSTConfig::new(s2) };
                        installs = Some(want);
                        hs.live.push(Live::Dst(DSTSimulation::with_config(cfg)));
                        format!("create live DSTSimulation preset {} seed {}", want, s2)
                    }
                    1 => {
                        use redis_sim::buggify::FaultConfig;
                        use redis_sim::simulator::dst_integration::RedisDSTSimulation;
                        let want = pick_preset(hs, r_reads, "moderate");
                        let fc = match want { "calm" => FaultConfig::calm(), "chaos" => FaultConfig::chaos(), _ => FaultConfig::moderate() };
                        installs = Some(want);
                        hs.live.push(Live::Redis(RedisDSTSimulation::new(s2, 5).with_faults(fc)));
                        format!("create live RedisDSTSimulation::new faults {} seed {}", want, s2)
                    }
                    2 => {
                        hs.live.push(Live::Multi(MultiNodeSimulation::new_partitioned(4, 2, s2).with_packet_loss(0.2), 0));
                        format!("create live MultiNodeSimulation seed {}", s2)
                    }
                    _ => {
                        use redis_sim::redis::executor_dst::*;
                        hs.live.push(Live::Exec(ExecutorDSTHarness::new(ExecutorDSTConfig::new(s2))));
                        format!("create live ExecutorDSTHarness seed {}", s2)
                    }
                }
            } else {
                let mut live = std::mem::take(&mut hs.live);
                for l in live.iter_mut() {
                    step_live(l, &mut hs.g);
                }
                if !live.is_empty() && hs.g.gen_bool(0.1) {
                    live.remove(0); // dropped while R is live
                }
                hs.live = live;
                String::from("step live background simulations")
            }
        }
        // same kind, same preset, another (or the same) seed: built, run, dropped
        30..=49 => {
            if allow_async || SYNC_KINDS.contains(&h.as_str()) {
                let s2 = if hs.g.gen_bool(0.2) { s } else { hs.g.gen_range(0..1_000_000u64) };
                installs = fault_preset_of(&h, &p);
                let _ = run_worker_caught(&h, &p, s2);
                format!("run+drop same kind {} preset {} seed {}", h, p, s2)
            } else {
                String::from("skipped")
            }
        }
        // same kind, nearby parameter values
        50..=69 => {
            installs = fault_preset_of(&h, &p);
            let mut g2 = ChaCha8Rng::seed_from_u64(hs.g.gen());
            catch_unwind(AssertUnwindSafe(|| near_variant(&h, &p, s, &mut g2, allow_async))).unwrap_or_else(|_| String::from("near variant panicked"))
        }
        // a simulation that owns a DSTSimulation (creates and drops one)
        70..=79 => {
            let k = if hs.g.gen_bool(0.5) { "core_dst" } else { "redis_dst" };
            let want = pick_preset(hs, r_reads, "chaos");
            let s2 = hs.g.gen_range(0..1_000_000u64);
            installs = Some(want);
            let _ = run_worker_caught(k, want, s2);
            format!("run+drop {} preset {} seed {}", k, want, s2)
        }
        // any other kind, any preset
        _ => {
            let kinds: Vec<&str> = HARNESSES.iter().map(|(k, _)| *k).filter(|k| allow_async || SYNC_KINDS.contains(k)).collect();
            let k = kinds[hs.g.gen_range(0..kinds.len())];
            let ps = presets_of(k);
            let mut k = k;
            let mut p2 = ps[hs.g.gen_range(0..ps.len())];
            // a kind that installs a fault preset while R is live: R's own preset unless this
            // history is one of those that may install foreign ones
            if let (Some(rp), Some(x)) = (r_reads, fault_preset_of(k, p2)) {
                if x != rp && !(hs.allow_foreign && hs.g.gen_bool(0.5)) {
                    match ps.iter().copied().find(|c| fault_preset_of(k, c) == Some(rp)) {
                        Some(c) => p2 = c,
                        None => {
                            k = "crdt_orset";
                            p2 = "moderate";
                        }
                    }
                }
            }
            let s2 = hs.g.gen_range(0..1_000_000u64);
            installs = fault_preset_of(k, p2);
            let _ = run_worker_caught(k, p2, s2);
            format!("run+drop {} preset {} seed {}", k, p2, s2)
        }
    };
    if during {
        hs.during += 1;
        if let (Some(rp), Some(x)) = (r_reads, installs) {
            if rp != x {
                hs.foreign_config = true;
            }
        }
    }
    if hs.log.len() < 60 {
        hs.log.push(format!("{}{}", if during { "during: " } else { "before: " }, what));
    }
}

fn history_hook(i: usize) {
    // the history is taken out of the thread-local while it acts, so simulations run from
    // inside an action do not recurse into it
    let taken = HIST.with(|h| h.borrow_mut().take());
    if let Some(mut hs) = taken {
        if hs.during < 30 && (i == 1 || hs.g.gen_range(0..6) == 0) {
            history_action(&mut hs, true, None);
        }
        HIST.with(|h| *h.borrow_mut() = Some(hs));
    }
}

/// R on a thread with a history; returns R's output followed by one "#history" line
fn worker_with_history(h: &str, p: &str, s: u64, hist_seed: u64) -> String {
    let mut hs = History {
        g: ChaCha8Rng::seed_from_u64(hist_seed),
        target: (h.to_string(), p.to_string(), s),
        live: Vec::new(),
        during: 0,
        log: Vec::new(),
        foreign_config: false,
        allow_foreign: false,
        in_async: false,
    };
    hs.allow_foreign = hs.g.gen_range(0..4) == 0;
    for _ in 0..hs.g.gen_range(2..6) {
        history_action(&mut hs, false, None);
    }
    // a harness that installs no fault configuration of its own inherits whatever the thread
    // holds: in half of its histories the last thing before it is a simulation that owns (and
    // drops) a DSTSimulation
    if fault_preset_of(h, p).is_none() && hs.g.gen_bool(0.5) {
        history_action(&mut hs, false, Some(75));
    }
    hs.in_async = h == "streaming" || h == "compaction";
    HIST.with(|x| *x.borrow_mut() = Some(hs));
    let out = run_worker_caught(h, p, s);
    let hs = HIST.with(|x| x.borrow_mut().take()).expect("history");
    format!("{}#history during={} foreign_config={} log={}\n", out, hs.during, hs.foreign_config, hs.log.join(" ; "))
}

macro_rules! step_dst {
    ($o:ident, $h:ident, $ops:expr) => {{
        // one operation at a time so that the per-step log is visible (run(n) is the same loop)
        for i in 0..$ops {
            stall_point(i);
            $h.run(1);
            writeln!($o, "op[{}] {:?}", i, $h.result().last_op).unwrap();
            if !$h.result().invariant_violations.is_empty() {
                break;
            }
        }
        lines_of(&mut $o, "violation", &$h.result().invariant_violations);
        writeln!($o, "verdict success={} summary={}", $h.result().is_success(), $h.result().summary().replace('\n', " | ")).unwrap();
    }};
}

fn worker(harness: &str, preset: &str, seed: u64) -> String {
    let mut o = String::new();
    writeln!(o, "harness={} preset={} seed={}", harness, preset, seed).unwrap();
    match harness {
        "executor" => {
            use redis_sim::redis::executor_dst::*;
            let (cfg, ops) = match preset {
                "calm" => (ExecutorDSTConfig::calm(seed), 150),
                "chaos" => (ExecutorDSTConfig::chaos(seed), 600),
                "string_heavy" => (ExecutorDSTConfig::string_heavy(seed), 300),
                _ => (ExecutorDSTConfig::new(seed), 400),
            };
            let mut h = ExecutorDSTHarness::new(cfg);
            step_dst!(o, h, ops);
            let r = h.result();
            writeln!(o, "stats total={} string={} key={} list={} set={} hash={} zset={} expiry={}", r.total_operations, r.string_ops, r.key_ops, r.list_ops, r.set_ops, r.hash_ops, r.sorted_set_ops, r.expiry_ops).unwrap();
            dump_executor(&mut o, "state", h.executor());
        }
        "list" => {
            use redis_sim::redis::list_dst::*;
            let cfg = match preset { "high_churn" => ListDSTConfig::high_churn(seed), "modify_heavy" => ListDSTConfig::modify_heavy(seed), _ => ListDSTConfig::new(seed) };
            let mut h = ListDSTHarness::new(cfg);
            step_dst!(o, h, 300);
            writeln!(o, "state [{}]", h.list().range(0, -1).iter().map(|x| hex(x.as_bytes())).collect::<Vec<_>>().join(",")).unwrap();
        }
        "set" => {
            use redis_sim::redis::set_dst::*;
            let cfg = match preset { "small_members" => SetDSTConfig::small_members(seed), "high_churn" => SetDSTConfig::high_churn(seed), "large_members" => SetDSTConfig::large_members(seed), _ => SetDSTConfig::new(seed) };
            let mut h = SetDSTHarness::new(cfg);
            step_dst!(o, h, 300);
            let mut m: Vec<String> = h.set().members().iter().map(|x| hex(x.as_bytes())).collect();
            m.sort(); // a set
            writeln!(o, "state {{{}}}", m.join(",")).unwrap();
        }
        "hash" => {
            use redis_sim::redis::hash_dst::*;
            let cfg = match preset { "small_fields" => HashDSTConfig::small_fields(seed), "high_churn" => HashDSTConfig::high_churn(seed), _ => HashDSTConfig::new(seed) };
            let mut h = HashDSTHarness::new(cfg);
            step_dst!(o, h, 300);
            let mut m: Vec<String> = h.hash().get_all().iter().map(|(f, x)| format!("{}={}", hex(f.as_bytes()), hex(x.as_bytes()))).collect();
            m.sort(); // a map
            writeln!(o, "state {{{}}}", m.join(",")).unwrap();
        }
        "sorted_set" => {
            use redis_sim::redis::sorted_set_dst::*;
            let cfg = match preset { "small_keyspace" => SortedSetDSTConfig::small_keyspace(seed), "large_keyspace" => SortedSetDSTConfig::large_keyspace(seed), _ => SortedSetDSTConfig::new(seed) };
            let mut h = SortedSetDSTHarness::new(cfg);
            step_dst!(o, h, 300);
            writeln!(o, "state [{}]", h.sorted_set().range(0, -1).iter().map(|(m, s)| format!("{}:{:016x}", hex(m.as_bytes()), s.to_bits())).collect::<Vec<_>>().join(",")).unwrap();
        }
        "transaction" => {
            use redis_sim::redis::transaction_dst::*;
            let cfg = match preset { "high_conflict" => TransactionDSTConfig::high_conflict(seed), "error_heavy" => TransactionDSTConfig::error_heavy(seed), _ => TransactionDSTConfig::new(seed) };
            let mut h = TransactionDSTHarness::new(cfg);
            step_dst!(o, h, 200);
        }
        "crdt_gcounter" | "crdt_pncounter" | "crdt_orset" | "crdt_vectorclock" => {
            use redis_sim::replication::crdt_dst::*;
            let cfg = match preset { "moderate" => CRDTDSTConfig::moderate(seed), "chaos" => CRDTDSTConfig::chaos(seed), _ => CRDTDSTConfig::calm(seed) };
            macro_rules! crdt {
                ($t:ident) => {{
                    let mut h = $t::new(cfg);
                    // the replicas are private; the only per-phase observable is the result record
                    for phase in 0..4 {
                        stall_point(phase);
                        h.run(25);
                        let r = h.result();
                        writeln!(o, "phase[{}] total={} ops_per_replica={} violations={}", phase, r.total_operations, sorted_map(r.ops_per_replica.iter()), r.invariant_violations.len()).unwrap();
                    }
                    h.sync_all();
                    h.check_convergence();
                    h.into_result()
                }};
            }
            let r = match harness {
                "crdt_gcounter" => crdt!(GCounterDSTHarness),
                "crdt_pncounter" => crdt!(PNCounterDSTHarness),
                "crdt_orset" => crdt!(ORSetDSTHarness),
                _ => crdt!(VectorClockDSTHarness),
            };
            lines_of(&mut o, "violation", &r.invariant_violations);
            // ops_per_replica is a HashMap field: printed sorted by key
            writeln!(o, "verdict success={} converged={} total={} ops_per_replica={} syncs={} dropped={}", r.is_success(), r.converged, r.total_operations, sorted_map(r.ops_per_replica.iter()), r.syncs_performed, r.messages_dropped).unwrap();
        }
        "multi_node" => multi_node_worker(&mut o, preset, seed),
        "partition" => {
            use redis_sim::simulator::partition_tests::*;
            let n = 5;
            let cfg = match preset {
                "split_brain" => PartitionConfig::split_brain(vec![0, 1], vec![2, 3, 4]),
                "asymmetric" => PartitionConfig::asymmetric(0, 3),
                "ring" => PartitionConfig::ring(n),
                _ => PartitionConfig::isolate_node(2, n),
            };
            let r = run_partition_test(preset, n, seed, cfg, vec![(0, "key1", "value_from_0"), (n - 1, "key1", "value_from_last"), (1, "key2", "other")], vec![(0, "key1", "final_value"), (3, "key2", "other_final")], 50);
            writeln!(o, "result {:?}", r).unwrap();
        }
        "core_dst" => {
            use redis_sim::simulator::dst::*;
            // max_time_500: the run ends at the virtual-time limit, not at the step count
            let cfg = match preset { "calm" => DSTConfig::calm(seed), "chaos" => DSTConfig::chaos(seed), "max_time_500" => DSTConfig::new(seed).with_max_time(500), _ => DSTConfig::new(seed).with_nodes(5).with_clock_skew(true) };
            let mut sim = DSTSimulation::with_config(cfg);
            let mut trace = String::new();
            for i in 0..300 {
                stall_point(i);
                sim.step();
                let running: Vec<bool> = (0..sim.config().node_count).map(|n| sim.is_node_running(n)).collect();
                writeln!(trace, "step[{}] t={:?} running={:?}", i, sim.current_time(), running).unwrap();
                if sim.current_time().0 >= sim.config().max_time_ms {
                    break;
                }
            }
            o.push_str(&trace);
            let r = sim.finalize().clone();
            print_sim_result(&mut o, &r);
            let cs = sim.crash_simulator().stats().clone();
            writeln!(o, "crash_stats total_crashes={} total_recoveries={} by_reason={} state_loss={} avg_recovery_bits={:016x}", cs.total_crashes, cs.total_recoveries, sorted_map(cs.crashes_by_reason.iter()), cs.total_state_loss_events, cs.average_recovery_time_ms.to_bits()).unwrap();
        }
        "redis_dst" => {
            use redis_sim::buggify::{self, FaultConfig};
            use redis_sim::simulator::dst_integration::RedisDSTSimulation;
            let fc = match preset { "moderate" => FaultConfig::moderate(), "chaos" => FaultConfig::chaos(), _ => FaultConfig::calm() };
            // as run_redis_dst_batch drives it
            buggify::reset_stats();
            buggify::set_config(fc.clone());
            let mut sim = RedisDSTSimulation::new(seed, 5).with_faults(fc);
            // run(1) x 150: one step per call so that a dilated run can stall between steps
            for i in 0..150 {
                stall_point(i);
                sim.run(1);
            }
            let r = sim.run(0).clone();
            print_sim_result(&mut o, &r);
            writeln!(o, "stats {:?} converged={}", sim.stats(), sim.check_convergence()).unwrap();
        }
        "redis_dst_dist" => {
            use redis_sim::buggify;
            use redis_sim::simulator::dst_integration::{KeyDistribution, RedisDSTSimulation};
            buggify::reset_stats();
            let mut sim = match zipf_params(harness, preset) {
                Some((nk, sk)) => RedisDSTSimulation::with_key_distribution(seed, 5, KeyDistribution::Zipfian { num_keys: nk, skew: sk }),
                None => RedisDSTSimulation::new_uniform(seed, 5, preset.rsplit('_').next().and_then(|x| x.parse().ok()).unwrap_or(500)),
            };
            for i in 0..120 {
                stall_point(i);
                sim.run(1);
            }
            let r = sim.run(0).clone();
            print_sim_result(&mut o, &r);
            writeln!(o, "stats {:?} converged={}", sim.stats(), sim.check_convergence()).unwrap();
        }
        "streaming" => {
            use redis_sim::streaming::dst::*;
            let cfg = match preset { "moderate" => StreamingDSTConfig::moderate(seed), "chaos" => StreamingDSTConfig::chaos(seed), _ => StreamingDSTConfig::calm(seed) };
            let rt = tokio::runtime::Builder::new_current_thread().enable_all().start_paused(true).build().unwrap();
            // run(1) x 150 is the loop of run(150); a dilated run first learns where the rare
            // operations (Flush, CrashRecover) are from an undilated pass, then stalls before them
            if stalling() {
                stall_target(Some(BTreeSet::new()));
                let cfg1 = cfg.clone();
                let kinds: Vec<String> = rt.block_on(async {
                    let mut h = StreamingDSTHarness::new(cfg1).await;
                    h.run(150).await;
                    h.into_result().history.iter().map(|r| kind_of(&r.operation)).collect()
                });
                stall_target(Some(rare_ops(&kinds, 14)));
            }
            let r = rt.block_on(async {
                let mut h = StreamingDSTHarness::new(cfg).await;
                for i in 0..150 {
                    stall_point(i);
                    h.run(1).await;
                }
                h.check_invariants().await;
                h.into_result()
            });
            lines_of(&mut o, "op", &r.history);
            lines_of(&mut o, "violation", &r.invariant_violations);
            writeln!(o, "verdict success={} total={} ok={} failed={} flushes={} crashes={} store_stats={:?}", r.is_success(), r.total_operations, r.successful_operations, r.failed_operations, r.flushes, r.crashes, r.store_stats).unwrap();
        }
        "compaction" => {
            use redis_sim::streaming::compaction_dst::*;
            let cfg = match preset { "aggressive" => CompactionDSTConfig::aggressive(seed), "chaos" => CompactionDSTConfig::chaos(seed), _ => CompactionDSTConfig::calm(seed) };
            let rt = tokio::runtime::Builder::new_current_thread().enable_all().start_paused(true).build().unwrap();
            if stalling() {
                stall_target(Some(BTreeSet::new()));
                let cfg1 = cfg.clone();
                let kinds: Vec<String> = rt.block_on(async {
                    let mut h = CompactionDSTHarness::new(cfg1).await;
                    h.run(150).await;
                    h.into_result().history.iter().map(|r| kind_of(&r.operation)).collect()
                });
                stall_target(Some(rare_ops(&kinds, 14)));
            }
            let r = rt.block_on(async {
                let mut h = CompactionDSTHarness::new(cfg).await;
                for i in 0..150 {
                    stall_point(i);
                    h.run(1).await;
                }
                h.check_invariants().await;
                h.into_result()
            });
            lines_of(&mut o, "op", &r.history);
            lines_of(&mut o, "violation", &r.invariant_violations);
            writeln!(o, "verdict success={} total={} writes={} flushes={} compactions={} failed={} skipped={} store_stats={:?}", r.is_success(), r.total_operations, r.successful_writes, r.successful_flushes, r.successful_compactions, r.failed_operations, r.skipped_operations, r.store_stats).unwrap();
        }
        "wal" => {
            use redis_sim::streaming::wal_dst::*;
            let cfg = match preset { "baseline" => WalDSTConfig::baseline(), "crash_only" => WalDSTConfig::crash_only(), "chaos" => WalDSTConfig::chaos(), _ => WalDSTConfig::default() };
            let mut h = WalDSTHarness::new(seed, cfg);
            let r = h.run();
            writeln!(o, "result {:?}", r).unwrap();
        }
        "connection" => {
            use redis_sim::simulator::connection::*;
            if preset == "pipeline_sim" {
                let mut p = PipelineSimulator::new(seed).with_sizes(vec![1, 2, 3, 8, 17, 64]);
                p.run();
                lines_of(&mut o, "pipeline", &p.results);
            } else {
                let mut conn = match preset {
                    "unbatched" => SimulatedConnection::new(seed).with_unbatched_flush(),
                    "partial50" => SimulatedConnection::new(seed).with_partial_reads(0.5),
                    _ => SimulatedConnection::new(seed),
                };
                // the workload is a function of the seed
                let mut w = ChaCha8Rng::seed_from_u64(seed ^ 0xC20C_20C2);
                for round in 0..4 {
                    stall_point(round);
                    let n = w.gen_range(0..20usize);
                    let cmds: Vec<Command> = (0..n)
                        .map(|_| {
                            let k = format!("k{}", w.gen_range(0..5));
                            match w.gen_range(0..6) {
                                0 | 1 => Command::set(k, SDS::from_str(&format!("v{}", w.gen_range(0..100)))),
                                2 => Command::Get(k),
                                3 => Command::Incr(format!("c{}", w.gen_range(0..2))),
                                4 => Command::del(k),
                                _ => Command::Ping(None),
                            }
                        })
                        .collect();
                    conn.send_pipeline(cmds);
                    let rs = if round % 2 == 0 { conn.process() } else { conn.process_with_partial_arrivals(3) };
                    lines_of(&mut o, &format!("round{}-response", round), &rs);
                }
                lines_of(&mut o, "history", conn.history());
                writeln!(o, "flushes={} bytes_per_flush={:?} executed={}", conn.flush_count(), conn.bytes_per_flush(), conn.commands_executed()).unwrap();
            }
        }
        "scenario" => {
            use redis_sim::simulator::harness::*;
            let mut w = ChaCha8Rng::seed_from_u64(seed ^ 0x5CE0_A210);
            let mut b = ScenarioBuilder::new(seed);
            if preset == "buggify10" {
                b = b.with_buggify(0.1);
            }
            for _ in 0..60 {
                let t = w.gen_range(0..5000u64);
                let k = format!("k{}", w.gen_range(0..6));
                let cmd = match w.gen_range(0..7) {
                    0 | 1 => Command::set(k, SDS::from_str(&format!("v{}", w.gen_range(0..100)))),
                    2 => Command::Get(k),
                    3 => Command::Incr(format!("c{}", w.gen_range(0..2))),
                    4 => Command::Expire { key: k, seconds: w.gen_range(1..4), nx: false, xx: false, gt: false, lt: false },
                    5 => Command::Ttl(k),
                    _ => Command::del(k),
                };
                b = b.at_time(t).client(w.gen_range(0..4usize), cmd);
            }
            let mut h = if preset == "eviction" { b.run_with_eviction(500) } else { b.run() };
            lines_of(&mut o, "history", h.history());
            writeln!(o, "now={:?} next_rng={}", h.current_time(), h.rng().next_u64()).unwrap();
        }
        "event_sim" => {
            use redis_sim::simulator::{Duration, EventType, Simulation, SimulationConfig, VirtualTime};
            let mut sim = Simulation::new(SimulationConfig { seed, max_time: VirtualTime::from_millis(2_000), simulation_start_epoch: 0 });
            let hosts: Vec<_> = (0..4).map(|i| sim.add_host(format!("h{}", i))).collect();
            if preset == "drop30_partition" {
                sim.set_network_drop_rate(0.3);
                sim.partition_hosts(hosts[0], hosts[3]);
            }
            let mut trace = String::new();
            let hs = hosts.clone();
            let mut budget = 400usize;
            sim.run(|s, ev| {
                writeln!(trace, "event t={:?} host={:?} {:?}", ev.time, ev.host_id, ev.event_type).unwrap();
                if budget == 0 {
                    return;
                }
                stall_point(400 - budget);
                budget -= 1;
                match &ev.event_type {
                    EventType::HostStart => {
                        let d = s.rng().gen_range(1, 50);
                        s.schedule_timer(ev.host_id, Duration::from_millis(d));
                    }
                    EventType::Timer(_) => {
                        let to = hs[s.rng().gen_range(0, hs.len() as u64) as usize];
                        let b = s.rng().next_u64() as u8;
                        s.send_message(ev.host_id, to, vec![b]);
                        let d = s.rng().gen_range(1, 80);
                        s.schedule_timer(ev.host_id, Duration::from_millis(d));
                    }
                    EventType::NetworkMessage(m) => {
                        if m.payload[0] % 3 == 0 {
                            s.send_message(m.to, m.from, vec![m.payload[0].wrapping_add(1)]);
                        }
                        if m.payload[0] % 16 == 5 {
                            s.heal_partition(hs[0], hs[3]);
                        }
                    }
                }
            });
            o.push_str(&trace);
            writeln!(o, "end t={:?} next_rng={}", sim.current_time(), sim.rng().next_u64()).unwrap();
        }
        "io_sim" => {
            // the seeded pieces of src/io/simulation.rs and src/buggify that have a safe public
            // API: SimulatedRng, SimulationContext (global time, ids, per-node clock skew) and
            // the BUGGIFY decision function over every registered fault id
            use redis_sim::buggify::{self, FaultConfig, ALL_FAULTS};
            use redis_sim::io::simulation::{ClockOffset, NodeId, SimulatedRng, SimulationContext};
            use redis_sim::io::{Duration as IoDuration, Rng as IoRng, Timestamp};
            let fc = match preset { "moderate" => FaultConfig::moderate(), "chaos" => FaultConfig::chaos(), _ => FaultConfig::calm() };
            buggify::reset_stats();
            let ctx = SimulationContext::new(seed, fc);
            let mut rng = SimulatedRng::new(seed);
            for n in 0..4 {
                let off = ClockOffset { fixed_offset_ms: rng.gen_range(0, 2000) as i64 - 1000, drift_ppm: rng.gen_range(0, 10_000) as i64 - 5000, drift_anchor: Timestamp::from_millis(0) };
                ctx.set_clock_offset(NodeId(n), off);
            }
            for i in 0..120 {
                stall_point(i);
                ctx.advance_by(IoDuration::from_millis(rng.gen_range(1, 500)));
                let fault = ALL_FAULTS[rng.gen_range(0, ALL_FAULTS.len() as u64) as usize];
                let hit = buggify::should_buggify(&mut rng, fault);
                let mut v: Vec<u8> = (0..8).collect();
                rng.shuffle(&mut v);
                let local: Vec<u64> = (0..4).map(|n| ctx.local_time(NodeId(n)).as_millis()).collect();
                writeln!(o, "step[{}] now={} id={} local={:?} fault={} hit={} coin={} shuffle={:?}", i, ctx.now().as_millis(), ctx.next_id(), local, fault, hit, rng.gen_bool(0.3), v).unwrap();
            }
            let st = buggify::get_stats();
            writeln!(o, "buggify checks={} triggers={} next_rng={}", sorted_map(st.checks.iter()), sorted_map(st.triggers.iter()), rng.next_u64()).unwrap();
        }
        "batch" => batch_worker(&mut o, preset, seed),
        "crash_sim" => {
            use redis_sim::buggify::{self, FaultConfig};
            use redis_sim::io::simulation::SimulatedRng;
            use redis_sim::io::Rng as IoRng;
            use redis_sim::simulator::crash::{CrashConfig, CrashReason, CrashSimulator, OperationType, PendingOperation};
            use redis_sim::simulator::{HostId, VirtualTime};
            buggify::reset_stats();
            buggify::set_config(FaultConfig::chaos());
            let cfg = if preset == "lossy" { CrashConfig { base_crash_probability: 0.05, min_recovery_time_ms: 1, max_recovery_time_ms: 40, partial_state_loss_probability: 0.6, enable_buggify_crashes: true } } else { CrashConfig::default() };
            let mut cs = CrashSimulator::with_config(cfg);
            let mut rng = SimulatedRng::new(seed);
            let n = 7usize;
            for i in 0..n {
                cs.register_node(HostId(i));
            }
            let mut t = 0u64;
            for i in 0..250 {
                stall_point(i);
                t += rng.gen_range(1, 60);
                let now = VirtualTime::from_millis(t);
                let node = HostId(rng.gen_range(0, n as u64) as usize);
                let what = match rng.gen_range(0, 6) {
                    0 => format!("maybe_crash={}", cs.maybe_crash(&mut rng, node, now)),
                    1 => {
                        cs.crash_node(node, now, if rng.gen_bool(0.5) { CrashReason::BuggifyTriggered } else { CrashReason::OutOfMemory });
                        String::from("crash_node")
                    }
                    2 => format!("start_recovery={:?}", cs.start_recovery(&mut rng, node, now).map(|s| (s.snapshot_time, s.last_ack_seq, s.pending_operations.len()))),
                    3 => {
                        let ops: Vec<PendingOperation> = (0..rng.gen_range(0, 5)).map(|k| PendingOperation { operation_id: i as u64 * 10 + k, operation_type: if k % 2 == 0 { OperationType::Write } else { OperationType::Gossip }, start_time: now, data: vec![k as u8; k as usize] }).collect();
                        cs.checkpoint(node, now, vec![i as u8; (i % 5) as usize], ops, i as u64);
                        String::from("checkpoint")
                    }
                    4 => match cs.get_latest_checkpoint(node).cloned() {
                        Some(snap) => format!("state_loss={:?}", cs.simulate_state_loss(&mut rng, &snap)),
                        None => String::from("state_loss=no-checkpoint"),
                    },
                    _ => format!("advance_time completed={:?}", cs.advance_time(now)),
                };
                let states: Vec<String> = (0..n).map(|k| format!("{:?}", cs.get_state(HostId(k)))).collect();
                writeln!(o, "step[{}] t={} node={:?} {} crashed={:?} recovering={:?} states={:?}", i, t, node, what, cs.crashed_nodes(), cs.recovering_nodes(), states).unwrap();
            }
            let st = cs.stats().clone();
            writeln!(o, "stats total_crashes={} total_recoveries={} by_reason={} state_loss={} avg_bits={:016x} next_rng={}", st.total_crashes, st.total_recoveries, sorted_map(st.crashes_by_reason.iter()), st.total_state_loss_events, st.average_recovery_time_ms.to_bits(), rng.next_u64()).unwrap();
        }
        "zipf" => {
            use redis_sim::io::simulation::SimulatedRng;
            use redis_sim::io::Rng as IoRng;
            use redis_sim::simulator::dst_integration::ZipfianGenerator;
            let mut it = preset.split('_');
            let (nk, sk): (u64, f64) = (it.next().and_then(|x| x.parse().ok()).unwrap_or(10), it.next().and_then(|x| x.parse().ok()).unwrap_or(1.0));
            let z = ZipfianGenerator::new(nk, sk);
            let mut rng = SimulatedRng::new(seed);
            let keys: Vec<u64> = (0..400).map(|_| z.sample(&mut rng)).collect();
            writeln!(o, "samples {:?}", keys).unwrap();
            writeln!(o, "keys {:?} next_rng={}", (0..20).map(|_| z.generate_key(&mut rng)).collect::<Vec<_>>(), rng.next_u64()).unwrap();
        }
        "big" => big_worker(&mut o, preset, seed),
        _ => {
            writeln!(o, "unknown harness").unwrap();
        }
    }
    o
}

/// the public batch drivers (`run_*_batch`, `BatchRunner`) and their summary functions
fn batch_worker(o: &mut String, preset: &str, seed: u64) {
    let base = seed % (u64::MAX - 16); // the drivers compute base_seed + i
    match preset {
        "dst_batches" => {
            use redis_sim::redis::{executor_dst::*, hash_dst::*, list_dst::*, set_dst::*, sorted_set_dst::*, transaction_dst::*};
            let r = run_executor_batch(base, 3, 120, ExecutorDSTConfig::new);
            lines_of(o, "executor", &r);
            writeln!(o, "{}", summarize_executor_batch(&r)).unwrap();
            let r = run_list_batch(base, 3, 100, ListDSTConfig::high_churn);
            lines_of(o, "list", &r);
            writeln!(o, "{}", summarize_list_batch(&r)).unwrap();
            let r = run_set_batch(base, 3, 100, SetDSTConfig::new);
            lines_of(o, "set", &r);
            writeln!(o, "{}", summarize_set_batch(&r)).unwrap();
            let r = run_hash_batch(base, 3, 100, HashDSTConfig::new);
            lines_of(o, "hash", &r);
            writeln!(o, "{}", summarize_hash_batch(&r)).unwrap();
            let r = run_sorted_set_batch(base, 3, 100, SortedSetDSTConfig::new);
            lines_of(o, "zset", &r);
            writeln!(o, "{}", redis_sim::redis::sorted_set_dst::summarize_batch(&r)).unwrap();
            let r = run_transaction_batch(base, 3, 80, TransactionDSTConfig::high_conflict);
            lines_of(o, "txn", &r);
            writeln!(o, "{}", summarize_transaction_batch(&r)).unwrap();
        }
        "crdt_batches" => {
            use redis_sim::replication::crdt_dst::*;
            let mut all = Vec::new();
            all.extend(run_gcounter_batch(base, 3, 60, CRDTDSTConfig::moderate));
            all.extend(run_pncounter_batch(base, 3, 60, CRDTDSTConfig::chaos));
            all.extend(run_orset_batch(base, 3, 60, CRDTDSTConfig::moderate));
            all.extend(run_vectorclock_batch(base, 3, 60, CRDTDSTConfig::calm));
            for (i, r) in all.iter().enumerate() {
                writeln!(o, "crdt[{}] seed={} total={} ops_per_replica={} syncs={} dropped={} converged={} violations={:?}", i, r.seed, r.total_operations, sorted_map(r.ops_per_replica.iter()), r.syncs_performed, r.messages_dropped, r.converged, r.invariant_violations).unwrap();
            }
            writeln!(o, "{}", redis_sim::replication::crdt_dst::summarize_batch(&all)).unwrap();
        }
        "core_batch" => {
            use redis_sim::simulator::dst::*;
            let r = BatchRunner::new(base, 4).with_config(DSTConfig::chaos(0)).run_default(80);
            writeln!(o, "{:?}\n{}", r, r.summary()).unwrap();
            let mut log = Vec::new();
            // the same fault preset as above: this worker installs exactly one preset (chaos),
            // which is what fault_preset_of() tells the history generator
            let r2 = BatchRunner::new(base, 3).with_config(DSTConfig::chaos(0)).run_sequential(40, |sim| {
                let n = sim.random_running_node();
                sim.advance_time(17);
                log.push(format!("{:?} t={:?} id={}", n, sim.current_time(), sim.next_op_id()));
            });
            writeln!(o, "{:?} all_passed={} hooks={:?}", r2, r2.all_passed(), log).unwrap();
        }
        "redis_dst_batch" => {
            use redis_sim::buggify::FaultConfig;
            let r = redis_sim::simulator::dst_integration::run_redis_dst_batch(base, 3, 50, FaultConfig::chaos());
            writeln!(o, "{:?}\n{}", r, r.summary()).unwrap();
        }
        "partition_batch" => {
            use redis_sim::simulator::partition_tests::*;
            fn iso(n: usize) -> PartitionConfig {
                PartitionConfig::isolate_node(1, n)
            }
            let r = run_partition_test_batch("audit", 4 + (seed % 3) as usize, iso, 4);
            writeln!(o, "{:?}\n{} all_converged={}", r, r.summary(), r.all_converged()).unwrap();
        }
        "wal_batch" => {
            use redis_sim::streaming::wal_dst::*;
            let r = run_wal_dst_batch(base..base + 4, WalDSTConfig::chaos());
            lines_of(o, "wal", &r);
            writeln!(o, "{}", summarize_wal_dst_batch(&r)).unwrap();
        }
        _ => {
            let rt = tokio::runtime::Builder::new_current_thread().enable_all().start_paused(true).build().unwrap();
            let (a, b) = rt.block_on(async {
                (
                    redis_sim::streaming::dst::run_dst_batch(base, 3, 60, redis_sim::streaming::dst::StreamingDSTConfig::moderate).await,
                    redis_sim::streaming::compaction_dst::run_compaction_dst_batch(base, 3, 60, redis_sim::streaming::compaction_dst::CompactionDSTConfig::chaos).await,
                )
            });
            lines_of(o, "streaming", &a);
            writeln!(o, "{}", redis_sim::streaming::dst::summarize_batch(&a)).unwrap();
            lines_of(o, "compaction", &b);
            writeln!(o, "{}", redis_sim::streaming::compaction_dst::summarize_compaction_batch(&b)).unwrap();
        }
    }
}

/// size boundaries of constants on the simulation paths
fn big_worker(o: &mut String, preset: &str, seed: u64) {
    let mut w = ChaCha8Rng::seed_from_u64(seed ^ 0xB16B_16B1);
    match preset {
        p if p.starts_with("multi_node_heal_") => {
            // AntiEntropyConfig::max_keys_per_sync = 1000: after the first heal node 2 holds all
            // nkeys keys, so the second sync carries limit-1, limit, limit+1, 1.2 x limit keys
            let nkeys: usize = p["multi_node_heal_".len()..].trim_end_matches("keys").parse().unwrap_or(1200);
            let mut sim = MultiNodeSimulation::new(3, seed);
            sim.partition(0, 2);
            sim.partition(1, 2);
            for i in 0..nkeys {
                let node = if i % 3 == 2 { 2 } else { i % 2 };
                sim.execute(0, node, Command::set(format!("k{}", i), SDS::from_str(&format!("v{}_{}", i, w.gen_range(0..10)))));
                if i % 100 == 0 {
                    sim.advance_time_ms(10);
                    sim.gossip_round();
                }
            }
            for _ in 0..3 {
                sim.advance_time_ms(12);
                sim.gossip_round();
            }
            // class predicate of the known finding C20-anti-entropy-over-limit, from the state
            // before each sync: a side of the healed pair holds more keys than one sync may carry
            let limit = redis_sim::replication::anti_entropy::AntiEntropyConfig::default().max_keys_per_sync;
            let mut over = false;
            for (a, b) in [(0usize, 2usize), (1, 2)] {
                let held: Vec<usize> = [a, b].iter().map(|n| sim.nodes[*n].replica_state.replicated_keys.len()).collect();
                over |= held.iter().any(|k| *k > limit);
                writeln!(o, "heal {}-{}: keys held {:?} (max_keys_per_sync={})", a, b, held, limit).unwrap();
                sim.heal_partition(a, b);
            }
            writeln!(o, "#class anti_entropy_over_limit={}", over).unwrap();
            for _ in 0..3 {
                sim.advance_time_ms(12);
                sim.gossip_round();
            }
            sim.execute(0, 2, Command::set("after".into(), SDS::from_str("x")));
            sim.converge(5);
            for (i, node) in sim.nodes.iter().enumerate() {
                let rk: BTreeMap<&String, String> = node.replica_state.replicated_keys.iter().map(|(k, v)| (k, serde_json::to_value(v).map(|j| j["timestamp"].to_string()).unwrap_or_default())).collect();
                writeln!(o, "node[{}] clock={} keys={} stamps={:?}", i, node.replica_state.lamport_clock.time, rk.len(), rk).unwrap();
            }
            writeln!(o, "syncs={} queue_left={} next_rng={}", sim.anti_entropy_syncs, sim.message_queue.len(), sim.rng.next_u64()).unwrap();
        }
        "multi_node_full_anti_entropy" => {
            let mut sim = MultiNodeSimulation::new_without_anti_entropy(4, seed).with_packet_loss(0.5).with_message_delay(0, 0);
            sim.partition(0, 3);
            for i in 0..60 {
                sim.execute(0, i % 4, Command::set(format!("k{}", i % 25), SDS::from_str(&format!("v{}", i))));
                if i % 7 == 0 {
                    sim.advance_time_ms(3);
                    sim.gossip_round();
                }
            }
            sim.heal_partition(0, 3);
            sim.run_full_anti_entropy();
            let deltas = sim.nodes[0].get_all_deltas();
            let mut keys: Vec<&String> = deltas.iter().map(|d| &d.key).collect();
            keys.sort(); // get_all_deltas lists a map
            writeln!(o, "syncs={} all_deltas={:?} count_gossip={:?}", sim.anti_entropy_syncs, keys, sim.count_gossip_messages(&deltas)).unwrap();
            for k in 0..25 {
                let key = format!("k{}", k);
                writeln!(o, "{} = {:?} converged={}", key, sim.get_all_values(&key), sim.check_key_convergence(&key)).unwrap();
            }
            for (i, node) in sim.nodes.iter().enumerate() {
                let dg = node.generate_digest();
                writeln!(o, "node[{}] clock={} digest root={} keys={} max_ts={}", i, node.replica_state.lamport_clock.time, dg.root_hash, dg.key_count, dg.max_timestamp).unwrap();
            }
        }
        "connection_8k_boundary" | "connection_64k_values" => {
            use redis_sim::simulator::connection::*;
            // parse_buffer / response_buffer start at 8192 bytes: pipelines whose encoding ends
            // at 8191, 8192, 8193 bytes and beyond; values of 64 KiB
            let mut conn = SimulatedConnection::new(seed).with_partial_reads(0.4);
            let sizes: Vec<usize> = if preset.contains("64k") { vec![65535, 65536, 65537, 1 << 20] } else { vec![8100, 8150, 8191 - 40, 8192 - 40, 8193 - 40, 16384, 3] };
            for (round, sz) in sizes.iter().enumerate() {
                stall_point(round);
                let val = "x".repeat(*sz);
                conn.send_pipeline(vec![Command::set(format!("k{}", round), SDS::from_str(&val)), Command::Get(format!("k{}", round)), Command::StrLen(format!("k{}", round)), Command::Ping(None)]);
                let rs = if w.gen_bool(0.5) { conn.process() } else { conn.process_with_partial_arrivals(2) };
                let shown: Vec<String> = rs.iter().map(|r| { let t = format!("{:?}", r); format!("{}..len{}", t.chars().take(40).collect::<String>(), t.len()) }).collect();
                writeln!(o, "round[{}] size={} responses={:?}", round, sz, shown).unwrap();
            }
            writeln!(o, "flushes={} bytes_per_flush={:?} executed={} history={}", conn.flush_count(), conn.bytes_per_flush(), conn.commands_executed(), conn.history().len()).unwrap();
            let mut rb = SimulatedReadBuffer::new(seed).with_partial_reads(0.7);
            rb.queue_pipeline((0..40).map(|i| Command::set(format!("r{}", i), SDS::from_str(&"y".repeat(200 + i)))).collect());
            rb.flush_n_to_buffer(17);
            let mut reads = Vec::new();
            while let Some(b) = rb.read() {
                reads.push(b.len());
                if reads.len() > 10_000 {
                    break;
                }
            }
            rb.flush_to_buffer();
            while let Some(b) = rb.read() {
                reads.push(b.len());
                if reads.len() > 20_000 {
                    break;
                }
            }
            writeln!(o, "read_buffer chunks={:?} pending={} {}", reads, rb.pending_commands(), rb.pending_bytes()).unwrap();
        }
        "wal_tiny_files" | "wal_64k_files_1000_writes" => {
            use redis_sim::streaming::wal_dst::*;
            use redis_sim::streaming::wal_store::SimulatedWalStoreConfig;
            let cfg = if preset == "wal_tiny_files" {
                WalDSTConfig { num_writes: 130, max_file_size: 64, store_config: SimulatedWalStoreConfig::default(), simulate_crash: true, fsync_after_write: false }
            } else {
                WalDSTConfig { num_writes: 1000, max_file_size: 65536, store_config: SimulatedWalStoreConfig::high_chaos(), simulate_crash: true, fsync_after_write: true }
            };
            let r = WalDSTHarness::new(seed, cfg).run();
            writeln!(o, "result {:?}", r).unwrap();
        }
        "executor_3000_ops" => {
            use redis_sim::redis::executor_dst::*;
            let mut h = ExecutorDSTHarness::new(ExecutorDSTConfig::chaos(seed));
            h.run(3000);
            let r = h.result();
            writeln!(o, "verdict success={} summary={} last={:?}", r.is_success(), r.summary().replace('\n', " | "), r.last_op).unwrap();
            lines_of(o, "violation", &r.invariant_violations);
            dump_executor(o, "state", h.executor());
        }
        _ => {
            use redis_sim::streaming::dst::*;
            let cfg = StreamingDSTConfig::moderate(seed);
            let rt = tokio::runtime::Builder::new_current_thread().enable_all().start_paused(true).build().unwrap();
            let r = rt.block_on(async {
                let mut h = StreamingDSTHarness::new(cfg).await;
                h.run(600).await;
                h.check_invariants().await;
                h.into_result()
            });
            lines_of(o, "op", &r.history);
            lines_of(o, "violation", &r.invariant_violations);
            writeln!(o, "verdict success={} total={} flushes={} crashes={} store_stats={:?}", r.is_success(), r.total_operations, r.flushes, r.crashes, r.store_stats).unwrap();
        }
    }
}

fn print_sim_result(o: &mut String, r: &redis_sim::simulator::dst::SimulationResult) {
    lines_of(o, "op", &r.operation_history);
    lines_of(o, "error", &r.errors);
    // operations_by_type and the buggify counters are HashMap fields: printed sorted by key
    writeln!(
        o,
        "verdict success={} seed={} total_time_ms={} total_operations={} by_type={} crashes={} recoveries={} linearizable={} converged={} buggify_checks={} buggify_triggers={}",
        r.is_success(), r.seed, r.total_time_ms, r.total_operations, sorted_map(r.operations_by_type.iter()), r.crashes, r.recoveries, r.linearizable, r.converged,
        sorted_map(r.buggify_stats.checks.iter()), sorted_map(r.buggify_stats.triggers.iter())
    )
    .unwrap();
}

/// scripted cluster scenario; every choice of the script derives from the seed
fn multi_node_worker(o: &mut String, preset: &str, seed: u64) {
    let (mut sim, n, heal) = match preset {
        "broadcast3" => (MultiNodeSimulation::new(3, seed), 3, false),
        "broadcast5_loss30" => (MultiNodeSimulation::new(5, seed).with_packet_loss(0.3), 5, true),
        "partitioned5_rf3" => (MultiNodeSimulation::new_partitioned(5, 3, seed), 5, false),
        "partitioned8_rf3_loss20_delay30" => (MultiNodeSimulation::new_partitioned(8, 3, seed).with_packet_loss(0.2).with_message_delay(1, 30), 8, false),
        "partitioned5_rf2_loss30_heal" => (MultiNodeSimulation::new_partitioned(5, 2, seed).with_packet_loss(0.3), 5, true),
        _ => (MultiNodeSimulation::new_partitioned(5, 3, seed).with_packet_loss(0.3), 5, false),
    };
    let mut w = ChaCha8Rng::seed_from_u64(seed ^ 0x6055_1900);
    let keys: Vec<String> = (0..10).map(|i| format!("key_{}", i)).collect();
    let mut cut: Vec<(usize, usize)> = Vec::new();
    for round in 0..30 {
        stall_point(round);
        for c in 0..w.gen_range(0..4usize) {
            let node = w.gen_range(0..n);
            let k = keys[w.gen_range(0..keys.len())].clone();
            let cmd = if w.gen_bool(0.15) { Command::del(k) } else { Command::set(k, SDS::from_str(&format!("v{}_{}_{}", round, c, node))) };
            sim.execute(c, node, cmd);
        }
        if heal && w.gen_bool(0.2) {
            let (a, b) = (w.gen_range(0..n), w.gen_range(0..n));
            if a != b {
                sim.partition(a, b);
                cut.push((a, b));
            }
        }
        if heal && w.gen_bool(0.15) && !cut.is_empty() {
            let (a, b) = cut.remove(0);
            sim.heal_partition(a, b);
        }
        sim.advance_time_ms(w.gen_range(1..15));
        sim.gossip_round();
        // the in-flight queue is a sequence (VecDeque): printed in order
        let q: Vec<String> = sim
            .message_queue
            .iter()
            .map(|m| format!("{}->{}@{}:{}", m.from, m.to, m.delivery_time.0, m.deltas.iter().map(|d| d.key.clone()).collect::<Vec<_>>().join("+")))
            .collect();
        writeln!(o, "round[{}] t={} queue=[{}]", round, sim.current_time.0, q.join(" ")).unwrap();
        for k in &keys {
            writeln!(o, "round[{}]   {} = {:?}", round, k, sim.get_all_values(k)).unwrap();
        }
    }
    for (a, b) in cut {
        sim.heal_partition(a, b);
    }
    sim.converge(10);
    for k in &keys {
        writeln!(o, "final {} = {:?} converged={}", k, sim.get_all_values(k), sim.check_key_convergence(k)).unwrap();
    }
    for (i, node) in sim.nodes.iter().enumerate() {
        // replicated_keys is a map: printed sorted by key
        let rk: BTreeMap<&String, String> = node
            .replica_state
            .replicated_keys
            .iter()
            .map(|(k, v)| (k, serde_json::to_value(v).map(|j| j.to_string()).unwrap_or_default()))
            .collect();
        writeln!(o, "node[{}] clock={} replicated={:?}", i, node.replica_state.lamport_clock.time, rk).unwrap();
        dump_executor(o, &format!("node[{}]", i), &node.executor);
    }
    let lin = redis_sim::simulator::multi_node::check_single_key_linearizability(&sim.history, "key_0");
    writeln!(o, "history_len={} anti_entropy_syncs={} queue_left={} lin={:?} next_rng={}", sim.history.len(), sim.anti_entropy_syncs, sim.message_queue.len(), lin, sim.rng.next_u64()).unwrap();
}

fn run_worker_caught(h: &str, p: &str, s: u64) -> String {
    match catch_unwind(AssertUnwindSafe(|| worker(h, p, s))) {
        Ok(o) => o,
        Err(e) => {
            let msg = e.downcast_ref::<String>().cloned().or_else(|| e.downcast_ref::<&str>().map(|x| x.to_string())).unwrap_or_default();
            format!("harness={} preset={} seed={}\nPANIC {}\n", h, p, s, msg)
        }
    }
}

// ---------------------------------------------------------------------------------------
// kernel cases (Coq correspondence)
// ---------------------------------------------------------------------------------------

/// smallest x with !(x as f64 / u64::MAX as f64 < p), i.e. gen_bool(p) on raw draw r  <=>  r < T
/// (the predicate is monotone in x: u64 -> f64 conversion and division by a positive constant
/// are monotone)
fn loss_threshold(p: f64) -> u128 {
    let f = |x: u64| (x as f64 / u64::MAX as f64) < p;
    if f(u64::MAX) {
        return 1u128 << 64;
    }
    let (mut lo, mut hi) = (0u64, u64::MAX); // f(hi) false; answer in [lo, hi]
    while lo < hi {
        let mid = lo + (hi - lo) / 2;
        if f(mid) { lo = mid + 1 } else { hi = mid }
    }
    lo as u128
}

fn ids(ks: impl Iterator<Item = u64>) -> String {
    clist(ks, |x| x.to_string())
}
fn key_id(k: &str) -> u64 {
    k[1..].parse().unwrap()
}

struct KernelCase {
    term: String,
    nontrivial: bool,
    canon: String,
    text: String,
    kind: String,
}

fn kernel_case(seed: u64, i: u64) -> KernelCase {
    let mut g = case_rng(seed, i);
    let n = g.gen_range(2..7usize);
    let selective = g.gen_bool(0.7);
    let rf = g.gen_range(1..4usize).min(n);
    let sim_seed: u64 = g.gen();
    let loss = [0.0, 0.0, 0.1, 0.3, 0.3, 0.5, 0.9, 1.0][g.gen_range(0..8)];
    let (dmin, dmax) = [(1u64, 10u64), (1, 10), (5, 5), (0, 0), (1, 30), (20, 40), (0, 3)][g.gen_range(0..7)];
    let mut sim = if selective { MultiNodeSimulation::new_partitioned(n, rf, sim_seed) } else { MultiNodeSimulation::new(n, sim_seed) };
    // anti-entropy is outside the kernel model: switched off
    sim = sim.with_auto_anti_entropy(false).with_packet_loss(loss).with_message_delay(dmin, dmax);
    let mut steps: Vec<String> = Vec::new();
    let mut obs: Vec<String> = Vec::new();
    let mut text = String::new();
    let mut next_id = 0u64;
    let mut local: Vec<BTreeSet<u64>> = vec![BTreeSet::new(); n];
    let mut sends = 0usize;
    let mut multi_target_tables = 0usize;
    let rounds = g.gen_range(3..9);
    for _ in 0..rounds {
        for _ in 0..g.gen_range(0..5usize) {
            let node = g.gen_range(0..n);
            let key = format!("k{}", next_id);
            sim.execute(0, node, Command::set(key, SDS::from_str("v")));
            local[node].insert(next_id);
            next_id += 1;
        }
        match g.gen_range(0..6) {
            0 => {
                let (a, b) = (g.gen_range(0..n), g.gen_range(0..n));
                sim.partition(a, b);
                steps.push(format!("SP {} {}", a, b));
            }
            1 => {
                let (a, b) = (g.gen_range(0..n), g.gen_range(0..n));
                sim.heal_partition(a, b);
                steps.push(format!("SH {} {}", a, b));
            }
            _ => {}
        }
        let ms = g.gen_range(0..16u64);
        sim.advance_time_ms(ms);
        steps.push(format!("SA {}", ms));
        // the plans of this round: what each node is about to send (pending deltas are a pub
        // field; the routing table is computed by the node's own router and printed sorted by
        // target - its iteration order is the hidden input the model must not depend on)
        let mut plans: Vec<String> = Vec::new();
        for from in 0..n {
            let pending = sim.nodes[from].replica_state.pending_deltas.clone();
            if let Some(router) = sim.gossip_routers.get(&from) {
                let table = router.route_deltas(pending);
                let t: BTreeMap<u64, Vec<u64>> = table.iter().map(|(r, ds)| (r.0, ds.iter().map(|d| key_id(&d.key)).collect())).collect();
                sends += t.len();
                if t.len() > 1 {
                    multi_target_tables += 1;
                }
                plans.push(format!("PS {}", clist(t.iter(), |(r, ds)| format!("({}, {})", r, ids(ds.iter().copied())))));
            } else {
                if !pending.is_empty() {
                    sends += n - 1;
                }
                plans.push(format!("PB {}", ids(pending.iter().map(|d| key_id(&d.key)))));
            }
        }
        steps.push(format!("SR {}", clist(plans.iter(), |p| format!("({})", p))));
        sim.gossip_round();
        let q = clist(sim.message_queue.iter(), |m| format!("({}, {}, {}, {})", m.from, m.to, ids(m.deltas.iter().map(|d| key_id(&d.key))), m.delivery_time.0));
        let got: Vec<String> = (0..n)
            .map(|j| {
                let held: BTreeSet<u64> = sim.nodes[j].replica_state.replicated_keys.keys().map(|k| key_id(k)).collect();
                ids(held.difference(&local[j]).copied())
            })
            .collect();
        writeln!(text, "after round: queue={} received={:?}", q, got).unwrap();
        obs.push(format!("O {} {}", q, clist(got.iter(), |s| s.clone())));
    }
    let ndraws = 2 * sends + 2;
    let mut r = DeterministicRng::new(sim_seed);
    let draws: Vec<u64> = (0..ndraws).map(|_| r.next_u64()).collect();
    let next = sim.rng.next_u64();
    let t = loss_threshold(loss);
    let term = format!(
        "K20 {} {} {} {} {} {} {} {}",
        n,
        dmin,
        dmax,
        t,
        clist(draws.iter(), |d| d.to_string()),
        clist(steps.iter(), |s| format!("({})", s)),
        clist(obs.iter(), |s| format!("({})", s)),
        next
    );
    let canon = format!("{} {:?} {:?}", n, steps, obs);
    KernelCase {
        term,
        nontrivial: selective && multi_target_tables > 0 && loss > 0.0 && loss < 1.0,
        canon,
        text: format!("kernel case: n={} selective={} rf={} sim_seed={} loss={} delay=({},{}) steps={:?}\n{}next_draw={}", n, selective, rf, sim_seed, loss, dmin, dmax, steps, text, next),
        kind: format!("kernel:{}:loss{}", if selective { "selective" } else { "broadcast" }, loss),
    }
}

// ---------------------------------------------------------------------------------------
// default role: enumerate, spawn, compare
// ---------------------------------------------------------------------------------------

/// triples are numbered from TRIPLE_BASE so that a case index means the same with any --n
const TRIPLE_BASE: u64 = 1_000_000;

fn triple_of(seed: u64, dseeds: u64, idx: u64) -> Option<(String, String, u64)> {
    let t = idx.checked_sub(TRIPLE_BASE)?;
    let mut pairs: Vec<(&str, &str)> = Vec::new();
    for (h, ps) in HARNESSES {
        for p in *ps {
            pairs.push((h, p));
        }
    }
    let (pi, k) = ((t / dseeds) as usize, t % dseeds);
    let (h, p) = *pairs.get(pi)?;
    // the first two seeds of every pair are the small literals the repo's own tests use;
    // the others derive from (seed, idx)
    // the third is a u64 extreme (0, MAX, 2^63, around 2^32, ids equal mod 2^k); the others derive from (seed, idx)
    const EXTREME: [u64; 8] = [0, u64::MAX, 1 << 63, 1 << 32, (1 << 32) + 1, u64::MAX - 1, (1 << 63) - 1, 64];
    let s = if k < 2 { k * 41 + 1 } else if k == 2 { EXTREME[pi % 8] } else { case_rng(seed, idx).gen_range(0..1_000_000_000u64) };
    Some((h.to_string(), p.to_string(), s))
}

#[derive(Clone, Copy, PartialEq)]
enum Dilation {
    None,
    /// the worker sleeps before selected steps
    Stall,
    /// the parent stops the child with SIGSTOP / SIGCONT
    Stop,
    /// not a dilation: the worker runs the target on a thread with a history (seed of the history)
    History(u64),
}

fn signal(pid: u32, sig: &str) {
    // no libc dependency in the harness crate: the shell's kill builtin
    let _ = std::process::Command::new("sh").args(["-c", &format!("kill -{} {}", sig, pid)]).status();
}

fn spawn_worker(h: &str, p: &str, s: u64, mode: Dilation) -> String {
    use std::io::Read;
    let exe = std::env::current_exe().unwrap();
    let mut cmd = std::process::Command::new(exe);
    cmd.args(["--role", "worker", "--harness", h, "--preset", p, "--hseed", &s.to_string()]);
    if mode == Dilation::Stall {
        cmd.args(["--dilate", "stall"]);
    }
    if let Dilation::History(hs) = mode {
        cmd.args(["--history", &hs.to_string()]);
    }
    if mode != Dilation::Stop {
        let out = cmd.output().expect("spawn worker");
        let mut t = String::from_utf8_lossy(&out.stdout).to_string();
        if !out.status.success() {
            writeln!(t, "WORKER EXIT {:?}", out.status.code()).unwrap();
        }
        return t;
    }
    // "stop" dilation: the child's wall clock runs ~25x faster than its own progress
    let mut child = cmd.stdout(std::process::Stdio::piped()).stderr(std::process::Stdio::null()).spawn().expect("spawn worker");
    let mut pipe = child.stdout.take().unwrap();
    let reader = std::thread::spawn(move || {
        let mut buf = Vec::new();
        let _ = pipe.read_to_end(&mut buf);
        buf
    });
    let pid = child.id();
    let mut stops = 0;
    let status = loop {
        std::thread::sleep(std::time::Duration::from_millis(3));
        if let Ok(Some(st)) = child.try_wait() {
            break st;
        }
        if stops < 40 {
            stops += 1;
            signal(pid, "STOP");
            std::thread::sleep(std::time::Duration::from_millis(STALL_MS));
            signal(pid, "CONT");
        } else {
            break child.wait().expect("wait");
        }
    };
    let mut t = String::from_utf8_lossy(&reader.join().unwrap_or_default()).to_string();
    if !status.success() {
        writeln!(t, "WORKER EXIT {:?}", status.code()).unwrap();
    }
    t
}

/// harnesses with a step loop the worker can stall in
const STALLABLE: &[&str] = &["executor", "list", "set", "hash", "sorted_set", "transaction", "crdt_gcounter", "crdt_pncounter", "crdt_orset", "crdt_vectorclock", "multi_node", "core_dst", "redis_dst", "streaming", "compaction", "connection", "event_sim", "io_sim", "redis_dst_dist", "crash_sim"];
/// harnesses that touch persistence, WAL, compaction, TTL/expiry, clock skew or BUGGIFY timing:
/// every one of their triples gets the dilated runs (the others: a seeded quarter)
const CLOCK_SENSITIVE: &[&str] = &["streaming", "compaction", "wal", "executor", "scenario", "redis_dst", "core_dst", "io_sim", "connection", "redis_dst_dist", "batch", "crash_sim", "big"];

fn first_diff(a: &str, b: &str) -> (usize, String, String) {
    let (la, lb): (Vec<&str>, Vec<&str>) = (a.lines().collect(), b.lines().collect());
    for i in 0..la.len().max(lb.len()) {
        let (x, y) = (la.get(i).copied().unwrap_or("<end of output>"), lb.get(i).copied().unwrap_or("<end of output>"));
        if x != y {
            // long lines: a window around the first differing character
            let (cx, cy): (Vec<char>, Vec<char>) = (x.chars().collect(), y.chars().collect());
            let common = cx.iter().zip(cy.iter()).take_while(|(a, b)| a == b).count();
            let from = common.saturating_sub(120);
            let cut = |c: &Vec<char>| format!("{}{}", if from > 0 { format!("<{} chars> ...", from) } else { String::new() }, c.iter().skip(from).take(420).collect::<String>());
            return (i + 1, cut(&cx), cut(&cy));
        }
    }
    (0, String::new(), String::new())
}

struct Diff {
    idx: u64,
    h: String,
    p: String,
    s: u64,
    a: String,
    b: String,
    c: String,
    c2: String,
    /// dilated runs: (mode name, output)
    dil: Vec<(&'static str, String)>,
    /// history runs: (seed of the history, R's output, the "#history" line)
    hist: Vec<(u64, String, String)>,
}

/// the fields that report the thread's BUGGIFY counters, cut off (known finding
/// C20-ambient-buggify-stats: they count every simulation on the thread)
fn mask_stats(t: &str) -> String {
    t.lines()
        .map(|l| match l.find("buggify_checks=").or_else(|| if l.starts_with("buggify checks=") { Some(0) } else { None }) {
            Some(i) => &l[..i],
            None => l,
        })
        .collect::<Vec<_>>()
        .join("\n")
}

fn run_triple(idx: u64, h: &str, p: &str, s: u64, dilate: bool, nhist: u64) -> Diff {
    let a = spawn_worker(h, p, s, Dilation::None);
    let b = spawn_worker(h, p, s, Dilation::None);
    let mut dil = Vec::new();
    if dilate {
        if STALLABLE.contains(&h) {
            dil.push(("stall", spawn_worker(h, p, s, Dilation::Stall)));
        }
        // the generic mode: always for harnesses that run in one call, else for every other case
        if !STALLABLE.contains(&h) || idx % 2 == 0 {
            dil.push(("stop", spawn_worker(h, p, s, Dilation::Stop)));
        }
    }
    // third and fourth run inside this (long-lived) process, one after the other on one thread
    // (thread-local simulator state, if any, is carried from the first to the second)
    let (h2, p2) = (h.to_string(), p.to_string());
    let (c, c2) = std::thread::spawn(move || (run_worker_caught(&h2, &p2, s), run_worker_caught(&h2, &p2, s)))
        .join()
        .unwrap_or_else(|_| ("IN-PROCESS RUN DIED\n".to_string(), String::new()));
    // history independence: R on a thread that ran / is running other simulations
    let mut hist = Vec::new();
    for k in 0..nhist {
        let hseed = fx(&format!("history {} {} {} {}", h, p, s, k)) ^ idx;
        let raw = spawn_worker(h, p, s, Dilation::History(hseed));
        let (body, meta) = match raw.rfind("#history ") {
            Some(i) => (raw[..i].to_string(), raw[i..].trim_end().to_string()),
            None => (raw, String::from("#history <missing>")),
        };
        hist.push((hseed, body, meta));
    }
    Diff { idx, h: h.to_string(), p: p.to_string(), s, a, b, c, c2, dil, hist }
}

fn main() {
    let a: Vec<String> = std::env::args().collect();
    let args = &Args::parse(&a[1..]);
    if args.extra.get("role").map(|s| s.as_str()) == Some("worker") {
        std::panic::set_hook(Box::new(|_| {}));
        let h = args.extra.get("harness").cloned().unwrap_or_default();
        let p = args.extra.get("preset").cloned().unwrap_or_default();
        let s = args.get("hseed", 0);
        if args.extra.get("dilate").map(|m| m.as_str()) == Some("stall") {
            let mut st = STALL.lock().unwrap();
            st.on = true;
            st.seed = s;
        }
        if let Some(hs) = args.extra.get("history").and_then(|x| x.parse::<u64>().ok()) {
            print!("{}", worker_with_history(&h, &p, s, hs));
            return;
        }
        print!("{}", run_worker_caught(&h, &p, s));
        return;
    }
    std::panic::set_hook(Box::new(|_| {}));
    let mut out = Out::new(&args.out, "C20", args.shards, HEADER);
    out.nontrivial_rule = "cases 0..n: kernel cases = scripted MultiNodeSimulation runs (2-6 nodes, broadcast or selective rf 1-3, loss 0/.1/.3/.5/.9/1, five delay ranges, 3-8 gossip rounds with writes, partitions, heals, time advances) printed for the Coq model; non-trivial = selective routing with a routing table of >= 2 targets and 0 < loss < 1 (the iteration order decides which target gets which draw); distinct by script and observed queues. cases 1000000..: (harness, preset, seed) triples, each run in two child processes and once in-process, outputs compared byte for byte (counted in impl_property_checks and the harness:<name> counters); plus, for every triple of a clock-sensitive harness and a seeded quarter of the others, runs under time dilation (dilated:<mode>:<harness> counters) that must give the same bytes".into();
    let dseeds = args.get("dseeds", 3).max(1);
    let n_pairs: u64 = HARNESSES.iter().map(|(_, ps)| ps.len() as u64).sum();
    let n_triples = n_pairs * dseeds;
    let range: Vec<u64> = match args.only { Some(i) => vec![i], None => (0..args.n).chain(TRIPLE_BASE..TRIPLE_BASE + n_triples).collect() };

    // kernel cases
    for &i in range.iter().filter(|&&i| i < TRIPLE_BASE) {
        let k = kernel_case(args.seed, i);
        out.count(&k.kind);
        if args.only.is_some() {
            println!("{}\nCoq term:\n{}", k.text, k.term);
        }
        out.sample(json!({"kernel_case": i, "term": k.term.chars().take(400).collect::<String>()}));
        out.case(i, k.term, k.nontrivial, &k.canon);
    }

    // differential triples, a few at a time in parallel
    let todo: Vec<(u64, String, String, u64)> = range.iter().filter(|&&i| i >= TRIPLE_BASE).filter_map(|&i| triple_of(args.seed, dseeds, i).map(|(h, p, s)| (i, h, p, s))).collect();
    let work = std::sync::Arc::new(std::sync::Mutex::new(todo.into_iter()));
    let results = std::sync::Arc::new(std::sync::Mutex::new(Vec::<Diff>::new()));
    let replaying = args.only.is_some();
    // dilated runs cost ~0.3-1 s each: the first `dilate_seeds` seeds of every preset of a
    // clock-sensitive harness, and a seeded quarter of the other triples
    let dilate_seeds = args.get("dilate_seeds", dseeds);
    let wants_dilation = move |idx: u64, h: &str| -> bool {
        let k = (idx - TRIPLE_BASE) % dseeds;
        replaying || (k < dilate_seeds && (CLOCK_SENSITIVE.contains(&h) || fx(&format!("dilate{}", idx)) % 4 == 0))
    };
    let nhist = if replaying { args.get("histories", 2).max(4) } else { args.get("histories", 2) };
    let threads: Vec<_> = (0..args.get("jobs", 8))
        .map(|_| {
            let (work, results) = (work.clone(), results.clone());
            std::thread::spawn(move || loop {
                let item = work.lock().unwrap().next();
                match item {
                    Some((i, h, p, s)) => {
                        let dl = wants_dilation(i, &h);
                        let mut d = run_triple(i, &h, &p, s, dl, nhist);
                        // a replay repeats the comparison a few times: which iteration order a
                        // process draws is random, so one pair of runs can agree by chance
                        let mut tries = if replaying { 7 } else { 0 };
                        while tries > 0 && d.a == d.b && d.a == d.c && d.a == d.c2 && d.dil.iter().all(|(_, x)| *x == d.a) && d.hist.iter().all(|(_, x, _)| *x == d.a) {
                            d = run_triple(i, &h, &p, s, dl, nhist);
                            tries -= 1;
                        }
                        results.lock().unwrap().push(d);
                    }
                    None => break,
                }
            })
        })
        .collect();
    for t in threads {
        t.join().unwrap();
    }
    let mut results = std::mem::take(&mut *results.lock().unwrap());
    results.sort_by_key(|d| d.idx);
    let (mut panics_shown, mut triple_samples) = (0, 0);
    let mut extra_samples: Vec<serde_json::Value> = Vec::new();
    for d in results {
        out.impl_checks += 3; // process A vs process B, process A vs in-process run 1, vs in-process run 2
        out.count(&format!("harness:{}", d.h));
        if d.a.lines().count() < 2 || d.a.contains("unknown harness") {
            out.violation(d.idx, "worker produced no output", json!({"harness": d.h, "preset": d.p, "hseed": d.s, "output": d.a.chars().take(500).collect::<String>()}));
            continue;
        }
        if d.a.contains("\nPANIC ") {
            // the harness itself panicked (the same way in every run, or a difference is reported below)
            out.count(&format!("harness-panicked:{}:{}", d.h, d.p));
            if panics_shown < 2 {
                panics_shown += 1;
                extra_samples.push(json!({"harness_panicked": d.h, "preset": d.p, "hseed": d.s, "message": d.a.lines().last().unwrap_or("").chars().take(300).collect::<String>()}));
            }
        }
        if triple_samples < 2 {
            triple_samples += 1;
            extra_samples.push(json!({"harness": d.h, "preset": d.p, "hseed": d.s, "output_lines": d.a.lines().count(), "last_line": d.a.lines().last().unwrap_or("").chars().take(300).collect::<String>()}));
        }
        if args.only.is_some() {
            println!("triple case {}: harness={} preset={} seed={}\n---- process A ({} lines) ----\n{}", d.idx, d.h, d.p, d.s, d.a.lines().count(), d.a.lines().rev().take(12).collect::<Vec<_>>().into_iter().rev().collect::<Vec<_>>().join("\n"));
            println!("replay by hand: {} --role worker --harness {} --preset {} --hseed {}", std::env::current_exe().unwrap().display(), d.h, d.p, d.s);
        }
        let over_limit = d.a.contains("#class anti_entropy_over_limit=true");
        if over_limit && (d.a != d.b || d.a != d.c || d.a != d.c2 || d.dil.iter().any(|(_, x)| *x != d.a) || d.hist.iter().any(|(_, x, _)| *x != d.a)) {
            // known finding: which keys a sync carries beyond max_keys_per_sync is HashMap order
            let other = [&d.b, &d.c, &d.c2].into_iter().chain(d.dil.iter().map(|(_, x)| x)).chain(d.hist.iter().map(|(_, x, _)| x)).find(|x| **x != d.a).unwrap();
            let (ln, x, y) = first_diff(&d.a, other);
            out.known("C20-anti-entropy-over-limit", d.idx, json!({"harness": d.h, "preset": d.p, "hseed": d.s, "line": ln, "process_a": x, "other_run": y}));
            if args.only.is_some() {
                println!("DIFFERENT (class anti_entropy_over_limit) at line {}:\n  A: {}\n  other: {}", ln, x, y);
            }
            continue;
        }
        if d.a != d.b {
            let (ln, x, y) = first_diff(&d.a, &d.b);
            out.violation(
                d.idx,
                &format!("harness {} preset {} seed {}: two processes give different output (first difference at line {})", d.h, d.p, d.s, ln),
                json!({"harness": d.h, "preset": d.p, "hseed": d.s, "between": "child process A vs child process B", "line": ln, "process_a": x, "process_b": y}),
            );
            if args.only.is_some() {
                println!("DIFFERENT across processes at line {}:\n  A: {}\n  B: {}", ln, x, y);
            }
        } else if d.a != d.c {
            let (ln, x, y) = first_diff(&d.a, &d.c);
            out.violation(
                d.idx,
                &format!("harness {} preset {} seed {}: child process and in-process run give different output (first difference at line {})", d.h, d.p, d.s, ln),
                json!({"harness": d.h, "preset": d.p, "hseed": d.s, "between": "child process A vs run inside the driver process", "line": ln, "process_a": x, "in_process": y}),
            );
            if args.only.is_some() {
                println!("DIFFERENT child vs in-process at line {}:\n  A: {}\n  C: {}", ln, x, y);
            }
        } else if d.a != d.c2 {
            let (ln, x, y) = first_diff(&d.a, &d.c2);
            out.violation(
                d.idx,
                &format!("harness {} preset {} seed {}: the second of two consecutive runs in one process differs from a fresh process (first difference at line {})", d.h, d.p, d.s, ln),
                json!({"harness": d.h, "preset": d.p, "hseed": d.s, "between": "child process A vs second consecutive run inside the driver process", "line": ln, "process_a": x, "in_process_second": y}),
            );
            if args.only.is_some() {
                println!("DIFFERENT child vs second in-process run at line {}:\n  A: {}\n  C2: {}", ln, x, y);
            }
        } else if let Some((mode, x)) = d.dil.iter().find(|(_, x)| *x != d.a) {
            let (ln, xa, xd) = first_diff(&d.a, x);
            out.violation(
                d.idx,
                &format!("harness {} preset {} seed {}: the run depends on wall-clock time - output under time dilation (mode {}) differs from the undilated run (first difference at line {})", d.h, d.p, d.s, mode, ln),
                json!({"harness": d.h, "preset": d.p, "hseed": d.s, "dilation_mode": mode, "between": format!("undilated child process vs child process under time dilation ({})", if *mode == "stall" { "worker sleeps 70 ms before selected steps: --dilate stall" } else { "parent SIGSTOPs the child 70 ms every ~3 ms" }), "line": ln, "undilated": xa, "dilated": xd}),
            );
            if args.only.is_some() {
                println!("DIFFERENT under time dilation (mode {}) at line {}:\n  undilated: {}\n  dilated:   {}", mode, ln, xa, xd);
            }
        } else if args.only.is_some() {
            println!("identical in 2 child processes, in 2 consecutive in-process runs and under time dilation {:?}", d.dil.iter().map(|(m, _)| *m).collect::<Vec<_>>());
        }
        for (mode, _) in &d.dil {
            out.impl_checks += 1;
            out.count(&format!("dilated:{}:{}", mode, d.h));
        }
        for (hseed, body, meta) in &d.hist {
            out.impl_checks += 1;
            out.count(&format!("history:{}", d.h));
            if *body == d.a {
                continue;
            }
            let during: u64 = meta.split("during=").nth(1).and_then(|x| x.split(' ').next()).and_then(|x| x.parse().ok()).unwrap_or(0);
            let foreign = meta.contains("foreign_config=true");
            let (ln, xa, xh) = first_diff(&d.a, body);
            let detail = json!({"harness": d.h, "preset": d.p, "hseed": d.s, "history_seed": hseed, "between": "the run alone on a fresh thread vs the same run on a thread that ran / keeps running other simulations (worker flag --history <history_seed>)", "line": ln, "alone": xa, "with_history": xh, "history": meta.chars().take(1500).collect::<String>()});
            if args.only.is_some() {
                println!("DIFFERENT with thread history {} at line {}:\n  alone:        {}\n  with history: {}\n  {}", hseed, ln, xa, xh, meta.chars().take(1500).collect::<String>());
            }
            if during > 0 && mask_stats(body) == mask_stats(&d.a) {
                // only the reported BUGGIFY counters differ and other simulations ran while R was live
                out.known("C20-ambient-buggify-stats", d.idx, detail);
            } else if foreign {
                out.known("C20-ambient-fault-config", d.idx, detail);
            } else {
                out.violation(
                    d.idx,
                    &format!("harness {} preset {} seed {}: the run depends on what ran before / runs alongside it on the same thread (history {}; first difference at line {})", d.h, d.p, d.s, hseed, ln),
                    detail,
                );
            }
        }
    }
    // Out keeps three samples: one kernel case, then triples
    out.samples.truncate(1);
    out.samples.extend(extra_samples.into_iter().take(3));
    out.samples.truncate(4);
    out.finish(args.seed);
}

//! C14: every replicated update through each of its encodings (WAL entry, segment, checkpoint,
//! gossip message) and back; every truncation and sampled / structured bit flips of each image
//! on the real decoders.  Cases are printed for the Coq model (Corr/C14.v); the property itself
//! (round trip; damage is an error, never different data; no panic) is judged directly.
use rand::Rng as _;
use redis_sim::redis::SDS;
use redis_sim::replication::gossip::GossipMessage;
use redis_sim::replication::lattice::{GCounter, GSet, LamportClock, ORSet, PNCounter, ReplicaId, VectorClock};
use redis_sim::replication::state::{CrdtValue, ReplicatedValue, ReplicationDelta, ShardReplicaState};
use redis_sim::replication::ConsistencyLevel;
use redis_sim::streaming::checkpoint::{CheckpointError, CheckpointReader, CheckpointWriter};
use redis_sim::streaming::segment::{Compression, SegmentError, SegmentReader, SegmentWriter};
use redis_sim::streaming::wal::{WalEntry, WalRotator};
use redis_sim::streaming::wal_store::{InMemoryWalStore, WalStore};
use serde_json::{json, Value};
use std::collections::{BTreeMap, HashMap};
use std::panic::{catch_unwind, AssertUnwindSafe};
use vharness::util::*;

pub const HEADER: &str = "From RV Require Import Corr.C14.\nLocal Open Scope string_scope.\nLocal Open Scope N_scope.\nLocal Open Scope list_scope.";
const KNOWN_WAL: &str = "C14-wal-entry-header-unprotected";
const KNOWN_ZERO: &str = "C14-wal-zero-header-is-an-entry";

// ---------- canonical text of a value (copied from c07.rs: sets and maps sorted) ----------
fn num_map(v: &Value) -> Vec<(u64, u64)> {
    let mut m: BTreeMap<u64, u64> = BTreeMap::new();
    if let Some(o) = v.as_object() {
        for (k, x) in o {
            m.insert(k.parse().unwrap(), x.as_u64().unwrap());
        }
    }
    m.into_iter().collect()
}
fn pairs(l: &[(u64, u64)]) -> String {
    clist(l.iter(), |(a, b)| format!("({},{})", a, b))
}
fn lww_term(v: &Value) -> String {
    let val = match &v["value"] {
        Value::Null => "None".to_string(),
        Value::Array(a) => {
            let b: Vec<u8> = a.iter().map(|x| x.as_u64().unwrap() as u8).collect();
            format!("(Some {})", chex(&b))
        }
        _ => panic!("lww value"),
    };
    format!("(L {} {} {} {})", val, v["timestamp"]["time"].as_u64().unwrap(), v["timestamp"]["replica_id"].as_u64().unwrap(), cbool(v["tombstone"].as_bool().unwrap()))
}
fn crdt_term(c: &Value) -> String {
    let (k, v) = c.as_object().unwrap().iter().next().unwrap();
    match k.as_str() {
        "Lww" => format!("(cl {})", lww_term(v)),
        "GCounter" => format!("(cg {})", pairs(&num_map(&v["counts"]))),
        "PNCounter" => format!("(cp {} {})", pairs(&num_map(&v["positive"]["counts"])), pairs(&num_map(&v["negative"]["counts"]))),
        "GSet" => {
            let mut e: Vec<String> = v["elements"].as_array().unwrap().iter().map(|x| x.as_str().unwrap().to_string()).collect();
            e.sort();
            format!("(cs {})", clist(e.iter(), |s| chex(s.as_bytes())))
        }
        "ORSet" => {
            let mut els: BTreeMap<String, Vec<(u64, u64)>> = BTreeMap::new();
            for (e, tags) in v["elements"].as_object().unwrap() {
                let mut t: Vec<(u64, u64)> = tags.as_array().unwrap().iter().map(|t| (t["replica_id"].as_u64().unwrap(), t["sequence"].as_u64().unwrap())).collect();
                t.sort();
                els.insert(e.clone(), t);
            }
            format!("(co {} {})", clist(els.iter(), |(e, t)| format!("({}, {})", chex(e.as_bytes()), pairs(t))), pairs(&num_map(&v["next_sequence"])))
        }
        "Hash" => {
            let m: BTreeMap<&String, &Value> = v.as_object().unwrap().iter().collect();
            format!("(ch {})", clist(m.iter(), |(f, l)| format!("({}, {})", chex(f.as_bytes()), lww_term(l))))
        }
        _ => panic!("unknown crdt kind {}", k),
    }
}
fn rv_canon(v: &ReplicatedValue) -> String {
    let j = serde_json::to_value(v).unwrap();
    let vc = match &j["vector_clock"] {
        Value::Null => "None".to_string(),
        x => format!("(Some {})", pairs(&num_map(&x["clocks"]))),
    };
    format!("(V {} {} {} {} {} {})", vharness::rv::crdt_term_of(v, false), vc, copt(&v.expiry_ms, |e| e.to_string()), v.timestamp.time, v.timestamp.replica_id.0, copt(&v.replication_factor, |e| e.to_string()))
}
/// State that a (de)serializer may silently drop is not visible in any printed form that is
/// itself produced by the serializer.  So: one more round of local operations on a copy of the
/// value (every replica adds / increments / writes once more, existing elements are removed,
/// the clocks tick, the value is merged with itself) and the results are printed.  Equal values
/// must behave equally.
fn followup(v: &ReplicatedValue) -> String {
    let mut w = v.clone();
    let mut log = String::new();
    let reps = [ReplicaId(1), ReplicaId(2), ReplicaId(3), ReplicaId(4), v.timestamp.replica_id];
    match &mut w.crdt {
        CrdtValue::Lww(l) => {
            let mut c = LamportClock { time: l.timestamp.time.min(u64::MAX - 8), replica_id: l.timestamp.replica_id };
            l.set(SDS::new(b"probe".to_vec()), &mut c);
            log += &format!("clock{}", c.time);
        }
        CrdtValue::GCounter(g) => {
            for r in reps { if g.get_replica_count(&r) < u64::MAX - 8 { g.increment_by(r, 1); } }
        }
        CrdtValue::PNCounter(p) => {
            let big = rv_canon(v).contains("1844674407370955"); // counts near u64::MAX: adding would overflow
            if !big { for r in reps { p.increment_by(r, 2); p.decrement_by(r, 1); } }
        }
        CrdtValue::GSet(g) => { log += &format!("new{}", g.add("probe".to_string())); }
        CrdtValue::ORSet(o) => {
            let mut existing: Vec<String> = o.elements().cloned().collect();
            existing.sort();
            for r in reps {
                let t = o.add(format!("probe{}", r.0), r);
                log += &format!("tag({},{})", t.replica_id.0, t.sequence);
            }
            for e in existing {
                let t = o.add(e.clone(), reps[0]);
                log += &format!("re-add({},{})", t.replica_id.0, t.sequence);
                let mut removed: Vec<(u64, u64)> = o.remove(&e).iter().map(|t| (t.replica_id.0, t.sequence)).collect();
                removed.sort();
                log += &format!("removed{:?}", removed);
            }
        }
        CrdtValue::Hash(h) => {
            let mut fields: Vec<String> = h.keys().cloned().collect();
            fields.sort();
            let mut c = LamportClock { time: v.timestamp.time.min(u64::MAX - 64), replica_id: v.timestamp.replica_id };
            for f in fields {
                if let Some(l) = h.get_mut(&f) {
                    if l.tombstone { l.set(SDS::new(b"back".to_vec()), &mut c); } else { l.delete(&mut c); }
                }
            }
            log += &format!("clock{}", c.time);
        }
    }
    if let Some(vc) = w.vector_clock.as_mut() {
        for r in reps { if vc.get(&r) < u64::MAX - 8 { vc.increment(r); } }
    }
    let merged = v.merge(v);
    format!("{}|{}|self-merge:{}", log, rv_canon(&w), rv_canon(&merged))
}
/// the decoded update equals the original: every field (key, value, source) and its behaviour
fn delta_canon(d: &ReplicationDelta) -> String {
    format!("{}|{}|{}|then:{}", hex(d.key.as_bytes()), rv_canon(&d.value), d.source_replica.0, followup(&d.value))
}
/// Values at the ends of the ranges: counts / expiry / stamps / replica ids at u64::MAX and 2^63,
/// ids equal mod 64 and mod 2^32, empty collections, None vs empty string, factor 0 / 255.
fn extreme_value(rng: &mut Rng) -> ReplicatedValue {
    let ids = [ReplicaId(u64::MAX), ReplicaId(1 << 63), ReplicaId(65), ReplicaId(1), ReplicaId((1 << 32) + 1), ReplicaId(0)];
    let rid = ids[rng.gen_range(0..ids.len())];
    let mut v = ReplicatedValue::new(rid);
    v.timestamp = LamportClock { time: [u64::MAX, 1 << 63, (1 << 63) - 1, 0][rng.gen_range(0..4)], replica_id: rid };
    v.expiry_ms = [None, Some(0), Some(u64::MAX), Some(1 << 63)][rng.gen_range(0..4)];
    v.replication_factor = [None, Some(0), Some(255), Some(1)][rng.gen_range(0..4)];
    match rng.gen_range(0..7) {
        0 => { let mut g = GCounter::new(); g.increment_by(rid, u64::MAX); g.increment_by(ReplicaId(1), 0); v.crdt = CrdtValue::GCounter(g); }
        1 => { let mut p = PNCounter::new(); p.increment_by(rid, u64::MAX); p.decrement_by(ReplicaId(65), u64::MAX); v.crdt = CrdtValue::PNCounter(p); }
        2 => { v.crdt = CrdtValue::ORSet(ORSet::new()); }
        3 => { v.crdt = CrdtValue::GSet(GSet::new()); }
        4 => { v.crdt = CrdtValue::new_hash(); }
        5 => {
            // tags of replicas whose ids are equal mod 64 / mod 2^32, sequences far apart
            let mut o: ORSet<String> = ORSet::new();
            for r in [ReplicaId(1), ReplicaId(65), ReplicaId((1 << 32) + 1), ReplicaId(u64::MAX)] { o.add(String::new(), r); o.add("x".to_string(), r); }
            o.remove(&"x".to_string());
            v.crdt = CrdtValue::ORSet(o);
        }
        _ => {
            // LWW: Some(empty) and None are different values
            let l = if rng.gen_bool(0.5) { redis_sim::replication::lattice::LwwRegister::with_value(SDS::new(vec![]), v.timestamp) } else { redis_sim::replication::lattice::LwwRegister::new(rid) };
            v.crdt = CrdtValue::Lww(l);
        }
    }
    if rng.gen_bool(0.3) {
        let vc: VectorClock = serde_json::from_value(json!({"clocks": {"18446744073709551615": u64::MAX, "65": 1u64 << 63, "1": 1}})).unwrap();
        v.vector_clock = Some(vc);
    }
    v
}
fn rv_full(v: &ReplicatedValue) -> String {
    format!("{}|then:{}", rv_canon(v), followup(v))
}

/// Values whose history leaves gaps that a "rebuild it from what is left" decoder gets wrong:
/// the newest tags of an OR-set removed, counters with cancelling or zero operations, hash fields
/// all tombstoned, vector clocks with zero entries.
fn gap_value(rng: &mut Rng) -> ReplicatedValue {
    let rid = ReplicaId(rng.gen_range(1..4));
    let other = ReplicaId(rid.0 % 3 + 1);
    let mut v = ReplicatedValue::new(rid);
    v.timestamp = LamportClock { time: rng.gen_range(1..50), replica_id: rid };
    match rng.gen_range(0..5) {
        0 | 1 => {
            let mut o: ORSet<String> = ORSet::new();
            let n = rng.gen_range(2..5);
            for j in 0..n { o.add(format!("e{}", j), rid); if rng.gen_bool(0.4) { o.add(format!("o{}", j), other); } }
            // remove the newest element(s) of rid, sometimes everything
            let k = if rng.gen_bool(0.25) { n } else { rng.gen_range(1..n) };
            for j in (n - k..n).rev() { o.remove(&format!("e{}", j)); }
            if rng.gen_bool(0.3) { for j in 0..n { o.remove(&format!("o{}", j)); } }
            v.crdt = CrdtValue::ORSet(o);
        }
        2 => {
            let mut p = PNCounter::new();
            let a = rng.gen_range(0..4);
            p.increment_by(rid, a); p.decrement_by(rid, a);
            p.increment_by(other, 0);
            if rng.gen_bool(0.5) { v.crdt = CrdtValue::PNCounter(p); }
            else { let mut g = GCounter::new(); g.increment_by(rid, 0); g.increment_by(other, rng.gen_range(0..2)); v.crdt = CrdtValue::GCounter(g); }
        }
        3 => {
            let mut c = LamportClock { time: 3, replica_id: rid };
            v.hash_set("f1".to_string(), SDS::new(b"x".to_vec()), &mut c);
            v.hash_set("f2".to_string(), SDS::new(vec![]), &mut c);
            v.hash_delete("f1", &mut c);
            if rng.gen_bool(0.5) { v.hash_delete("f2", &mut c); }
        }
        _ => {
            // vector clock with zero entries (not reachable through increment; a legal value of the type)
            let vc: VectorClock = serde_json::from_value(json!({"clocks": {"1": 0, "2": rng.gen_range(0..3), "7": 0}})).unwrap();
            v.vector_clock = Some(vc);
            let mut c = v.timestamp;
            if rng.gen_bool(0.5) { v.delete(&mut c); }
        }
    }
    v
}

// ---------- values of every CRDT kind (generator of c07.rs, plus large / binary strings) ----------
const FIELDS: [&str; 4] = ["f1", "f2", "\u{e9}", "\u{0}\u{ff}"];
const ELEMS: [&str; 4] = ["x", "y", "", "\u{444}\u{0}"];
const KEY: &str = "k";
fn gen_bytes(rng: &mut Rng) -> Vec<u8> {
    // 22/23/24: SDS small-string boundary (SSO_MAX_LEN = 23)
    let n = match rng.gen_range(0..14) { 0 => 0, 1 => 1, 2 => 300, 3 => 64, 4 => 22, 5 => 23, 6 => 24, _ => rng.gen_range(1..9) };
    (0..n).map(|_| if rng.gen_bool(0.3) { [0u8, 255, 10, 13, b'G', b'R'][rng.gen_range(0..6)] } else { rng.gen() }).collect()
}
fn local_op(rng: &mut Rng, s: &mut ShardReplicaState, kind: u32) {
    let rid = s.replica_id;
    match kind {
        0 => {
            if rng.gen_bool(0.75) {
                let exp = if rng.gen_bool(0.3) { Some(rng.gen_range(0..5u64) * 1000) } else { None };
                s.record_write(KEY.to_string(), SDS::new(gen_bytes(rng)), exp);
            } else {
                s.record_delete(KEY.to_string());
            }
        }
        5 => {
            if rng.gen_bool(0.75) {
                let n = rng.gen_range(1..4);
                let fields: Vec<(String, SDS)> = (0..n).map(|_| (FIELDS[rng.gen_range(0..FIELDS.len())].to_string(), SDS::new(gen_bytes(rng)))).collect();
                s.record_hash_write(KEY.to_string(), fields);
            } else {
                s.record_hash_delete(KEY.to_string(), vec![FIELDS[rng.gen_range(0..FIELDS.len())].to_string()]);
            }
        }
        _ => {
            let mut v = s.replicated_keys.remove(KEY).unwrap_or_else(|| ReplicatedValue::new(rid));
            let nops = rng.gen_range(1..4);
            let crdt = match kind {
                1 => {
                    let mut g = match &v.crdt { CrdtValue::GCounter(g) => g.clone(), _ => GCounter::new() };
                    for _ in 0..nops { g.increment_by(rid, rng.gen_range(0..4)); }
                    CrdtValue::GCounter(g)
                }
                2 => {
                    let mut p = match &v.crdt { CrdtValue::PNCounter(g) => g.clone(), _ => PNCounter::new() };
                    for _ in 0..nops {
                        if rng.gen_bool(0.5) { p.increment_by(rid, rng.gen_range(0..4)); } else { p.decrement_by(rid, rng.gen_range(0..4)); }
                    }
                    CrdtValue::PNCounter(p)
                }
                3 => {
                    let mut g = match &v.crdt { CrdtValue::GSet(g) => g.clone(), _ => GSet::new() };
                    for _ in 0..nops { g.add(ELEMS[rng.gen_range(0..ELEMS.len())].to_string()); }
                    CrdtValue::GSet(g)
                }
                _ => {
                    let mut o = match &v.crdt { CrdtValue::ORSet(g) => g.clone(), _ => ORSet::new() };
                    for _ in 0..nops {
                        let e = ELEMS[rng.gen_range(0..ELEMS.len())].to_string();
                        if rng.gen_bool(0.7) { o.add(e, rid); } else { o.remove(&e); }
                    }
                    CrdtValue::ORSet(o)
                }
            };
            v.crdt = crdt;
            v.timestamp = s.lamport_clock.tick();
            if rng.gen_bool(0.3) {
                let mut vc = v.vector_clock.clone().unwrap_or_else(VectorClock::new);
                vc.increment(rid);
                v.vector_clock = Some(vc);
            }
            s.replicated_keys.insert(KEY.to_string(), v);
        }
    }
}
fn gen_values(rng: &mut Rng) -> Vec<ReplicatedValue> {
    let level = if rng.gen_bool(0.4) { ConsistencyLevel::Causal } else { ConsistencyLevel::Eventual };
    let mut st: Vec<ShardReplicaState> = (1..=3u64).map(|r| ShardReplicaState::new(ReplicaId(r), level)).collect();
    for s in st.iter_mut() {
        s.lamport_clock.time = match rng.gen_range(0..6) { 0 => 1u64 << 40, 1 => u64::MAX - 1000, _ => rng.gen_range(0..5) };
    }
    let kinds = [0u32, 0, 5, 5, 1, 2, 3, 4];
    let mut pool = Vec::new();
    for _ in 0..rng.gen_range(3..9) {
        let r = rng.gen_range(0..3usize);
        if rng.gen_bool(0.3) {
            let s = (r + rng.gen_range(1..3usize)) % 3;
            if let Some(v) = st[s].get_replicated(KEY).cloned() {
                st[r].apply_remote_delta(ReplicationDelta::new(KEY.to_string(), v, ReplicaId(s as u64 + 1)));
            }
        } else {
            let kind = kinds[rng.gen_range(0..kinds.len())];
            local_op(rng, &mut st[r], kind);
        }
        if rng.gen_bool(0.15) {
            if let Some(v) = st[r].replicated_keys.get_mut(KEY) {
                v.replication_factor = Some(rng.gen_range(1..5));
            }
        }
        if let Some(v) = st[r].get_replicated(KEY) {
            pool.push(v.clone());
        }
    }
    pool
}
const KEY_SUFFIX: [&str; 7] = ["", "k", "\u{e9}", "\u{0}", "\u{43a}\u{43b}\u{44e}\u{447}", "a very long key name ............ 40+ bytes", "\r\n"];

// ---------- error kinds ----------
fn seg_kind(e: &SegmentError) -> &'static str {
    match e {
        SegmentError::InvalidMagic => "EMagic",
        SegmentError::UnsupportedVersion(_) => "EVersion",
        SegmentError::ChecksumMismatch { .. } => "EChecksum",
        SegmentError::Serialization(_) => "ESerial",
        SegmentError::Io(_) => "ETooShort",
        SegmentError::Empty => "EEmpty",
        SegmentError::UnsupportedCompression(_) => "ECompression",
    }
}
fn chk_kind(e: &CheckpointError) -> &'static str {
    match e {
        CheckpointError::Io(_) => "ETooShort",
        CheckpointError::Segment(s) => seg_kind(s),
        CheckpointError::Serialization(_) => "ESerial",
        CheckpointError::ChecksumMismatch { .. } => "EChecksum",
        CheckpointError::InvalidFormat(m) => {
            if m.starts_with("Checkpoint too small") || m.starts_with("Missing") { "ETooShort" }
            else if m.starts_with("Invalid magic") { "EMagic" }
            else if m.starts_with("Unsupported version") { "EVersion" }
            else if m.starts_with("Compression not enabled") { "ECompression" }
            else if m.starts_with("Data size mismatch") { "EFormat" }
            else { "EUnknown" }
        }
    }
}

#[derive(Clone, Debug)]
enum Mut {
    None,
    Trunc(usize),
    Flip(usize, u32),
    Patch(usize, Vec<u8>),
    /// `len` bytes from `off` set to one value (zero-filled / 0xFF-filled range), clipped
    Fill(usize, usize, u8),
    /// several independent sites (label, parts); none of the parts recomputes a checksum
    Seq(&'static str, Vec<Mut>),
}
impl Mut {
    fn term(&self) -> String {
        match self {
            Mut::None => "MNone".into(),
            Mut::Trunc(k) => format!("MTrunc {}", k),
            Mut::Flip(b, i) => format!("MFlip {} {}", b, i),
            Mut::Patch(o, d) => format!("MPatch {} {}", o, chex(d)),
            Mut::Fill(o, n, v) => format!("MFill {} {} {}", o, n, v),
            Mut::Seq(_, ms) => format!("MSeq {}", clist(ms.iter(), |m| m.term())),
        }
    }
    fn apply(&self, img: &[u8]) -> Vec<u8> {
        let mut d = img.to_vec();
        match self {
            Mut::None => {}
            Mut::Trunc(k) => d.truncate(*k),
            Mut::Flip(b, i) => { if *b < d.len() { d[*b] ^= 1u8 << i; } }
            Mut::Patch(o, p) => { for (j, x) in p.iter().enumerate() { if o + j < d.len() { d[o + j] = *x; } } }
            Mut::Fill(o, n, v) => { for j in *o..(*o + *n).min(d.len()) { d[j] = *v; } }
            Mut::Seq(_, ms) => { for m in ms { d = m.apply(&d); } }
        }
        d
    }
    fn label(&self) -> &'static str {
        match self {
            Mut::None => "pristine", Mut::Trunc(_) => "trunc", Mut::Flip(..) => "flip", Mut::Patch(..) => "patch",
            Mut::Fill(..) => "fill", Mut::Seq(l, _) => l,
        }
    }
}
/// Field-aware and multi-site damage (nothing here recomputes a checksum):
/// every structural field set to 0 / 0xFF.. / a neighbouring value (integer +-1, another layout's
/// magic), alone and together with 1-3 independent bit flips in the data region; zero- and
/// 0xFF-filled ranges (aligned, unaligned, and "tail filled"), alone and with data flips;
/// swapped and duplicated blocks.
fn structured(rng: &mut Rng, img: &[u8], fields: &[(usize, usize)], data: (usize, usize)) -> Vec<Mut> {
    let len = img.len();
    let mut v = Vec::new();
    let flips = |rng: &mut Rng| -> Vec<Mut> {
        if data.1 <= data.0 { return vec![]; }
        (0..rng.gen_range(1..4)).map(|_| Mut::Flip(rng.gen_range(data.0..data.1), rng.gen_range(0..8))).collect()
    };
    let with_flips = |rng: &mut Rng, label: &'static str, m: Mut| -> Mut {
        let mut parts = vec![m];
        parts.extend(flips(rng));
        Mut::Seq(label, parts)
    };
    const MAGICS: [&[u8; 4]; 5] = [b"RSEG", b"GESR", b"RCHK", b"RWAL", b"\0\0\0\0"];
    for &(off, n) in fields {
        if off + n > len { continue; }
        let cur = &img[off..off + n];
        let mut vals: Vec<Vec<u8>> = vec![vec![0u8; n], vec![0xFFu8; n]];
        if n <= 8 {
            let mut x = [0u8; 8];
            x[..n].copy_from_slice(cur);
            let val = u64::from_le_bytes(x);
            for nb in [val.wrapping_add(1), val.wrapping_sub(1)] {
                vals.push(nb.to_le_bytes()[..n].to_vec());
            }
        }
        if n == 4 && cur.iter().all(|c| c.is_ascii_uppercase()) {
            vals.push(MAGICS[rng.gen_range(0..4)].to_vec());
        }
        for val in vals {
            if val == cur { continue; } // not a damage
            v.push(Mut::Seq("field", vec![Mut::Patch(off, val.clone())]));
            if data.1 > data.0 {
                v.push(with_flips(rng, "field+flips", Mut::Patch(off, val)));
            }
        }
    }
    if len > 0 {
        // sector-like fills
        for &fillv in &[0u8, 0xFF] {
            for &sz in &[8usize, 16, 32, 64] {
                let aligned = (rng.gen_range(0..len) / sz) * sz;
                v.push(Mut::Fill(aligned, sz, fillv));
                v.push(Mut::Fill(rng.gen_range(0..len), sz, fillv));
            }
            for &tail in &[4usize, 16, 20, 24, 32, 64] {
                if tail <= len {
                    v.push(Mut::Seq("tail-fill", vec![Mut::Fill(len - tail, tail, fillv)]));
                    if data.1 > data.0 {
                        v.push(with_flips(rng, "tail-fill+flips", Mut::Fill(len - tail, tail, fillv)));
                    }
                }
            }
            if data.1 > data.0 {
                let sz = [8usize, 16, 32][rng.gen_range(0..3)];
                let at = rng.gen_range(0..len);
                v.push(with_flips(rng, "fill+flips", Mut::Fill(at, sz, fillv)));
            }
        }
        // swapped / duplicated blocks (lowered to patches computed from the original bytes)
        for _ in 0..4 {
            let sz = [4usize, 8, 16, 32][rng.gen_range(0..4)];
            if len < 2 * sz { continue; }
            let a = rng.gen_range(0..=len - sz);
            let b = rng.gen_range(0..=len - sz);
            if a == b || img[a..a + sz] == img[b..b + sz] { continue; }
            v.push(Mut::Seq("dup-block", vec![Mut::Patch(b, img[a..a + sz].to_vec())]));
            if a + sz <= b || b + sz <= a {
                v.push(Mut::Seq("swap-blocks", vec![Mut::Patch(b, img[a..a + sz].to_vec()), Mut::Patch(a, img[b..b + sz].to_vec())]));
            }
        }
    }
    v
}
/// every truncation, every bit of the given fixed regions, sampled flips and patches elsewhere
fn mutations(rng: &mut Rng, len: usize, regions: &[(usize, usize)], n_flips: usize, n_patch: usize) -> Vec<Mut> {
    let mut v = vec![Mut::None];
    for k in 0..len { v.push(Mut::Trunc(k)); }
    for &(a, b) in regions {
        for byte in a..b.min(len) { for bit in 0..8 { v.push(Mut::Flip(byte, bit)); } }
    }
    if len > 0 {
        for _ in 0..n_flips { v.push(Mut::Flip(rng.gen_range(0..len), rng.gen_range(0..8))); }
        for _ in 0..n_patch {
            let n = rng.gen_range(1..9);
            v.push(Mut::Patch(rng.gen_range(0..len), (0..n).map(|_| rng.gen()).collect()));
        }
    }
    v
}

/// Coq string term for a long byte string: (cat ["..."; "..."; ...]) in pieces of 1000 bytes
fn chex_long(b: &[u8]) -> String {
    if b.len() <= 2000 { return chex(b); }
    format!("(cat {})", clist(b.chunks(1000), |c| chex(c)))
}
fn crc32(d: &[u8]) -> u32 {
    let mut c: u32 = 0xFFFF_FFFF;
    for &b in d {
        c ^= b as u32;
        for _ in 0..8 { c = if c & 1 == 1 { (c >> 1) ^ 0xEDB8_8320 } else { c >> 1 }; }
    }
    !c
}
fn payload_of(d: &ReplicationDelta) -> Vec<u8> {
    WalEntry::from_delta(d, 0).unwrap().data
}
fn lww_delta(key: String, val: Vec<u8>, time: u64) -> ReplicationDelta {
    let v = ReplicatedValue::with_value(SDS::new(val), LamportClock { time, replica_id: ReplicaId::new(1) });
    ReplicationDelta::new(key, v, ReplicaId::new(1))
}
/// Adversarial batch: the record after `pre` imitates a segment footer for the records before it
/// (its length prefix equals their CRC-32 and its key carries the footer magic at the right place).
fn adversarial_batch(rng: &mut Rng, base: usize) -> Vec<ReplicationDelta> {
    let n_pre = rng.gen_range(0..3);
    let mut ds: Vec<ReplicationDelta> = (0..n_pre).map(|j| lww_delta(format!("{}p", base + j), gen_bytes(rng), rng.gen_range(1..9))).collect();
    // the record whose value holds the 4 free bytes
    let free_idx = ds.len();
    let filler: Vec<u8> = (0..rng.gen_range(0..6)).map(|_| rng.gen()).collect();
    let mk_free = |x: u32, filler: &Vec<u8>| {
        let mut val = x.to_le_bytes().to_vec();
        val.extend_from_slice(filler);
        lww_delta(format!("{}x", base + free_idx), val, 7)
    };
    ds.push(mk_free(0, &filler));
    // the imitating record: payload = key_len(8) | key ...; payload[16..20] = key[8..12] = "GESR"
    let imit = lww_delta(format!("{:08}GESR{}", base + free_idx + 1, "z".repeat(rng.gen_range(0..20))), gen_bytes(rng), 9);
    let target = payload_of(&imit).len() as u32;
    let records = |ds: &Vec<ReplicationDelta>| -> Vec<u8> {
        let mut r = Vec::new();
        for d in ds { let p = payload_of(d); r.extend_from_slice(&(p.len() as u32).to_le_bytes()); r.extend_from_slice(&p); }
        r
    };
    // crc32(records(x)) is affine in x over GF(2): solve for crc = target
    let at = |x: u32, ds: &mut Vec<ReplicationDelta>| -> u32 { ds[free_idx] = mk_free(x, &filler); crc32(&records(ds)) };
    let b = at(0, &mut ds);
    let cols: Vec<u32> = (0..32).map(|i| at(1u32 << i, &mut ds) ^ b).collect();
    let t = target ^ b;
    let mut rows: Vec<(u32, u32)> = (0..32).map(|bit| { let mut r = 0u32; for i in 0..32 { if (cols[i] >> bit) & 1 == 1 { r |= 1 << i; } } (r, (t >> bit) & 1) }).collect();
    let mut piv = vec![];
    let mut rk = 0;
    for col in 0..32 {
        if let Some(p) = (rk..32).find(|&r| (rows[r].0 >> col) & 1 == 1) {
            rows.swap(rk, p);
            for r in 0..32 { if r != rk && (rows[r].0 >> col) & 1 == 1 { let (a, c) = rows[rk]; rows[r].0 ^= a; rows[r].1 ^= c; } }
            piv.push(col);
            rk += 1;
        }
    }
    let mut x = 0u32;
    for r in 0..rk { if rows[r].1 == 1 { x |= 1 << piv[r]; } }
    ds[free_idx] = mk_free(x, &filler);
    assert_eq!(crc32(&records(&ds)), target, "crc forging failed");
    ds.push(imit);
    for j in 0..rng.gen_range(0..2) { ds.push(lww_delta(format!("{}s", base + free_idx + 2 + j), gen_bytes(rng), 3)); }
    ds
}

/// one report per kind of failure and case (a case has thousands of probes)
fn viol(out: &mut Out, seen: &mut std::collections::HashSet<String>, i: u64, what: &str, detail: Value) {
    if seen.insert(what.to_string()) {
        out.violation(i, what, detail);
    }
}

fn main() {
    // panics inside catch_unwind are results, not noise; anything else still aborts the run
    std::panic::set_hook(Box::new(|info| {
        let bt = std::backtrace::Backtrace::force_capture().to_string();
        if !bt.contains("catch_unwind") || bt.contains("c14::gen_") || bt.contains("c14::adversarial") {
            eprintln!("harness panic: {}", info);
        }
    }));
    let a: Vec<String> = std::env::args().collect();
    let args = &Args::parse(&a[1..]);
    let mut out = Out::new(&args.out, "C14", args.shards, HEADER);
    let n_flips = args.get("flips", 24) as usize;
    let n_patch = args.get("patch", 8) as usize;
    let adversarial_every = args.get("adversarial", 8);
    let huge = args.get("huge", 0) == 1;
    let large_every = args.get("large", 8);
    let model_large = args.get("modellarge", 1) == 1;
    out.nontrivial_rule = "a case = a batch of deltas (values of every CRDT kind produced by three replicas exchanging updates; binary, empty and 300-byte strings; unusual keys) encoded by the real WalEntry / SegmentWriter / CheckpointWriter / GossipMessage; probes = every truncation length of every image, every bit of the fixed header/footer regions, sampled flips and patches elsewhere; every 8th case additionally holds a batch whose payload imitates a segment footer; non-trivial = batch of >= 2 deltas; distinct by canonical text of the batch".into();
    let range: Vec<u64> = match args.only { Some(i) => vec![i], None => (0..args.n).collect() };
    for i in range {
        let mut rng = case_rng(args.seed, i);
        let mut seen: std::collections::HashSet<String> = std::collections::HashSet::new();
        // ---- deltas of the case
        let mut deltas: Vec<ReplicationDelta> = Vec::new();
        let pool = gen_values(&mut rng);
        let n = rng.gen_range(1..6).min(pool.len().max(1));
        for j in 0..n {
            let v = if pool.is_empty() { ReplicatedValue::new(ReplicaId(1)) } else { pool[rng.gen_range(0..pool.len())].clone() };
            let key = format!("{}{}", j, KEY_SUFFIX[rng.gen_range(0..KEY_SUFFIX.len())]);
            deltas.push(ReplicationDelta::new(key, v, ReplicaId(rng.gen_range(1..4))));
        }
        // one value per case whose history leaves gaps (first, so that every encoding sees it)
        deltas.insert(0, ReplicationDelta::new("gap".to_string(), gap_value(&mut rng), ReplicaId(rng.gen_range(1..4))));
        // and one at the ends of the value ranges; its key is empty / very long now and then
        let xkey = match rng.gen_range(0..4) { 0 => String::new(), 1 => "\u{10ffff}".repeat(70), _ => "x".to_string() };
        deltas.insert(1, ReplicationDelta::new(xkey, extreme_value(&mut rng), [ReplicaId(u64::MAX), ReplicaId(0), ReplicaId(65)][rng.gen_range(0..3)]));
        let adversarial = adversarial_every > 0 && i % adversarial_every == adversarial_every - 1;
        let adv_start = deltas.len();
        if adversarial {
            let b = adversarial_batch(&mut rng, 100);
            deltas.extend(b);
            out.count("adversarial_batch");
        }
        let canons: Vec<String> = deltas.iter().map(delta_canon).collect();
        let payloads: Vec<Vec<u8>> = deltas.iter().map(payload_of).collect();
        let find = |d: &ReplicationDelta| -> u64 { let c = delta_canon(d); canons.iter().position(|x| *x == c).map(|p| p as u64).unwrap_or(999999) };
        for d in &deltas { out.count(&format!("kind:{}", d.value.crdt_type())); }
        let deltas_t = clist(deltas.iter().zip(&payloads), |(d, p)| format!("D {} {}", d.value.timestamp.time, chex(p)));

        // ---- 1. WAL entries
        let mut wal_t = Vec::new();
        for (j, d) in deltas.iter().enumerate().take(3) {
            let ts = if rng.gen_bool(0.5) { d.value.timestamp.time } else { [0u64, 9, u64::MAX, 1 << 33][rng.gen_range(0..4)] };
            let e = WalEntry::from_delta(d, ts).unwrap();
            let img = e.encode();
            out.impl_checks += 1;
            if e.disk_size() != img.len() || !e.validate() {
                viol(&mut out, &mut seen, i, "WalEntry::disk_size / validate disagree with the encoded entry", json!({"disk_size": e.disk_size(), "encoded": img.len(), "valid": e.validate()}));
            }
            match WalEntry::decode(&img) {
                Some((e2, used)) if used == img.len() && e2.timestamp == ts && e2.to_delta().map(|x| delta_canon(&x) == canons[j]).unwrap_or(false) => {}
                _ => viol(&mut out, &mut seen, i, "WAL entry does not round-trip", json!({"delta": canons[j], "ts": ts})),
            }
            let mut probes = Vec::new();
            let mut ms = mutations(&mut rng, img.len(), &[(0, 16)], n_flips, n_patch);
            // entry header fields: length, timestamp, checksum; data = the payload
            ms.extend(structured(&mut rng, &img, &[(0, 4), (4, 8), (12, 4)], (16, img.len())));
            for m in ms {
                let bad = m.apply(&img);
                out.count(&format!("wal:{}", m.label()));
                out.impl_checks += 1;
                let r = catch_unwind(AssertUnwindSafe(|| WalEntry::decode(&bad)));
                let term = match r {
                    Err(_) => { viol(&mut out, &mut seen, i, "WalEntry::decode panicked", json!({"mutation": m.term()})); "WNone".to_string() }
                    Ok(None) => "WNone".to_string(),
                    Ok(Some((e2, used))) => {
                        let idx = e2.to_delta().map(|x| find(&x)).unwrap_or(999999);
                        let same = used == img.len() && e2.timestamp == ts && idx == j as u64 && e2.data == e.data;
                        if !same && bad != img {
                            // accepted although the bytes changed and the decoded entry differs
                            let in_class = bad.len() == img.len() && (0..img.len()).filter(|&p| bad[p] != img[p]).all(|p| p < 12);
                            let d = json!({"mutation": m.term(), "written_ts": ts, "decoded_ts": e2.timestamp, "decoded_len": e2.data.len()});
                            // a header with length 0 and checksum 0 (= CRC-32 of no data) is a well-formed entry, e.g. 16 zero bytes
                            let zero_header = bad.len() >= 16 && bad[..4].iter().all(|&b| b == 0) && bad[12..16].iter().all(|&b| b == 0) && e2.data.is_empty() && used == 16;
                            if in_class { out.known(KNOWN_WAL, i, d); }
                            else if zero_header { out.known(KNOWN_ZERO, i, d); }
                            else { viol(&mut out, &mut seen, i, "damaged WAL entry decoded into different data", d); }
                        }
                        format!("WSome {} {} {} {}", idx, e2.timestamp, e2.checksum, used)
                    }
                };
                probes.push(format!("({}, {})", m.term(), term));
            }
            wal_t.push(format!("WE {} {} {} {}", j, ts, chex(&img), clist(probes.iter(), |p| p.clone())));
        }

        // ---- 2. segments
        let mut seg_t = Vec::new();
        let mut batches: Vec<Vec<usize>> = vec![(0..adv_start).collect()];
        if adversarial { batches.push((adv_start..deltas.len()).collect()); }
        for batch in &batches {
            let mut w = SegmentWriter::new(Compression::None);
            for &j in batch { w.write_delta(&deltas[j]).unwrap(); }
            let (est, wcount, wempty) = (w.estimated_size(), w.record_count(), w.is_empty());
            let img = w.finish().unwrap();
            let reader = SegmentReader::open(&img).unwrap();
            let (cnt, mn, mx) = (reader.header().record_count, reader.header().min_timestamp, reader.header().max_timestamp);
            {
                // the other public views of the same segment: sizes, counts, footer, and the iterator driven by
                // hand (as compaction.rs does) instead of through read_all; bounded, so that an iterator
                // that never ends is a failure and not a hang
                out.impl_checks += 1;
                let sg = reader.segment();
                let it: Vec<u64> = reader.deltas().map(|d| d.take(batch.len() + 8).map(|r| r.map(|d| find(&d)).unwrap_or(999998)).collect()).unwrap_or_default();
                let want: Vec<u64> = batch.iter().map(|&j| j as u64).collect();
                let f = reader.footer();
                if est != img.len() || wcount != batch.len() || wempty || sg.size_bytes() != img.len() || sg.record_count() as usize != batch.len()
                    || sg.min_timestamp() != mn || sg.max_timestamp() != mx || it != want
                    || f.uncompressed_size as usize != img.len() - 64 || f.compressed_size as usize != img.len() - 64 {
                    viol(&mut out, &mut seen, i, "segment accessors (estimated_size, size_bytes, record_count, footer sizes, deltas() iteration) disagree with the written segment",
                         json!({"estimated": est, "len": img.len(), "writer_count": wcount, "iterated": it, "written": want}));
                }
            }
            let mut probes = Vec::new();
            let hf = [(0usize, 40usize), (img.len() - 24, img.len())];
            let regions: &[(usize, usize)] = if i % 2 == 0 { &hf } else { &[] };
            let mut ms = mutations(&mut rng, img.len(), regions, n_flips, n_patch);
            {
                // header: magic, version, flags, count, min, max, header checksum, padding;
                // first record's length prefix; footer: data checksum, two sizes, magic
                let l = img.len();
                let fields = [(0usize, 4usize), (4, 1), (5, 1), (6, 4), (10, 8), (18, 8), (26, 4), (30, 10), (40, 4),
                              (l - 24, 4), (l - 20, 8), (l - 12, 8), (l - 4, 4)];
                ms.extend(structured(&mut rng, &img, &fields, (44.min(l - 24), l - 24)));
            }
            for m in ms {
                let bad = m.apply(&img);
                out.count(&format!("segment:{}", m.label()));
                out.impl_checks += 1;
                let r = catch_unwind(AssertUnwindSafe(|| -> Result<Vec<ReplicationDelta>, SegmentError> {
                    let rd = SegmentReader::open(&bad)?;
                    rd.validate()?;
                    rd.read_all()
                }));
                let term = match &r {
                    Err(_) => { viol(&mut out, &mut seen, i, "segment reader panicked", json!({"mutation": m.term()})); "OPanic".to_string() }
                    Ok(Err(e)) => {
                        if matches!(m, Mut::None) { viol(&mut out, &mut seen, i, "segment does not round-trip", json!({"err": e.to_string()})); }
                        format!("OErr {}", seg_kind(e))
                    }
                    Ok(Ok(ds)) => {
                        let idx: Vec<u64> = ds.iter().map(|d| find(d)).collect();
                        let want: Vec<u64> = batch.iter().map(|&j| j as u64).collect();
                        if idx != want {
                            let what = match m {
                                Mut::None => "segment does not round-trip",
                                Mut::Trunc(_) => "a truncated segment is accepted (open, validate and read_all succeed) and yields fewer deltas than were written",
                                _ => "damaged segment decoded into different data",
                            };
                            viol(&mut out, &mut seen, i, what, json!({"mutation": m.term(), "image_len": img.len(), "written": want, "decoded": idx, "image": hex(&img)}));
                        } else if let Mut::Trunc(_) = m {
                            viol(&mut out, &mut seen, i, "a truncated segment is accepted", json!({"mutation": m.term()}));
                        }
                        format!("OOk {}", clist(idx.iter(), |x| x.to_string()))
                    }
                };
                // the unchecked path (open + read_all without validate) must not panic either
                if catch_unwind(AssertUnwindSafe(|| SegmentReader::open(&bad).and_then(|r| r.read_all()).is_ok())).is_err() {
                    viol(&mut out, &mut seen, i, "SegmentReader::open/read_all (without validate) panicked", json!({"mutation": m.term()}));
                }
                probes.push(format!("({}, {})", m.term(), term));
            }
            seg_t.push(format!("SG {} {} {} {} {} {}", clist(batch.iter(), |x| x.to_string()), chex(&img), cnt, mn, mx, clist(probes.iter(), |p| p.clone())));
        }

        // ---- 3. checkpoint
        let mut chk_t = Vec::new();
        {
            let mut state: HashMap<String, ReplicatedValue> = HashMap::new();
            for d in deltas.iter().take(rng.gen_range(0..=adv_start)) { state.insert(d.key.clone(), d.value.clone()); }
            let state_canon: BTreeMap<String, String> = state.iter().map(|(k, v)| (k.clone(), rv_full(v))).collect();
            let (ts_ms, last) = (rng.gen_range(0..u64::MAX), [0u64, 1, 7, u64::MAX][rng.gen_range(0..4)]);
            let keys = state.len() as u64;
            {
                // the same state through CheckpointManager (create_checkpoint -> object store -> load_checkpoint),
                // also with the stored object damaged
                use redis_sim::streaming::{CheckpointConfig, CheckpointManager, InMemoryObjectStore, ManifestManager, ObjectStore};
                let store = std::sync::Arc::new(InMemoryObjectStore::new());
                let mgr = CheckpointManager::new(store.clone(), "p".to_string(), ManifestManager::new((*store).clone(), "p"), CheckpointConfig::test());
                let rt = tokio::runtime::Builder::new_current_thread().enable_all().build().unwrap();
                out.impl_checks += 1;
                out.count("checkpoint-manager:roundtrip");
                let canon_of = |d: &redis_sim::streaming::CheckpointData| -> BTreeMap<String, String> { d.state.iter().map(|(k, v)| (k.clone(), rv_full(v))).collect() };
                let r = rt.block_on(async {
                    let r = mgr.create_checkpoint(state.clone(), last).await?;
                    let d = mgr.load_checkpoint(&r.key).await?;
                    Ok::<_, CheckpointError>((r, d))
                });
                match r {
                    Err(e) => viol(&mut out, &mut seen, i, "checkpoint does not round-trip through CheckpointManager", json!({"err": e.to_string()})),
                    Ok((r, d)) => {
                        if canon_of(&d) != state_canon || r.key_count != keys || r.last_segment_id != last {
                            viol(&mut out, &mut seen, i, "checkpoint does not round-trip through CheckpointManager", json!({"key": r.key}));
                        }
                        let obj = rt.block_on(store.get(&r.key)).unwrap().to_vec();
                        for q in 0..8 {
                            let mut bad = obj.clone();
                            match q % 4 {
                                0 => { let p = rng.gen_range(0..bad.len()); bad[p] ^= 1 << rng.gen_range(0..8); }
                                1 => { let p = rng.gen_range(0..bad.len()); for x in bad.iter_mut().skip(p).take(16) { *x = 0; } }
                                2 => { bad.truncate(rng.gen_range(0..bad.len())); }
                                _ => { let l = bad.len(); for x in bad[l - 16..l - 12].iter_mut() { *x = 0; } let p = rng.gen_range(52..l - 16).min(l - 17); if l > 69 { bad[p] ^= 1; } }
                            }
                            if bad == obj { continue; }
                            rt.block_on(store.put(&r.key, &bad)).unwrap();
                            out.impl_checks += 1;
                            out.count("checkpoint-manager:damaged-object");
                            match catch_unwind(AssertUnwindSafe(|| rt.block_on(mgr.load_checkpoint(&r.key)))) {
                                Err(_) => viol(&mut out, &mut seen, i, "the implementation panicked on CheckpointManager::load_checkpoint of a damaged object", json!({"object": hex(&bad)})),
                                Ok(Err(_)) => {}
                                Ok(Ok(d)) => { if canon_of(&d) != state_canon { viol(&mut out, &mut seen, i, "damaged checkpoint object decoded into different data by CheckpointManager::load_checkpoint", json!({"object": hex(&bad), "original": hex(&obj)})); } }
                            }
                        }
                    }
                }
            }
            let img = CheckpointWriter::new(Compression::None).write(state, ts_ms, last).unwrap();
            if CheckpointReader::open(&img).map(|r| r.is_compressed()).unwrap_or(true) {
                viol(&mut out, &mut seen, i, "CheckpointReader::is_compressed is true for an uncompressed checkpoint", json!({}));
            }
            let data = img[52..img.len() - 16].to_vec();
            let mut probes = Vec::new();
            let hf = [(0usize, 52usize), (img.len() - 16, img.len())];
            let regions: &[(usize, usize)] = if i % 2 == 1 { &hf } else { &[] };
            let mut ms = mutations(&mut rng, img.len(), regions, n_flips, n_patch);
            {
                // header: magic, version, flags, pad, key count, timestamp, last segment id, reserved,
                // header checksum; data length; footer: data checksum, data size, footer checksum
                let l = img.len();
                let fields = [(0usize, 4usize), (4, 1), (5, 1), (6, 2), (8, 8), (16, 8), (24, 8), (32, 12), (44, 4), (48, 4),
                              (l - 16, 4), (l - 12, 8), (l - 4, 4)];
                ms.extend(structured(&mut rng, &img, &fields, (52, l - 16)));
            }
            for m in ms {
                let bad = m.apply(&img);
                out.count(&format!("checkpoint:{}", m.label()));
                out.impl_checks += 2;
                let r = catch_unwind(AssertUnwindSafe(|| -> Result<(u64, u64, u64, BTreeMap<String, String>), CheckpointError> {
                    let rd = CheckpointReader::open(&bad)?;
                    rd.validate()?;
                    let d = rd.load()?;
                    Ok((rd.key_count(), rd.timestamp_ms(), rd.last_segment_id(), d.state.iter().map(|(k, v)| (k.clone(), rv_full(v))).collect()))
                }));
                let term = match &r {
                    Err(_) => { viol(&mut out, &mut seen, i, "checkpoint reader (open, validate, load) panicked", json!({"mutation": m.term()})); "CPanic".to_string() }
                    Ok(Err(e)) => {
                        if matches!(m, Mut::None) { viol(&mut out, &mut seen, i, "checkpoint does not round-trip", json!({"err": e.to_string()})); }
                        format!("CErr {}", chk_kind(e))
                    }
                    Ok(Ok((k, t, l, st))) => {
                        let same = *st == state_canon && *k == keys && *t == ts_ms && *l == last;
                        if !same {
                            viol(&mut out, &mut seen, i, if matches!(m, Mut::None) { "checkpoint does not round-trip" } else { "damaged checkpoint decoded into different data" }, json!({"mutation": m.term()}));
                        } else if let Mut::Trunc(_) = m {
                            viol(&mut out, &mut seen, i, "a truncated checkpoint is accepted", json!({"mutation": m.term()}));
                        }
                        if *st == state_canon { format!("COk {} {} {}", k, t, l) } else { "CDiff".to_string() }
                    }
                };
                // open + load WITHOUT validate
                let u = catch_unwind(AssertUnwindSafe(|| match CheckpointReader::open(&bad) { Err(_) => 0, Ok(rd) => { let _ = rd.load(); 1 } }));
                let uterm = match u {
                    Ok(0) => "UOpenErr",
                    Ok(_) => "UReturned",
                    Err(_) => {
                        viol(&mut out, &mut seen, i, "CheckpointReader::load (called without validate) panics on a damaged image instead of returning an error", json!({"mutation": m.term(), "image_len": img.len(), "image": hex(&img)}));
                        "UPanic"
                    }
                };
                probes.push(format!("({}, {}, {})", m.term(), term, uterm));
            }
            chk_t.push(format!("CK {} {} {} {} {} {}", keys, ts_ms, last, chex(&data), chex(&img), clist(probes.iter(), |p| p.clone())));
        }

        // ---- 4. gossip messages (JSON): round trip and truncation, implementation side only
        {
            let ds: Vec<ReplicationDelta> = deltas.iter().take(adv_start).cloned().collect();
            let mut kv: HashMap<String, u64> = HashMap::new();
            for d in &ds { kv.insert(d.key.clone(), rng.gen()); }
            let msgs = vec![
                GossipMessage::new_delta_batch(ReplicaId(1), ds.clone(), rng.gen()),
                GossipMessage::new_targeted_delta(ReplicaId(2), ReplicaId(3), ds.clone(), u64::MAX),
                GossipMessage::SyncResponse { source_replica: ReplicaId(3), deltas: ds.clone() },
                GossipMessage::SyncRequest { source_replica: ReplicaId(1), known_versions: kv.clone() },
                GossipMessage::new_heartbeat(ReplicaId(u64::MAX), rng.gen()),
            ];
            for (mi, msg) in msgs.iter().enumerate() {
                out.impl_checks += 1;
                out.count("gossip:roundtrip");
                let bytes = match msg.serialize() { Ok(b) => b, Err(e) => { viol(&mut out, &mut seen, i, "gossip message does not serialize", json!({"msg": mi, "err": e.to_string()})); continue; } };
                let canon = |m: &GossipMessage| -> String {
                    match m {
                        GossipMessage::DeltaBatch { source_replica, deltas, epoch } => format!("B{}|{}|{:?}", source_replica.0, epoch, deltas.iter().map(delta_canon).collect::<Vec<_>>()),
                        GossipMessage::TargetedDelta { source_replica, target_replica, deltas, epoch } => format!("T{}|{}|{}|{:?}", source_replica.0, target_replica.0, epoch, deltas.iter().map(delta_canon).collect::<Vec<_>>()),
                        GossipMessage::SyncRequest { source_replica, known_versions } => format!("Q{}|{:?}", source_replica.0, known_versions.iter().collect::<BTreeMap<_, _>>()),
                        GossipMessage::SyncResponse { source_replica, deltas } => format!("R{}|{:?}", source_replica.0, deltas.iter().map(delta_canon).collect::<Vec<_>>()),
                        GossipMessage::Heartbeat { source_replica, epoch } => format!("H{}|{}", source_replica.0, epoch),
                    }
                };
                match GossipMessage::deserialize(&bytes) {
                    Ok(back) if canon(&back) == canon(msg) => {
                        let dl = |m: &GossipMessage| m.clone().into_deltas().map(|v| v.iter().map(delta_canon).collect::<Vec<_>>());
                        if back.source_replica() != msg.source_replica() || back.is_delta_message() != msg.is_delta_message() || dl(&back) != dl(msg) {
                            viol(&mut out, &mut seen, i, "gossip message accessors differ after the round trip", json!({"msg": mi}));
                        }
                    }
                    Ok(_) => viol(&mut out, &mut seen, i, "gossip message decoded into different data", json!({"msg": mi})),
                    Err(e) => viol(&mut out, &mut seen, i, "gossip message does not round-trip", json!({"msg": mi, "err": e.to_string()})),
                }
                let step = (bytes.len() / 200).max(1);
                for k in (0..bytes.len()).step_by(step) {
                    out.impl_checks += 1;
                    out.count("gossip:trunc");
                    if GossipMessage::deserialize(&bytes[..k]).is_ok() {
                        viol(&mut out, &mut seen, i, "a truncated gossip message is accepted", json!({"msg": mi, "k": k}));
                    }
                }
            }
        }

        // ---- 5. WAL round trip through the rotator: append*, sync, then a FRESH WalRotator (same,
        //         smaller and larger max_file_size) must return every appended update unchanged
        let mut rot_t = Vec::new();
        {
            let recover = |store: &InMemoryWalStore, max_r: usize| -> Result<Result<Vec<ReplicationDelta>, String>, ()> {
                catch_unwind(AssertUnwindSafe(|| {
                    let r = WalRotator::new(store.clone(), max_r).map_err(|e| e.to_string())?;
                    r.recover_entries_after(0).map_err(|e| e.to_string())
                })).map_err(|_| ())
            };
            // (a) the case's own deltas, small thresholds; also printed for the model when small
            {
                let max_w = [17usize, 40, 64, 100, 150, 300][rng.gen_range(0..6)];
                let store = InMemoryWalStore::new();
                let mut rot = WalRotator::new(store.clone(), max_w).unwrap();
                for d in deltas.iter().take(adv_start) {
                    rot.append(&WalEntry::from_delta(d, d.value.timestamp.time).unwrap()).unwrap();
                }
                rot.sync().unwrap();
                drop(rot);
                let want: Vec<u64> = (0..adv_start as u64).collect();
                let mut first: Option<String> = None;
                for max_r in [max_w, 17, 1 << 20] {
                    out.impl_checks += 1;
                    out.count("rotator:table-deltas");
                    let (idx, t) = match recover(&store, max_r) {
                        Err(()) => { viol(&mut out, &mut seen, i, "WAL recovery through a fresh WalRotator panicked", json!({"written_with": max_w, "read_with": max_r})); (vec![], "None".to_string()) }
                        Ok(Err(e)) => { viol(&mut out, &mut seen, i, "WAL recovery through a fresh WalRotator failed", json!({"written_with": max_w, "read_with": max_r, "err": e})); (vec![], "None".to_string()) }
                        Ok(Ok(ds)) => { let idx: Vec<u64> = ds.iter().map(|d| find(d)).collect(); let t = format!("(Some {})", clist(idx.iter(), |x| x.to_string())); (idx, t) }
                    };
                    if idx != want {
                        viol(&mut out, &mut seen, i, "an appended and synced update does not survive the WAL round trip through WalRotator (append, sync, fresh rotator, recover_entries_after(0))",
                             json!({"written_with_max_file_size": max_w, "read_with_max_file_size": max_r, "appended": want, "recovered": idx,
                                    "payload_sizes": payloads.iter().take(adv_start).map(|p| p.len()).collect::<Vec<_>>()}));
                    }
                    if first.is_none() { first = Some(t); }
                }
                let names = store.list().unwrap();
                // a filled region after the last entry (torn / preallocated tail) must end recovery of
                // that file, not add or lose updates
                if let Some(last) = names.last() {
                    let base = store.get_file_data(last).unwrap();
                    for (fillv, n) in [(0xFFu8, 16usize), (0xFF, 40), (0u8, 7), (0, 16), (0, 40)] {
                        let mut d = base.clone();
                        d.extend(std::iter::repeat(fillv).take(n));
                        store.set_file_data(last, d);
                        out.impl_checks += 1;
                        out.count("rotator:filled-tail");
                        let got: Option<Vec<u64>> = match recover(&store, max_w) { Ok(Ok(ds)) => Some(ds.iter().map(|d| find(d)).collect()), _ => None };
                        if got.as_ref() != Some(&want) {
                            let d = json!({"file": last, "tail": format!("{} x 0x{:02x}", n, fillv), "appended": want, "recovered": got});
                            if fillv == 0 && n >= 16 { out.known(KNOWN_ZERO, i, d); }
                            else { viol(&mut out, &mut seen, i, "a filled region after the last WAL entry changes what recovery returns", d); }
                        }
                    }
                    store.set_file_data(last, base);
                }
                let total: usize = names.iter().map(|n| store.get_file_data(n).unwrap().len()).sum();
                if total <= 1600 {
                    let files_t = clist(names.iter(), |n| format!("({}, {})", chex(n.as_bytes()), chex(&store.get_file_data(n).unwrap())));
                    rot_t.push(format!("RT {} {}", files_t, first.unwrap()));
                    out.count("rotator:model-compared");
                }
            }
            // (b) payload sizes from 0 to well above the threshold (implementation side only)
            {
                let ths: &[usize] = if huge { &[17, 64, 300, 4096, 65536] } else { &[17, 64, 300, 4096, 32768] };
                let mib = huge && i % 16 == 3; // thorough tier: every 16th case works at the 1 MiB scale
                let t = if mib { 1 << 20 } else { ths[rng.gen_range(0..ths.len())] };
                let mut sizes: Vec<usize> = if mib { vec![0, t - 17, t + 1, (1 << 20) + rng.gen_range(2..4096)] }
                    else { vec![0, 1, t.saturating_sub(90), t.saturating_sub(17), t, t + 1, 2 * t + 3, rng.gen_range(0..=3 * t)] };
                if huge && i % 16 == 11 { sizes.push((1 << 20) + rng.gen_range(0..4096)); } // >= 1 MiB under a small threshold
                // a small update after each big one, so that rotation right after an oversized entry is covered
                let mut ds: Vec<ReplicationDelta> = Vec::new();
                for (j, &sz) in sizes.iter().enumerate() {
                    let val: Vec<u8> = (0..sz).map(|x| (x as u8).wrapping_mul(31).wrapping_add(j as u8)).collect();
                    ds.push(lww_delta(format!("big{}", j), val, 10 + j as u64));
                    ds.push(lww_delta(format!("small{}", j), vec![j as u8], 100 + j as u64));
                }
                let store = InMemoryWalStore::new();
                let mut rot = WalRotator::new(store.clone(), t).unwrap();
                for d in &ds { rot.append(&WalEntry::from_delta(d, d.value.timestamp.time).unwrap()).unwrap(); }
                rot.sync().unwrap();
                drop(rot);
                // cheap structural fingerprint (values may be several MiB): key, value bytes, stamp, flags
                let fp = |d: &ReplicationDelta| -> (String, Option<Vec<u8>>, u64, u64, bool, Option<u64>, u64) {
                    (d.key.clone(), d.value.get().map(|v| v.as_bytes().to_vec()), d.value.timestamp.time, d.value.timestamp.replica_id.0,
                     d.value.is_tombstone(), d.value.expiry_ms, d.source_replica.0)
                };
                let want: Vec<_> = ds.iter().map(fp).collect();
                for max_r in [t, 17.max(t / 4), 4 * t] {
                    out.impl_checks += 1;
                    out.count(&format!("rotator:sized:threshold<={}", if t <= 300 { "300" } else if t <= 65536 { "64Ki" } else { "1Mi" }));
                    match recover(&store, max_r) {
                        Err(()) => viol(&mut out, &mut seen, i, "WAL recovery through a fresh WalRotator panicked", json!({"written_with": t, "read_with": max_r})),
                        Ok(Err(e)) => viol(&mut out, &mut seen, i, "WAL recovery through a fresh WalRotator failed", json!({"written_with": t, "read_with": max_r, "err": e})),
                        Ok(Ok(back)) => {
                            let got: Vec<_> = back.iter().map(fp).collect();
                            if got != want {
                                let lost: Vec<usize> = (0..ds.len()).filter(|&j| !got.contains(&want[j])).map(|j| sizes[j / 2] * (1 - j % 2) + (j % 2)).collect();
                                viol(&mut out, &mut seen, i, "an appended and synced update does not survive the WAL round trip through WalRotator (append, sync, fresh rotator, recover_entries_after(0))",
                                     json!({"written_with_max_file_size": t, "read_with_max_file_size": max_r, "appended": ds.len(), "recovered": back.len(),
                                            "value_sizes_appended": sizes, "value_sizes_of_lost_updates": lost}));
                            }
                        }
                    }
                }
            }
        }

        // ---- 6. large images: payload lengths k*65536 + delta in every encoding, damage concentrated
        //         in the last 64 KiB, right before the footer and around 64 KiB / 4 KiB boundaries
        if large_every > 0 && i % large_every == 5 % large_every {
            // (unit, k, number of values): lengths k*unit + d; with many values the count itself sits on a boundary
            let pats: [(usize, usize, usize); 12] = [(65536, 1, 1), (65536, 2, 1), (65536, 3, 24), (65536, 16, 1), (4096, 1, 1), (256, 130, 255),
                                                     (8192, 1, 1), (512, 70, 256), (4096, 3, 1), (1024, 40, 257), (65536, 1, 64), (8192, 2, 63)];
            let pat = ((i / large_every) % 12) as usize;
            let (unit, mut k, mut m) = pats[pat];
            if huge && pat == 5 && (i / large_every / 12) % 4 == 0 { k = 0x8000; m = [65535, 65536, 65537][((i / large_every / 12 / 4) % 3) as usize]; } // 10^5-scale record counts (thorough)
            let many = m > 1;
            let delta_len: i64 = match rng.gen_range(0..5) { 0 => 0, 1 => 1, 2 => -1, 3 => rng.gen_range(2..200), _ => -rng.gen_range(2..200) };
            let target = (k as i64 * unit as i64 + delta_len) as usize;
            out.count(&format!("large:{}x{}{}:{}-values", k, unit, if delta_len == 0 { "" } else if delta_len > 0 { "+" } else { "-" }, m));
            let mk = |sizes: &[usize]| -> Vec<ReplicationDelta> {
                sizes.iter().enumerate().map(|(j, &sz)| {
                    let val: Vec<u8> = (0..sz).map(|x| ((x as u32).wrapping_mul(2654435761) >> 13) as u8 ^ j as u8).collect();
                    lww_delta(format!("L{}", j), val, 5 + j as u64)
                }).collect()
            };
            // value sizes such that `measure` (the length of the checksummed region) is exactly `target`
            let fit = |measure: &dyn Fn(&[ReplicationDelta]) -> usize| -> Vec<ReplicationDelta> {
                let d0 = measure(&mk(&vec![0; m]));
                let total = target.saturating_sub(d0);
                let mut sizes = vec![total / m; m];
                sizes[m - 1] += total - (total / m) * m;
                mk(&sizes)
            };
            let fp = |d: &ReplicationDelta| -> (String, Option<Vec<u8>>, u64, u64, bool, u64) {
                (d.key.clone(), d.value.get().map(|v| v.as_bytes().to_vec()), d.value.timestamp.time, d.value.timestamp.replica_id.0, d.value.is_tombstone(), d.source_replica.0)
            };
            // probes for an image whose checksummed data region is [ds, de)
            let probes_for = |rng: &mut Rng, len: usize, ds: usize, de: usize| -> Vec<Mut> {
                let mut pos: Vec<usize> = vec![];
                for back in [1usize, 2, 3, 8, 64, 300] { if de >= ds + back { pos.push(de - back); } }
                let lo = ds.max(de.saturating_sub(65536));
                for _ in 0..24 { pos.push(rng.gen_range(lo..de)); }
                let mut b = 65536;
                while b < len + 65536 {
                    for base in [0usize, ds] { for d in [-1i64, 0, 1] { let p = (base + b) as i64 + d; if p >= 0 && (p as usize) < len { pos.push(p as usize); } } }
                    b += 65536;
                }
                let mut b4 = (lo / 4096) * 4096;
                while b4 < de { for d in [-1i64, 0, 1] { let p = b4 as i64 + d; if p >= ds as i64 && (p as usize) < de { pos.push(p as usize); } } b4 += 4096; }
                for _ in 0..8 { let bb = ds + rng.gen_range(0..((de - ds) / 4096).max(1)) * 4096; for d in [-1i64, 0, 1] { let p = bb as i64 + d; if p >= ds as i64 && (p as usize) < de { pos.push(p as usize); } } }
                for _ in 0..8 { pos.push(rng.gen_range(0..len)); }
                pos.sort(); pos.dedup();
                let mut v: Vec<Mut> = vec![Mut::None];
                for p in pos { v.push(Mut::Flip(p, rng.gen_range(0..8))); }
                for t in [de.saturating_sub(1), de, (de + 1).min(len - 1), len - 1, ds + (de - ds) / 2, ds + 65536.min(de - ds) - 1] { if t < len { v.push(Mut::Trunc(t)); } }
                // two sites: a tail flip together with a zero-filled / 0xFF-filled range elsewhere in the data
                for fillv in [0u8, 0xFF] {
                    v.push(Mut::Seq("fill+flips", vec![Mut::Fill(rng.gen_range(ds..de), 16, fillv), Mut::Flip(de - 1 - rng.gen_range(0..(de - ds).min(60000)), rng.gen_range(0..8))]));
                }
                v
            };
            // -- checkpoint
            {
                let ds_ = fit(&|ds: &[ReplicationDelta]| {
                    let st: HashMap<String, ReplicatedValue> = ds.iter().map(|d| (d.key.clone(), d.value.clone())).collect();
                    CheckpointWriter::new(Compression::None).write(st, 1, 1).unwrap().len() - 68
                });
                let want: BTreeMap<String, _> = ds_.iter().map(|d| (d.key.clone(), fp(d))).collect();
                let st: HashMap<String, ReplicatedValue> = ds_.iter().map(|d| (d.key.clone(), d.value.clone())).collect();
                let (ts_ms, last, keys) = (77u64, 3u64, st.len() as u64);
                let img = CheckpointWriter::new(Compression::None).write(st, ts_ms, last).unwrap();
                let (dstart, dend) = (52usize, img.len() - 16);
                if dend - dstart != target { viol(&mut out, &mut seen, i, "harness: large checkpoint payload has not the intended length", json!({"want": target, "got": dend - dstart})); }
                let mut model_probes = Vec::new();
                for m_ in probes_for(&mut rng, img.len(), dstart, dend) {
                    let bad = m_.apply(&img);
                    out.impl_checks += 1;
                    out.count(&format!("large-checkpoint:{}", m_.label()));
                    let r = catch_unwind(AssertUnwindSafe(|| -> Result<(u64, u64, u64, BTreeMap<String, _>), CheckpointError> {
                        let rd = CheckpointReader::open(&bad)?;
                        rd.validate()?;
                        let d = rd.load()?;
                        Ok((rd.key_count(), rd.timestamp_ms(), rd.last_segment_id(), d.state.iter().map(|(k, v)| (k.clone(), fp(&ReplicationDelta::new(k.clone(), v.clone(), ReplicaId(1))))).collect()))
                    }));
                    let term = match &r {
                        Err(_) => { viol(&mut out, &mut seen, i, "the implementation panicked on CheckpointReader open/validate/load of a large image", json!({"mutation": m_.term(), "image_len": img.len()})); "CPanic".to_string() }
                        Ok(Err(e)) => {
                            if matches!(m_, Mut::None) { viol(&mut out, &mut seen, i, "large checkpoint does not round-trip", json!({"err": e.to_string(), "data_len": target})); }
                            format!("CErr {}", chk_kind(e))
                        }
                        Ok(Ok((kc, t, l, stt))) => {
                            let same = *stt == want && *kc == keys && *t == ts_ms && *l == last;
                            if !same || matches!(m_, Mut::Trunc(_)) {
                                viol(&mut out, &mut seen, i, if matches!(m_, Mut::None) { "large checkpoint does not round-trip" } else { "damaged large checkpoint decoded into different data (or a truncated one accepted)" },
                                     json!({"mutation": m_.term(), "image_len": img.len(), "data_region": [dstart, dend], "data_len": target,
                                            "rebuild": "CheckpointWriter::write of LWW values L0.. with value byte x = ((x*2654435761)>>13) ^ j, see c14.rs section 6"}));
                            }
                            if *stt == want { format!("COk {} {} {}", kc, t, l) } else { "CDiff".to_string() }
                        }
                    };
                    if model_probes.len() < 6 && !matches!(m_, Mut::Seq(..)) {
                        let u = match CheckpointReader::open(&bad) { Err(_) => "UOpenErr", Ok(_) => "UReturned" };
                        model_probes.push(format!("({}, {}, {})", m_.term(), term, u));
                    }
                }
                // the ~64 KiB image is also judged by the model (writer bytes incl. the checksum, and the probes)
                if k == 1 && unit == 65536 && !many && model_large {
                    chk_t.push(format!("CK {} {} {} {} {} {}", keys, ts_ms, last, chex_long(&img[52..img.len() - 16]), chex_long(&img), clist(model_probes.iter(), |p| p.clone())));
                    out.count("large-checkpoint:model-compared");
                }
            }
            // -- segment
            {
                let ds_ = fit(&|ds: &[ReplicationDelta]| {
                    let mut w = SegmentWriter::new(Compression::None);
                    for d in ds { w.write_delta(d).unwrap(); }
                    w.finish().unwrap().len() - 64
                });
                let want: Vec<_> = ds_.iter().map(fp).collect();
                let mut w = SegmentWriter::new(Compression::None);
                for d in &ds_ { w.write_delta(d).unwrap(); }
                let img = w.finish().unwrap();
                let (dstart, dend) = (40usize, img.len() - 24);
                for m_ in probes_for(&mut rng, img.len(), dstart, dend) {
                    let bad = m_.apply(&img);
                    out.impl_checks += 1;
                    out.count(&format!("large-segment:{}", m_.label()));
                    let r = catch_unwind(AssertUnwindSafe(|| -> Result<Vec<ReplicationDelta>, SegmentError> { let rd = SegmentReader::open(&bad)?; rd.validate()?; rd.read_all() }));
                    match &r {
                        Err(_) => viol(&mut out, &mut seen, i, "the implementation panicked on SegmentReader open/validate/read_all of a large image", json!({"mutation": m_.term(), "image_len": img.len()})),
                        Ok(Err(e)) => { if matches!(m_, Mut::None) { viol(&mut out, &mut seen, i, "large segment does not round-trip", json!({"err": e.to_string()})); } }
                        Ok(Ok(back)) => {
                            let got: Vec<_> = back.iter().map(fp).collect();
                            if got != want || matches!(m_, Mut::Trunc(_)) {
                                viol(&mut out, &mut seen, i, if matches!(m_, Mut::None) { "large segment does not round-trip" } else { "damaged large segment decoded into different data (or a truncated one accepted)" },
                                     json!({"mutation": m_.term(), "image_len": img.len(), "record_region": [dstart, dend]}));
                            }
                        }
                    }
                }
            }
            // -- WAL entry (one large payload) and gossip message
            {
                let ds_ = fit(&|ds: &[ReplicationDelta]| payload_of(&ds[0]).len() * ds.len());
                let d0 = &ds_[0];
                let e = WalEntry::from_delta(d0, 42).unwrap();
                let img = e.encode();
                for m_ in probes_for(&mut rng, img.len(), 16, img.len()) {
                    // flips in the length / stamp fields belong to the known header finding: not repeated here
                    if let Mut::Flip(p, _) = m_ { if p < 12 { continue; } }
                    let bad = m_.apply(&img);
                    out.impl_checks += 1;
                    out.count(&format!("large-wal:{}", m_.label()));
                    match catch_unwind(AssertUnwindSafe(|| WalEntry::decode(&bad))) {
                        Err(_) => viol(&mut out, &mut seen, i, "the implementation panicked on WalEntry::decode of a large entry", json!({"mutation": m_.term(), "image_len": img.len()})),
                        Ok(None) => { if matches!(m_, Mut::None) { viol(&mut out, &mut seen, i, "large WAL entry does not round-trip", json!({"payload_len": e.data.len()})); } }
                        Ok(Some((e2, used))) => {
                            let same = used == img.len() && e2.timestamp == 42 && e2.data == e.data && e2.to_delta().map(|x| fp(&x) == fp(d0)).unwrap_or(false);
                            if !same { viol(&mut out, &mut seen, i, "damaged large WAL entry decoded into different data", json!({"mutation": m_.term(), "payload_len": e.data.len()})); }
                        }
                    }
                }
                if target <= 200_000 {
                    let msg = GossipMessage::new_delta_batch(ReplicaId(2), ds_.clone(), 9);
                    out.impl_checks += 1;
                    out.count("large-gossip:roundtrip");
                    match msg.serialize().map_err(|e| e.to_string()).and_then(|b| GossipMessage::deserialize(&b).map(|m| (b, m)).map_err(|e| e.to_string())) {
                        Ok((bytes, GossipMessage::DeltaBatch { source_replica, deltas: back, epoch })) => {
                            if source_replica.0 != 2 || epoch != 9 || back.iter().map(fp).collect::<Vec<_>>() != ds_.iter().map(fp).collect::<Vec<_>>() {
                                viol(&mut out, &mut seen, i, "large gossip message decoded into different data", json!({"bytes": bytes.len()}));
                            }
                            let mut cut = 4095usize;
                            while cut < bytes.len() {
                                for c in [cut, cut + 1, cut + 2] {
                                    if c < bytes.len() && GossipMessage::deserialize(&bytes[..c]).is_ok() { viol(&mut out, &mut seen, i, "a truncated large gossip message is accepted", json!({"k": c})); }
                                }
                                out.impl_checks += 3;
                                cut += if bytes.len() > 400_000 { 65536 } else { 16384 };
                            }
                        }
                        Ok(_) => viol(&mut out, &mut seen, i, "large gossip message decoded into a different message kind", json!({})),
                        Err(e) => viol(&mut out, &mut seen, i, "large gossip message does not round-trip", json!({"err": e})),
                    }
                }
            }
        }

        let term = format!("(K {} {} {} {} {})", deltas_t, clist(wal_t.iter(), |x| x.clone()), clist(seg_t.iter(), |x| x.clone()), clist(chk_t.iter(), |x| x.clone()), clist(rot_t.iter(), |x| x.clone()));
        out.count(&format!("batch:{}", deltas.len().min(10)));
        out.sample(json!({"deltas": canons.iter().map(|c| c.chars().take(160).collect::<String>()).collect::<Vec<_>>()}));
        if args.only.is_some() {
            println!("case {}: {} deltas{}", i, deltas.len(), if adversarial { " (with a footer-imitating batch)" } else { "" });
            for c in &canons { println!("  {}", c.chars().take(300).collect::<String>()); }
        }
        out.case(i, term, deltas.len() >= 2, &canons.join("|"));
    }
    out.finish(args.seed);
}

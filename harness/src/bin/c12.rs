//! C12: streaming persistence is crash-consistent at every step and loses nothing confirmed.
//!
//! The real `StreamingPersistence` (push / flush) and `Compactor` (compact) run over a scripted
//! `ObjectStore` implemented here.  The store takes the outcome of every trait call from a fault
//! script (keyed by call index), records every call with its outcome, and remembers the whole
//! map after every call (snapshot j = the store a process that died after j calls leaves behind).
//!
//! Case i = workload (i / 128) under fault placement (i % 128): placement 0 is fault free,
//! 1..=120 a single fault (call index (p-1)/3, kind (p-1)%3 in none / torn / full), 121..=127 a
//! random script of 2-4 faults.  The workload only depends on (seed, i / 128).
//!
//! Direct oracles (the property itself, on the implementation):
//!  (a) at EVERY crash instant the real `RecoveryManager::recover` on the snapshot returns Ok;
//!  (b) at every crash instant the manifest parses and every object it names exists and decodes;
//!  (c) at every crash instant every delta of every flush that had returned Ok by then is
//!      dominated by the state folded (real `ReplicatedValue::merge`) from what recovery returns,
//!      and is returned verbatim as long as no compaction has succeeded;
//!  (d) a flush that returns Err leaves `pending_count()` unchanged; every accepted delta is
//!      finally confirmed or still pending;
//!  (e) no panic.
//!
//! Model tie: configuration, workload (with observed segment sizes), the complete call log, every
//! operation result and the recovered deltas at a sample of crash instants are printed as a Coq
//! `case12`; the model must reproduce log, results and recovered multisets (Corr/C12.v).
use rand::Rng as _;
use redis_sim::io::TimeSource;
use redis_sim::redis::SDS;
use redis_sim::replication::lattice::ReplicaId;
use redis_sim::replication::state::{ReplicatedValue, ReplicationDelta, ShardReplicaState};
use redis_sim::replication::ConsistencyLevel;
use redis_sim::streaming::integration::StreamingIntegration;
use redis_sim::streaming::StreamingConfig;
use redis_sim::streaming::{
    CompactionConfig, CompactionError, Compactor, ListResult, Manifest, ManifestManager, ObjectMeta, ObjectStore, RecoveryManager,
    SegmentReader, StreamingPersistence, WriteBufferConfig,
};
use serde_json::{json, Value};
use std::collections::{BTreeMap, BTreeSet, HashMap};
use std::future::Future;
use std::io::{Error as IoError, ErrorKind, Result as IoResult};
use std::panic::{catch_unwind, AssertUnwindSafe};
use std::pin::Pin;
use std::sync::atomic::{AtomicU64, Ordering};
use std::sync::{Arc, Mutex};
use std::time::Duration;
use vharness::rv::*;
use vharness::util::*;

const HEADER: &str = "From RV Require Import Corr.C12.\nLocal Open Scope string_scope.\nLocal Open Scope N_scope.\nLocal Open Scope list_scope.";
const M: u64 = 128;
const PREFIX: &str = "p";
const KEYS: [&str; 3] = ["k", "j", "h"];
const VALS: [&[u8]; 4] = [b"a", b"", b"\x00\xff", b"10"];
const FIELDS: [&str; 2] = ["f1", "f2"];

const V_RECOVERY: &str = "recovery fails at a crash instant";
const V_MANIFEST: &str = "the manifest references a missing or partially written object at a crash instant";
const V_LOST: &str = "a delta of a flush that returned Ok is not recovered at a crash instant";
const V_DROP: &str = "a failed flush discarded buffered deltas";
const V_PANIC: &str = "the implementation panicked";
const V_COUNT: &str = "a flush returned Ok with a delta count different from the buffered count";

// ------------------------------------------------------------------ the scripted store

#[derive(Clone, Copy, Debug, PartialEq, Eq)]
enum Fault {
    ErrNone,
    ErrTorn(usize),
    ErrFull,
}
#[derive(Clone, Copy, Debug, PartialEq, Eq)]
enum Outc {
    Ok,
    EN,
    ET,
    EF,
    /// get only: the call reports success, the bytes returned are damaged in transit
    GB,
}
impl Outc {
    fn term(self) -> &'static str {
        match self { Outc::Ok => "OK", Outc::EN => "EN", Outc::ET => "ET", Outc::EF => "EF", Outc::GB => "GB" }
    }
}
#[derive(Clone, Debug, PartialEq, Eq)]
enum Name {
    Man,
    Tmp,
    Seg(u64),
    Ck(u64),
    Other(String),
}
impl Name {
    fn of(key: &str) -> Name {
        let seg = format!("{}/segments/segment-", PREFIX);
        let ck = format!("{}/checkpoints/chk-", PREFIX);
        if key == format!("{}/manifest.json", PREFIX) {
            Name::Man
        } else if key == format!("{}/manifest.json.tmp", PREFIX) {
            Name::Tmp
        } else if let Some(n) = key.strip_prefix(&seg).and_then(|s| s.strip_suffix(".seg")).and_then(|s| s.parse::<u64>().ok()) {
            Name::Seg(n)
        } else if let Some(n) = key.strip_prefix(&ck).and_then(|s| s.strip_suffix(".chk")).and_then(|s| s.parse::<u64>().ok()) {
            Name::Ck(n)
        } else {
            Name::Other(key.to_string())
        }
    }
    fn term(&self) -> String {
        match self {
            Name::Man => "NMan".into(),
            Name::Tmp => "NTmp".into(),
            Name::Seg(n) => format!("(NSeg {})", n),
            Name::Ck(n) => format!("(NCk {})", n),
            Name::Other(_) => "(NCk 0)".into(),
        }
    }
}
#[derive(Clone, Debug)]
enum CallDesc {
    Put(Name),
    Get(Name),
    Rename(Name, Name),
    Delete(Name),
    Exists(Name),
    List,
}
impl CallDesc {
    fn term(&self) -> String {
        match self {
            CallDesc::Put(n) => format!("CPut {}", n.term()),
            CallDesc::Get(n) => format!("CGet {}", n.term()),
            CallDesc::Rename(a, b) => format!("CRename {} {}", a.term(), b.term()),
            CallDesc::Delete(n) => format!("CDelete {}", n.term()),
            CallDesc::Exists(n) => format!("CExists {}", n.term()),
            CallDesc::List => "CList".into(),
        }
    }
    fn kind(&self) -> &'static str {
        match self {
            CallDesc::Put(_) => "put",
            CallDesc::Get(_) => "get",
            CallDesc::Rename(..) => "rename",
            CallDesc::Delete(_) => "delete",
            CallDesc::Exists(_) => "exists",
            CallDesc::List => "list",
        }
    }
    fn unknown_name(&self) -> bool {
        let o = |n: &Name| matches!(n, Name::Other(_));
        match self {
            CallDesc::Put(n) | CallDesc::Get(n) | CallDesc::Delete(n) | CallDesc::Exists(n) => o(n),
            CallDesc::Rename(a, b) => o(a) || o(b),
            CallDesc::List => false,
        }
    }
}
fn log_term(l: &[(CallDesc, Outc)]) -> String {
    clist(l.iter(), |(c, o)| format!("({}, {})", c.term(), o.term()))
}

type Map = BTreeMap<String, Arc<Vec<u8>>>;
#[derive(Default)]
struct Inner {
    map: Map,
    script: HashMap<usize, Fault>,
    ncalls: usize,
    log: Vec<(CallDesc, Outc)>,
    /// snapshots[j] = the map after j calls
    snapshots: Vec<Map>,
    head_calls: usize,
    /// what a damaged read did (position, verdict), and whether a damaged image decoded to
    /// different deltas
    garble_notes: Vec<String>,
    undetected: Option<String>,
}
const DAMAGE_MODES: [&str; 6] = ["one bit flipped", "two bits flipped (header + data)", "16 bytes zero-filled", "a structural header field set to 0xFF", "a header byte +1", "footer zero-filled"];
/// structure-aware damage of a segment image (64-byte header, records, 24-byte footer); returns the
/// first damaged position
fn damage(buf: &mut Vec<u8>, draw: usize) -> usize {
    let len = buf.len();
    let pos = draw.wrapping_mul(2654435761) % len;
    match (draw / 8) % DAMAGE_MODES.len() {
        0 => {
            buf[pos] ^= 1u8 << (draw % 8);
            pos
        }
        1 => {
            let h = pos % 64.min(len);
            buf[h] ^= 1u8 << (draw % 8);
            let d = if len > 90 { 64 + pos % (len - 88) } else { pos };
            buf[d] ^= 0x10;
            h
        }
        2 => {
            for b in buf.iter_mut().skip(pos).take(16) {
                *b = 0;
            }
            pos
        }
        3 => {
            // record count / min / max / checksum fields live in bytes 8..36 of the header
            let f = 8 + (draw % 7) * 4;
            for b in buf.iter_mut().skip(f).take(4) {
                *b = 0xFF;
            }
            f
        }
        4 => {
            let h = pos % 40.min(len);
            buf[h] = buf[h].wrapping_add(1);
            h
        }
        _ => {
            let f = len.saturating_sub(24);
            for b in buf.iter_mut().skip(f) {
                *b = 0;
            }
            f
        }
    }
}
fn decode_seg(d: &[u8]) -> Option<Vec<ReplicationDelta>> {
    let rd = SegmentReader::open(d).ok()?;
    rd.validate().ok()?;
    rd.read_all().ok()
}
impl Inner {
    fn begin(&mut self) -> Option<Fault> {
        let f = self.script.get(&self.ncalls).copied();
        self.ncalls += 1;
        f
    }
    fn end(&mut self, c: CallDesc, o: Outc) {
        self.log.push((c, o));
        let s = self.map.clone();
        self.snapshots.push(s);
    }
}
#[derive(Clone)]
struct ScriptedStore {
    inner: Arc<Mutex<Inner>>,
}
fn injected() -> IoError {
    IoError::new(ErrorKind::Other, "injected")
}
fn not_found(key: &str) -> IoError {
    IoError::new(ErrorKind::NotFound, format!("Key not found: {}", key))
}
impl ScriptedStore {
    /// a healthy store (no script) holding `map`
    fn healthy(map: Map) -> ScriptedStore {
        let snapshots = vec![map.clone()];
        ScriptedStore { inner: Arc::new(Mutex::new(Inner { map, snapshots, ..Default::default() })) }
    }
    /// forget the calls made so far (call index 0 = the next call) and install the script
    fn arm(&self, script: HashMap<usize, Fault>) {
        let mut g = self.inner.lock().unwrap();
        g.ncalls = 0;
        g.log.clear();
        g.head_calls = 0;
        let m = g.map.clone();
        g.snapshots = vec![m];
        g.script = script;
    }
    fn calls(&self) -> usize {
        self.inner.lock().unwrap().ncalls
    }
    fn log(&self) -> Vec<(CallDesc, Outc)> {
        self.inner.lock().unwrap().log.clone()
    }
    fn snapshots(&self) -> Vec<Map> {
        self.inner.lock().unwrap().snapshots.clone()
    }
    fn head_calls(&self) -> usize {
        self.inner.lock().unwrap().head_calls
    }
    fn garble_notes(&self) -> Vec<String> {
        self.inner.lock().unwrap().garble_notes.clone()
    }
    fn undetected(&self) -> Option<String> {
        self.inner.lock().unwrap().undetected.clone()
    }
}
impl ObjectStore for ScriptedStore {
    fn put<'a>(&'a self, key: &'a str, data: &'a [u8]) -> Pin<Box<dyn Future<Output = IoResult<()>> + Send + 'a>> {
        Box::pin(async move {
            let mut g = self.inner.lock().unwrap();
            let (o, res) = match g.begin() {
                None => {
                    g.map.insert(key.to_string(), Arc::new(data.to_vec()));
                    (Outc::Ok, Ok(()))
                }
                Some(Fault::ErrNone) => (Outc::EN, Err(injected())),
                Some(Fault::ErrTorn(cut)) => {
                    // a STRICT prefix, possibly empty
                    let n = if data.is_empty() { 0 } else { cut.min(data.len() - 1) };
                    g.map.insert(key.to_string(), Arc::new(data[..n].to_vec()));
                    (Outc::ET, Err(injected()))
                }
                Some(Fault::ErrFull) => {
                    g.map.insert(key.to_string(), Arc::new(data.to_vec()));
                    (Outc::EF, Err(injected()))
                }
            };
            g.end(CallDesc::Put(Name::of(key)), o);
            res
        })
    }
    fn get<'a>(&'a self, key: &'a str) -> Pin<Box<dyn Future<Output = IoResult<Vec<u8>>> + Send + 'a>> {
        Box::pin(async move {
            let mut g = self.inner.lock().unwrap();
            let (o, res) = match g.begin() {
                None => (Outc::Ok, g.map.get(key).map(|d| d.as_ref().clone()).ok_or_else(|| not_found(key))),
                // a "torn" fault on the GET of a segment: the bytes arrive with one bit flipped,
                // the object at rest is untouched
                Some(Fault::ErrTorn(cut)) if matches!(Name::of(key), Name::Seg(_)) && g.map.get(key).map_or(false, |d| !d.is_empty()) => {
                    let mut buf = g.map.get(key).map(|d| d.as_ref().clone()).unwrap_or_default();
                    let clean = decode_seg(&buf);
                    let pos = damage(&mut buf, cut);
                    let seen = decode_seg(&buf);
                    let same = match (&clean, &seen) {
                        (Some(a), Some(b)) => a.len() == b.len() && a.iter().zip(b.iter()).all(|(x, y)| x.key == y.key && x.source_replica == y.source_replica && obs(&x.value) == obs(&y.value)),
                        _ => false,
                    };
                    let what = format!("get of {}: damage mode {} at byte {} of {} in the returned buffer, object at rest intact", key, DAMAGE_MODES[(cut / 8) % DAMAGE_MODES.len()], pos, buf.len());
                    if seen.is_none() {
                        g.garble_notes.push(format!("{}: rejected", what));
                        (Outc::GB, Ok(buf))
                    } else if same {
                        g.garble_notes.push(format!("{}: harmless", what));
                        (Outc::Ok, Ok(buf))
                    } else {
                        g.undetected = Some(format!("{}: passes open+validate and decodes to different deltas", what));
                        (Outc::Ok, Ok(buf))
                    }
                }
                Some(_) => (Outc::EN, Err(injected())),
            };
            g.end(CallDesc::Get(Name::of(key)), o);
            res
        })
    }
    fn exists<'a>(&'a self, key: &'a str) -> Pin<Box<dyn Future<Output = IoResult<bool>> + Send + 'a>> {
        Box::pin(async move {
            let mut g = self.inner.lock().unwrap();
            let (o, res) = match g.begin() {
                None => (Outc::Ok, Ok(g.map.contains_key(key))),
                Some(_) => (Outc::EN, Err(injected())),
            };
            g.end(CallDesc::Exists(Name::of(key)), o);
            res
        })
    }
    fn delete<'a>(&'a self, key: &'a str) -> Pin<Box<dyn Future<Output = IoResult<()>> + Send + 'a>> {
        Box::pin(async move {
            let mut g = self.inner.lock().unwrap();
            let (o, res) = match g.begin() {
                None => {
                    g.map.remove(key);
                    (Outc::Ok, Ok(()))
                }
                Some(_) => (Outc::EN, Err(injected())),
            };
            g.end(CallDesc::Delete(Name::of(key)), o);
            res
        })
    }
    fn list<'a>(&'a self, prefix: &'a str, _continuation_token: Option<&'a str>) -> Pin<Box<dyn Future<Output = IoResult<ListResult>> + Send + 'a>> {
        Box::pin(async move {
            let mut g = self.inner.lock().unwrap();
            let (o, res) = match g.begin() {
                None => {
                    let objects: Vec<ObjectMeta> = g
                        .map
                        .iter()
                        .filter(|(k, _)| k.starts_with(prefix))
                        .map(|(k, v)| ObjectMeta { key: k.clone(), size_bytes: v.len() as u64, created_at_ms: 0, etag: None })
                        .collect();
                    (Outc::Ok, Ok(ListResult { objects, continuation_token: None }))
                }
                Some(_) => (Outc::EN, Err(injected())),
            };
            g.end(CallDesc::List, o);
            res
        })
    }
    fn rename<'a>(&'a self, from: &'a str, to: &'a str) -> Pin<Box<dyn Future<Output = IoResult<()>> + Send + 'a>> {
        Box::pin(async move {
            let mut g = self.inner.lock().unwrap();
            let (o, res) = match g.begin() {
                None => match g.map.remove(from) {
                    Some(obj) => {
                        g.map.insert(to.to_string(), obj);
                        (Outc::Ok, Ok(()))
                    }
                    None => (Outc::Ok, Err(IoError::new(ErrorKind::NotFound, format!("Source key not found: {}", from)))),
                },
                Some(_) => (Outc::EN, Err(injected())),
            };
            g.end(CallDesc::Rename(Name::of(from), Name::of(to)), o);
            res
        })
    }
    /// not in the model: counted, logged as a get
    fn head<'a>(&'a self, key: &'a str) -> Pin<Box<dyn Future<Output = IoResult<ObjectMeta>> + Send + 'a>> {
        Box::pin(async move {
            let mut g = self.inner.lock().unwrap();
            g.head_calls += 1;
            let (o, res) = match g.begin() {
                None => (
                    Outc::Ok,
                    g.map.get(key).map(|d| ObjectMeta { key: key.to_string(), size_bytes: d.len() as u64, created_at_ms: 0, etag: None }).ok_or_else(|| not_found(key)),
                ),
                Some(_) => (Outc::EN, Err(injected())),
            };
            g.end(CallDesc::Get(Name::of(key)), o);
            res
        })
    }
}

// ------------------------------------------------------------------ time source of the compactor

#[derive(Clone)]
struct FixedTime(Arc<AtomicU64>);
impl TimeSource for FixedTime {
    fn now_millis(&self) -> u64 {
        self.0.load(Ordering::SeqCst)
    }
}

// ------------------------------------------------------------------ workloads

#[derive(Clone)]
enum Op {
    Push(ReplicationDelta),
    Flush,
    Compact(u64),
}
struct Workload {
    thr: usize,
    cc_target: usize,
    cc_min: usize,
    cc_maxper: usize,
    ops: Vec<Op>,
}
fn delta_term(d: &ReplicationDelta) -> String {
    format!("(D {} {} {})", chex(d.key.as_bytes()), rv_term(&d.value, false), d.source_replica.0)
}
fn delta_text(d: &ReplicationDelta) -> String {
    format!("{}@{} src={}", d.key, obs(&d.value), d.source_replica.0)
}

/// one delta issued by one of the three real replica states
fn gen_delta(rng: &mut Rng, rich: bool, reps: &mut Vec<ShardReplicaState>, g: &mut u64) -> ReplicationDelta {
    let r = rng.gen_range(0..reps.len());
    let key = KEYS[rng.gen_range(0..KEYS.len())].to_string();
    if !rich {
        // logical times globally unique and increasing
        *g += rng.gen_range(0..3u64);
        reps[r].lamport_clock.time = *g;
    }
    let d = if rich && key == "h" {
        let del = if rng.gen_bool(0.3) { reps[r].record_hash_delete(key.clone(), vec![FIELDS[rng.gen_range(0..FIELDS.len())].to_string()]) } else { None };
        match del {
            Some(d) => d,
            None => {
                let n = rng.gen_range(1..3);
                let fs = (0..n).map(|_| (FIELDS[rng.gen_range(0..FIELDS.len())].to_string(), SDS::new(VALS[rng.gen_range(0..VALS.len())].to_vec()))).collect();
                reps[r].record_hash_write(key.clone(), fs)
            }
        }
    } else {
        let del = if rng.gen_bool(0.25) { reps[r].record_delete(key.clone()) } else { None };
        match del {
            Some(d) => d,
            None => {
                let exp = if rich && rng.gen_bool(0.3) { Some(rng.gen_range(1..5u64) * 1000) } else { None };
                reps[r].record_write(key.clone(), SDS::new(VALS[rng.gen_range(0..VALS.len())].to_vec()), exp)
            }
        }
    };
    if !rich {
        *g = all_times(&d.value).into_iter().max().unwrap_or(*g).max(*g) + 1;
    }
    ReplicationDelta::new(d.key, d.value, d.source_replica)
}

fn gen_workload(rng: &mut Rng, rich: bool) -> Workload {
    let small_thr = rng.gen_bool(0.15);
    let thr = if small_thr { rng.gen_range(60..300usize) } else { 1usize << 20 };
    let cc_target = if rng.gen_bool(0.5) { 1usize << 30 } else { rng.gen_range(250..900usize) };
    let cc_min = rng.gen_range(2..=3usize);
    let cc_maxper = [2usize, 3, 5][rng.gen_range(0..3)];
    let mut reps: Vec<ShardReplicaState> = (1..=3u64).map(|r| ShardReplicaState::new(ReplicaId(r), ConsistencyLevel::Eventual)).collect();
    if rich {
        for r in reps.iter_mut() {
            r.lamport_clock.time = rng.gen_range(0..6u64);
        }
    }
    let mut g: u64 = rng.gen_range(0..5u64);
    let rounds = rng.gen_range(3..=5usize);
    let ncomp = rng.gen_range(1..=2usize);
    let comp_after: Vec<usize> = (0..ncomp).map(|_| rng.gen_range(2..=rounds)).collect();
    let mut ops = Vec::new();
    if rng.gen_bool(0.1) {
        ops.push(Op::Flush); // a flush with an empty buffer
    }
    for r in 1..=rounds {
        let np = if small_thr { rng.gen_range(2..=4) } else { rng.gen_range(1..=3) };
        for _ in 0..np {
            ops.push(Op::Push(gen_delta(rng, rich, &mut reps, &mut g)));
        }
        ops.push(Op::Flush);
        if rng.gen_bool(0.15) {
            ops.push(Op::Flush); // two in a row
        }
        for c in &comp_after {
            if *c == r {
                ops.push(Op::Compact(rng.gen_range(0..=1000u64)));
            }
        }
    }
    Workload { thr, cc_target, cc_min, cc_maxper, ops }
}

// ------------------------------------------------------------------ one run

#[derive(Clone, Debug)]
enum CRes {
    Ok(Vec<u64>, Option<u64>),
    Nothing,
    Err,
}
#[derive(Clone, Debug)]
enum Res {
    Push(bool),
    Flush(Option<usize>, usize),
    Compact(CRes),
}
impl Res {
    fn term(&self) -> String {
        match self {
            Res::Push(b) => format!("(RPush {})", cbool(*b)),
            Res::Flush(Some(n), p) => format!("(RFlush (FOk {}) {})", n, p),
            Res::Flush(None, p) => format!("(RFlush FErr {})", p),
            Res::Compact(CRes::Ok(ids, c)) => format!("(RCompact (COk {} {}))", clist(ids.iter(), |i| i.to_string()), copt(c, |i| i.to_string())),
            Res::Compact(CRes::Nothing) => "(RCompact CNothing)".into(),
            Res::Compact(CRes::Err) => "(RCompact CErr)".into(),
        }
    }
    fn kind(&self) -> &'static str {
        match self {
            Res::Push(true) => "res:push-accepted",
            Res::Push(false) => "res:push-rejected",
            Res::Flush(Some(0), _) => "res:flush-ok-empty",
            Res::Flush(Some(_), _) => "res:flush-ok",
            Res::Flush(None, _) => "res:flush-err",
            Res::Compact(CRes::Ok(_, Some(_))) => "res:compact-ok-new-segment",
            Res::Compact(CRes::Ok(_, None)) => "res:compact-ok-no-segment",
            Res::Compact(CRes::Nothing) => "res:compact-nothing",
            Res::Compact(CRes::Err) => "res:compact-err",
        }
    }
}
#[derive(Default)]
struct RunOut {
    results: Vec<Res>,
    /// per op: observed size of the segment the op wrote (0 when unknown / none)
    sizes: Vec<u64>,
    /// (number of store calls made when the flush returned Ok, delta)
    confirmed: Vec<(usize, ReplicationDelta)>,
    /// index of the first store call of every compaction that returned Ok
    compact_ok_starts: Vec<usize>,
    /// call index range [start, end) of every compaction that returned Ok
    compact_ok_ranges: Vec<(usize, usize)>,
    /// failed flushes: (op index, pending before, pending after, store calls made so far)
    flush_errs: Vec<(usize, usize, usize, usize)>,
    /// Ok flushes whose deltas_flushed differs from the buffered count: (op index, before, reported)
    count_anomalies: Vec<(usize, usize, usize)>,
    accepted: usize,
    dropped: usize,
    final_pending: usize,
    tracker_mismatch: Option<String>,
}

/// the worker path (lesson 1): start_workers -> DeltaSinkSender -> bridge -> PersistenceActor
fn run_workers(rt: &tokio::runtime::Runtime, seed: u64, i: u64, verbose: bool, out: &mut Out) {
    let mut rng = case_rng(seed ^ 0x12C0_AC7, i);
    let n = [1usize, 99, 100, 101, 199, 200, 201, 350][((i / M / 4) as usize) % 8];
    let mut reps: Vec<ShardReplicaState> = (1..=3u64).map(|r| ShardReplicaState::new(ReplicaId(r), ConsistencyLevel::Eventual)).collect();
    reps[1].lamport_clock.time = 700;
    let deltas: Vec<ReplicationDelta> = (0..n)
        .map(|_| {
            let k = rng.gen_range(0..40);
            let r = rng.gen_range(0..3usize);
            if k % 5 == 0 {
                reps[r].record_hash_write(format!("h{}", k), vec![(format!("f{}", r), SDS::new(b"v".to_vec()))])
            } else {
                reps[r].record_write(format!("k{}", k), SDS::new(vec![b'a'; rng.gen_range(0..20)]), None)
            }
        })
        .collect();
    let store = ScriptedStore::healthy(Map::new());
    let mut cfg = StreamingConfig::test();
    cfg.prefix = PREFIX.to_string();
    let pause_mid = rng.gen_bool(0.5);
    let problem: Option<String> = rt.block_on(async {
        let integ = StreamingIntegration::with_store(Arc::new(store.clone()), cfg, 1);
        let (handles, sender) = match integ.start_workers().await {
            Ok(x) => x,
            Err(e) => return Some(format!("start_workers failed on a healthy store: {}", e)),
        };
        for (j, d) in deltas.iter().enumerate() {
            if sender.send(d.clone()).is_err() {
                return Some(format!("the delta sink refused delta {} of {}", j, n));
            }
            if pause_mid && j == n / 2 {
                // let the bridge drain and a periodic tick fire (flush_interval 50 ms)
                tokio::time::sleep(Duration::from_millis(120)).await;
            }
        }
        tokio::time::sleep(Duration::from_millis(40)).await;
        handles.shutdown().await;
        None
    });
    let fin = analyse(rt, store.snapshots().last().unwrap());
    let mut problem = problem;
    if problem.is_none() {
        match &fin.rec {
            Err(e) => problem = Some(format!("recovery fails after the graceful shutdown: {}", e)),
            Ok(_) => {
                if let Some(p) = &fin.manifest_problem {
                    problem = Some(format!("manifest problem after the graceful shutdown: {}", p));
                }
                for d in &deltas {
                    let absorbed = fin.state.get(&d.key).map_or(false, |v| obs(&v.merge(&d.value)) == obs(v));
                    if !absorbed {
                        problem = Some(format!("{} was sent to the delta sink before a graceful shutdown on a healthy store and is not recovered", delta_text(d)));
                        break;
                    }
                }
            }
        }
    }
    out.impl_checks += 1;
    out.count(&format!("worker-path:{}-deltas", n));
    if verbose {
        println!("worker path {}: {} deltas (pause in the middle: {}), {} store calls: {}", i, n, pause_mid, store.calls(), problem.clone().unwrap_or_else(|| "ok".into()));
    }
    if let Some(p) = problem {
        out.count("violation:worker path");
        out.violation(i, "deltas handed to the persistence workers before a graceful shutdown on a healthy store are not all recovered", json!({"deltas": n, "pause_in_the_middle": pause_mid, "problem": p, "store_calls": log_term(&store.log())}));
    }
}
/// size-boundary run on a healthy store (lesson 2)
fn run_big(rt: &tokio::runtime::Runtime, seed: u64, i: u64, thorough: bool, verbose: bool, out: &mut Out) {
    let mut rng = case_rng(seed ^ 0x12C0_B16, i);
    let sizes: &[usize] = &[4095, 4096, 4097, 10_000];
    let idx = (i / M / 4) as usize;
    // thorough: every 40th size-boundary run flushes 100 000 deltas
    let n = if thorough && idx % 40 == 7 { 100_000 } else { sizes[idx % sizes.len()] };
    let mut huge_left = 4usize;
    let max_val: usize = if thorough { 1 << 20 } else { 64 << 10 };
    let mut reps: Vec<ShardReplicaState> = (1..=3u64).map(|r| ShardReplicaState::new(ReplicaId(r), ConsistencyLevel::Eventual)).collect();
    reps[1].lamport_clock.time = 1 << 40;
    reps[2].lamport_clock.time = (1u64 << 63) + 5;
    let nkeys = rng.gen_range(50..2000usize);
    let mut mk = |rng: &mut Rng, reps: &mut Vec<ShardReplicaState>| -> ReplicationDelta {
        let k = rng.gen_range(0..nkeys);
        let r = rng.gen_range(0..3usize);
        let key = if k % 17 == 0 { format!("k{}-{}", k, "x".repeat(300)) } else { format!("k{}", k) };
        if k % 5 == 0 {
            reps[r].record_hash_write(format!("h{}", key), vec![(format!("f{}", rng.gen_range(0..4)), SDS::new(vec![7u8; rng.gen_range(0..40)]))])
        } else {
            let mut len = match rng.gen_range(0..200) { 0 => max_val, 1 => 65_536, 2 => 65_535, 3 => 1024, 4 => 0, _ => rng.gen_range(0..32) };
            if len >= 65_535 {
                if huge_left == 0 { len = 1024; } else { huge_left -= 1; }
            }
            reps[r].record_write(key, SDS::new(vec![b'v'; len]), if rng.gen_bool(0.1) { Some(5000) } else { None })
        }
    };
    let first: Vec<ReplicationDelta> = (0..n).map(|_| mk(&mut rng, &mut reps)).collect();
    let second: Vec<ReplicationDelta> = (0..rng.gen_range(1..4)).map(|_| mk(&mut rng, &mut reps)).collect();
    let store = ScriptedStore::healthy(Map::new());
    let cfg = WriteBufferConfig { backpressure_threshold_bytes: usize::MAX / 2, compression_enabled: false, ..WriteBufferConfig::default() };
    let mut sp = rt.block_on(StreamingPersistence::new(Arc::new(store.clone()), PREFIX.to_string(), 1, cfg)).expect("constructor");
    let mut problem: Option<String> = None;
    for (round, ds) in [&first, &second].iter().enumerate() {
        for d in ds.iter() {
            if sp.push(d.clone()).is_err() {
                problem = Some("push rejected below the backpressure threshold".into());
            }
        }
        match rt.block_on(sp.flush()) {
            Ok(fr) => {
                if fr.deltas_flushed != ds.len() || sp.pending_count() != 0 || fr.segment.as_ref().map(|s| s.record_count as usize) != Some(ds.len()) {
                    problem = Some(format!("flush {} of {} deltas reports deltas_flushed {} / record_count {:?} / pending {}", round, ds.len(), fr.deltas_flushed, fr.segment.as_ref().map(|s| s.record_count), sp.pending_count()));
                }
            }
            Err(e) => problem = Some(format!("flush {} of {} deltas failed on a healthy store: {}", round, ds.len(), e)),
        }
    }
    let truth = |ds: &mut Vec<ReplicationDelta>| -> BTreeMap<String, String> {
        ds.sort_by(|x, y| (y.value.timestamp.time, y.value.timestamp.replica_id.0).cmp(&(x.value.timestamp.time, x.value.timestamp.replica_id.0)));
        let mut st: BTreeMap<String, ReplicatedValue> = BTreeMap::new();
        for d in ds.iter() {
            let nv = match st.get(&d.key) { Some(s) => s.merge(&d.value), None => d.value.clone() };
            st.insert(d.key.clone(), nv);
        }
        st.iter().map(|(k, v)| (k.clone(), obs(v))).collect()
    };
    let mut all: Vec<ReplicationDelta> = first.iter().chain(second.iter()).cloned().collect();
    let want = truth(&mut all);
    let before = analyse(rt, store.snapshots().last().unwrap());
    if problem.is_none() && (before.rec.is_err() || before.state_obs != want) {
        problem = Some(format!("after the two flushes recovery gives {} keys (error {:?}), persisted {} keys", before.state_obs.len(), before.rec.as_ref().err(), want.len()));
    }
    let cc = CompactionConfig { target_segment_size: usize::MAX / 2, max_segments: 100, min_segments_to_compact: 2, max_segments_per_compaction: 5, tombstone_ttl: Duration::from_millis(1000), compression_enabled: false };
    let mut comp = Compactor::with_time_source(Arc::new(store.clone()), PREFIX.to_string(), ManifestManager::new(store.clone(), PREFIX), cc, FixedTime(Arc::new(AtomicU64::new(0))));
    let cr = rt.block_on(comp.compact());
    let after = analyse(rt, store.snapshots().last().unwrap());
    if problem.is_none() && (cr.is_err() || after.rec.is_err() || after.state_obs != want || after.manifest_problem.is_some()) {
        problem = Some(format!("after the compaction ({}) recovery gives {} keys (error {:?}, manifest problem {:?}), persisted {} keys", if cr.is_ok() { "Ok" } else { "Err" }, after.state_obs.len(), after.rec.as_ref().err(), after.manifest_problem, want.len()));
    }
    out.impl_checks += 4;
    out.count(&format!("size-boundary-run:{}-deltas", n));
    if verbose {
        println!("size-boundary run {}: {} + {} deltas over {} keys: {}", i, n, second.len(), nkeys, problem.clone().unwrap_or_else(|| "ok".into()));
    }
    if let Some(p) = problem {
        out.count("violation:size-boundary run");
        out.violation(i, "a large flush / compaction does not preserve what was confirmed", json!({"deltas": n, "keys": nkeys, "problem": p}));
    }
}
fn run_workload(rt: &tokio::runtime::Runtime, wl: &Workload, script: HashMap<usize, Fault>, store: &ScriptedStore, ro: &mut RunOut) {
    let cfg = WriteBufferConfig { backpressure_threshold_bytes: wl.thr, compression_enabled: false, ..WriteBufferConfig::default() };
    let mut sp = rt
        .block_on(StreamingPersistence::new(Arc::new(store.clone()), PREFIX.to_string(), 1, cfg))
        .expect("constructor on a healthy empty store");
    store.arm(script);
    let now = Arc::new(AtomicU64::new(0));
    let cc = CompactionConfig {
        target_segment_size: wl.cc_target,
        max_segments: 100,
        min_segments_to_compact: wl.cc_min,
        max_segments_per_compaction: wl.cc_maxper,
        tombstone_ttl: Duration::from_millis(1000),
        compression_enabled: false,
    };
    let mut comp = Compactor::with_time_source(Arc::new(store.clone()), PREFIX.to_string(), ManifestManager::new(store.clone(), PREFIX), cc, FixedTime(now.clone()));
    // what the buffer holds, as far as the harness can tell (accepted pushes, implementation's count)
    let mut pending: Vec<ReplicationDelta> = Vec::new();
    for (n, op) in wl.ops.iter().enumerate() {
        match op {
            Op::Push(d) => {
                let ok = sp.push(d.clone()).is_ok();
                if ok {
                    pending.push(d.clone());
                    ro.accepted += 1;
                }
                ro.results.push(Res::Push(ok));
                ro.sizes.push(0);
            }
            Op::Flush => {
                let before = sp.pending_count();
                if before != pending.len() && ro.tracker_mismatch.is_none() {
                    ro.tracker_mismatch = Some(format!("op {}: pending_count() = {} but the harness tracks {} buffered deltas", n, before, pending.len()));
                }
                let r = rt.block_on(sp.flush());
                let after = sp.pending_count();
                match r {
                    Ok(fr) => {
                        if fr.deltas_flushed != before {
                            ro.count_anomalies.push((n, before, fr.deltas_flushed));
                        }
                        let at = store.calls();
                        for d in pending.drain(..) {
                            ro.confirmed.push((at, d));
                        }
                        ro.sizes.push(fr.segment.as_ref().map(|s| s.size_bytes).unwrap_or(0));
                        ro.results.push(Res::Flush(Some(fr.deltas_flushed), after));
                    }
                    Err(_) => {
                        ro.flush_errs.push((n, before, after, store.calls()));
                        if after < pending.len() {
                            // the implementation dropped (some of) its buffer: follow it
                            ro.dropped += pending.len() - after;
                            let keep = pending.len() - after;
                            pending.drain(..keep);
                        }
                        ro.sizes.push(0);
                        ro.results.push(Res::Flush(None, after));
                    }
                }
            }
            Op::Compact(t) => {
                now.store(*t, Ordering::SeqCst);
                let start = store.calls();
                let r = rt.block_on(comp.compact());
                match r {
                    Ok(cr) => {
                        ro.compact_ok_starts.push(start);
                        ro.compact_ok_ranges.push((start, store.calls()));
                        ro.sizes.push(cr.segment_created.as_ref().map(|s| s.size_bytes).unwrap_or(0));
                        ro.results.push(Res::Compact(CRes::Ok(cr.segments_removed.iter().map(|s| s.id).collect(), cr.segment_created.as_ref().map(|s| s.id))));
                    }
                    Err(CompactionError::NothingToCompact) => {
                        ro.sizes.push(0);
                        ro.results.push(Res::Compact(CRes::Nothing));
                    }
                    Err(_) => {
                        ro.sizes.push(0);
                        ro.results.push(Res::Compact(CRes::Err));
                    }
                }
            }
        }
    }
    ro.final_pending = sp.pending_count();
}

fn op_term(op: &Op, sz: u64) -> String {
    match op {
        Op::Push(d) => format!("(WPush {})", delta_term(d)),
        Op::Flush => format!("(WFlush {})", sz),
        Op::Compact(now) => format!("(WCompact {} {})", now, sz),
    }
}
fn ops_term(ops: &[Op], sizes: &[u64]) -> String {
    clist(ops.iter().enumerate(), |(n, op)| op_term(op, sizes.get(n).copied().unwrap_or(0)))
}

// ------------------------------------------------------------------ what a crash image holds

struct SnapInfo {
    /// recovery result: Ok(deltas) or the error text
    rec: Result<Vec<ReplicationDelta>, String>,
    rec_obs: Vec<String>,
    /// state folded from checkpoint entries and recovered deltas, and its obs text
    state: BTreeMap<String, ReplicatedValue>,
    state_obs: BTreeMap<String, String>,
    /// (b): None = fine
    manifest_problem: Option<String>,
}
fn analyse(rt: &tokio::runtime::Runtime, map: &Map) -> SnapInfo {
    let store = ScriptedStore::healthy(map.clone());
    let r = rt.block_on(RecoveryManager::new(store, PREFIX, 1).recover());
    let mut state: BTreeMap<String, ReplicatedValue> = BTreeMap::new();
    let rec = match r {
        Ok(rs) => {
            if let Some(ck) = &rs.checkpoint_state {
                for (k, v) in ck {
                    state.insert(k.clone(), v.clone());
                }
            }
            for d in &rs.deltas {
                let nv = match state.get(&d.key) {
                    Some(s) => s.merge(&d.value),
                    None => d.value.clone(),
                };
                state.insert(d.key.clone(), nv);
            }
            Ok(rs.deltas)
        }
        Err(e) => Err(e.to_string()),
    };
    let rec_obs = rec.as_ref().map(|ds| ds.iter().map(|d| obs(&d.value)).collect()).unwrap_or_default();
    let state_obs = state.iter().map(|(k, v)| (k.clone(), obs(v))).collect();
    // (b) the manifest and everything it names
    let mut manifest_problem = None;
    if let Some(data) = map.get(&format!("{}/manifest.json", PREFIX)) {
        match serde_json::from_slice::<Manifest>(data) {
            Err(e) => manifest_problem = Some(format!("manifest.json does not parse: {}", e)),
            Ok(m) => {
                for s in &m.segments {
                    let p = match map.get(&s.key) {
                        None => Some("is missing".to_string()),
                        Some(d) => match SegmentReader::open(d) {
                            Err(e) => Some(format!("does not open: {}", e)),
                            Ok(rd) => match rd.validate() {
                                Err(e) => Some(format!("does not validate: {}", e)),
                                Ok(()) => match rd.read_all() {
                                    Err(e) => Some(format!("does not decode: {}", e)),
                                    Ok(ds) if ds.len() != s.record_count as usize => Some(format!("holds {} deltas, the manifest says {}", ds.len(), s.record_count)),
                                    Ok(_) => None,
                                },
                            },
                        },
                    };
                    if let Some(p) = p {
                        manifest_problem = Some(format!("segment {} {}", s.key, p));
                        break;
                    }
                }
                if manifest_problem.is_none() {
                    if let Some(c) = &m.checkpoint {
                        if !map.contains_key(&c.key) {
                            manifest_problem = Some(format!("checkpoint {} is missing", c.key));
                        }
                    }
                }
            }
        }
    }
    SnapInfo { rec, rec_obs, state, state_obs, manifest_problem }
}

// ------------------------------------------------------------------ main

fn bump(out: &mut Out, k: &str, n: u64) {
    *out.dist.entry(k.to_string()).or_insert(0) += n;
}

fn main() {
    let a: Vec<String> = std::env::args().collect();
    let args = &Args::parse(&a[1..]);
    let rich = args.get("rich", 0) != 0;
    let verbose = args.only.is_some();
    let mut out = Out::new(&args.out, "C12", args.shards, HEADER);
    out.nontrivial_rule = "case i = workload (i/128) under fault placement (i%128): 3-5 rounds of 1-3 pushes + flush (sometimes a second flush, sometimes an empty one, small backpressure thresholds in 15%), 1-2 compactions after round 2 or later, deltas issued by three real ShardReplicaStates over keys k/j/h; placement 0 = fault free, 1..120 = one fault (no effect / torn put - on the GET of a segment instead: the bytes arrive with one bit flipped, object at rest intact (GB) - / full put reported as error) at call (p-1)/3, 121..127 = 2-4 random faults; every call boundary is a crash instant; non-trivial = at least one flush returned Ok and (a fault fired or a compaction returned Ok); distinct by workload + call log".into();
    std::panic::set_hook(Box::new(|_| {}));
    let rt = tokio::runtime::Builder::new_current_thread().enable_all().build().unwrap();
    let range: Vec<u64> = match args.only { Some(i) => vec![i], None => (0..args.n).collect() };
    let big = args.get("big", 0);
    for i in range {
        let p = i % M;
        // placement 64 of every 4th workload is a size-boundary run instead (oracle only, no Coq
        // case): one flush of 4095 / 4096 / 4097 / 10 000 (thorough: 100 000) deltas with long keys
        // and values up to 64 KiB (thorough: 1 MiB), a second small flush, a compaction, recovery
        if p == 64 && (i / M) % 4 == 3 {
            let r = catch_unwind(AssertUnwindSafe(|| run_big(&rt, args.seed, i, big != 0, verbose, &mut out)));
            if r.is_err() {
                out.count("violation:the implementation panicked");
                out.violation(i, "the implementation panicked", json!({"case": i, "kind": "size-boundary run"}));
            }
            continue;
        }
        // placement 65 of every 4th workload drives the worker path instead (oracle only): the
        // deltas go through StreamingIntegration::start_workers' delta sink -> bridge ->
        // PersistenceActor (push, should_flush at max_deltas = 100, periodic tick, final flush at
        // shutdown) on a healthy store; after the graceful shutdown everything sent must be recovered
        if p == 65 && (i / M) % 4 == 3 {
            let r = catch_unwind(AssertUnwindSafe(|| run_workers(&rt, args.seed, i, verbose, &mut out)));
            if r.is_err() {
                out.count("violation:the implementation panicked");
                out.violation(i, "the implementation panicked", json!({"case": i, "kind": "worker path"}));
            }
            continue;
        }
        let mut wrng = case_rng(args.seed, (i / M) * M);
        let mut prng = case_rng(args.seed, i);
        let wl = gen_workload(&mut wrng, rich);

        // ---- the fault-free run (tells which call indices exist and which are puts)
        let ff_store = ScriptedStore::healthy(Map::new());
        let mut ff = RunOut::default();
        let ff_res = catch_unwind(AssertUnwindSafe(|| run_workload(&rt, &wl, HashMap::new(), &ff_store, &mut ff)));
        let ff_log = ff_store.log();
        if ff_res.is_err() && p != 0 {
            // reported by placement 0 of this workload
            out.count("skipped:fault-free-run-panicked");
            continue;
        }

        // ---- the fault script of this placement
        let mut script: HashMap<usize, Fault> = HashMap::new();
        let cut = |rng: &mut Rng| -> usize {
            match rng.gen_range(0..10) {
                0 => 0,
                1..=3 => rng.gen_range(1..80),
                4..=7 => rng.gen_range(80..600),
                _ => 100_000,
            }
        };
        if (1..=120).contains(&p) {
            let c = ((p - 1) / 3) as usize;
            let kind = (p - 1) % 3;
            // ET/EF apply to puts; ET on the GET of a segment = the bytes arrive damaged (GB)
            let seg_get = c < ff_log.len() && kind == 1 && matches!(ff_log[c].0, CallDesc::Get(Name::Seg(_)));
            if c >= ff_log.len() || (kind != 0 && ff_log[c].0.kind() != "put" && !seg_get) {
                out.count("skipped:placement-not-applicable");
                if verbose {
                    println!("case {}: placement {} (call {}, kind {}) not applicable: the fault-free run makes {} calls{}", i, p, c, kind, ff_log.len(), ff_log.get(c).map(|l| format!(", call {} is a {}", c, l.0.kind())).unwrap_or_default());
                }
                continue;
            }
            let f = match kind { 0 => Fault::ErrNone, 1 => Fault::ErrTorn(cut(&mut prng)), _ => Fault::ErrFull };
            script.insert(c, f);
        } else if p > 120 {
            let nf = prng.gen_range(2..=4);
            for _ in 0..nf {
                let c = prng.gen_range(0..ff_log.len() + 4);
                let f = match prng.gen_range(0..3) { 0 => Fault::ErrNone, 1 => Fault::ErrTorn(cut(&mut prng)), _ => Fault::ErrFull };
                script.insert(c, f);
            }
        }

        // ---- the run under the script
        let (store, ro, panicked) = if p == 0 {
            (ff_store, ff, ff_res.is_err())
        } else {
            let store = ScriptedStore::healthy(Map::new());
            let mut ro = RunOut::default();
            let r = catch_unwind(AssertUnwindSafe(|| run_workload(&rt, &wl, script.clone(), &store, &mut ro)));
            (store, ro, r.is_err())
        };
        let log = store.log();
        let snaps = store.snapshots();
        let total = log.len();
        let ops_t = ops_term(&wl.ops, &ro.sizes);
        let log_t = log_term(&log);
        let res_t = clist(ro.results.iter(), |r| r.term());
        let script_t = {
            let mut s: Vec<(usize, Fault)> = script.iter().map(|(k, v)| (*k, *v)).collect();
            s.sort_by_key(|x| x.0);
            format!("{:?}", s)
        };
        let base = |extra: Value| -> Value {
            let mut v = json!({"workload": i / M, "placement": p, "rich": rich, "script": script_t, "backpressure_threshold": wl.thr,
                "compaction": {"target_segment_size": wl.cc_target, "min_segments_to_compact": wl.cc_min, "max_segments_per_compaction": wl.cc_maxper, "tombstone_ttl_ms": 1000},
                "ops": ops_t, "log": log_t, "results": res_t});
            if let (Some(o), Some(e)) = (v.as_object_mut(), extra.as_object()) {
                for (k, x) in e {
                    o.insert(k.clone(), x.clone());
                }
            }
            v
        };
        if verbose {
            println!("case {} = workload {} placement {} script {}", i, i / M, p, script_t);
            println!("config: backpressure_threshold_bytes={} target_segment_size={} min_segments_to_compact={} max_segments_per_compaction={} tombstone_ttl=1000ms rich={}", wl.thr, wl.cc_target, wl.cc_min, wl.cc_maxper, rich);
            println!("ops and results:");
            for (n, op) in wl.ops.iter().enumerate() {
                let t = match op { Op::Push(d) => format!("push {}", delta_text(d)), Op::Flush => format!("flush (segment size {})", ro.sizes.get(n).copied().unwrap_or(0)), Op::Compact(t) => format!("compact now={} (segment size {})", t, ro.sizes.get(n).copied().unwrap_or(0)) };
                println!("  {:2} {} -> {}", n, t, ro.results.get(n).map(|r| r.term()).unwrap_or_else(|| "(not reached)".into()));
            }
            println!("log:");
            for (j, (c, o)) in log.iter().enumerate() {
                println!("  call {:2}: {} -> {}", j, c.term(), o.term());
            }
        }
        out.impl_checks += 1; // (e)
        if panicked {
            out.count(&format!("violation:{}", V_PANIC));
            out.violation(i, V_PANIC, base(json!({"ops_completed": ro.results.len()})));
            if verbose {
                println!("oracle (e) no panic: VIOLATED after {} ops", ro.results.len());
            }
            continue;
        }

        // ---- distributions
        out.count(if rich { "rich" } else { "plain" });
        out.count(match p { 0 => "placement:none", 1..=120 => "placement:single", _ => "placement:multi" });
        for op in &wl.ops {
            out.count(match op { Op::Push(_) => "op:push", Op::Flush => "op:flush", Op::Compact(_) => "op:compact" });
        }
        for r in &ro.results {
            out.count(r.kind());
        }
        let mut fired = 0;
        for (c, o) in &log {
            if *o != Outc::Ok {
                fired += 1;
                out.count(&format!("fault:{}@{}", o.term(), c.kind()));
            }
            if c.unknown_name() {
                out.count("unexpected-key");
            }
        }
        for _ in 0..store.head_calls() {
            out.count("unexpected-head-call");
        }
        bump(&mut out, "store-calls", total as u64);
        out.count(&format!("calls-per-run:{}", match total { 0..=19 => "0-19", 20..=29 => "20-29", 30..=39 => "30-39", 40..=49 => "40-49", _ => "50+" }));

        // ---- oracle (d): a failed flush keeps the buffer
        let mut drop_reported = false;
        for (n, before, after, calls) in &ro.flush_errs {
            out.impl_checks += 1;
            let ok = before == after;
            if verbose {
                println!("oracle (d) flush at op {} returned Err: pending_count() {} -> {}: {}", n, before, after, if ok { "ok" } else { "VIOLATED" });
            }
            if !ok {
                out.count(if *after == 0 { "failed-flush:pending-dropped-to-zero" } else { "failed-flush:pending-changed-otherwise" });
            } else {
                out.count("failed-flush:pending-kept");
            }
            if !ok && !drop_reported {
                drop_reported = true;
                out.count(&format!("violation:{}", V_DROP));
                out.violation(i, V_DROP, base(json!({"op_index": n, "pending_before": before, "pending_after": after, "store_calls_made": calls})));
            }
        }
        out.impl_checks += 1;
        let accounted = ro.confirmed.len() + ro.final_pending;
        if verbose {
            println!("oracle (d) accounting: accepted {} = confirmed {} + still pending {} (dropped {}): {}", ro.accepted, ro.confirmed.len(), ro.final_pending, ro.dropped, if accounted == ro.accepted { "ok" } else { "VIOLATED" });
        }
        if accounted != ro.accepted && !drop_reported {
            out.count(&format!("violation:{}", V_DROP));
            out.violation(i, V_DROP, base(json!({"accepted": ro.accepted, "confirmed": ro.confirmed.len(), "still_pending": ro.final_pending, "tracker": ro.tracker_mismatch})));
        }
        for (n, before, reported) in &ro.count_anomalies {
            out.count(&format!("violation:{}", V_COUNT));
            out.violation(i, V_COUNT, base(json!({"op_index": n, "pending_before": before, "deltas_flushed": reported})));
        }
        out.impl_checks += ro.results.iter().filter(|r| matches!(r, Res::Flush(Some(_), _))).count() as u64;

        // ---- oracle (f): a damaged read never makes data disappear silently
        if let Some(u) = store.undetected() {
            out.count("violation:a damaged segment image decodes to different deltas");
            out.violation(i, "a damaged segment image passes SegmentReader::open and validate and decodes to different deltas", base(json!({"what": u})));
        }
        for n in store.garble_notes() {
            out.count(if n.ends_with("rejected") { "garbled-get:rejected" } else { "garbled-get:harmless" });
        }
        if let Some(last) = snaps.last() {
            let sig = |ds: &[ReplicationDelta]| -> Vec<String> { ds.iter().map(|d| format!("{}@{}#{}", d.key, obs(&d.value), d.source_replica.0)).collect() };
            let clean = rt.block_on(RecoveryManager::new(ScriptedStore::healthy(last.clone()), PREFIX, 1).recover());
            if let Ok(cl) = clean {
                let want = sig(&cl.deltas);
                let nseg = cl.manifest.segments.len().min(6);
                for k in 1..=nseg {
                    let st = ScriptedStore::healthy(last.clone());
                    let mut sc: HashMap<usize, Fault> = HashMap::new();
                    sc.insert(k, Fault::ErrTorn(prng.gen_range(0..100_000)));
                    st.arm(sc);
                    let r = rt.block_on(RecoveryManager::new(st.clone(), PREFIX, 1).recover());
                    out.impl_checks += 1;
                    match r {
                        Err(_) => out.count("recovery-with-damaged-read:Err"),
                        Ok(rs) if sig(&rs.deltas) == want => out.count("recovery-with-damaged-read:Ok-unaffected"),
                        Ok(rs) => {
                            out.count("violation:recovery with a damaged read silently returned different deltas");
                            out.violation(i, "recovery with a damaged read of a segment returned Ok with different deltas", base(json!({"damaged_read": st.garble_notes(), "clean": want, "got": sig(&rs.deltas)})));
                        }
                    }
                }
            }
        }

        // ---- oracles (a) (b) (c) at every crash instant
        let conf_obs: Vec<String> = ro.confirmed.iter().map(|(_, d)| obs(&d.value)).collect();
        let mut infos: Vec<SnapInfo> = Vec::new();
        let mut info_of: Vec<usize> = Vec::with_capacity(snaps.len());
        let mut bad_a: Vec<usize> = Vec::new();
        let mut bad_b: Vec<usize> = Vec::new();
        let mut bad_c: Vec<usize> = Vec::new();
        let mut first_c: Option<Value> = None;
        // verdict of (c) at the previous instant, reusable when nothing it depends on changed
        let mut prev_c: Option<(usize, usize, bool, Option<String>)> = None;
        for j in 0..snaps.len() {
            let id = if j > 0 && snaps[j] == snaps[j - 1] {
                info_of[j - 1]
            } else {
                infos.push(analyse(&rt, &snaps[j]));
                infos.len() - 1
            };
            info_of.push(id);
            let info = &infos[id];
            out.impl_checks += 2;
            if info.rec.is_err() {
                bad_a.push(j);
            }
            if info.manifest_problem.is_some() {
                bad_b.push(j);
            }
            // (c)
            let cn = ro.confirmed.partition_point(|(at, _)| *at <= j);
            let verbatim = !ro.compact_ok_starts.iter().any(|s| *s < j);
            out.impl_checks += cn as u64;
            let verdict: Option<String> = match &prev_c {
                Some((pid, pcn, pv, v)) if *pid == id && *pcn == cn && *pv == verbatim => v.clone(),
                _ => {
                    let mut v = None;
                    if let Ok(rec) = &info.rec {
                        for (n, (_, d)) in ro.confirmed[..cn].iter().enumerate() {
                            let why = match info.state.get(&d.key) {
                                None => Some("its key is absent from the recovered state".to_string()),
                                Some(s) => {
                                    if obs(&s.merge(&d.value)) != info.state_obs[&d.key] {
                                        Some(format!("the recovered state of its key ({}) does not dominate it", info.state_obs[&d.key]))
                                    } else if verbatim && !rec.iter().zip(info.rec_obs.iter()).any(|(r, ro_)| r.key == d.key && r.source_replica == d.source_replica && *ro_ == conf_obs[n]) {
                                        Some("it is not among the recovered deltas although no compaction has run".to_string())
                                    } else {
                                        None
                                    }
                                }
                            };
                            if let Some(w) = why {
                                v = Some(format!("{}: {}", delta_text(d), w));
                                break;
                            }
                        }
                    } else if cn > 0 {
                        v = Some(format!("recovery failed ({}), {} confirmed deltas unrecoverable", info.rec.as_ref().err().cloned().unwrap_or_default(), cn));
                    }
                    v
                }
            };
            if let Some(w) = &verdict {
                bad_c.push(j);
                if first_c.is_none() {
                    first_c = Some(json!({"crash_instant": j, "what": w, "confirmed_by_then": cn, "recovered": info.rec.as_ref().map(|ds| ds.iter().map(delta_text).collect::<Vec<_>>()).unwrap_or_default()}));
                }
            }
            if verbose {
                println!("crash instant {:2} (image {}): confirmed {} | recovery {} | (a) {} | (b) {} | (c) {}", j, id, cn,
                    match &info.rec { Ok(ds) => format!("Ok [{}]", ds.iter().map(delta_text).collect::<Vec<_>>().join("; ")), Err(e) => format!("Err({})", e) },
                    if info.rec.is_ok() { "ok" } else { "VIOLATED" },
                    match &info.manifest_problem { None => "ok".to_string(), Some(p) => format!("VIOLATED: {}", p) },
                    match &verdict { None => "ok".to_string(), Some(w) => format!("VIOLATED: {}", w) });
            }
            prev_c = Some((id, cn, verbatim, verdict));
        }
        bump(&mut out, "snapshots-recovered", snaps.len() as u64);
        bump(&mut out, "distinct-images-recovered", infos.len() as u64);
        if let Some(j) = bad_a.first() {
            out.count(&format!("violation:{}", V_RECOVERY));
            let info = &infos[info_of[*j]];
            out.violation(i, V_RECOVERY, base(json!({"crash_instant": j, "error": info.rec.as_ref().err(), "all_failing_instants": bad_a, "objects": snaps[*j].iter().map(|(k, v)| format!("{} ({} bytes)", k, v.len())).collect::<Vec<_>>()})));
        }
        if let Some(j) = bad_b.first() {
            out.count(&format!("violation:{}", V_MANIFEST));
            let info = &infos[info_of[*j]];
            out.violation(i, V_MANIFEST, base(json!({"crash_instant": j, "problem": info.manifest_problem, "all_failing_instants": bad_b, "objects": snaps[*j].iter().map(|(k, v)| format!("{} ({} bytes)", k, v.len())).collect::<Vec<_>>()})));
        }
        if let Some(f) = &first_c {
            out.count(&format!("violation:{}", V_LOST));
            // is it the class "a compaction took a failed get of an input segment for a missing segment"?
            let j0 = bad_c[0];
            let failed_get: Vec<usize> = ro
                .compact_ok_ranges
                .iter()
                .filter(|(s, _)| *s < j0)
                .flat_map(|(s, e)| (*s..*e).filter(|c| matches!(&log[*c], (CallDesc::Get(Name::Seg(_)), o) if *o != Outc::Ok)))
                .collect();
            out.count(if failed_get.is_empty() { "lost-delta:no-failed-segment-get-in-an-earlier-compaction" } else { "lost-delta:after-compaction-with-failed-segment-get" });
            out.violation(i, V_LOST, base(json!({"first": f, "all_failing_instants": bad_c, "failed_segment_gets_in_earlier_ok_compactions": failed_get})));
        }

        // ---- oracle (g): a second incarnation started on a crash image of the first
        // (new StreamingPersistence + Compactor on the image at a random crash instant j, healthy
        // store): two more deltas are flushed, then a compaction runs; everything the first
        // incarnation had confirmed by j and everything the second confirmed must be recovered
        if total > 0 && !panicked {
            let j = prng.gen_range(0..=total);
            let st2 = ScriptedStore::healthy(snaps[j].clone());
            let cfg2 = WriteBufferConfig { backpressure_threshold_bytes: 1 << 20, compression_enabled: false, ..WriteBufferConfig::default() };
            let conf1: Vec<&ReplicationDelta> = ro.confirmed.iter().filter(|(at, _)| *at <= j).map(|(_, d)| d).collect();
            let mut conf2: Vec<ReplicationDelta> = Vec::new();
            let mut what: Option<String> = None;
            match rt.block_on(StreamingPersistence::new(Arc::new(st2.clone()), PREFIX.to_string(), 1, cfg2)) {
                Err(e) => what = Some(format!("a new StreamingPersistence cannot start on the crash image: {}", e)),
                Ok(mut sp2) => {
                    // re-issue two deltas of the workload under fresh (later) stamps
                    let pool: Vec<&ReplicationDelta> = wl.ops.iter().filter_map(|o| if let Op::Push(d) = o { Some(d) } else { None }).collect();
                    for (n, d) in pool.iter().rev().take(2).enumerate() {
                        let mut d2 = (*d).clone();
                        d2.value.timestamp.time = d2.value.timestamp.time.saturating_add(1_000_000 + n as u64);
                        if sp2.push(d2.clone()).is_ok() {
                            conf2.push(d2);
                        }
                    }
                    match rt.block_on(sp2.flush()) {
                        Err(e) => what = Some(format!("flush of the second incarnation failed on a healthy store: {}", e)),
                        Ok(_) => {
                            let cc2 = CompactionConfig { target_segment_size: 1 << 30, max_segments: 100, min_segments_to_compact: 2, max_segments_per_compaction: 5, tombstone_ttl: Duration::from_millis(1000), compression_enabled: false };
                            let mut comp2 = Compactor::with_time_source(Arc::new(st2.clone()), PREFIX.to_string(), ManifestManager::new(st2.clone(), PREFIX), cc2, FixedTime(Arc::new(AtomicU64::new(0))));
                            let _ = rt.block_on(comp2.compact());
                        }
                    }
                }
            }
            out.impl_checks += 1;
            if what.is_none() {
                let fin = analyse(&rt, st2.snapshots().last().unwrap());
                match &fin.rec {
                    Err(e) => what = Some(format!("recovery fails after the second incarnation: {}", e)),
                    Ok(_) => {
                        for d in conf1.iter().map(|d| (*d).clone()).chain(conf2.iter().cloned()) {
                            let absorbed = fin.state.get(&d.key).map_or(false, |v| obs(&v.merge(&d.value)) == obs(v));
                            if !absorbed {
                                what = Some(format!("{} confirmed by the {} incarnation is not recovered", delta_text(&d), if conf2.iter().any(|x| obs(&x.value) == obs(&d.value) && x.key == d.key) { "second" } else { "first" }));
                                break;
                            }
                        }
                    }
                }
            }
            out.count(if what.is_none() { "second-incarnation:ok" } else { "second-incarnation:failed" });
            if let Some(w) = what {
                out.count("violation:second incarnation");
                out.violation(i, "a second incarnation started on a crash image loses confirmed deltas or cannot run", base(json!({"crash_instant": j, "what": w})));
            }
        }

        // ---- the Coq case
        let mut sample_js: BTreeSet<usize> = BTreeSet::new();
        sample_js.insert(total);
        if total > 0 {
            for _ in 0..4 {
                sample_js.insert(prng.gen_range(0..total));
            }
        }
        let samples_t = clist(sample_js.iter(), |j| {
            let info = &infos[info_of[*j]];
            match &info.rec {
                Ok(ds) => format!("({}, Some {})", j, clist(ds.iter(), delta_term)),
                Err(_) => format!("({}, None)", j),
            }
        });
        let final_t = match snaps.last().and_then(|m| m.get(&format!("{}/manifest.json", PREFIX))).and_then(|d| serde_json::from_slice::<Manifest>(d).ok()) {
            None => "None".to_string(),
            Some(m) => format!("(Some ({}, {}, {}, {}))", m.version, m.replica_id, clist(m.segments.iter(), |s| format!("({}, {}, {}, {}, {})", s.id, s.record_count, s.size_bytes, s.min_timestamp, s.max_timestamp)), m.next_segment_id),
        };
        let term = format!("(K12 {} (CCfg {} {} {} 1000) {} {} {} {} {})", wl.thr, wl.cc_target, wl.cc_min, wl.cc_maxper, ops_t, log_t, res_t, samples_t, final_t);
        let flush_ok = ro.results.iter().any(|r| matches!(r, Res::Flush(Some(n), _) if *n > 0));
        let compact_ok = ro.results.iter().any(|r| matches!(r, Res::Compact(CRes::Ok(..))));
        let nontrivial = flush_ok && (fired > 0 || compact_ok);
        let canon = format!("{}|{}", ops_t, log_t);
        out.case(i, term, nontrivial, &canon);
        out.sample(json!({"case": i, "placement": p, "script": script_t, "ops": ops_t, "log": log_t, "results": res_t}));
        if verbose {
            println!("sampled crash instants in the Coq case: {:?}", sample_js);
            println!("Coq case:\n{}", format!("(K12 {} (CCfg {} {} {} 1000)\n  {}\n  {}\n  {}\n  {}\n  {})", wl.thr, wl.cc_target, wl.cc_min, wl.cc_maxper, ops_t, log_t, res_t, samples_t, final_t));
        }
    }
    out.finish(args.seed);
}

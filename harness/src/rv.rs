//! Printing of ReplicatedValue as the Coq terms of coq/Corr/C07.v (constructors V, cl, cg, cp,
//! cs, co, ch, L); `norm` applies the observable normalisation (drop zero counters and
//! empty tag sets).  Private fields are read through serde_json.
use crate::util::*;
use redis_sim::redis::SDS;
use redis_sim::replication::lattice::LwwRegister;
use redis_sim::replication::state::{CrdtValue, ReplicatedValue};
use serde_json::Value;
use std::collections::BTreeMap;

pub fn num_map(v: &Value, norm: bool) -> Vec<(u64, u64)> {
    let mut m: BTreeMap<u64, u64> = BTreeMap::new();
    if let Some(o) = v.as_object() {
        for (k, x) in o {
            let n = x.as_u64().unwrap();
            if norm && n == 0 {
                continue;
            }
            m.insert(k.parse().unwrap(), n);
        }
    }
    m.into_iter().collect()
}
pub fn pairs(l: &[(u64, u64)]) -> String {
    clist(l.iter(), |(a, b)| format!("({},{})", a, b))
}
pub fn lww_term(v: &Value) -> String {
    let val = match &v["value"] {
        Value::Null => "None".to_string(),
        Value::Array(a) => {
            let b: Vec<u8> = a.iter().map(|x| x.as_u64().unwrap() as u8).collect();
            format!("(Some {})", chex(&b))
        }
        _ => panic!("lww value"),
    };
    format!(
        "(L {} {} {} {})",
        val,
        v["timestamp"]["time"].as_u64().unwrap(),
        v["timestamp"]["replica_id"].as_u64().unwrap(),
        cbool(v["tombstone"].as_bool().unwrap())
    )
}
/// LWW registers and hash fields are read through their public fields (not through JSON), so that
/// a change of the JSON wire form of SDS is judged by the gossip round-trip oracle, not by this printer.
pub fn lww_term_direct(l: &LwwRegister<SDS>) -> String {
    format!(
        "(L {} {} {} {})",
        copt(&l.value, |v| chex(v.as_bytes())),
        l.timestamp.time,
        l.timestamp.replica_id.0,
        cbool(l.tombstone)
    )
}
pub fn crdt_term_of(v: &ReplicatedValue, norm: bool) -> String {
    match &v.crdt {
        CrdtValue::Lww(l) => format!("(cl {})", lww_term_direct(l)),
        CrdtValue::Hash(h) => {
            let m: BTreeMap<&String, &LwwRegister<SDS>> = h.iter().collect();
            format!("(ch {})", clist(m.iter(), |(f, l)| format!("({}, {})", chex(f.as_bytes()), lww_term_direct(l))))
        }
        _ => {
            let j = serde_json::to_value(v).unwrap();
            crdt_term(&j["crdt"], norm)
        }
    }
}
pub fn crdt_term(c: &Value, norm: bool) -> String {
    let (k, v) = c.as_object().unwrap().iter().next().unwrap();
    match k.as_str() {
        "Lww" => format!("(cl {})", lww_term(v)),
        "GCounter" => format!("(cg {})", pairs(&num_map(&v["counts"], norm))),
        "PNCounter" => format!(
            "(cp {} {})",
            pairs(&num_map(&v["positive"]["counts"], norm)),
            pairs(&num_map(&v["negative"]["counts"], norm))
        ),
        "GSet" => {
            let mut e: Vec<String> = v["elements"].as_array().unwrap().iter().map(|x| x.as_str().unwrap().to_string()).collect();
            e.sort();
            format!("(cs {})", clist(e.iter(), |s| chex(s.as_bytes())))
        }
        "ORSet" => {
            let mut els: BTreeMap<String, Vec<(u64, u64)>> = BTreeMap::new();
            for (e, tags) in v["elements"].as_object().unwrap() {
                let mut t: Vec<(u64, u64)> = tags
                    .as_array()
                    .unwrap()
                    .iter()
                    .map(|t| (t["replica_id"].as_u64().unwrap(), t["sequence"].as_u64().unwrap()))
                    .collect();
                t.sort();
                if norm && t.is_empty() {
                    continue;
                }
                els.insert(e.clone(), t);
            }
            format!(
                "(co {} {})",
                clist(els.iter(), |(e, t)| format!("({}, {})", chex(e.as_bytes()), pairs(t))),
                pairs(&num_map(&v["next_sequence"], norm))
            )
        }
        "Hash" => {
            let m: BTreeMap<&String, &Value> = v.as_object().unwrap().iter().collect();
            format!("(ch {})", clist(m.iter(), |(f, l)| format!("({}, {})", chex(f.as_bytes()), lww_term(l))))
        }
        _ => panic!("unknown crdt kind {}", k),
    }
}
/// Coq term (and canonical text) of a value; `norm` applies the observable normalisation.
pub fn rv_term(v: &ReplicatedValue, norm: bool) -> String {
    let j = serde_json::to_value(v).unwrap();
    let vc = match &j["vector_clock"] {
        Value::Null => "None".to_string(),
        x => format!("(Some {})", pairs(&num_map(&x["clocks"], norm))),
    };
    format!(
        "(V {} {} {} {} {} {})",
        crdt_term_of(v, norm),
        vc,
        copt(&v.expiry_ms, |e| e.to_string()),
        v.timestamp.time,
        v.timestamp.replica_id.0,
        copt(&v.replication_factor, |e| e.to_string())
    )
}
pub fn obs(v: &ReplicatedValue) -> String {
    rv_term(v, true)
}
pub fn kind(v: &ReplicatedValue) -> &'static str {
    v.crdt_type()
}


/// Logical times of every stamp a value carries: outer stamp, LWW register, hash fields.
pub fn all_times(v: &ReplicatedValue) -> Vec<u64> {
    let mut t = vec![v.timestamp.time];
    match &v.crdt {
        CrdtValue::Lww(l) => t.push(l.timestamp.time),
        CrdtValue::Hash(h) => {
            for (_, l) in h {
                t.push(l.timestamp.time);
            }
        }
        _ => {}
    }
    t
}

//! Shared code of the correspondence harness; one binary per property in src/bin/.
pub mod conn;
pub mod rv;
pub mod util;

//! Shared helpers: per-case deterministic RNG, hex, Coq term printing, summary JSON.
use rand::SeedableRng;
use rand_chacha::ChaCha8Rng;
use serde_json::{json, Value};
use std::collections::{BTreeMap, HashSet};
use std::fmt::Write as _;
use std::hash::{Hash, Hasher};
use std::io::Write;
use std::path::{Path, PathBuf};

pub type Rng = ChaCha8Rng;

/// Every random choice of case `i` derives from (seed, i) only, so a case replays alone.
pub fn case_rng(seed: u64, i: u64) -> Rng {
    let mut r = ChaCha8Rng::seed_from_u64(seed ^ 0x9E37_79B9_7F4A_7C15u64.wrapping_mul(i.wrapping_add(1)));
    r.set_stream(i);
    r
}

pub fn hex(b: &[u8]) -> String {
    let mut s = String::with_capacity(b.len() * 2);
    for x in b {
        write!(s, "{:02x}", x).unwrap();
    }
    s
}
pub fn unhex(s: &str) -> Vec<u8> {
    (0..s.len() / 2).map(|i| u8::from_str_radix(&s[2 * i..2 * i + 2], 16).unwrap()).collect()
}
/// Coq string literal holding the hex of `b`.
pub fn chex(b: &[u8]) -> String {
    format!("\"{}\"", hex(b))
}
pub fn copt<T>(o: &Option<T>, f: impl Fn(&T) -> String) -> String {
    match o {
        None => "None".to_string(),
        Some(x) => format!("(Some {})", f(x)),
    }
}
pub fn clist<T>(l: impl IntoIterator<Item = T>, f: impl Fn(T) -> String) -> String {
    let v: Vec<String> = l.into_iter().map(f).collect();
    format!("[{}]", v.join("; "))
}
pub fn cbool(b: bool) -> &'static str {
    if b { "true" } else { "false" }
}

pub fn fx(s: &str) -> u64 {
    let mut h = std::collections::hash_map::DefaultHasher::new();
    s.hash(&mut h);
    h.finish()
}

pub struct Args {
    pub seed: u64,
    pub n: u64,
    pub out: PathBuf,
    pub only: Option<u64>,
    pub shards: u64,
    pub extra: BTreeMap<String, String>,
}
impl Args {
    pub fn parse(a: &[String]) -> Args {
        let mut r = Args { seed: 1, n: 100, out: PathBuf::from("."), only: None, shards: 16, extra: BTreeMap::new() };
        let mut i = 0;
        while i < a.len() {
            let k = a[i].as_str();
            let v = a.get(i + 1).cloned().unwrap_or_default();
            match k {
                "--seed" => r.seed = v.parse().unwrap(),
                "--n" => r.n = v.parse().unwrap(),
                "--out" => r.out = PathBuf::from(v),
                "--only" => r.only = Some(v.parse().unwrap()),
                "--shards" => r.shards = v.parse().unwrap(),
                _ => {
                    r.extra.insert(k.trim_start_matches("--").to_string(), v);
                }
            }
            i += 2;
        }
        r
    }
    pub fn get(&self, k: &str, d: u64) -> u64 {
        self.extra.get(k).and_then(|v| v.parse().ok()).unwrap_or(d)
    }
}

/// Collects what a harness mode produced: Coq case files (sharded), counters, violations.
pub struct Out {
    pub dir: PathBuf,
    pub prop: String,
    pub header: String,
    shards: Vec<Vec<(u64, String)>>,
    pub evaluations: u64,
    distinct: HashSet<u64>,
    pub nontrivial_rule: String,
    pub dist: BTreeMap<String, u64>,
    pub samples: Vec<Value>,
    pub violations: Vec<Value>,
    pub known: BTreeMap<String, (u64, Value)>,
    pub impl_checks: u64,
}
impl Out {
    pub fn new(dir: &Path, prop: &str, shards: u64, header: &str) -> Out {
        std::fs::create_dir_all(dir).unwrap();
        Out {
            dir: dir.to_path_buf(),
            prop: prop.to_string(),
            header: header.to_string(),
            shards: (0..shards.max(1)).map(|_| Vec::new()).collect(),
            evaluations: 0,
            distinct: HashSet::new(),
            nontrivial_rule: String::new(),
            dist: BTreeMap::new(),
            samples: Vec::new(),
            violations: Vec::new(),
            known: BTreeMap::new(),
            impl_checks: 0,
        }
    }
    /// One case for the model side: `term` is a Coq term of the property's case type.
    pub fn case(&mut self, idx: u64, term: String, nontrivial: bool, canon: &str) {
        self.evaluations += 1;
        if nontrivial {
            self.distinct.insert(fx(canon));
        }
        let k = (idx as usize) % self.shards.len();
        self.shards[k].push((idx, term));
    }
    pub fn count(&mut self, k: &str) {
        *self.dist.entry(k.to_string()).or_insert(0) += 1;
    }
    pub fn sample(&mut self, v: Value) {
        if self.samples.len() < 3 {
            self.samples.push(v);
        }
    }
    /// A failure of the property itself observed on the implementation.
    pub fn violation(&mut self, idx: u64, what: &str, detail: Value) {
        if self.violations.len() < 50 {
            self.violations.push(json!({"case": idx, "what": what, "detail": detail}));
        }
    }
    /// A failure that falls in a named known-finding class.
    pub fn known(&mut self, key: &str, idx: u64, detail: Value) {
        let e = self.known.entry(key.to_string()).or_insert((0, json!({"case": idx, "detail": detail})));
        e.0 += 1;
    }
    pub fn finish(self, seed: u64) {
        for (k, sh) in self.shards.iter().enumerate() {
            if sh.is_empty() {
                continue;
            }
            let p = self.dir.join(format!("cases_{:02}.v", k));
            let mut f = std::io::BufWriter::new(std::fs::File::create(&p).unwrap());
            writeln!(f, "{}", self.header).unwrap();
            writeln!(f, "Definition cases := [").unwrap();
            for (j, (idx, t)) in sh.iter().enumerate() {
                writeln!(f, "  ({}%N, {}){}", idx, t, if j + 1 == sh.len() { "" } else { ";" }).unwrap();
            }
            writeln!(f, "].").unwrap();
            writeln!(f, "Eval vm_compute in (mismatches cases).").unwrap();
        }
        let known: Vec<Value> = self
            .known
            .iter()
            .map(|(k, (n, first))| json!({"key": k, "count": n, "first": first}))
            .collect();
        let s = json!({
            "property": self.prop,
            "seed": seed,
            "evaluations": self.evaluations,
            "distinct_nontrivial": self.distinct.len(),
            "rule": self.nontrivial_rule,
            "distribution": self.dist,
            "samples": self.samples,
            "violations": self.violations,
            "known": known,
            "impl_property_checks": self.impl_checks,
        });
        std::fs::write(self.dir.join("impl.json"), serde_json::to_string_pretty(&s).unwrap()).unwrap();
    }
}

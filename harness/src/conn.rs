//! Runs the real production connection handler (verif-hooks feature of /repo) on a scripted
//! in-memory stream: each `read` returns exactly the next chunk of the script, writes are recorded.
use redis_sim::observability::{DatadogConfig, Metrics};
use redis_sim::production::{ConnectionConfig, ConnectionPool, OptimizedConnectionHandler, ShardedActorState};
use redis_sim::security::AclManager;
use std::collections::VecDeque;
use std::io;
use std::pin::Pin;
use std::sync::{Arc, Mutex};
use std::task::{Context, Poll};
use tokio::io::{AsyncRead, AsyncWrite, ReadBuf};

pub struct ScriptedStream {
    pub chunks: VecDeque<Vec<u8>>,
    pub written: Arc<Mutex<Vec<u8>>>,
    /// length of `written` after each completed read cycle is not observable here; writes are
    /// recorded with the number of reads consumed so far
    pub marks: Arc<Mutex<Vec<(usize, usize)>>>,
    reads: usize,
}
impl ScriptedStream {
    pub fn new(chunks: Vec<Vec<u8>>) -> (ScriptedStream, Arc<Mutex<Vec<u8>>>, Arc<Mutex<Vec<(usize, usize)>>>) {
        let w = Arc::new(Mutex::new(Vec::new()));
        let m = Arc::new(Mutex::new(Vec::new()));
        (ScriptedStream { chunks: chunks.into_iter().filter(|c| !c.is_empty()).collect(), written: w.clone(), marks: m.clone(), reads: 0 }, w, m)
    }
}
impl AsyncRead for ScriptedStream {
    fn poll_read(mut self: Pin<&mut Self>, _cx: &mut Context<'_>, buf: &mut ReadBuf<'_>) -> Poll<io::Result<()>> {
        match self.chunks.pop_front() {
            None => Poll::Ready(Ok(())), // EOF
            Some(mut c) => {
                let n = c.len().min(buf.remaining());
                buf.put_slice(&c[..n]);
                if n < c.len() {
                    let rest = c.split_off(n);
                    self.chunks.push_front(rest);
                }
                self.reads += 1;
                Poll::Ready(Ok(()))
            }
        }
    }
}
impl AsyncWrite for ScriptedStream {
    fn poll_write(self: Pin<&mut Self>, _cx: &mut Context<'_>, data: &[u8]) -> Poll<io::Result<usize>> {
        let mut w = self.written.lock().unwrap();
        w.extend_from_slice(data);
        self.marks.lock().unwrap().push((self.reads, w.len()));
        Poll::Ready(Ok(data.len()))
    }
    fn poll_flush(self: Pin<&mut Self>, _cx: &mut Context<'_>) -> Poll<io::Result<()>> {
        Poll::Ready(Ok(()))
    }
    fn poll_shutdown(self: Pin<&mut Self>, _cx: &mut Context<'_>) -> Poll<io::Result<()>> {
        Poll::Ready(Ok(()))
    }
}

/// Feed `chunks` (one per read) to a fresh handler on `state`; returns every byte it wrote and,
/// per write, (number of reads consumed so far, total bytes written so far).
pub async fn run_handler(state: ShardedActorState, config: ConnectionConfig, chunks: Vec<Vec<u8>>) -> (Vec<u8>, Vec<(usize, usize)>) {
    let (stream, written, marks) = ScriptedStream::new(chunks);
    let pool = ConnectionPool::new(8, 4);
    let metrics = Arc::new(Metrics::new(&DatadogConfig::from_env()));
    let acl = Arc::new(parking_lot_rwlock(AclManager::new()));
    let h = OptimizedConnectionHandler::new(stream, state, "verif:0".to_string(), pool.buffer_pool(), metrics, config, acl, None);
    h.run().await;
    let w = written.lock().unwrap().clone();
    let m = marks.lock().unwrap().clone();
    (w, m)
}
fn parking_lot_rwlock<T>(x: T) -> parking_lot::RwLock<T> {
    parking_lot::RwLock::new(x)
}

//! Shared by the c01 and c17 binaries (included with #[path], not part of the library):
//! a mirror of the model's command type (coq/Model/Redis.v `cmd`), its translation to the
//! real `redis_sim::redis::Command`, printing as Coq terms of coq/Corr/C01.v, canonical
//! replies, visible-keyspace snapshots, and the structured generators.
use rand::Rng as _;
use redis_sim::redis::{Command, CommandExecutor, RespValue, SDS};
use redis_sim::simulator::VirtualTime;
use std::panic::{catch_unwind, AssertUnwindSafe};
use vharness::util::*;

pub const KEYS: [&str; 7] = ["a", "b", "l", "s", "h", "z", ""];

#[derive(Clone, Debug, PartialEq)]
pub enum XOpt { None, KeepTtl, Persist, Ex(i64), Px(i64), ExAt(i64), PxAt(i64) }

#[derive(Clone, Debug, PartialEq)]
pub enum ZB { NegInf, PosInf, Incl(i64), Excl(i64) }

type B = Vec<u8>;

#[derive(Clone, Debug)]
pub enum MCmd {
    Get(String), Set(String, B, XOpt, bool, bool, bool), SetNx(String, B), Append(String, B), GetSet(String, B),
    StrLen(String), MGet(Vec<String>), MSet(Vec<(String, B)>), MSetNx(Vec<(String, B)>),
    GetRange(String, i64, i64), SetRange(String, u64, B), GetEx(String, XOpt), GetDel(String),
    Incr(String), Decr(String), IncrBy(String, i64), DecrBy(String, i64),
    Del(Vec<String>), Exists(Vec<String>), TypeOf(String), Keys, Rename(String, String), RenameNx(String, String),
    DbSize, FlushDb, FlushAll,
    Expire(String, i64, bool, bool, bool, bool), PExpire(String, i64, bool, bool, bool, bool),
    ExpireAt(String, i64), PExpireAt(String, i64), Ttl(String), Pttl(String), ExpireTime(String), PExpireTime(String), Persist(String),
    LPush(String, Vec<B>), RPush(String, Vec<B>), LPop(String), RPop(String), LLen(String), LIndex(String, i64),
    LRange(String, i64, i64), LSet(String, i64, B), LTrim(String, i64, i64), RPopLPush(String, String), LMove(String, String, bool, bool),
    SAdd(String, Vec<B>), SRem(String, Vec<B>), SMembers(String), SIsMember(String, B), SCard(String),
    HSet(String, Vec<(B, B)>), HGet(String, B), HDel(String, Vec<B>), HGetAll(String), HKeys(String), HVals(String), HLen(String),
    HExists(String, B), HIncrBy(String, B, i64),
    ZAdd(String, Vec<(i64, B)>, bool, bool, bool, bool, bool), ZRem(String, Vec<B>), ZScore(String, B), ZRank(String, B), ZCard(String),
    ZCount(String, ZB, ZB), ZRange(String, i64, i64, bool), ZRevRange(String, i64, i64, bool),
    ZRangeByScore(String, ZB, ZB, bool, Option<(i64, u64)>),
}

fn sds(b: &B) -> SDS { SDS::new(b.clone()) }
fn zb_str(b: &ZB) -> String {
    match b { ZB::NegInf => "-inf".into(), ZB::PosInf => "+inf".into(), ZB::Incl(z) => z.to_string(), ZB::Excl(z) => format!("({}", z) }
}
fn x_fields(x: &XOpt) -> (Option<i64>, Option<i64>, Option<i64>, Option<i64>) {
    match x { XOpt::Ex(v) => (Some(*v), None, None, None), XOpt::Px(v) => (None, Some(*v), None, None),
              XOpt::ExAt(v) => (None, None, Some(*v), None), XOpt::PxAt(v) => (None, None, None, Some(*v)), _ => (None, None, None, None) }
}

impl MCmd {
    pub fn to_rust(&self) -> Command {
        use MCmd::*;
        match self {
            Get(k) => Command::Get(k.clone()),
            Set(k, v, x, nx, xx, get) => { let (ex, px, exat, pxat) = x_fields(x);
                Command::Set { key: k.clone(), value: sds(v), ex, px, exat, pxat, nx: *nx, xx: *xx, get: *get, keepttl: *x == XOpt::KeepTtl } }
            SetNx(k, v) => Command::SetNx(k.clone(), sds(v)),
            Append(k, v) => Command::Append(k.clone(), sds(v)),
            GetSet(k, v) => Command::GetSet(k.clone(), sds(v)),
            StrLen(k) => Command::StrLen(k.clone()),
            MGet(ks) => Command::MGet(ks.clone()),
            MSet(kvs) => Command::MSet(kvs.iter().map(|(k, v)| (k.clone(), sds(v))).collect()),
            MSetNx(kvs) => Command::MSetNx(kvs.iter().map(|(k, v)| (k.clone(), sds(v))).collect()),
            GetRange(k, a, b) => Command::GetRange(k.clone(), *a as isize, *b as isize),
            SetRange(k, o, v) => Command::SetRange(k.clone(), *o as usize, sds(v)),
            GetEx(k, x) => { let (ex, px, exat, pxat) = x_fields(x);
                Command::GetEx { key: k.clone(), ex, px, exat, pxat, persist: *x == XOpt::Persist } }
            GetDel(k) => Command::GetDel(k.clone()),
            Incr(k) => Command::Incr(k.clone()), Decr(k) => Command::Decr(k.clone()),
            IncrBy(k, z) => Command::IncrBy(k.clone(), *z), DecrBy(k, z) => Command::DecrBy(k.clone(), *z),
            Del(ks) => Command::Del(ks.clone()), Exists(ks) => Command::Exists(ks.clone()),
            TypeOf(k) => Command::TypeOf(k.clone()), Keys => Command::Keys("*".into()),
            Rename(a, b) => Command::Rename(a.clone(), b.clone()), RenameNx(a, b) => Command::RenameNx(a.clone(), b.clone()),
            DbSize => Command::DbSize, FlushDb => Command::FlushDb, FlushAll => Command::FlushAll,
            Expire(k, s, nx, xx, gt, lt) => Command::Expire { key: k.clone(), seconds: *s, nx: *nx, xx: *xx, gt: *gt, lt: *lt },
            PExpire(k, s, nx, xx, gt, lt) => Command::PExpire { key: k.clone(), milliseconds: *s, nx: *nx, xx: *xx, gt: *gt, lt: *lt },
            ExpireAt(k, t) => Command::ExpireAt(k.clone(), *t), PExpireAt(k, t) => Command::PExpireAt(k.clone(), *t),
            Ttl(k) => Command::Ttl(k.clone()), Pttl(k) => Command::Pttl(k.clone()),
            ExpireTime(k) => Command::ExpireTime(k.clone()), PExpireTime(k) => Command::PExpireTime(k.clone()),
            Persist(k) => Command::Persist(k.clone()),
            LPush(k, vs) => Command::LPush(k.clone(), vs.iter().map(sds).collect()),
            RPush(k, vs) => Command::RPush(k.clone(), vs.iter().map(sds).collect()),
            LPop(k) => Command::LPop(k.clone()), RPop(k) => Command::RPop(k.clone()), LLen(k) => Command::LLen(k.clone()),
            LIndex(k, i) => Command::LIndex(k.clone(), *i as isize),
            LRange(k, a, b) => Command::LRange(k.clone(), *a as isize, *b as isize),
            LSet(k, i, v) => Command::LSet(k.clone(), *i as isize, sds(v)),
            LTrim(k, a, b) => Command::LTrim(k.clone(), *a as isize, *b as isize),
            RPopLPush(a, b) => Command::RPopLPush(a.clone(), b.clone()),
            LMove(a, b, fl, tl) => Command::LMove { source: a.clone(), dest: b.clone(),
                wherefrom: if *fl { "LEFT".into() } else { "RIGHT".into() }, whereto: if *tl { "LEFT".into() } else { "RIGHT".into() } },
            SAdd(k, ms) => Command::SAdd(k.clone(), ms.iter().map(sds).collect()),
            SRem(k, ms) => Command::SRem(k.clone(), ms.iter().map(sds).collect()),
            SMembers(k) => Command::SMembers(k.clone()), SIsMember(k, m) => Command::SIsMember(k.clone(), sds(m)), SCard(k) => Command::SCard(k.clone()),
            HSet(k, fvs) => Command::HSet(k.clone(), fvs.iter().map(|(f, v)| (sds(f), sds(v))).collect()),
            HGet(k, f) => Command::HGet(k.clone(), sds(f)),
            HDel(k, fs) => Command::HDel(k.clone(), fs.iter().map(sds).collect()),
            HGetAll(k) => Command::HGetAll(k.clone()), HKeys(k) => Command::HKeys(k.clone()), HVals(k) => Command::HVals(k.clone()),
            HLen(k) => Command::HLen(k.clone()), HExists(k, f) => Command::HExists(k.clone(), sds(f)),
            HIncrBy(k, f, z) => Command::HIncrBy(k.clone(), sds(f), *z),
            ZAdd(k, ps, nx, xx, gt, lt, ch) => Command::ZAdd { key: k.clone(), pairs: ps.iter().map(|(s, m)| (*s as f64, sds(m))).collect(),
                nx: *nx, xx: *xx, gt: *gt, lt: *lt, ch: *ch },
            ZRem(k, ms) => Command::ZRem(k.clone(), ms.iter().map(sds).collect()),
            ZScore(k, m) => Command::ZScore(k.clone(), sds(m)), ZRank(k, m) => Command::ZRank(k.clone(), sds(m)), ZCard(k) => Command::ZCard(k.clone()),
            ZCount(k, lo, hi) => Command::ZCount(k.clone(), zb_str(lo), zb_str(hi)),
            ZRange(k, a, b, ws) => Command::ZRange(k.clone(), *a as isize, *b as isize, *ws),
            ZRevRange(k, a, b, ws) => Command::ZRevRange(k.clone(), *a as isize, *b as isize, *ws),
            ZRangeByScore(k, lo, hi, ws, lim) => Command::ZRangeByScore { key: k.clone(), min: zb_str(lo), max: zb_str(hi), with_scores: *ws,
                limit: lim.map(|(o, c)| (o as isize, c as usize)) },
        }
    }

    pub fn name(&self) -> &'static str {
        use MCmd::*;
        match self {
            Get(..) => "GET", Set(..) => "SET", SetNx(..) => "SETNX", Append(..) => "APPEND", GetSet(..) => "GETSET", StrLen(..) => "STRLEN",
            MGet(..) => "MGET", MSet(..) => "MSET", MSetNx(..) => "MSETNX", GetRange(..) => "GETRANGE", SetRange(..) => "SETRANGE",
            GetEx(..) => "GETEX", GetDel(..) => "GETDEL", Incr(..) => "INCR", Decr(..) => "DECR", IncrBy(..) => "INCRBY", DecrBy(..) => "DECRBY",
            Del(..) => "DEL", Exists(..) => "EXISTS", TypeOf(..) => "TYPE", Keys => "KEYS", Rename(..) => "RENAME", RenameNx(..) => "RENAMENX",
            DbSize => "DBSIZE", FlushDb => "FLUSHDB", FlushAll => "FLUSHALL", Expire(..) => "EXPIRE", PExpire(..) => "PEXPIRE",
            ExpireAt(..) => "EXPIREAT", PExpireAt(..) => "PEXPIREAT", Ttl(..) => "TTL", Pttl(..) => "PTTL", ExpireTime(..) => "EXPIRETIME",
            PExpireTime(..) => "PEXPIRETIME", Persist(..) => "PERSIST", LPush(..) => "LPUSH", RPush(..) => "RPUSH", LPop(..) => "LPOP",
            RPop(..) => "RPOP", LLen(..) => "LLEN", LIndex(..) => "LINDEX", LRange(..) => "LRANGE", LSet(..) => "LSET", LTrim(..) => "LTRIM",
            RPopLPush(..) => "RPOPLPUSH", LMove(..) => "LMOVE", SAdd(..) => "SADD", SRem(..) => "SREM", SMembers(..) => "SMEMBERS",
            SIsMember(..) => "SISMEMBER", SCard(..) => "SCARD", HSet(..) => "HSET", HGet(..) => "HGET", HDel(..) => "HDEL", HGetAll(..) => "HGETALL",
            HKeys(..) => "HKEYS", HVals(..) => "HVALS", HLen(..) => "HLEN", HExists(..) => "HEXISTS", HIncrBy(..) => "HINCRBY",
            ZAdd(..) => "ZADD", ZRem(..) => "ZREM", ZScore(..) => "ZSCORE", ZRank(..) => "ZRANK", ZCard(..) => "ZCARD", ZCount(..) => "ZCOUNT",
            ZRange(..) => "ZRANGE", ZRevRange(..) => "ZREVRANGE", ZRangeByScore(..) => "ZRANGEBYSCORE",
        }
    }

    /// the model constructor applied to its arguments (Corr/C01.v: `h "hex"` = bytes)
    pub fn to_coq(&self) -> String {
        use MCmd::*;
        let k = |s: &String| hb(s.as_bytes());
        let ks = |l: &Vec<String>| clist(l.iter(), |s| hb(s.as_bytes()));
        let bs = |l: &Vec<B>| clist(l.iter(), |b| hb(b));
        let kvs = |l: &Vec<(String, B)>| clist(l.iter(), |(a, b)| format!("({}, {})", hb(a.as_bytes()), hb(b)));
        match self {
            Get(a) => format!("(Get {})", k(a)),
            Set(a, v, x, nx, xx, get) => format!("(SetC {} {} {} {} {} {})", k(a), hb(v), x_coq(x), cbool(*nx), cbool(*xx), cbool(*get)),
            SetNx(a, v) => format!("(SetNx {} {})", k(a), hb(v)),
            Append(a, v) => format!("(Append {} {})", k(a), hb(v)),
            GetSet(a, v) => format!("(GetSet {} {})", k(a), hb(v)),
            StrLen(a) => format!("(StrLen {})", k(a)),
            MGet(l) => format!("(MGet {})", ks(l)),
            MSet(l) => format!("(MSet {})", kvs(l)),
            MSetNx(l) => format!("(MSetNx {})", kvs(l)),
            GetRange(a, x, y) => format!("(GetRange {} {} {})", k(a), cz(*x), cz(*y)),
            SetRange(a, o, v) => format!("(SetRange {} {}%N {})", k(a), o, hb(v)),
            GetEx(a, x) => format!("(GetEx {} {})", k(a), x_coq(x)),
            GetDel(a) => format!("(GetDel {})", k(a)),
            Incr(a) => format!("(Incr {})", k(a)), Decr(a) => format!("(Decr {})", k(a)),
            IncrBy(a, z) => format!("(IncrBy {} {})", k(a), cz(*z)), DecrBy(a, z) => format!("(DecrBy {} {})", k(a), cz(*z)),
            Del(l) => format!("(Del {})", ks(l)), Exists(l) => format!("(ExistsC {})", ks(l)),
            TypeOf(a) => format!("(TypeOf {})", k(a)), Keys => "Keys".into(),
            Rename(a, b) => format!("(Rename {} {})", k(a), k(b)), RenameNx(a, b) => format!("(RenameNx {} {})", k(a), k(b)),
            DbSize => "DbSize".into(), FlushDb => "FlushDb".into(), FlushAll => "FlushAll".into(),
            Expire(a, s, nx, xx, gt, lt) => format!("(Expire {} {} {} {} {} {})", k(a), cz(*s), cbool(*nx), cbool(*xx), cbool(*gt), cbool(*lt)),
            PExpire(a, s, nx, xx, gt, lt) => format!("(PExpire {} {} {} {} {} {})", k(a), cz(*s), cbool(*nx), cbool(*xx), cbool(*gt), cbool(*lt)),
            ExpireAt(a, t) => format!("(ExpireAt {} {})", k(a), cz(*t)), PExpireAt(a, t) => format!("(PExpireAt {} {})", k(a), cz(*t)),
            Ttl(a) => format!("(Ttl {})", k(a)), Pttl(a) => format!("(Pttl {})", k(a)),
            ExpireTime(a) => format!("(ExpireTime {})", k(a)), PExpireTime(a) => format!("(PExpireTime {})", k(a)),
            Persist(a) => format!("(Persist {})", k(a)),
            LPush(a, l) => format!("(LPush {} {})", k(a), bs(l)), RPush(a, l) => format!("(RPush {} {})", k(a), bs(l)),
            LPop(a) => format!("(LPop {})", k(a)), RPop(a) => format!("(RPop {})", k(a)), LLen(a) => format!("(LLen {})", k(a)),
            LIndex(a, i) => format!("(LIndex {} {})", k(a), cz(*i)),
            LRange(a, x, y) => format!("(LRange {} {} {})", k(a), cz(*x), cz(*y)),
            LSet(a, i, v) => format!("(LSet {} {} {})", k(a), cz(*i), hb(v)),
            LTrim(a, x, y) => format!("(LTrim {} {} {})", k(a), cz(*x), cz(*y)),
            RPopLPush(a, b) => format!("(RPopLPush {} {})", k(a), k(b)),
            LMove(a, b, fl, tl) => format!("(LMove {} {} {} {})", k(a), k(b), cbool(*fl), cbool(*tl)),
            SAdd(a, l) => format!("(SAdd {} {})", k(a), bs(l)), SRem(a, l) => format!("(SRem {} {})", k(a), bs(l)),
            SMembers(a) => format!("(SMembers {})", k(a)), SIsMember(a, m) => format!("(SIsMember {} {})", k(a), hb(m)), SCard(a) => format!("(SCard {})", k(a)),
            HSet(a, l) => format!("(HSet {} {})", k(a), clist(l.iter(), |(f, v)| format!("({}, {})", hb(f), hb(v)))),
            HGet(a, f) => format!("(HGet {} {})", k(a), hb(f)), HDel(a, l) => format!("(HDel {} {})", k(a), bs(l)),
            HGetAll(a) => format!("(HGetAll {})", k(a)), HKeys(a) => format!("(HKeys {})", k(a)), HVals(a) => format!("(HVals {})", k(a)),
            HLen(a) => format!("(HLen {})", k(a)), HExists(a, f) => format!("(HExists {} {})", k(a), hb(f)),
            HIncrBy(a, f, z) => format!("(HIncrBy {} {} {})", k(a), hb(f), cz(*z)),
            ZAdd(a, ps, nx, xx, gt, lt, ch) => format!("(ZAdd {} {} {} {} {} {} {})", k(a), clist(ps.iter(), |(s, m)| format!("({}, {})", cz(*s), hb(m))),
                cbool(*nx), cbool(*xx), cbool(*gt), cbool(*lt), cbool(*ch)),
            ZRem(a, l) => format!("(ZRem {} {})", k(a), bs(l)),
            ZScore(a, m) => format!("(ZScore {} {})", k(a), hb(m)), ZRank(a, m) => format!("(ZRank {} {})", k(a), hb(m)), ZCard(a) => format!("(ZCard {})", k(a)),
            ZCount(a, lo, hi) => format!("(ZCount {} {} {})", k(a), zb_coq(lo), zb_coq(hi)),
            ZRange(a, x, y, ws) => format!("(ZRange {} {} {} {})", k(a), cz(*x), cz(*y), cbool(*ws)),
            ZRevRange(a, x, y, ws) => format!("(ZRevRange {} {} {} {})", k(a), cz(*x), cz(*y), cbool(*ws)),
            ZRangeByScore(a, lo, hi, ws, lim) => format!("(ZRangeByScore {} {} {} {} {})", k(a), zb_coq(lo), zb_coq(hi), cbool(*ws),
                copt(lim, |(o, c)| format!("({}, {}%N)", cz(*o), c))),
        }
    }

    /// is the command read-only according to the implementation's own classification
    pub fn is_read_only(&self) -> bool { self.to_rust().is_read_only() }
    /// keys named by the command
    pub fn keys(&self) -> Vec<String> {
        use MCmd::*;
        match self {
            MGet(l) | Del(l) | Exists(l) => l.clone(),
            MSet(l) | MSetNx(l) => l.iter().map(|p| p.0.clone()).collect(),
            Rename(a, b) | RenameNx(a, b) | RPopLPush(a, b) | LMove(a, b, _, _) => vec![a.clone(), b.clone()],
            Keys | DbSize | FlushDb | FlushAll => vec![],
            _ => self.to_rust().get_primary_key().map(|s| vec![s.to_string()]).unwrap_or_default(),
        }
    }
}

pub fn hb(b: &[u8]) -> String { format!("(h{})", chex(b)) }
pub fn cz(z: i64) -> String { if z < 0 { format!("({})", z) } else { z.to_string() } }
fn x_coq(x: &XOpt) -> String {
    match x { XOpt::None => "XNone".into(), XOpt::KeepTtl => "XKeepTtl".into(), XOpt::Persist => "XPersist".into(),
              XOpt::Ex(v) => format!("(XEx {})", cz(*v)), XOpt::Px(v) => format!("(XPx {})", cz(*v)),
              XOpt::ExAt(v) => format!("(XExAt {})", cz(*v)), XOpt::PxAt(v) => format!("(XPxAt {})", cz(*v)) }
}
fn zb_coq(b: &ZB) -> String {
    match b { ZB::NegInf => "BNegInf".into(), ZB::PosInf => "BPosInf".into(), ZB::Incl(z) => format!("(BIncl {})", cz(*z)), ZB::Excl(z) => format!("(BExcl {})", cz(*z)) }
}

// ------------------------------------------------------------------ replies

pub fn err_kind(t: &str) -> &'static str {
    if t.starts_with("WRONGTYPE") { "EWrongType" }
    else if t.starts_with("ERR value is not an integer") || t.starts_with("ERR hash value is not an integer") { "ENotInteger" }
    else if t.starts_with("ERR increment or decrement would overflow") || t.starts_with("ERR decrement would overflow") { "EOverflow" }
    else if t.starts_with("ERR syntax error") || t.contains("options at the same time are not compatible") { "ESyntax" }
    else if t.starts_with("ERR wrong number of arguments") { "EArity" }
    else if t.starts_with("ERR invalid expire time") { "EInvalidExpire" }
    else if t.starts_with("ERR no such key") { "ENoSuchKey" }
    else if t.starts_with("ERR index out of range") { "EIndexOutOfRange" }
    else if t.starts_with("ERR string exceeds maximum allowed size") { "ETooBig" }
    else { "EOther" }
}
pub fn is_err(r: &RespValue) -> bool { matches!(r, RespValue::Error(_)) }

fn sort_unordered(c: &MCmd, r: &RespValue) -> RespValue {
    match (c, r) {
        (MCmd::SMembers(_) | MCmd::HKeys(_) | MCmd::HVals(_) | MCmd::Keys, RespValue::Array(Some(v))) => {
            let mut w = v.clone();
            w.sort_by(|a, b| bulk(a).cmp(&bulk(b)));
            RespValue::Array(Some(w))
        }
        (MCmd::HGetAll(_), RespValue::Array(Some(v))) if v.len() % 2 == 0 => {
            let mut p: Vec<(RespValue, RespValue)> = v.chunks(2).map(|c| (c[0].clone(), c[1].clone())).collect();
            p.sort_by(|a, b| bulk(&a.0).cmp(&bulk(&b.0)));
            RespValue::Array(Some(p.into_iter().flat_map(|(a, b)| vec![a, b]).collect()))
        }
        _ => r.clone(),
    }
}
fn bulk(r: &RespValue) -> Vec<u8> { match r { RespValue::BulkString(Some(b)) => b.clone(), _ => vec![] } }

pub fn reply_coq(r: &RespValue) -> String {
    match r {
        RespValue::Integer(i) => format!("(RInt {})", cz(*i)),
        RespValue::BulkString(None) => "RNil".into(),
        RespValue::BulkString(Some(b)) => format!("(RB {})", hb(b)),
        RespValue::SimpleString(s) => if s == "OK" { "ROk".into() } else { format!("(RSimple {})", hb(s.as_bytes())) },
        RespValue::Error(t) => format!("(RErr {})", err_kind(t)),
        RespValue::Array(None) => "RNilArr".into(),
        RespValue::Array(Some(v)) => format!("(RArr {})", clist(v.iter(), reply_coq)),
    }
}
/// canonical reply of command c (unordered replies sorted), as a Coq term
pub fn canon_reply_coq(c: &MCmd, r: &RespValue) -> String { reply_coq(&sort_unordered(c, r)) }
pub fn canon_reply(c: &MCmd, r: &RespValue) -> RespValue { sort_unordered(c, r) }

// ------------------------------------------------------------------ the implementation under test

pub struct Impl { pub ex: CommandExecutor, pub now: u64, pub dead: bool }
impl Impl {
    pub fn new() -> Impl { Impl { ex: CommandExecutor::new(), now: 0, dead: false } }
    /// Err(panic text) when the implementation panicked
    pub fn exec(&mut self, c: &Command) -> Result<RespValue, String> {
        let ex = &mut self.ex;
        match catch_unwind(AssertUnwindSafe(|| ex.execute(c))) {
            Ok(r) => Ok(r),
            Err(e) => { self.dead = true; Err(panic_text(e)) }
        }
    }
    pub fn set_time(&mut self, t: u64) -> Result<(), String> {
        self.now = t;
        let ex = &mut self.ex;
        match catch_unwind(AssertUnwindSafe(|| ex.set_time(VirtualTime::from_millis(t)))) {
            Ok(()) => Ok(()),
            Err(e) => { self.dead = true; Err(panic_text(e)) }
        }
    }
}
impl Impl {
    /// moves the clock WITHOUT the eviction sweep (CommandExecutor::update_time_readonly, the read path's entry):
    /// keys whose deadline has passed stay in the maps ("lazily expired") until something purges them
    pub fn set_time_lazy(&mut self, t: u64) -> Result<(), String> {
        self.now = t;
        let ex = &mut self.ex;
        match catch_unwind(AssertUnwindSafe(|| ex.update_time_readonly(VirtualTime::from_millis(t)))) {
            Ok(()) => Ok(()),
            Err(e) => { self.dead = true; Err(panic_text(e)) }
        }
    }
}
impl Impl {
    /// the executor's other entry points to the same behaviour: path 1 = the fast path (get_direct / set_direct, used by
    /// the sharded actor's Fast*/Pooled* messages) for GET and plain SET; path 2 = execute_readonly (&self) for GET,
    /// EXISTS and KEYS *; path 3 = execute_read for read-only commands; anything else (and path 0) = execute.
    pub fn exec_via(&mut self, c: &MCmd, path: u8) -> Result<(RespValue, &'static str), String> {
        let rc = c.to_rust();
        let ex = &mut self.ex;
        let r = catch_unwind(AssertUnwindSafe(|| match (path, c) {
            (1, MCmd::Get(k)) => (ex.get_direct(k), "get_direct"),
            (1, MCmd::Set(k, v, XOpt::None, false, false, false)) => (ex.set_direct(k, v), "set_direct"),
            (2, MCmd::Get(_)) | (2, MCmd::Exists(_)) | (2, MCmd::Keys) => (ex.execute_readonly(&rc), "execute_readonly"),
            (3, _) if rc.is_read_only() => (ex.execute_read(&rc), "execute_read"),
            _ => (ex.execute(&rc), "execute"),
        }));
        match r { Ok(x) => Ok(x), Err(e) => { self.dead = true; Err(panic_text(e)) } }
    }
    /// the TTL manager's entry: sets the clock and evicts (CommandExecutor::evict_expired_direct)
    pub fn set_time_evict_direct(&mut self, t: u64) -> Result<(), String> {
        self.now = t;
        let ex = &mut self.ex;
        match catch_unwind(AssertUnwindSafe(|| { ex.evict_expired_direct(VirtualTime::from_millis(t)); })) {
            Ok(()) => Ok(()),
            Err(e) => { self.dead = true; Err(panic_text(e)) }
        }
    }
}
pub fn panic_text(e: Box<dyn std::any::Any + Send>) -> String {
    if let Some(s) = e.downcast_ref::<String>() { s.clone() } else if let Some(s) = e.downcast_ref::<&str>() { s.to_string() } else { "panic".into() }
}

#[derive(Clone, Debug, PartialEq)]
pub enum Dump { S(B), L(Vec<B>), T(Vec<B>), H(Vec<(B, B)>), Z(Vec<(B, i64)>), X(String) }
pub type Snapshot = Vec<(String, Dump, i64)>;

fn arr(r: &RespValue) -> Option<Vec<B>> {
    match r { RespValue::Array(Some(v)) => v.iter().map(|x| match x { RespValue::BulkString(Some(b)) => Some(b.clone()), _ => None }).collect(), _ => None }
}

/// The visible keyspace: for every key of the alphabet TYPE, a value dump through the type's
/// read command, and PTTL.  Uses read-only commands only.  Err = the implementation panicked.
pub fn snapshot(im: &mut Impl, keys: &[&str]) -> Result<Snapshot, String> {
    let mut out = Vec::new();
    for k in keys {
        let ks = k.to_string();
        let ty = im.exec(&Command::TypeOf(ks.clone()))?;
        let tname = match &ty { RespValue::SimpleString(s) => s.to_string(), o => format!("{:?}", o) };
        if tname == "none" {
            // a key TYPE does not see must not be seen by EXISTS / PTTL either
            let e = im.exec(&Command::Exists(vec![ks.clone()]))?;
            let p = im.exec(&Command::Pttl(ks.clone()))?;
            if e != RespValue::Integer(0) || p != RespValue::Integer(-2) {
                out.push((ks, Dump::X(format!("TYPE none but EXISTS {:?} PTTL {:?}", e, p)), -2));
            }
            continue;
        }
        let d = match tname.as_str() {
            "string" => match im.exec(&Command::Get(ks.clone()))? { RespValue::BulkString(Some(b)) => Dump::S(b), o => Dump::X(format!("GET -> {:?}", o)) },
            "list" => match arr(&im.exec(&Command::LRange(ks.clone(), 0, -1))?) { Some(v) => Dump::L(v), None => Dump::X("LRANGE".into()) },
            "set" => match arr(&im.exec(&Command::SMembers(ks.clone()))?) { Some(mut v) => { v.sort(); Dump::T(v) } None => Dump::X("SMEMBERS".into()) },
            "hash" => match arr(&im.exec(&Command::HGetAll(ks.clone()))?) {
                Some(v) if v.len() % 2 == 0 => { let mut p: Vec<(B, B)> = v.chunks(2).map(|c| (c[0].clone(), c[1].clone())).collect(); p.sort(); Dump::H(p) }
                _ => Dump::X("HGETALL".into()) },
            "zset" => match arr(&im.exec(&Command::ZRange(ks.clone(), 0, -1, true))?) {
                Some(v) if v.len() % 2 == 0 => {
                    let mut p = Vec::new(); let mut bad = false;
                    for c in v.chunks(2) { match std::str::from_utf8(&c[1]).ok().and_then(|s| s.parse::<i64>().ok()) { Some(z) => p.push((c[0].clone(), z)), None => bad = true } }
                    if bad { Dump::X("non-integer score".into()) } else { Dump::Z(p) } }
                _ => Dump::X("ZRANGE".into()) },
            o => Dump::X(format!("TYPE {}", o)),
        };
        let p = match im.exec(&Command::Pttl(ks.clone()))? { RespValue::Integer(i) => i, _ => i64::MIN };
        // the other views of the same value must agree with the dump: lengths, and for a sorted set (two indexes: the
        // member->score map and the skiplist) ZSCORE and ZRANK of every member
        let d = match d {
            Dump::S(b) => if im.exec(&Command::StrLen(ks.clone()))? == RespValue::Integer(b.len() as i64) { Dump::S(b) } else { Dump::X("STRLEN disagrees with GET".into()) },
            Dump::L(v) => if im.exec(&Command::LLen(ks.clone()))? == RespValue::Integer(v.len() as i64) { Dump::L(v) } else { Dump::X("LLEN disagrees with LRANGE".into()) },
            Dump::T(v) => if im.exec(&Command::SCard(ks.clone()))? == RespValue::Integer(v.len() as i64) { Dump::T(v) } else { Dump::X("SCARD disagrees with SMEMBERS".into()) },
            Dump::H(v) => if im.exec(&Command::HLen(ks.clone()))? == RespValue::Integer(v.len() as i64) { Dump::H(v) } else { Dump::X("HLEN disagrees with HGETALL".into()) },
            Dump::Z(v) => {
                let mut bad = im.exec(&Command::ZCard(ks.clone()))? != RespValue::Integer(v.len() as i64);
                if v.len() <= 8 { for (idx, (m, s)) in v.iter().enumerate() {
                    if im.exec(&Command::ZScore(ks.clone(), SDS::new(m.clone())))? != RespValue::BulkString(Some(s.to_string().into_bytes())) { bad = true; }
                    if im.exec(&Command::ZRank(ks.clone(), SDS::new(m.clone())))? != RespValue::Integer(idx as i64) { bad = true; }
                } }
                if bad { Dump::X("ZCARD/ZSCORE/ZRANK disagree with ZRANGE".into()) } else { Dump::Z(v) } }
            o => o,
        };
        out.push((ks, d, p));
    }
    // the whole keyspace: DBSIZE and KEYS * must show exactly the keys seen above (an extra key - one
    // outside the alphabet, or one that TYPE hides - would otherwise go unnoticed)
    let n = im.exec(&Command::DbSize)?;
    let mut all: Vec<Vec<u8>> = arr(&im.exec(&Command::Keys("*".into()))?).unwrap_or_default();
    all.sort();
    let mut seen: Vec<Vec<u8>> = out.iter().filter(|e| e.2 != -2).map(|e| e.0.as_bytes().to_vec()).collect();
    seen.sort();
    if n != RespValue::Integer(seen.len() as i64) || all != seen {
        out.push(("*".to_string(), Dump::X(format!("DBSIZE {:?}, KEYS * {:?}, but TYPE shows the keys {:?}", n, all.iter().map(|b| String::from_utf8_lossy(b).to_string()).collect::<Vec<_>>(),
                                                     seen.iter().map(|b| String::from_utf8_lossy(b).to_string()).collect::<Vec<_>>())), -3));
    }
    Ok(out)
}

pub fn dump_of_value(v: &redis_sim::redis::Value) -> Dump {
    use redis_sim::redis::Value;
    match v {
        Value::String(s) => Dump::S(s.as_bytes().to_vec()),
        Value::List(l) => Dump::L(l.range(0, -1).iter().map(|s| s.as_bytes().to_vec()).collect()),
        Value::Set(s) => { let mut m: Vec<B> = s.members().iter().map(|s| s.as_bytes().to_vec()).collect(); m.sort(); Dump::T(m) }
        Value::Hash(h) => { let mut p: Vec<(B, B)> = h.get_all().iter().map(|(f, x)| (f.as_bytes().to_vec(), x.as_bytes().to_vec())).collect(); p.sort(); Dump::H(p) }
        Value::SortedSet(z) => { let r = z.range(0, -1);
            if r.iter().all(|(_, s)| s.is_finite() && s.fract() == 0.0 && s.abs() <= 9007199254740992.0) { Dump::Z(r.iter().map(|(m, s)| (m.as_bytes().to_vec(), *s as i64)).collect()) }
            else { Dump::X("non-integer score".into()) } }
        Value::Null => Dump::X("Value::Null".into()),
    }
}

/// Every field of a stored value as text - not the type's own PartialEq (RedisSortedSet's compares the member map only):
/// for a sorted set the skiplist order with the score bits, the skiplist length, and the member map's view of each member.
pub fn full_dump(v: &redis_sim::redis::Value) -> String {
    use redis_sim::redis::Value;
    match v {
        Value::SortedSet(z) => {
            let r = z.range(0, -1); let rr = z.rev_range(0, -1);
            format!("zset len={} skiplist_len={} sorted={} order=[{}] rev=[{}] map=[{}]", z.len(), z.skiplist_len(), z.is_sorted(),
                r.iter().map(|(m, s)| format!("{}:{:016x}", m.as_bytes().escape_ascii(), s.to_bits())).collect::<Vec<_>>().join(","),
                rr.iter().map(|(m, _)| format!("{}", m.as_bytes().escape_ascii())).collect::<Vec<_>>().join(","),
                r.iter().map(|(m, _)| format!("{:?}/{:?}", z.score(m).map(|s| s.to_bits()), z.rank(m))).collect::<Vec<_>>().join(","))
        }
        Value::List(l) => format!("list len={} [{}]", l.len(), l.range(0, -1).iter().map(|s| format!("{}", s.as_bytes().escape_ascii())).collect::<Vec<_>>().join(",")),
        Value::Set(s) => { let mut m: Vec<String> = s.members().iter().map(|s| format!("{}", s.as_bytes().escape_ascii())).collect(); m.sort(); format!("set len={} {{{}}}", s.len(), m.join(",")) }
        Value::Hash(h) => { let mut m: Vec<String> = h.get_all().iter().map(|(f, x)| format!("{}={}", f.as_bytes().escape_ascii(), x.as_bytes().escape_ascii())).collect(); m.sort(); format!("hash len={} {{{}}}", h.len(), m.join(",")) }
        Value::String(s) => format!("string len={} {}", s.len(), s.as_bytes().escape_ascii()),
        Value::Null => "null".into(),
    }
}

/// The visible keyspace read WITHOUT purging anything: EXISTS and PTTL (both `&self` in the executor, they only
/// test the deadline), the stored value cloned from get_data(), DBSIZE and KEYS * (also `&self`).  A key past its
/// deadline counts as absent.  Second component: the keys that are still stored although their deadline has
/// passed (lazily expired, not yet evicted).
pub fn snapshot_nopurge(im: &mut Impl, keys: &[&str]) -> Result<(Snapshot, Vec<String>), String> {
    let mut out = Vec::new(); let mut stale = Vec::new();
    for k in keys {
        let ks = k.to_string();
        let e = im.exec(&Command::Exists(vec![ks.clone()]))?;
        let p = match im.exec(&Command::Pttl(ks.clone()))? { RespValue::Integer(i) => i, _ => i64::MIN };
        let stored = im.ex.get_data().get(&ks).cloned();
        match (&e, stored) {
            (RespValue::Integer(1), Some(v)) => { if p < -1 { out.push((ks, Dump::X(format!("EXISTS 1 but PTTL {}", p)), p)); } else { out.push((ks, dump_of_value(&v), p)); } }
            (RespValue::Integer(0), Some(_)) => { if p != -2 { out.push((ks.clone(), Dump::X(format!("EXISTS 0 but PTTL {}", p)), -2)); } stale.push(ks); }
            (RespValue::Integer(0), None) => { if p != -2 { out.push((ks, Dump::X(format!("EXISTS 0 but PTTL {}", p)), -2)); } }
            (o, s) => out.push((ks, Dump::X(format!("EXISTS {:?}, stored: {}", o, s.is_some())), -2)),
        }
    }
    let n = im.exec(&Command::DbSize)?;
    let mut all: Vec<Vec<u8>> = arr(&im.exec(&Command::Keys("*".into()))?).unwrap_or_default();
    all.sort();
    let mut seen: Vec<Vec<u8>> = out.iter().filter(|e| e.2 != -2).map(|e| e.0.as_bytes().to_vec()).collect();
    seen.sort();
    if n != RespValue::Integer(seen.len() as i64) || all != seen {
        out.push(("*".to_string(), Dump::X(format!("DBSIZE {:?}, KEYS * {:?}, but EXISTS shows the keys {:?}", n, all.iter().map(|b| String::from_utf8_lossy(b).to_string()).collect::<Vec<_>>(),
                                                     seen.iter().map(|b| String::from_utf8_lossy(b).to_string()).collect::<Vec<_>>())), -3));
    }
    Ok((out, stale))
}

pub fn dump_coq(d: &Dump) -> String {
    match d {
        Dump::S(b) => format!("(DS {})", chex(b)),
        Dump::L(v) => format!("(DL {})", clist(v.iter(), |b| chex(b))),
        Dump::T(v) => format!("(DT {})", clist(v.iter(), |b| chex(b))),
        Dump::H(v) => format!("(DH {})", clist(v.iter(), |(f, x)| format!("({}, {})", chex(f), chex(x)))),
        Dump::Z(v) => format!("(DZ {})", clist(v.iter(), |(m, s)| format!("({}, {})", chex(m), cz(*s)))),
        Dump::X(_) => "DX".into(),
    }
}
pub fn snap_coq(s: &Snapshot) -> String {
    clist(s.iter(), |(k, d, p)| format!("({}, {}, {})", chex(k.as_bytes()), dump_coq(d), cz(*p)))
}
fn esc(b: &[u8]) -> String { format!("\"{}\"", b.escape_ascii()) }
pub fn dump_text(d: &Dump) -> String {
    match d {
        Dump::S(b) => format!("string {}", esc(b)),
        Dump::L(v) => format!("list [{}]", v.iter().map(|b| esc(b)).collect::<Vec<_>>().join(", ")),
        Dump::T(v) => format!("set {{{}}}", v.iter().map(|b| esc(b)).collect::<Vec<_>>().join(", ")),
        Dump::H(v) => format!("hash {{{}}}", v.iter().map(|(f, x)| format!("{}: {}", esc(f), esc(x))).collect::<Vec<_>>().join(", ")),
        Dump::Z(v) => format!("zset [{}]", v.iter().map(|(m, s)| format!("{}: {}", esc(m), s)).collect::<Vec<_>>().join(", ")),
        Dump::X(t) => format!("UNREADABLE ({})", t),
    }
}
pub fn snap_json(s: &Snapshot) -> serde_json::Value {
    serde_json::Value::Array(s.iter().map(|(k, d, p)| serde_json::json!({"key": k, "value": dump_text(d), "pttl": p})).collect())
}

// ------------------------------------------------------------------ generators

pub const STR_VALS: [&[u8]; 20] = [b"", b"a", b"bc", b"hello", b"\x00\xff", b"\x80x", b"10", b"-1", b"0", b"+5", b"05", b"-0", b" 7",
    b"9223372036854775807", b"-9223372036854775808", b"9223372036854775808", b"-9223372036854775809", b"123456789012345678901", b"3.5", b"7"];
pub const MEMBERS: [&[u8]; 7] = [b"m", b"n", b"", b"\xc3\xa9", b"10", b"a b", b"M"];
pub const FIELDS: [&[u8]; 5] = [b"f", b"g", b"", b"\xc3\xa9", b"n"];

/// hot = error-provoking mode (C17): keys drawn uniformly (type conflicts), extreme integers and indices more often
pub struct Gen<'a> { pub rng: &'a mut Rng, pub now: u64, pub deadlines: Vec<u64>, pub lens: Vec<i64>, pub hot: bool,
                     /// the visible keyspace after the last step (state-aware scenarios) and commands queued by a scenario
                     pub state: Snapshot, pub pending: Vec<MCmd>,
                     /// keys still stored although their deadline has passed (clock moved without the eviction sweep)
                     pub stale: Vec<String> }

impl<'a> Gen<'a> {
    pub fn pick<T: Clone>(&mut self, l: &[T]) -> T { l[self.rng.gen_range(0..l.len())].clone() }
    pub fn chance(&mut self, p: f64) -> bool { self.rng.gen_bool(p) }
    /// a key: mostly from the family's home keys, sometimes any key (type conflicts)
    pub fn key(&mut self, home: &[&str]) -> String {
        let p = if self.hot { 0.45 } else { 0.8 };
        if self.chance(p) { self.pick(home).to_string() } else { self.pick(&KEYS).to_string() }
    }
    /// mostly the small pool; 7 %: a value whose length sits on a boundary of the code (SDS inline capacity 23, OBJECT
    /// ENCODING embstr limit 44, 64/128/256, 1 KiB; C17's implementation-only part adds 64 KiB..1 MiB values) so that APPEND/SETRANGE/GETRANGE cross them
    pub fn val(&mut self) -> B {
        if self.chance(0.05) { let n = self.pick(&[21usize, 22, 23, 24, 25, 22, 23, 24, 43, 44, 45, 63, 64, 65, 127, 128, 129, 255, 256, 257, 1024, 1025]);
                               let c = self.pick(&[b'x', b'7', 0u8, 0xffu8]); return vec![c; n]; }
        self.pick(&STR_VALS).to_vec()
    }
    /// n distinct short members m0..m{n-1}
    pub fn many_members(&mut self, n: usize) -> Vec<B> { (0..n).map(|i| format!("m{}", i).into_bytes()).collect() }
    pub fn member(&mut self) -> B { self.pick(&MEMBERS).to_vec() }
    pub fn field(&mut self) -> B { self.pick(&FIELDS).to_vec() }
    pub fn vals(&mut self, lo: usize, hi: usize) -> Vec<B> { let n = self.rng.gen_range(lo..=hi); (0..n).map(|_| self.val()).collect() }
    pub fn members(&mut self, lo: usize, hi: usize) -> Vec<B> { let n = self.rng.gen_range(lo..=hi); (0..n).map(|_| self.member()).collect() }
    pub fn index(&mut self) -> i64 {
        match self.rng.gen_range(0..20) {
            0 => i64::MIN, 1 => i64::MIN + 1, 2 => i64::MAX, 3 => 1000, 4 => -1000,
            5..=9 => { let l = if self.lens.is_empty() { 3 } else { let i = self.rng.gen_range(0..self.lens.len()); self.lens[i] };
                       self.pick(&[-l - 2, -l - 1, -l, -l + 1, l - 1, l, l + 1, l + 2]) }
            _ => self.rng.gen_range(-8..=8),
        }
    }
    pub fn int(&mut self) -> i64 {
        let top = if self.hot { 8 } else { 12 };
        match self.rng.gen_range(0..top) {
            0 => i64::MAX, 1 => i64::MIN, 2 => i64::MAX - 1, 3 => i64::MIN + 1, 4 => 0, 5 => -1,
            _ => self.rng.gen_range(-20..=20),
        }
    }
    pub fn score(&mut self) -> i64 {
        // (2^53 and 2^53 - 1 are the largest scores a double holds exactly; both print as plain integers)
        if self.chance(0.04) { return self.pick(&[9007199254740992i64, 9007199254740991, -9007199254740992, -9007199254740991]); }
        match self.rng.gen_range(0..10) { 0 => -3, 1 => 1000000, 2 => -1000000, _ => self.rng.gen_range(-2..=5) }
    }
    pub fn zbound(&mut self) -> ZB {
        match self.rng.gen_range(0..8) { 0 => ZB::NegInf, 1 => ZB::PosInf, 2 | 3 => ZB::Excl(self.score()), _ => ZB::Incl(self.score()) }
    }
    fn rel_secs(&mut self) -> i64 {
        match self.rng.gen_range(0..16) {
            0 => 0, 1 => -1, 2 => i64::MAX / 1000, 3 => i64::MAX / 1000 + 1, 4 => i64::MAX, 5 => i64::MIN, 6 => i64::MIN / 1000 - 1, 7 => -5,
            _ => self.rng.gen_range(1..=3),
        }
    }
    fn rel_ms(&mut self) -> i64 {
        match self.rng.gen_range(0..20) {
            0 => 0, 1 => -1, 2 => i64::MAX, 3 => i64::MAX - self.now as i64, 4 => (i64::MAX - self.now as i64).saturating_add(1),
            // (PEXPIRE below i64::MIN/2 is not compared: the implementation refuses it, Redis's source does not; see notes/impl/C01.md)
            5 => i64::MIN / 2, 6 => -700,
            7 => 499, 8 => 500, 9 => 501, 10 => 1499, 11 => 1500, 12 => 1501, 13 => 1, 14 => 2,
            _ => self.rng.gen_range(1..=3000),
        }
    }
    fn abs_secs(&mut self) -> i64 {
        let n = (self.now / 1000) as i64;
        match self.rng.gen_range(0..14) {
            0 => 0, 1 => -1, 2 => i64::MAX / 1000, 3 => i64::MAX / 1000 + 1, 4 => i64::MAX, 5 => i64::MIN,
            6 => n - 1, 7 => n, _ => n + self.rng.gen_range(1..=3),
        }
    }
    fn abs_ms(&mut self) -> i64 {
        let n = self.now as i64;
        match self.rng.gen_range(0..16) {
            0 => 0, 1 => -1, 2 => i64::MAX, 3 => i64::MIN, 4 => n - 1, 5 => n, 6 => n + 1, 7 => 1,
            8 => n + 499, 9 => n + 500, 10 => n + 1500,
            _ => n + self.rng.gen_range(1..=3000),
        }
    }
    /// grammatical expiry option of SET (set = true) or GETEX
    pub fn xopt(&mut self, set: bool) -> XOpt {
        match self.rng.gen_range(0..10) {
            0 | 1 => XOpt::None,
            2 => if set { XOpt::KeepTtl } else { XOpt::Persist },
            3 | 4 => XOpt::Ex(self.rel_secs()),
            5 | 6 => XOpt::Px(self.rel_ms()),
            7 => XOpt::ExAt(self.abs_secs()),
            _ => XOpt::PxAt(self.abs_ms()),
        }
    }
    /// grammatical NX/XX/GT/LT combination of EXPIRE/PEXPIRE
    fn expire_flags(&mut self) -> (bool, bool, bool, bool) {
        // every subset of {NX, XX, GT, LT}, including the ones only the parsers refuse
        if self.chance(0.3) { return (self.chance(0.5), self.chance(0.5), self.chance(0.5), self.chance(0.5)); }
        self.pick(&[(false, false, false, false), (false, false, false, false), (true, false, false, false), (false, true, false, false),
                    (false, false, true, false), (false, false, false, true), (false, true, true, false), (false, true, false, true)])
    }
    /// clock advance: straddles the live deadlines
    pub fn delta(&mut self) -> u64 {
        let mut c: Vec<u64> = vec![0, 1, 499, 500, 501, 999, 1000, 1001];
        for d in self.deadlines.clone() {
            if d > self.now && d < self.now + 10_000_000 { let r = d - self.now; c.extend([r.saturating_sub(1), r, r + 1, r, r.saturating_sub(1)]); }
        }
        if self.chance(0.15) { self.rng.gen_range(0..4000) } else { self.pick(&c) }
    }

    fn len_of(&self, k: &str) -> Option<i64> {
        find(&self.state, k).and_then(|e| match &e.1 { Dump::L(v) => Some(v.len() as i64), Dump::S(v) => Some(v.len() as i64), Dump::Z(v) => Some(v.len() as i64),
                                                        Dump::T(v) => Some(v.len() as i64), Dump::H(v) => Some(v.len() as i64), Dump::X(_) => None })
    }
    /// (start, stop) around the boundaries of a sequence of length len, with emphasis on "start normalises to 0,
    /// stop lies before the head" and on the other empty / one-element ranges
    pub fn edge_pair(&mut self, len: i64) -> (i64, i64) {
        let l = len.max(1);
        let starts = [0, -l, -l - 1, -l - 2, i64::MIN, 1, l - 1, l, l + 1, -1];
        let stops = [-l - 1, -l - 2, -100, i64::MIN, -l, 0, -1, l - 1, l, l + 1, i64::MAX];
        if self.chance(0.6) { (self.pick(&starts[..5]), self.pick(&stops[..4])) } else { (self.pick(&starts), self.pick(&stops)) }
    }
    /// commands that set up a keyspace holding every type, short collections, about half of the keys with a TTL
    pub fn prelude(&mut self) -> Vec<MCmd> {
        use MCmd::*;
        let mut v = Vec::new();
        let ttl = |g: &mut Gen, k: &str, v: &mut Vec<MCmd>| if g.chance(0.5) { let ms = g.pick(&[700i64, 1500, 2500, 5000]); v.push(PExpire(k.to_string(), ms, false, false, false, false)); };
        if self.chance(0.8) { let x = if self.chance(0.5) { XOpt::Px(self.pick(&[900i64, 1500, 5000])) } else { XOpt::None }; v.push(Set("a".into(), self.val(), x, false, false, false)); }
        if self.chance(0.6) { let x = if self.chance(0.5) { XOpt::Px(self.pick(&[900i64, 1500, 5000])) } else { XOpt::None }; v.push(Set("b".into(), self.val(), x, false, false, false)); }
        if self.chance(0.8) { v.push(RPush("l".into(), self.vals(1, 3))); ttl(self, "l", &mut v); }
        if self.chance(0.6) { v.push(SAdd("s".into(), self.members(1, 2))); ttl(self, "s", &mut v); }
        if self.chance(0.6) { let n = self.rng.gen_range(1..=2); v.push(HSet("h".into(), (0..n).map(|_| (self.field(), self.val())).collect())); ttl(self, "h", &mut v); }
        if self.chance(0.7) { let n = self.rng.gen_range(1..=3); v.push(ZAdd("z".into(), (0..n).map(|_| (self.score(), self.member())).collect(), false, false, false, false, false)); ttl(self, "z", &mut v); }
        v
    }
    /// state-aware scenarios (TTL transfer by RENAME, boundary ranges on the real length, emptying a collection that
    /// carries a TTL and re-creating the key); None when the current keyspace offers no candidate
    /// a lazily expired key as source, destination or bystander of a two-key / multi-key command, or as the operand of
    /// a single-key command that fails
    fn stale_scenario(&mut self) -> Option<MCmd> {
        use MCmd::*;
        if self.stale.is_empty() { return None; }
        let s = self.pick(&self.stale.clone());
        let live: Vec<String> = self.state.iter().filter(|e| e.2 >= -1).map(|e| e.0.clone()).collect();
        let l = if live.is_empty() || self.chance(0.15) { self.pick(&KEYS).to_string() } else { self.pick(&live) };
        let v = self.val();
        Some(match self.rng.gen_range(0..16) {
            0..=2 => Rename(s, l), 3 => Rename(l, s), 4 => RenameNx(s, l), 5 => RenameNx(l, s),
            6 => LMove(s, l, self.chance(0.5), self.chance(0.5)), 7 => LMove(l, s, self.chance(0.5), self.chance(0.5)),
            8 => if self.chance(0.5) { RPopLPush(s, l) } else { RPopLPush(l, s) },
            9 => MSetNx(vec![(s, v.clone()), (l, v)]), 10 => if self.chance(0.5) { Del(vec![s, l]) } else { MGet(vec![s, l]) },
            11 => LSet(s, 0, v), 12 => if self.chance(0.5) { Exists(vec![s, l]) } else { Ttl(s) },
            // a failing single-key command while the lazily expired key stands by
            13 => IncrBy(l, i64::MAX), 14 => LSet(l, 99, v), _ => Set(s, v, XOpt::KeepTtl, false, false, self.chance(0.5)),
        })
    }
    fn scenario(&mut self) -> Option<MCmd> {
        use MCmd::*;
        let keys: Vec<(String, Dump, i64)> = self.state.iter().filter(|e| e.2 >= -1).cloned().collect();
        if keys.is_empty() { return None; }
        match self.rng.gen_range(0..10) {
            // RENAME / RENAMENX between keys of different TTL status (all four combinations, destination-with-TTL favoured)
            0..=2 => {
                let with: Vec<&(String, Dump, i64)> = keys.iter().filter(|e| e.2 >= 0).collect();
                let without: Vec<&(String, Dump, i64)> = keys.iter().filter(|e| e.2 == -1).collect();
                let (src, dst) = match self.rng.gen_range(0..6) {
                    0..=2 if !with.is_empty() && !without.is_empty() => (self.pick(&without).0.clone(), self.pick(&with).0.clone()),
                    3 if !with.is_empty() && !without.is_empty() => (self.pick(&with).0.clone(), self.pick(&without).0.clone()),
                    4 if with.len() >= 2 => (with[0].0.clone(), with[1].0.clone()),
                    _ => (self.pick(&keys).0.clone(), self.pick(&KEYS).to_string()),
                };
                let probe = if self.chance(0.5) { Pttl(dst.clone()) } else { Ttl(dst.clone()) };
                self.pending.push(probe);
                Some(if self.chance(0.75) { Rename(src, dst) } else { RenameNx(src, dst) })
            }
            // boundary index pairs on the real length of a list / string / sorted set
            3..=6 => {
                let cands: Vec<&(String, Dump, i64)> = keys.iter().filter(|e| matches!(e.1, Dump::L(_) | Dump::S(_) | Dump::Z(_))).collect();
                if cands.is_empty() { return None; }
                let (k, d, _) = self.pick(&cands).clone();
                let len = self.len_of(&k).unwrap_or(1);
                let (a, b) = self.edge_pair(len);
                Some(match d {
                    Dump::L(_) => match self.rng.gen_range(0..8) { 0..=3 => LTrim(k, a, b), 4..=5 => LRange(k, a, b), 6 => LIndex(k, b), _ => LSet(k, b, self.val()) },
                    Dump::S(_) => GetRange(k, a, b),
                    _ => if self.chance(0.5) { ZRange(k, a, b, self.chance(0.5)) } else { ZRevRange(k, a, b, self.chance(0.5)) },
                })
            }
            // empty a collection (preferably one with a TTL), look at it, re-create it: the TTL must not come back
            _ => {
                let mut cands: Vec<&(String, Dump, i64)> = keys.iter().filter(|e| matches!(e.1, Dump::L(_) | Dump::T(_) | Dump::H(_) | Dump::Z(_)) && e.2 >= 0).collect();
                if cands.is_empty() || self.chance(0.2) { cands = keys.iter().filter(|e| matches!(e.1, Dump::L(_) | Dump::T(_) | Dump::H(_) | Dump::Z(_))).collect(); }
                if cands.is_empty() { return None; }
                let (k, d, _) = self.pick(&cands).clone();
                let (kill, recreate) = match d {
                    Dump::L(v) => { let len = v.len() as i64;
                        let kill = if len == 1 && self.chance(0.4) { if self.chance(0.5) { LPop(k.clone()) } else { RPop(k.clone()) } }
                                   else { let (a, b) = self.pick(&[(0, -len - 1), (0, -100), (-100, -100), (0, i64::MIN), (len, -1), (1, 0), (-len - 2, -len - 1)]); LTrim(k.clone(), a, b) };
                        (kill, RPush(k.clone(), self.vals(1, 2))) }
                    Dump::T(v) => (SRem(k.clone(), v.clone()), SAdd(k.clone(), self.members(1, 2))),
                    Dump::H(v) => (HDel(k.clone(), v.iter().map(|p| p.0.clone()).collect()), HSet(k.clone(), vec![(self.field(), self.val())])),
                    Dump::Z(v) => (ZRem(k.clone(), v.iter().map(|p| p.0.clone()).collect()), ZAdd(k.clone(), vec![(self.score(), self.member())], false, false, false, false, false)),
                    _ => return None,
                };
                // queued in reverse order (pending is popped from the back)
                self.pending.push(Pttl(k.clone()));
                self.pending.push(recreate);
                let probe = if self.chance(0.5) { Pttl(k.clone()) } else { Exists(vec![k.clone()]) };
                self.pending.push(probe);
                self.pending.push(TypeOf(k.clone()));
                Some(kill)
            }
        }
    }
    pub fn cmd(&mut self) -> MCmd {
        if let Some(c) = self.pending.pop() { return c; }
        if !self.stale.is_empty() && self.chance(0.5) { if let Some(c) = self.stale_scenario() { return c; } }
        if self.chance(0.22) { if let Some(c) = self.scenario() { return c; } }
        // collections around the sizes the code treats specially (listpack limit 128 of OBJECT ENCODING, skiplist levels):
        // exactly 127 / 128 / 129 / 130 elements, pushed in one command or on top of what is there
        if self.chance(0.01) {
            let n = self.pick(&[33usize, 64, 127, 128, 129, 130]);
            let ms = self.many_members(n);
            return match self.rng.gen_range(0..4) {
                0 => MCmd::RPush("l".into(), ms), 1 => MCmd::SAdd("s".into(), ms),
                2 => MCmd::HSet("h".into(), ms.into_iter().map(|m| (m, b"1".to_vec())).collect()),
                _ => MCmd::ZAdd("z".into(), ms.into_iter().enumerate().map(|(i, m)| ((i % 7) as i64 - 3, m)).collect(), false, false, false, false, false),
            };
        }
        self.cmd_random()
    }

    fn cmd_random(&mut self) -> MCmd {
        use MCmd::*;
        let st = ["a", "b"]; let li = ["l", "b"]; let se = ["s"]; let ha = ["h"]; let zs = ["z"]; let any = KEYS;
        match self.rng.gen_range(0..100) {
            // ---- strings
            0..=1 => Get(self.key(&st)),
            2..=7 => { let (nx, xx) = self.pick(&[(false, false), (false, false), (true, false), (false, true), (true, true)]);
                       Set(self.key(&st), self.val(), self.xopt(true), nx, xx, self.chance(0.3)) }
            8 => SetNx(self.key(&st), self.val()),
            9 => { let v = if self.chance(0.3) { vec![] } else { self.val() }; Append(self.key(&any), v) }
            10 => GetSet(self.key(&st), self.val()),
            11 => StrLen(self.key(&st)),
            12 => { let n = self.rng.gen_range(1..=3); MGet((0..n).map(|_| self.key(&any)).collect()) }
            13..=14 => { let n = self.rng.gen_range(1..=3); MSet((0..n).map(|_| (self.key(&st), self.val())).collect()) }
            15 => { let n = self.rng.gen_range(1..=3); MSetNx((0..n).map(|_| (self.key(&any), self.val())).collect()) }
            16..=17 => GetRange(self.key(&st), self.index(), self.index()),
            18 => { // a huge offset is only paired with a non-empty value that makes the total exceed 512 MiB (nothing that large is ever built)
                    if self.chance(0.2) { let (off, v) = self.pick(&[(536870911u64, b"xy".to_vec()), (536870912, b"x".to_vec()), (536870913, b"x".to_vec()), (u64::MAX / 4, b"xy".to_vec())]);
                                          SetRange(self.key(&st), off, v) }
                    else { let off = self.pick(&[0u64, 0, 1, 2, 3, 5, 9]); SetRange(self.key(&st), off, self.val()) } }
            19..=20 => GetEx(self.key(&st), self.xopt(false)),
            21 => GetDel(self.key(&st)),
            22 => Incr(self.key(&st)), 23 => Decr(self.key(&st)),
            24..=25 => IncrBy(self.key(&st), self.int()), 26 => DecrBy(self.key(&st), self.int()),
            // ---- keys and expiry
            27..=28 => { let n = self.rng.gen_range(1..=3); Del((0..n).map(|_| self.key(&any)).collect()) }
            29 => { let n = self.rng.gen_range(1..=3); Exists((0..n).map(|_| self.key(&any)).collect()) }
            30 => TypeOf(self.key(&any)), 31 => Keys,
            32..=33 => Rename(self.key(&any), self.key(&any)), 34 => RenameNx(self.key(&any), self.key(&any)),
            35 => DbSize, 36 => if self.chance(0.3) { if self.chance(0.5) { FlushDb } else { FlushAll } } else { DbSize },
            37..=40 => { let (nx, xx, gt, lt) = self.expire_flags(); Expire(self.key(&any), self.rel_secs(), nx, xx, gt, lt) }
            41..=44 => { let (nx, xx, gt, lt) = self.expire_flags(); PExpire(self.key(&any), self.rel_ms(), nx, xx, gt, lt) }
            45 => ExpireAt(self.key(&any), self.abs_secs()), 46..=47 => PExpireAt(self.key(&any), self.abs_ms()),
            48..=49 => Ttl(self.key(&any)), 50 => Pttl(self.key(&any)), 51 => ExpireTime(self.key(&any)), 52 => PExpireTime(self.key(&any)),
            53 => Persist(self.key(&any)),
            // ---- lists
            54..=56 => LPush(self.key(&li), self.vals(1, 3)), 57..=58 => RPush(self.key(&li), self.vals(1, 3)),
            59 => LPop(self.key(&li)), 60 => RPop(self.key(&li)), 61 => LLen(self.key(&li)),
            62 => LIndex(self.key(&li), self.index()), 63..=64 => LRange(self.key(&li), self.index(), self.index()),
            65 => LSet(self.key(&li), self.index(), self.val()), 66 => LTrim(self.key(&li), self.index(), self.index()),
            67 => RPopLPush(self.key(&li), self.key(&li)), 68..=69 => LMove(self.key(&li), self.key(&li), self.chance(0.5), self.chance(0.5)),
            // ---- sets
            70..=72 => SAdd(self.key(&se), self.members(1, 3)), 73 => SRem(self.key(&se), self.members(1, 3)),
            74 => SMembers(self.key(&se)), 75 => SIsMember(self.key(&se), self.member()), 76 => SCard(self.key(&se)),
            // ---- hashes
            77..=79 => { let n = self.rng.gen_range(1..=3); HSet(self.key(&ha), (0..n).map(|_| (self.field(), self.val())).collect()) }
            80 => HGet(self.key(&ha), self.field()), 81 => { let n = self.rng.gen_range(1..=3); HDel(self.key(&ha), (0..n).map(|_| self.field()).collect()) }
            82 => HGetAll(self.key(&ha)), 83 => if self.chance(0.5) { HKeys(self.key(&ha)) } else { HVals(self.key(&ha)) },
            84 => if self.chance(0.5) { HLen(self.key(&ha)) } else { HExists(self.key(&ha), self.field()) },
            85..=86 => HIncrBy(self.key(&ha), self.field(), self.int()),
            // ---- sorted sets
            87..=90 => { let n = self.rng.gen_range(1..=3);
                         let (nx, xx, gt, lt) = self.pick(&[(false, false, false, false), (false, false, false, false), (true, false, false, false), (false, true, false, false),
                            (false, false, true, false), (false, false, false, true), (false, true, true, false), (false, true, false, true)]);
                         // every subset of {NX, XX, GT, LT, CH}, including the contradictory ones Redis refuses
                         let (nx, xx, gt, lt) = if self.chance(0.4) { (self.chance(0.5), self.chance(0.5), self.chance(0.5), self.chance(0.5)) } else { (nx, xx, gt, lt) };
                         ZAdd(self.key(&zs), (0..n).map(|_| (self.score(), self.member())).collect(), nx, xx, gt, lt, self.chance(0.4)) }
            91 => ZRem(self.key(&zs), self.members(1, 3)),
            92 => ZScore(self.key(&zs), self.member()), 93 => ZRank(self.key(&zs), self.member()), 94 => ZCard(self.key(&zs)),
            95 => ZCount(self.key(&zs), self.zbound(), self.zbound()),
            96 => ZRange(self.key(&zs), self.index(), self.index(), self.chance(0.5)),
            97 => ZRevRange(self.key(&zs), self.index(), self.index(), self.chance(0.5)),
            _ => { let lim = if self.chance(0.4) { Some((self.rng.gen_range(0..4) as i64, self.pick(&[0u64, 1, 2, 5, u64::MAX / 2]))) } else { None };
                   ZRangeByScore(self.key(&zs), self.zbound(), self.zbound(), self.chance(0.5), lim) }
        }
    }
}

pub fn family(c: &MCmd) -> &'static str {
    use MCmd::*;
    match c {
        Get(..) | Set(..) | SetNx(..) | Append(..) | GetSet(..) | StrLen(..) | MGet(..) | MSet(..) | MSetNx(..) | GetRange(..) | SetRange(..)
        | GetEx(..) | GetDel(..) | Incr(..) | Decr(..) | IncrBy(..) | DecrBy(..) => "string",
        Del(..) | Exists(..) | TypeOf(..) | Keys | Rename(..) | RenameNx(..) | DbSize | FlushDb | FlushAll => "keys",
        Expire(..) | PExpire(..) | ExpireAt(..) | PExpireAt(..) | Ttl(..) | Pttl(..) | ExpireTime(..) | PExpireTime(..) | Persist(..) => "expiry",
        LPush(..) | RPush(..) | LPop(..) | RPop(..) | LLen(..) | LIndex(..) | LRange(..) | LSet(..) | LTrim(..) | RPopLPush(..) | LMove(..) => "list",
        SAdd(..) | SRem(..) | SMembers(..) | SIsMember(..) | SCard(..) => "set",
        HSet(..) | HGet(..) | HDel(..) | HGetAll(..) | HKeys(..) | HVals(..) | HLen(..) | HExists(..) | HIncrBy(..) => "hash",
        _ => "zset",
    }
}

// ------------------------------------------------------------------ direct Redis laws
// Small laws of Redis evaluated directly on what the implementation did in one step
// (command, reply, visible keyspace before/after, clock).  They cover the commands in which the
// implementation was seen to deviate, so that a deviation is reported with a concrete failing
// input by the harness itself (the Coq model covers everything, but its verdict is only a list of
// disagreeing case numbers).

/// util.c string2ll
pub fn string2ll(b: &[u8]) -> Option<i64> {
    if b.is_empty() || b.len() >= 21 { return None; }
    if b == b"0" { return Some(0); }
    let (neg, d) = if b[0] == b'-' { (true, &b[1..]) } else { (false, b) };
    if d.is_empty() || !(b'1'..=b'9').contains(&d[0]) || !d.iter().all(|c| c.is_ascii_digit()) { return None; }
    let mut v: i128 = 0;
    for c in d { v = v * 10 + (*c - b'0') as i128; }
    let v = if neg { -v } else { v };
    if v < i64::MIN as i128 || v > i64::MAX as i128 { None } else { Some(v as i64) }
}

pub fn find<'s>(s: &'s Snapshot, k: &str) -> Option<&'s (String, Dump, i64)> { s.iter().find(|e| e.0 == k) }

/// t_string.c getrangeCommand
pub fn redis_getrange(b: &[u8], start: i64, end: i64) -> Vec<u8> {
    let len = b.len() as i128; let (mut s, mut e) = (start as i128, end as i128);
    if s < 0 && e < 0 && s > e { return vec![]; }
    if s < 0 { s += len; } if e < 0 { e += len; }
    if s < 0 { s = 0; } if e < 0 { e = 0; }
    if e >= len { e = len - 1; }
    if s > e || len == 0 { return vec![]; }
    b[s as usize..=e as usize].to_vec()
}

pub struct Finding { pub class: &'static str, pub what: String, pub known: Option<&'static str> }
fn f(class: &'static str, what: String) -> Finding { Finding { class, what, known: None } }

/// expected (reply, remaining pttl after: None = key gone, Some(-1) = no ttl) of the EXPIRE family
fn expire_expect(now: u64, when: i128, flags: (bool, bool, bool, bool), before: Option<i64>) -> (i64, Option<i64>) {
    let (nx, xx, gt, lt) = flags;
    let p = match before { None => return (0, None), Some(p) => p };
    let cur: Option<i128> = if p >= 0 { Some(now as i128 + p as i128) } else { None };
    if nx && cur.is_some() { return (0, Some(p)); }
    if xx && cur.is_none() { return (0, Some(p)); }
    if gt && cur.map_or(true, |c| when <= c) { return (0, Some(p)); }
    if lt && cur.map_or(false, |c| when >= c) { return (0, Some(p)); }
    if when <= now as i128 { (1, None) } else { (1, Some((when - now as i128) as i64)) }
}

pub fn laws(c: &MCmd, r: &RespValue, before: &Snapshot, after: &Snapshot, now: u64) -> Vec<Finding> {
    use MCmd::*;
    let mut out = Vec::new();
    let kind = match r { RespValue::Error(t) => Some(err_kind(t)), _ => None };
    // an empty collection is never visible
    for (k, d, _) in after {
        let empty = match d { Dump::L(v) => v.is_empty(), Dump::T(v) => v.is_empty(), Dump::H(v) => v.is_empty(), Dump::Z(v) => v.is_empty(), _ => false };
        if empty && find(before, k).map(|e| &e.1) != Some(d) { out.push(f("empty-collection-visible", format!("after {} the key {:?} exists (TYPE says so) but holds an empty collection", c.name(), k))); }
        if let Dump::X(t) = d { out.push(f("inconsistent-probes", format!("after {} the key {:?} cannot be read back consistently: {}", c.name(), k, t))); }
    }
    // an error reply changes nothing
    if kind.is_some() && before != after {
        out.push(f("error-changed-keyspace", format!("{} replied an error ({:?}) but the visible keyspace changed", c.name(), r)));
    }
    let pttl_before = |k: &String| find(before, k).map(|e| e.2);
    let pttl_after = |k: &String| find(after, k).map(|e| e.2);
    let str_before = |k: &String| match find(before, k) { Some((_, Dump::S(b), _)) => Some(b.clone()), _ => None };
    let nonstr_before = |k: &String| matches!(find(before, k), Some((_, d, _)) if !matches!(d, Dump::S(_)));
    match c {
        Ttl(k) => if let Some(p) = pttl_before(k) { if p >= 0 {
            let want = (p as i128 + 500) / 1000;
            if *r != RespValue::Integer(want as i64) { out.push(f("ttl-rounding", format!("TTL of a key with {} ms left replied {:?}; Redis rounds to the nearest second: {}", p, r, want))); } } }
        ExpireTime(k) => if let Some(p) = pttl_before(k) { if p >= 0 {
            let want = (now as i128 + p as i128 + 500) / 1000;
            if *r != RespValue::Integer(want as i64) { out.push(f("expiretime-rounding", format!("EXPIRETIME of a key with deadline {} ms replied {:?}; Redis: (deadline+500)/1000 = {}", now as i128 + p as i128, r, want))); } } }
        GetSet(k, _) => if kind.is_none() && pttl_after(k) != Some(-1) {
            // known finding (pinned by the repo's DST shadow model): class = GETSET of a string that has a TTL
            let in_class = str_before(k).is_some() && pttl_before(k).map_or(false, |p| p >= 0) && pttl_after(k) == pttl_before(k);
            out.push(Finding { class: "getset-keeps-ttl", what: format!("GETSET left a TTL on the key (PTTL {:?}); Redis discards it", pttl_after(k)),
                               known: if in_class { Some("C01-getset-keeps-ttl") } else { None } }); }
        MSet(kvs) => for (k, _) in kvs { if pttl_after(k) != Some(-1) {
            out.push(f("mset-keeps-ttl", format!("MSET left a TTL on key {:?} (PTTL {:?}); Redis discards it", k, pttl_after(k)))); break; } }
        MSetNx(kvs) => if *r == RespValue::Integer(1) { for (k, _) in kvs { if pttl_after(k) != Some(-1) {
            out.push(f("mset-keeps-ttl", format!("MSETNX left a TTL on key {:?} (PTTL {:?})", k, pttl_after(k)))); break; } } }
        Incr(k) | Decr(k) | IncrBy(k, _) | DecrBy(k, _) => {
            let inc: Option<i128> = match c { Incr(_) => Some(1), Decr(_) => Some(-1), IncrBy(_, z) => Some(*z as i128),
                DecrBy(_, z) => if *z == i64::MIN { None } else { Some(-(*z as i128)) }, _ => None };
            match inc {
                None => if kind != Some("EOverflow") { out.push(f("decrby-min-error", format!("DECRBY {} replied {:?}; Redis: ERR decrement would overflow", i64::MIN, r))); }
                Some(inc) => {
                    let cur: Option<Option<i128>> = if nonstr_before(k) { None } else { match str_before(k) { None => Some(Some(0)), Some(b) => Some(string2ll(&b).map(|x| x as i128)) } };
                    match cur {
                        None => if kind != Some("EWrongType") { out.push(f("incr-wrongtype", format!("{} on a non-string replied {:?}", c.name(), r))); }
                        Some(None) => if kind != Some("ENotInteger") {
                            out.push(f("incr-lenient-parse", format!("{} on the string {:?} replied {:?}; Redis (string2ll) refuses it: ERR value is not an integer or out of range",
                                c.name(), String::from_utf8_lossy(&str_before(k).unwrap()), r))); }
                        Some(Some(cur)) => {
                            let n = cur + inc;
                            if n < i64::MIN as i128 || n > i64::MAX as i128 {
                                if kind != Some("EOverflow") { out.push(f("incr-overflow", format!("{} from {} by {} must overflow but replied {:?}", c.name(), cur, inc, r))); }
                            } else if *r != RespValue::Integer(n as i64) || !matches!(find(after, k), Some((_, Dump::S(b), _)) if b == n.to_string().as_bytes()) {
                                out.push(f("incr-result", format!("{} from {} by {}: reply {:?}, stored {:?}; expected {}", c.name(), cur, inc, r, find(after, k).map(|e| &e.1), n)));
                            }
                        }
                    }
                }
            }
        }
        GetRange(k, a, b) => if let Some(s) = str_before(k) {
            let want = redis_getrange(&s, *a, *b);
            if *r != RespValue::BulkString(Some(want.clone())) {
                // known finding (pinned by the repo's DST shadow model): class = non-empty string, both indices negative, start > end,
                // and the reply is what the clamping rule yields without Redis's early exit (the first byte)
                let in_class = !s.is_empty() && *a < 0 && *b < 0 && *a > *b && *r == RespValue::BulkString(Some(s[..1].to_vec()));
                out.push(Finding { class: "getrange", what: format!("GETRANGE {:?} {} {} replied {:?}; Redis: {:?}", String::from_utf8_lossy(&s), a, b, r, String::from_utf8_lossy(&want)),
                                   known: if in_class { Some("C01-getrange-negative-order") } else { None } }); } }
        SetRange(k, _, v) => if v.is_empty() && !nonstr_before(k) {
            let want = str_before(k).map_or(0, |s| s.len() as i64);
            if *r != RespValue::Integer(want) || before != after { out.push(f("setrange-empty-value", format!("SETRANGE with an empty value replied {:?} / changed the keyspace; Redis replies the current length {} and changes nothing", r, want))); } }
        Expire(k, _, ..) | PExpire(k, _, ..) | ExpireAt(k, _) | PExpireAt(k, _) => {
            let (when, flags, err): (i128, (bool, bool, bool, bool), bool) = match c {
                Expire(_, s, nx, xx, gt, lt) => { let s = *s as i128; let e = s > (i64::MAX / 1000) as i128 || s < (i64::MIN / 1000) as i128 || s * 1000 > i64::MAX as i128 - now as i128; (s * 1000 + now as i128, (*nx, *xx, *gt, *lt), e) }
                PExpire(_, m, nx, xx, gt, lt) => { let m = *m as i128; (m + now as i128, (*nx, *xx, *gt, *lt), m > i64::MAX as i128 - now as i128) }
                ExpireAt(_, t) => { let t = *t as i128; (t * 1000, (false, false, false, false), t > (i64::MAX / 1000) as i128 || t < (i64::MIN / 1000) as i128) }
                PExpireAt(_, t) => (*t as i128, (false, false, false, false), false),
                _ => unreachable!(),
            };
            if err { if kind != Some("EInvalidExpire") { out.push(f("expire-overflow-accepted", format!("{} with an overflowing time replied {:?}; Redis: ERR invalid expire time", c.name(), r))); } }
            else {
                let (wr, wp) = expire_expect(now, when, flags, pttl_before(k));
                if *r != RespValue::Integer(wr) || pttl_after(k) != wp {
                    out.push(f("expire-semantics", format!("{} {:?} (deadline {} at clock {}, flags nx/xx/gt/lt {:?}) on a key with PTTL {:?}: reply {:?}, PTTL after {:?}; Redis: reply {}, PTTL after {:?}",
                        c.name(), k, when, now, flags, pttl_before(k), r, pttl_after(k), wr, wp))); }
            }
        }
        Del(ks) => {
            // DEL replies the number of keys that existed (a key past its deadline does not, evicted or not)
            let mut seen: Vec<&String> = Vec::new();
            let want = ks.iter().filter(|k| { let first = !seen.contains(k); seen.push(*k); first && find(before, k).is_some() }).count() as i64;
            if *r != RespValue::Integer(want) { out.push(f("del-counts-visible-keys", format!("DEL {:?} replied {:?}; {} of these keys were visible (a key whose deadline has passed is not, even if it has not been evicted yet)", ks, r, want))); }
        }
        Set(k, v, XOpt::KeepTtl, nx, xx, _) => if kind.is_none() && !*xx && find(before, k).is_none() {
            let _ = nx;
            if !matches!(find(after, k), Some((_, Dump::S(b), -1)) if b == v) {
                out.push(f("set-keepttl-on-absent-key", format!("SET {:?} .. KEEPTTL on a key that was not visible must create it without a TTL; after: {:?} (a lazily expired entry's deadline must not be inherited)", k, find(after, k).map(|e| (dump_text(&e.1), e.2))))); }
        }
        Rename(a, b) | RenameNx(a, b) => {
            let moved = match c { Rename(..) => kind.is_none(), _ => *r == RespValue::Integer(1) };
            if moved && a != b {
                let src = find(before, a);
                let ok = src.is_some() && find(after, a).is_none() && find(after, b).map(|e| (&e.1, e.2)) == src.map(|e| (&e.1, e.2));
                if !ok { out.push(f("rename-carries-source-ttl", format!("{} {:?} {:?}: the destination must end up with exactly the source's value and TTL (source before: {:?}; destination before: {:?}; destination after: {:?}; source after: {:?})",
                    c.name(), a, b, src.map(|e| (dump_text(&e.1), e.2)), find(before, b).map(|e| (dump_text(&e.1), e.2)), find(after, b).map(|e| (dump_text(&e.1), e.2)), find(after, a).map(|e| e.2)))); }
            }
        }
        LTrim(k, a, b) => if let Some((_, Dump::L(v), p)) = find(before, k) {
            // Redis: start/stop from the end when negative, start clamped at 0, stop clamped at len-1; empty range => the key is deleted
            let len = v.len() as i128; let (mut s, mut e) = (*a as i128, *b as i128);
            if s < 0 { s += len; } if e < 0 { e += len; } if s < 0 { s = 0; }
            let want: Vec<Vec<u8>> = if s > e || s >= len { vec![] } else { let e = e.min(len - 1); v[s as usize..=e as usize].to_vec() };
            let got = find(after, k);
            let ok = if want.is_empty() { got.is_none() } else { matches!(got, Some((_, Dump::L(w), q)) if *w == want && q == p) };
            if !ok { out.push(f("ltrim-range", format!("LTRIM {:?} {} {} on {} (PTTL {}): Redis keeps {} element(s){}; the implementation left {:?}",
                k, a, b, dump_text(&Dump::L(v.clone())), p, want.len(), if want.is_empty() { " and deletes the key" } else { " and the TTL" }, got.map(|e| (dump_text(&e.1), e.2))))); }
        }
        ZAdd(_, _, nx, xx, gt, lt, _) => if ((*nx && *xx) || (*gt && *lt) || (*nx && (*gt || *lt))) && kind != Some("ESyntax") {
            out.push(f("zadd-contradictory-flags-accepted", format!("ZADD with the flag set nx={} xx={} gt={} lt={} replied {:?}; Redis refuses it (XX and NX / GT, LT, and/or NX options at the same time are not compatible)", nx, xx, gt, lt, r))); }
        RPopLPush(a, b) | LMove(a, b, _, _) => if a == b && kind.is_none() && pttl_before(a) != pttl_after(a) && find(before, a).is_some() {
            out.push(f("lmove-self-ttl", format!("{} of a list onto itself changed its TTL from {:?} to {:?}", c.name(), pttl_before(a), pttl_after(a)))); }
        _ => {}
    }
    out
}

/// replay helper: asks the Coq model where it disagrees with the implementation on one case
/// (Corr/C01.v `explain`: index of the first disagreeing step, the model's reply there, and whether
/// the keyspace snapshot agreed) and prints coqc's answer.
pub fn explain_with_model(dir: &std::path::Path, header: &str, term: &str) {
    let root = std::env::var("VERIF_ROOT").unwrap_or_else(|_| "/verif".to_string());
    let src = format!("{}\nDefinition the_case := {}.\nEval vm_compute in (check the_case).\nEval vm_compute in (explain the_case).\nEval vm_compute in (match explain the_case with Some (i, _, _) => nth_error the_case (N.to_nat i) | None => None end).\n", header, term);
    let p = dir.join("explain.v");
    if std::fs::write(&p, src).is_err() { return; }
    match std::process::Command::new("coqc").args(["-Q", &format!("{}/coq", root), "RV", "-w", "none", "explain.v"]).current_dir(dir).output() {
        Ok(o) => {
            println!("---- reference model on this case (check = does the model reproduce every reply and snapshot; explain = first disagreeing step, model's reply, snapshot agrees?; then the implementation's step):");
            println!("{}{}", String::from_utf8_lossy(&o.stdout), String::from_utf8_lossy(&o.stderr));
        }
        Err(e) => println!("(could not run coqc: {})", e),
    }
    let _ = std::fs::remove_file(dir.join("explain.vo")); let _ = std::fs::remove_file(dir.join("explain.glob")); let _ = std::fs::remove_file(dir.join(".explain.aux"));
}

#!/usr/bin/env python3
"""Translator: regenerates coq/Gen/*.v from /repo's current sources (tables and constants).
Fails loudly (exit 1) when a construct it expects is gone."""
import os, re, sys
ROOT = os.path.dirname(os.path.dirname(os.path.abspath(__file__)))
GEN = os.path.join(ROOT, "coq", "Gen")
os.makedirs(GEN, exist_ok=True)

def write_if_changed(path, text):
    if os.path.exists(path) and open(path).read() == text:
        return
    open(path, "w").write(text)

def main():
    return 0

if __name__ == "__main__":
    sys.exit(main())

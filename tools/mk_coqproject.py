#!/usr/bin/env python3
"""Regenerates coq/_CoqProject from the files present (coqdep orders them)."""
import os, glob
COQ = os.path.join(os.path.dirname(os.path.dirname(os.path.abspath(__file__))), "coq")
hdr = ["-Q . RV",
       "-arg -w -arg -notation-overridden,-redundant-canonical-projection,-deprecated-hint-rewrite-without-locality,-ambiguous-paths,-deprecated-instance-without-locality"]
files = []
for d in ["Lib", "Model", "Proofs", "Gen", "Corr", "Props"]:
    files += sorted(os.path.relpath(p, COQ) for p in glob.glob(os.path.join(COQ, d, "*.v")))
text = "\n".join(hdr + files) + "\n"
p = os.path.join(COQ, "_CoqProject")
if not os.path.exists(p) or open(p).read() != text:
    open(p, "w").write(text)
    print("regenerated _CoqProject (%d files)" % len(files))

#!/bin/bash
# Runs /repo's own test suite (guard OFF, default features) on a clean worktree of /repo's HEAD,
# so that workers' uncommitted edits in /repo do not interfere. Summary on stdout.
set -e
W=/tmp/repo-head
SHA=$(git -C /repo rev-parse HEAD)
if [ ! -d $W ]; then git -C /repo worktree add -f $W $SHA -q; cp -r /repo/target $W/target 2>/dev/null || true; fi
git -C $W checkout -q --detach $SHA
cd $W
RUSTC_WRAPPER= CARGO_NET_OFFLINE=true timeout 7000 cargo test --workspace --no-fail-fast --offline > /tmp/repo_test_full.log 2>&1 || true
echo "HEAD $SHA: passed=$(grep -c '\.\.\. ok' /tmp/repo_test_full.log) failed=$(grep -c '\.\.\. FAILED' /tmp/repo_test_full.log) build_errors=$(grep -c '^error' /tmp/repo_test_full.log)"
grep '\.\.\. FAILED' /tmp/repo_test_full.log | head -20

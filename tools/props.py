"""Per-property configuration of the check driver."""

KERNEL = "Coq 8.16.1 kernel incl. its vm_compute reduction machine (used for witnesses and for evaluating the model on cases); no native_compute"
STDPP = "std++ 1.8.0 (definitions and lemmas, axiom-free)"
GLUE = "the Rust harness /verif/harness (generators, canonical printing of implementation values as Coq terms), the python driver /verif/check (diff, classification)"

PROPS = {
    "C07": {
        "mode": "c07",
        "level": "proof",
        "n": {"quick": 3200, "thorough": 96000},
        "corr_name": "correspondence C07: Model/Crdt.v rv_merge vs ReplicatedValue::merge on obs",
        "trusted_base": [
            KERNEL, STDPP,
            "axioms: none (Print Assumptions of every theorem in Props/C07.v: Closed under the global context)",
            "hand-written model coq/Model/Crdt.v of lattice.rs / crdt_value.rs / replicated_value.rs, tied to the code by the correspondence check (same values, merges compared on the observable projection)",
            GLUE,
            "serde_json serialisation of ReplicatedValue (used to read private fields of the implementation's values)",
        ],
        "assumptions": [
            "commutativity is proved under Compatible (no stamp reused for two different writes; values of different kinds carry different outer stamps) - an invariant of replicas whose clocks tick per write (C08)",
            "associativity is proved for same-kind triples; mixed-kind triples are the known finding C07-mixed-assoc (refuted by theorem C07_merge_assoc_mixed_refuted)",
            "u64 counters are modelled as unbounded N (merge only takes max, so no overflow arises in merge)",
        ],
        "explanation": "Theorems over the Gallina model for all values; the model is validated against the Rust merge on generated triples; the three laws are also evaluated directly on the Rust values to produce concrete failing inputs.",
    },
}

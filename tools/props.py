"""Per-property configuration of the check driver: one JSON file per property in
tools/propcfg/<id>.json (keys: mode, level, n{quick,thorough}, args{tier:{k:v}},
coq_targets[], corr_name, trusted_base[], assumptions[], explanation, timeout{tier:s})."""
import json, os, glob
_D = os.path.join(os.path.dirname(os.path.abspath(__file__)), "propcfg")
PROPS = {}
for _p in sorted(glob.glob(os.path.join(_D, "C*.json"))):
    PROPS[os.path.basename(_p)[:-5]] = json.load(open(_p))

#!/bin/bash
# tools/try_seeded.sh seeded/<name> [check ids...]: applies the seeded change to /repo, runs the
# property's check (and any extra ids), records what it printed, and undoes the change.
set -u
cd "$(dirname "$0")/.."
mkdir -p .cache; exec 9>.cache/seeded.lock; flock 9   # one seeded change in /repo at a time
exec 8>.cache/repo-state.lock; flock 8                # and no ordinary ./check while /repo is changed
export VERIF_SEEDED_RUN=1
D=$1; shift
P=$(python3 -c "import json; print(json.load(open('$D/meta.json'))['property'])")
IDS="$P $@"
if ! git -C /repo apply --check "$PWD/$D/patch.diff" 2>/dev/null; then echo "patch does not apply to /repo's working tree"; exit 2; fi
git -C /repo apply "$PWD/$D/patch.diff"
: > $D/check_output.txt
for i in $IDS; do
  echo "== ./check $i (seeded change $D applied)" >> $D/check_output.txt
  timeout 3000 ./check $i >> $D/check_output.txt 2>&1; echo "exit=$?" >> $D/check_output.txt
  r=$(grep -m1 -o "replay=[^ ]*" $D/check_output.txt | cut -d= -f2)
  [ -n "$r" ] && [ -f "$r" ] && cp "$r" $D/replay-$i.json
done
git -C /repo apply -R "$PWD/$D/patch.diff"
python3 - "$D" <<'PY'
import json,sys,re
d=sys.argv[1]; out=open(d+'/check_output.txt').read()
m=json.load(open(d+'/meta.json'))
v=[l for l in out.split('\n') if l.startswith('VIOLATION') or l.startswith('== ') or l.startswith('exit=') or re.match(r'^C\d\d:',l) or l.startswith('  ')]
caught=[l for l in out.split('\n') if l.startswith('VIOLATION')]
m['caught_by']=('; '.join(caught)) if caught else 'NOT CAUGHT by '+' '.join(re.findall(r'== ./check (\S+)',out))
m['what_i_ran']='tools/try_seeded.sh %s: git -C /repo apply patch.diff; ./check <id>; git -C /repo apply -R patch.diff'%d
json.dump(m,open(d+'/meta.json','w'),indent=1)
print(m['caught_by'])
PY
git -C /repo status --short | head -3

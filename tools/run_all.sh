#!/bin/bash
# Runs the quick check of every claimed property (or the ids given) and prints one line each.
cd "$(dirname "$0")/.."
IDS="$@"
[ -z "$IDS" ] && IDS=$(python3 -c "import json; print(' '.join(c['property_id'] for c in json.load(open('MANIFEST.json'))['checks']))")
for i in $IDS; do
  out=$(timeout 3000 ./check $i --tier ${TIER:-quick} 2>&1); rc=$?
  echo "$i rc=$rc :: $(echo "$out" | grep -E "^$i:|VIOLATION|HYGIENE|HARNESS" | tr '\n' ' ' | cut -c1-300)"
done

#!/usr/bin/env python3
"""Regenerates MANIFEST.json from tools/propcfg/*.json (claimed = has "claimed": true) and
tools/not_applicable.json (reasons for the ids not claimed)."""
import json, os, glob, subprocess
ROOT = os.path.dirname(os.path.dirname(os.path.abspath(__file__)))
props = [json.loads(l) for l in open(os.path.join(ROOT, "properties.jsonl"))]
cfg = {os.path.basename(p)[:-5]: json.load(open(p)) for p in glob.glob(os.path.join(ROOT, "tools", "propcfg", "C*.json"))}
na_path = os.path.join(ROOT, "tools", "not_applicable.json")
na = json.load(open(na_path)) if os.path.exists(na_path) else {}
hooks_path = os.path.join(ROOT, "tools", "hooks.json")
hooks = json.load(open(hooks_path)) if os.path.exists(hooks_path) else {
    "guard": "verif-hooks (cargo feature; no hook commit yet)",
    "enable": "cargo build --features verif-hooks (from /verif/harness, path dependency on /repo)",
    "baseline_off_cmd": "cd /repo && RUSTC_WRAPPER= CARGO_NET_OFFLINE=true cargo test --workspace --no-fail-fast --offline",
    "source_commits": [], "add_only": True}
claimed = sorted(k for k, v in cfg.items() if v.get("claimed"))
m = {"version": 1, "setup_cmd": "./setup.sh", "hooks": hooks,
     "engines": [{"name": "coq-proof+correspondence", "path": "/verif/check", "serves_properties": claimed,
                  "kind_free_text": "Coq 8.16.1 theorems over hand-written Gallina models (coq/), models evaluated by vm_compute on the cases the Rust harness (harness/) ran on the implementation; tables regenerated from /repo by tools/gen_tables.py"}],
     "checks": [], "notes": "See DESIGN.md. Known findings: known_findings.jsonl.", "not_applicable": []}
for p in props:
    i = p["id"]
    if i in claimed:
        c = cfg[i]
        m["checks"].append({
            "property_id": i,
            "quick_cmd": "./check %s --tier quick" % i,
            "thorough_cmd": "./check %s --tier thorough" % i,
            "evidence_file": "/verif/evidence/%s.json" % i,
            "replay_cmd_template": "./check %s --replay {path}" % i,
            "engine": "coq-proof+correspondence",
            "level_claimed": {"category": c["level"], "text": c.get("level_text") or ("Theorems in coq/Props/%s.v proved for all inputs over a Gallina model of the anchored code; the model is tied to /repo on every run by a correspondence check that evaluates it (vm_compute) on the same generated cases the Rust implementation ran, and the property itself is evaluated on the implementation to produce concrete replays." % i), "design_ref": "DESIGN.md §3 " + i},
            "level_note": c.get("level_note") or ("Trusted: " + "; ".join(c["trusted_base"]) + ". Assumed: " + "; ".join(c["assumptions"])),
            "technique": c.get("technique", "machine-checked proof in Coq over an executable model + model/implementation correspondence check"),
        })
    else:
        m["not_applicable"].append({"property_id": i, "reason": na.get(i, "not yet claimed: model and check under construction (see DESIGN.md §6 build order)")})
json.dump(m, open(os.path.join(ROOT, "MANIFEST.json"), "w"), indent=1)
print("claimed:", " ".join(claimed))

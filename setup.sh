#!/bin/bash
# Builds the framework from files on disk only (offline): the Coq development of every
# claimed property (full .vo build) and the Rust harness binaries against /repo.
set -e
cd "$(dirname "$0")"
export CARGO_NET_OFFLINE=true
python3 tools/gen_tables.py
python3 tools/mk_coqproject.py
IDS=$(python3 -c "import json; print(' '.join(c['property_id'] for c in json.load(open('MANIFEST.json'))['checks']))")
TARGETS=""; BINS=""
for i in $IDS; do
  TARGETS="$TARGETS Props/$i.vo Corr/$i.vo"
  BINS="$BINS --bin $(python3 -c "import json; print(json.load(open('tools/propcfg/$i.json'))['mode'])")"
done
( cd coq && coq_makefile -f _CoqProject -o Makefile >/dev/null && timeout 3400 make -j16 $TARGETS >/dev/null )
cp /repo/Cargo.lock harness/Cargo.lock
( cd harness && RUSTFLAGS="-Awarnings" cargo build --offline -q $BINS )
echo setup-ok

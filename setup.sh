#!/bin/bash
# Builds the framework from files on disk only (offline): the whole Coq development
# (full .vo build) and the Rust harness against /repo.
set -e
cd "$(dirname "$0")"
export CARGO_NET_OFFLINE=true
python3 tools/gen_tables.py
( cd coq && coq_makefile -f _CoqProject -o Makefile >/dev/null && timeout 3400 make -j16 >/dev/null )
cp /repo/Cargo.lock harness/Cargo.lock
( cd harness && RUSTFLAGS="-Awarnings" cargo build --offline -q )
echo setup-ok

(* Executable CRC-32 (IEEE 802.3: reflected polynomial 0xEDB88320, initial value and final
   xor 0xFFFFFFFF) - the function computed by the `crc32fast` crate ([crc32fast::hash], and
   [Hasher::update]* / [finalize] on the concatenation of the updates).

   FOR EXECUTION ONLY: the theorems of C10/C14 are proved for an arbitrary checksum function
   (a section variable); this definition instantiates it in the correspondence files, where
   it is compared with the Rust crate on every generated image. *)
From Coq Require Import NArith List String.
From RV Require Import Lib.Hex.
Import ListNotations.
Local Open Scope string_scope.
Local Open Scope N_scope.

Definition CRC_POLY : N := 3988292384.      (* 0xEDB88320 *)
Definition CRC_MASK : N := 4294967295.      (* 0xFFFFFFFF *)

(* reference definition: one bit at a time *)
Definition crc_bit (c : N) : N :=
  if N.odd c then N.lxor (N.shiftr c 1) CRC_POLY else N.shiftr c 1.
Fixpoint crc_bits (k : nat) (c : N) : N :=
  match k with O => c | S k' => crc_bits k' (crc_bit c) end.
Definition crc_step_ref (c b : N) : N := crc_bits 8 (N.lxor c b).
Definition crc32_ref (d : bytes) : N := N.lxor (fold_left crc_step_ref d CRC_MASK) CRC_MASK.

(* fast definition: two table look-ups per byte (table of the 16 nibble remainders) *)
Definition crc_t16 (i : N) : N :=
  match i with
  | 0 => 0             | 1 => 498536548     | 2 => 997073096     | 3 => 651767980
  | 4 => 1994146192    | 5 => 1802195444    | 6 => 1303535960    | 7 => 1342533948
  | 8 => 3988292384    | 9 => 4027552580    | 10 => 3604390888   | 11 => 3412177804
  | 12 => 2607071920   | 13 => 2262029012   | 14 => 2685067896   | 15 => 3183342108
  | _ => 0
  end.
Definition crc_nib (c : N) : N := N.lxor (N.shiftr c 4) (crc_t16 (N.land c 15)).
Definition crc_step (c b : N) : N := crc_nib (crc_nib (N.lxor c b)).
Definition crc32 (d : bytes) : N := N.lxor (fold_left crc_step d CRC_MASK) CRC_MASK.

(* the table is what the reference definition says *)
Lemma crc_t16_ref : forallb (fun i => crc_t16 i =? crc_bits 4 i)
  [0;1;2;3;4;5;6;7;8;9;10;11;12;13;14;15] = true.
Proof. vm_compute. reflexivity. Qed.

(* standard check value, and agreement of the two definitions on a few inputs *)
Example crc32_check_value : crc32 (unhex "313233343536373839") = 3421780262.
Proof. vm_compute. reflexivity. Qed.
Example crc32_ref_check_value : crc32_ref (unhex "313233343536373839") = 3421780262.
Proof. vm_compute. reflexivity. Qed.
Example crc32_empty : crc32 [] = 0.
Proof. vm_compute. reflexivity. Qed.
Example crc32_agree_ref :
  forallb (fun d => crc32 d =? crc32_ref d)
    [[]; [0]; [255]; [1;2;3;4]; unhex "deadbeef00ff10"; unhex "52574c41010000000100000000000000"] = true.
Proof. vm_compute. reflexivity. Qed.

(* SipHash-1-3 with keys (0,0) over N with explicit mod 2^64: bit-exact model of
   std::collections::hash_map::DefaultHasher (Rust), used for shard routing, hash-ring
   positions and anti-entropy digests.  [sip13 bytes] = DefaultHasher fed [bytes]. *)
From Coq Require Import NArith List.
Import ListNotations.
Local Open Scope N_scope.

Definition M64 : N := 18446744073709551616.
Definition w64 (x : N) : N := x mod M64.
Definition rotl (x b : N) : N := w64 (N.lor (N.shiftl x b) (N.shiftr x (64 - b))).

Definition sipround (v : N * N * N * N) : N * N * N * N :=
  let '(v0, v1, v2, v3) := v in
  let v0 := w64 (v0 + v1) in let v1 := rotl v1 13 in let v1 := N.lxor v1 v0 in
  let v0 := rotl v0 32 in
  let v2 := w64 (v2 + v3) in let v3 := rotl v3 16 in let v3 := N.lxor v3 v2 in
  let v0 := w64 (v0 + v3) in let v3 := rotl v3 21 in let v3 := N.lxor v3 v0 in
  let v2 := w64 (v2 + v1) in let v1 := rotl v1 17 in let v1 := N.lxor v1 v2 in
  let v2 := rotl v2 32 in
  (v0, v1, v2, v3).

(* little-endian value of up to 8 bytes *)
Fixpoint le_val (b : list N) : N :=
  match b with [] => 0 | x :: r => x + 256 * le_val r end.

Definition absorb (v : N * N * N * N) (m : N) : N * N * N * N :=
  let '(v0, v1, v2, v3) := v in
  let '(v0, v1, v2, v3) := sipround (v0, v1, v2, N.lxor v3 m) in
  (N.lxor v0 m, v1, v2, v3).

(* consume full 8-byte words; fuel = number of bytes *)
Fixpoint sip_words (fuel : nat) (b : list N) (v : N * N * N * N) : (N * N * N * N) * list N :=
  match fuel with
  | O => (v, b)
  | S f =>
    match b with
    | b0 :: b1 :: b2 :: b3 :: b4 :: b5 :: b6 :: b7 :: r =>
        sip_words f r (absorb v (le_val [b0; b1; b2; b3; b4; b5; b6; b7]))
    | _ => (v, b)
    end
  end.

Definition sip13 (b : list N) : N :=
  let v := (8317987319222330741, 7237128888997146477, 7816392313619706465, 8387220255154660723) in
  let '(v, tail) := sip_words (length b) b v in
  let last := w64 (N.shiftl (N.of_nat (length b) mod 256) 56 + le_val tail) in
  let '(v0, v1, v2, v3) := absorb v last in
  let '(v0, v1, v2, v3) := sipround (sipround (sipround (v0, v1, N.lxor v2 255, v3))) in
  N.lxor (N.lxor v0 v1) (N.lxor v2 v3).

(* byte streams Rust's Hash impls feed to the hasher *)
Fixpoint le_bytes (n : nat) (x : N) : list N :=
  match n with O => [] | S k => (x mod 256) :: le_bytes k (x / 256) end.
Definition le64 (x : N) : list N := le_bytes 8 x.
Definition le32 (x : N) : list N := le_bytes 4 x.
Definition hash_str (s : list N) : N := sip13 (s ++ [255]).                    (* str::hash *)
Definition hash_slice (s : list N) : N := sip13 (le64 (N.of_nat (length s)) ++ s). (* <[u8]>::hash *)

(* "foo".hash() and b"foo"[..].hash() as computed by rustc 's DefaultHasher *)
Example sip_foo_str : hash_str [102; 111; 111] = 4506850079084802999.
Proof. vm_compute. reflexivity. Qed.
Example sip_foo_slice : hash_slice [102; 111; 111] = 8088165896119295332.
Proof. vm_compute. reflexivity. Qed.

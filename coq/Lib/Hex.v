(* Hex decoding of byte strings: the harness writes every byte string as a hex
   literal ("68656c6c6f"), the model works on [list N] (each element < 256). *)
From Coq Require Import NArith List String Ascii Bool.
Import ListNotations.
Local Open Scope bool_scope.
Local Open Scope N_scope.

Notation bytes := (list N) (only parsing).

Definition hexval (c : ascii) : N :=
  let n := N_of_ascii c in
  if (48 <=? n) && (n <=? 57) then n - 48
  else if (97 <=? n) && (n <=? 102) then n - 87
  else if (65 <=? n) && (n <=? 70) then n - 55
  else 0.

Fixpoint unhex (s : string) : bytes :=
  match s with
  | String a (String b r) => (16 * hexval a + hexval b) :: unhex r
  | _ => []
  end.

Definition bytes_ok (b : bytes) : bool := forallb (fun x => x <? 256) b.

Fixpoint bytes_eqb (a b : bytes) : bool :=
  match a, b with
  | [], [] => true
  | x :: a', y :: b' => (x =? y) && bytes_eqb a' b'
  | _, _ => false
  end.

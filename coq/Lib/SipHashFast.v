(* The functions of Lib/SipHash.v with every `mod 2^k` / `/ 2^k` replaced by the
   equivalent mask / shift (linear instead of quadratic in the bit length under
   vm_compute: about 12x faster), and the proofs that they are the same functions.
   [sip13f b = sip13 b] and [le64f x = le64 x] for all arguments. *)
From Coq Require Import NArith List Lia.
From RV Require Import Lib.SipHash.
Import ListNotations.
Local Open Scope N_scope.

Definition mask64 : N := 18446744073709551615.
Definition w64f (x : N) : N := N.land x mask64.
Definition rotlf (x b : N) : N := w64f (N.lor (N.shiftl x b) (N.shiftr x (64 - b))).

Definition sipround_f (v : N * N * N * N) : N * N * N * N :=
  let '(v0, v1, v2, v3) := v in
  let v0 := w64f (v0 + v1) in let v1 := rotlf v1 13 in let v1 := N.lxor v1 v0 in
  let v0 := rotlf v0 32 in
  let v2 := w64f (v2 + v3) in let v3 := rotlf v3 16 in let v3 := N.lxor v3 v2 in
  let v0 := w64f (v0 + v3) in let v3 := rotlf v3 21 in let v3 := N.lxor v3 v0 in
  let v2 := w64f (v2 + v1) in let v1 := rotlf v1 17 in let v1 := N.lxor v1 v2 in
  let v2 := rotlf v2 32 in
  (v0, v1, v2, v3).

Definition absorb_f (v : N * N * N * N) (m : N) : N * N * N * N :=
  let '(v0, v1, v2, v3) := v in
  let '(v0, v1, v2, v3) := sipround_f (v0, v1, v2, N.lxor v3 m) in
  (N.lxor v0 m, v1, v2, v3).

Fixpoint sip_words_f (fuel : nat) (b : list N) (v : N * N * N * N) : (N * N * N * N) * list N :=
  match fuel with
  | O => (v, b)
  | S f =>
    match b with
    | b0 :: b1 :: b2 :: b3 :: b4 :: b5 :: b6 :: b7 :: r =>
        sip_words_f f r (absorb_f v (le_val [b0; b1; b2; b3; b4; b5; b6; b7]))
    | _ => (v, b)
    end
  end.

Definition sip13f (b : list N) : N :=
  let v := (8317987319222330741, 7237128888997146477, 7816392313619706465, 8387220255154660723) in
  let '(v, tail) := sip_words_f (length b) b v in
  let last := w64f (N.shiftl (N.land (N.of_nat (length b)) 255) 56 + le_val tail) in
  let '(v0, v1, v2, v3) := absorb_f v last in
  let '(v0, v1, v2, v3) := sipround_f (sipround_f (sipround_f (v0, v1, N.lxor v2 255, v3))) in
  N.lxor (N.lxor v0 v1) (N.lxor v2 v3).

(* u64::to_le_bytes *)
Fixpoint le_bytes_f (n : nat) (x : N) : list N :=
  match n with O => [] | S k => N.land x 255 :: le_bytes_f k (N.shiftr x 8) end.
Definition le64f (x : N) : list N := le_bytes_f 8 x.

(* ---------- equalities ---------- *)
Lemma w64f_eq x : w64f x = w64 x.
Proof. unfold w64f, w64. change mask64 with (N.ones 64). rewrite N.land_ones. reflexivity. Qed.

Lemma rotlf_eq x b : rotlf x b = rotl x b.
Proof. unfold rotlf, rotl. apply w64f_eq. Qed.

Lemma sipround_f_eq v : sipround_f v = sipround v.
Proof.
  destruct v as [[[v0 v1] v2] v3]. unfold sipround_f, sipround.
  rewrite !w64f_eq, !rotlf_eq. reflexivity.
Qed.

Lemma absorb_f_eq v m : absorb_f v m = absorb v m.
Proof.
  destruct v as [[[v0 v1] v2] v3]. unfold absorb_f, absorb. rewrite sipround_f_eq. reflexivity.
Qed.

Lemma sip_words_f_eq fuel : forall b v, sip_words_f fuel b v = sip_words fuel b v.
Proof.
  induction fuel as [|f IH]; intros b v; [reflexivity|].
  cbn [sip_words_f sip_words].
  destruct b as [|b0 [|b1 [|b2 [|b3 [|b4 [|b5 [|b6 [|b7 r]]]]]]]]; try reflexivity.
  rewrite absorb_f_eq. apply IH.
Qed.

Lemma sip13f_eq b : sip13f b = sip13 b.
Proof.
  unfold sip13f, sip13. rewrite sip_words_f_eq.
  destruct (sip_words (length b) b _) as [v tail].
  rewrite w64f_eq. change 255 with (N.ones 8) at 1. rewrite N.land_ones.
  change (2 ^ 8) with 256. rewrite absorb_f_eq.
  destruct (absorb v _) as [[[v0 v1] v2] v3].
  rewrite !sipround_f_eq. reflexivity.
Qed.

Lemma le_bytes_f_eq n : forall x, le_bytes_f n x = le_bytes n x.
Proof.
  induction n as [|k IH]; intros x; [reflexivity|].
  cbn [le_bytes_f le_bytes]. change 255 with (N.ones 8). rewrite N.land_ones, N.shiftr_div_pow2.
  change (2 ^ 8) with 256. rewrite IH. reflexivity.
Qed.

Lemma le64f_eq x : le64f x = le64 x.
Proof. apply le_bytes_f_eq. Qed.

Example sip13f_foo : sip13f [102; 111; 111; 255] = 4506850079084802999.
Proof. vm_compute. reflexivity. Qed.

(* Byte-level helpers shared by the codec models (C10, C14):
   - [res]: outcome of a Rust function that may return an error or panic;
   - little-endian encode/decode of fixed-width unsigned integers over [list N]
     (Rust's [to_le_bytes] / [from_le_bytes]) with round-trip lemmas;
   - [lenN]/[takeN]/[dropN]/[sliceN]: lengths and slices indexed by [N], so that a length
     field read from untrusted bytes (up to 2^32) is compared in binary and only converted
     to [nat] after the bounds check has passed. *)
From Coq Require Import Arith NArith List Lia Bool.
From RV Require Import Lib.Hex.
Import ListNotations.
Local Open Scope N_scope.

(* ---------- outcomes ---------- *)
Inductive res (E A : Type) : Type :=
| Ok (a : A)
| Err (e : E)
| Panic.
Arguments Ok {E A} a.
Arguments Err {E A} e.
Arguments Panic {E A}.

Definition rbind {E A B} (r : res E A) (f : A -> res E B) : res E B :=
  match r with Ok a => f a | Err e => Err e | Panic => Panic end.
Notation "'do' x <- r ; k" := (rbind r (fun x => k))
  (at level 200, x pattern, r at level 100, k at level 200, right associativity).

(* An unchecked Rust index/slice: [None] becomes a panic. *)
Definition or_panic {E A} (o : option A) : res E A :=
  match o with Some a => Ok a | None => Panic end.

Definition is_ok {E A} (r : res E A) : bool := match r with Ok _ => true | _ => false end.
Definition is_err {E A} (r : res E A) : bool := match r with Err _ => true | _ => false end.

(* ---------- little-endian integers ---------- *)
Fixpoint le_enc (w : nat) (n : N) : list N :=
  match w with
  | O => []
  | S w' => n mod 256 :: le_enc w' (n / 256)
  end.

Fixpoint le_dec (b : list N) : N :=
  match b with
  | [] => 0
  | x :: r => x + 256 * le_dec r
  end.

Notation u16le := (le_enc 2) (only parsing).
Notation u32le := (le_enc 4) (only parsing).
Notation u64le := (le_enc 8) (only parsing).

Definition byte_lt (x : N) : Prop := x < 256.
Notation bytes_wf := (Forall byte_lt) (only parsing).

Lemma le_enc_length : forall w n, length (le_enc w n) = w.
Proof. induction w; intros; cbn [le_enc length]; auto. Qed.

Lemma le_enc_wf : forall w n, Forall byte_lt (le_enc w n).
Proof.
  induction w; intros; cbn [le_enc]; constructor; auto.
  unfold byte_lt. apply N.mod_lt. lia.
Qed.

Lemma le_dec_enc_mod : forall w n, le_dec (le_enc w n) = n mod 256 ^ N.of_nat w.
Proof.
  induction w; intros n.
  - cbn. now rewrite N.mod_1_r.
  - cbn [le_enc le_dec]. rewrite IHw.
    rewrite Nat2N.inj_succ, N.pow_succ_r'.
    rewrite N.mod_mul_r; try lia.
Qed.

Lemma le_dec_enc : forall w n, n < 256 ^ N.of_nat w -> le_dec (le_enc w n) = n.
Proof. intros. rewrite le_dec_enc_mod. now apply N.mod_small. Qed.

Lemma le_enc_dec : forall b, Forall byte_lt b -> le_enc (length b) (le_dec b) = b.
Proof.
  induction 1 as [|x r Hx _ IH]; cbn [length le_enc le_dec]; auto.
  unfold byte_lt in Hx.
  assert (E1 : (x + 256 * le_dec r) mod 256 = x).
  { rewrite N.mul_comm, N.mod_add by lia. now apply N.mod_small. }
  assert (E2 : (x + 256 * le_dec r) / 256 = le_dec r).
  { rewrite N.mul_comm, N.div_add by lia. rewrite N.div_small by lia. lia. }
  now rewrite E1, E2, IH.
Qed.

Lemma le_dec_lt : forall b, Forall byte_lt b -> le_dec b < 256 ^ N.of_nat (length b).
Proof.
  induction 1 as [|x r Hx _ IH]; cbn [length le_dec].
  - cbn. lia.
  - unfold byte_lt in Hx. rewrite Nat2N.inj_succ, N.pow_succ_r'. lia.
Qed.

Lemma le_enc_inj : forall w n m,
  n < 256 ^ N.of_nat w -> m < 256 ^ N.of_nat w -> le_enc w n = le_enc w m -> n = m.
Proof.
  intros w n m Hn Hm E. rewrite <- (le_dec_enc w n Hn), <- (le_dec_enc w m Hm). now rewrite E.
Qed.

Lemma le_enc_mod : forall w n, le_enc w (n mod 256 ^ N.of_nat w) = le_enc w n.
Proof.
  intros. rewrite <- le_dec_enc_mod.
  rewrite <- (le_enc_length w n) at 1. apply le_enc_dec, le_enc_wf.
Qed.

Lemma pow256_4 : 256 ^ N.of_nat 4 = 4294967296. Proof. reflexivity. Qed.
Lemma pow256_8 : 256 ^ N.of_nat 8 = 18446744073709551616. Proof. reflexivity. Qed.

Lemma le_dec_enc_u32 : forall n, n < 4294967296 -> le_dec (le_enc 4 n) = n.
Proof. intros. apply le_dec_enc. now rewrite pow256_4. Qed.
Lemma le_dec_enc_u64 : forall n, n < 18446744073709551616 -> le_dec (le_enc 8 n) = n.
Proof. intros. apply le_dec_enc. now rewrite pow256_8. Qed.

(* ---------- lengths and slices indexed by N ---------- *)
Definition lenN {A} (l : list A) : N := N.of_nat (length l).
Definition takeN {A} (n : N) (l : list A) : list A := firstn (N.to_nat n) l.
Definition dropN {A} (n : N) (l : list A) : list A := skipn (N.to_nat n) l.

(* Rust's [l[a..b]]: panics (here: [None]) when a > b or b > len. *)
Definition sliceN {A} (a b : N) (l : list A) : option (list A) :=
  if (a <=? b) && (b <=? lenN l) then Some (takeN (b - a) (dropN a l)) else None.
(* Rust's [l[i]]. *)
Definition indexN (i : N) (l : list N) : option N :=
  if i <? lenN l then Some (nth (N.to_nat i) l 0) else None.

Lemma lenN_nil : forall A, lenN (@nil A) = 0. Proof. reflexivity. Qed.
Lemma lenN_cons : forall A (x : A) l, lenN (x :: l) = 1 + lenN l.
Proof. intros. unfold lenN. cbn [length]. lia. Qed.
Lemma lenN_app : forall A (a b : list A), lenN (a ++ b) = lenN a + lenN b.
Proof. intros. unfold lenN. rewrite app_length. lia. Qed.
Lemma lenN_le_enc : forall w n, lenN (le_enc w n) = N.of_nat w.
Proof. intros. unfold lenN. now rewrite le_enc_length. Qed.
Lemma lenN_repeat : forall A (x : A) n, lenN (repeat x n) = N.of_nat n.
Proof. intros. unfold lenN. now rewrite repeat_length. Qed.
Lemma lenN_0 : forall A (l : list A), lenN l = 0 -> l = [].
Proof. intros A [|x l]; auto. unfold lenN. cbn [length]. lia. Qed.

Lemma takeN_app_exact : forall A (a b : list A), takeN (lenN a) (a ++ b) = a.
Proof.
  intros. unfold takeN, lenN. rewrite Nat2N.id.
  rewrite firstn_app, Nat.sub_diag, firstn_all. cbn. apply app_nil_r.
Qed.
Lemma dropN_app_exact : forall A (a b : list A), dropN (lenN a) (a ++ b) = b.
Proof.
  intros. unfold dropN, lenN. rewrite Nat2N.id.
  rewrite skipn_app, Nat.sub_diag, skipn_all. reflexivity.
Qed.
Lemma takeN_app_exact' : forall A n (a b : list A), n = lenN a -> takeN n (a ++ b) = a.
Proof. intros; subst; apply takeN_app_exact. Qed.
Lemma dropN_app_exact' : forall A n (a b : list A), n = lenN a -> dropN n (a ++ b) = b.
Proof. intros; subst; apply dropN_app_exact. Qed.
Lemma takeN_all : forall A n (l : list A), lenN l <= n -> takeN n l = l.
Proof. intros. unfold takeN, lenN in *. apply firstn_all2. lia. Qed.
Lemma dropN_all : forall A n (l : list A), lenN l <= n -> dropN n l = [].
Proof. intros. unfold dropN, lenN in *. apply skipn_all2. lia. Qed.
Lemma takeN_0 : forall A (l : list A), takeN 0 l = []. Proof. reflexivity. Qed.
Lemma dropN_0 : forall A (l : list A), dropN 0 l = l. Proof. reflexivity. Qed.
Lemma lenN_takeN : forall A n (l : list A), lenN (takeN n l) = N.min n (lenN l).
Proof. intros. unfold lenN, takeN. rewrite firstn_length. lia. Qed.
Lemma lenN_dropN : forall A n (l : list A), lenN (dropN n l) = lenN l - n.
Proof. intros. unfold lenN, dropN. rewrite skipn_length. lia. Qed.
Lemma takeN_dropN : forall A n (l : list A), takeN n l ++ dropN n l = l.
Proof. intros. apply firstn_skipn. Qed.
Lemma takeN_app_le : forall A n (a b : list A), n <= lenN a -> takeN n (a ++ b) = takeN n a.
Proof.
  intros. unfold takeN, lenN in *. rewrite firstn_app.
  replace (N.to_nat n - length a)%nat with 0%nat by lia. cbn. apply app_nil_r.
Qed.
Lemma dropN_app_le : forall A n (a b : list A), n <= lenN a -> dropN n (a ++ b) = dropN n a ++ b.
Proof.
  intros. unfold dropN, lenN in *. rewrite skipn_app.
  replace (N.to_nat n - length a)%nat with 0%nat by lia. reflexivity.
Qed.
Lemma takeN_app_ge : forall A n (a b : list A), lenN a <= n -> takeN n (a ++ b) = a ++ takeN (n - lenN a) b.
Proof.
  intros. unfold takeN, lenN in *. rewrite firstn_app, firstn_all2 by lia.
  f_equal. f_equal. lia.
Qed.
Lemma dropN_app_ge : forall A n (a b : list A), lenN a <= n -> dropN n (a ++ b) = dropN (n - lenN a) b.
Proof.
  intros. unfold dropN, lenN in *. rewrite skipn_app, skipn_all2 by lia.
  cbn. f_equal. lia.
Qed.
Lemma skipn_skipn' : forall A (m n : nat) (l : list A), skipn n (skipn m l) = skipn (m + n) l.
Proof.
  induction m; intros; cbn [skipn plus]; auto.
  destruct l; [now rewrite skipn_nil|]. apply IHm.
Qed.
Lemma dropN_dropN : forall A n m (l : list A), dropN n (dropN m l) = dropN (m + n) l.
Proof.
  intros. unfold dropN. rewrite skipn_skipn'. f_equal. lia.
Qed.
Lemma takeN_takeN : forall A n m (l : list A), takeN n (takeN m l) = takeN (N.min n m) l.
Proof.
  intros. unfold takeN. rewrite firstn_firstn. f_equal. lia.
Qed.
Lemma firstn_as_takeN : forall A k (l : list A), firstn k l = takeN (N.of_nat k) l.
Proof. intros. unfold takeN. now rewrite Nat2N.id. Qed.

Lemma sliceN_app_mid : forall A (a b c : list A) x y,
  x = lenN a -> y = lenN a + lenN b -> sliceN x y (a ++ b ++ c) = Some b.
Proof.
  intros A a b c x y -> ->. unfold sliceN.
  rewrite !lenN_app.
  replace (lenN a <=? lenN a + lenN b) with true by (symmetry; apply N.leb_le; lia).
  replace (lenN a + lenN b <=? lenN a + (lenN b + lenN c)) with true by (symmetry; apply N.leb_le; lia).
  cbn [andb]. rewrite dropN_app_exact.
  replace (lenN a + lenN b - lenN a) with (lenN b) by lia.
  now rewrite takeN_app_exact.
Qed.
Lemma sliceN_app_head : forall A (b c : list A) y,
  y = lenN b -> sliceN 0 y (b ++ c) = Some b.
Proof. intros. apply (sliceN_app_mid A [] b c); subst; cbn; auto. Qed.
Lemma sliceN_Some : forall A a b (l r : list A),
  sliceN a b l = Some r -> a <= b /\ b <= lenN l /\ r = takeN (b - a) (dropN a l) /\ lenN r = b - a.
Proof.
  unfold sliceN. intros A a b l r H.
  destruct (a <=? b) eqn:E1; [|discriminate]. destruct (b <=? lenN l) eqn:E2; [|discriminate].
  apply N.leb_le in E1, E2. cbn in H. inversion H; subst.
  repeat split; auto. rewrite lenN_takeN, lenN_dropN. lia.
Qed.
Lemma sliceN_ok : forall A a b (l : list A), a <= b -> b <= lenN l ->
  sliceN a b l = Some (takeN (b - a) (dropN a l)).
Proof.
  intros. unfold sliceN.
  replace (a <=? b) with true by (symmetry; now apply N.leb_le).
  replace (b <=? lenN l) with true by (symmetry; now apply N.leb_le). reflexivity.
Qed.
(* a slice that lies inside the first part of an append does not see the rest *)
Lemma sliceN_app_l : forall A a b (l r : list A), b <= lenN l -> a <= b ->
  sliceN a b (l ++ r) = sliceN a b l.
Proof.
  intros. rewrite !sliceN_ok; auto; try (rewrite lenN_app; lia).
  f_equal. rewrite dropN_app_le by lia. apply takeN_app_le. rewrite lenN_dropN. lia.
Qed.
Lemma indexN_app_l : forall i (l r : list N), i < lenN l -> indexN i (l ++ r) = indexN i l.
Proof.
  intros. unfold indexN. rewrite lenN_app.
  replace (i <? lenN l + lenN r) with true by (symmetry; apply N.ltb_lt; lia).
  replace (i <? lenN l) with true by (symmetry; now apply N.ltb_lt).
  f_equal. apply app_nth1. unfold lenN in *. lia.
Qed.

(* bytes_eqb from Lib/Hex.v decides equality *)
Lemma bytes_eqb_eq : forall a b, bytes_eqb a b = true <-> a = b.
Proof.
  induction a as [|x a IH]; destruct b as [|y b]; cbn; split; intros H; try easy.
  - apply andb_true_iff in H as [H1 H2]. apply N.eqb_eq in H1. apply IH in H2. congruence.
  - inversion H; subst. rewrite N.eqb_refl. cbn. now apply IH.
Qed.
Lemma bytes_eqb_refl : forall a, bytes_eqb a a = true.
Proof. intros. now apply bytes_eqb_eq. Qed.
Lemma bytes_eqb_neq : forall a b, bytes_eqb a b = false <-> a <> b.
Proof.
  intros. split; intros H.
  - intros E. apply bytes_eqb_eq in E. congruence.
  - destruct (bytes_eqb a b) eqn:E; auto. apply bytes_eqb_eq in E. contradiction.
Qed.

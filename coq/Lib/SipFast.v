(* A faster evaluation of Lib/SipHash.v's [sip13] for vm_compute: the reduction modulo 2^64
   is done with [N.land _ (2^64-1)] instead of [N.modulo] (binary long division, ~100 us per
   call in the VM).  Nothing else changes; [sip13f_eq] proves the two functions equal, so
   every use of the fast version is a use of the reference model. *)
From Coq Require Import NArith List.
From RV Require Import Lib.SipHash.
Import ListNotations.
Local Open Scope N_scope.

Definition MASK64 : N := 18446744073709551615.
Definition w64f (x : N) : N := N.land x MASK64.
Definition rotlf (x b : N) : N := w64f (N.lor (N.shiftl x b) (N.shiftr x (64 - b))).

Definition siproundf (v : N * N * N * N) : N * N * N * N :=
  let '(v0, v1, v2, v3) := v in
  let v0 := w64f (v0 + v1) in let v1 := rotlf v1 13 in let v1 := N.lxor v1 v0 in
  let v0 := rotlf v0 32 in
  let v2 := w64f (v2 + v3) in let v3 := rotlf v3 16 in let v3 := N.lxor v3 v2 in
  let v0 := w64f (v0 + v3) in let v3 := rotlf v3 21 in let v3 := N.lxor v3 v0 in
  let v2 := w64f (v2 + v1) in let v1 := rotlf v1 17 in let v1 := N.lxor v1 v2 in
  let v2 := rotlf v2 32 in
  (v0, v1, v2, v3).

Definition absorbf (v : N * N * N * N) (m : N) : N * N * N * N :=
  let '(v0, v1, v2, v3) := v in
  let '(v0, v1, v2, v3) := siproundf (v0, v1, v2, N.lxor v3 m) in
  (N.lxor v0 m, v1, v2, v3).

Fixpoint sip_wordsf (fuel : nat) (b : list N) (v : N * N * N * N) : (N * N * N * N) * list N :=
  match fuel with
  | O => (v, b)
  | S f =>
    match b with
    | b0 :: b1 :: b2 :: b3 :: b4 :: b5 :: b6 :: b7 :: r =>
        sip_wordsf f r (absorbf v (le_val [b0; b1; b2; b3; b4; b5; b6; b7]))
    | _ => (v, b)
    end
  end.

Definition sip13f (b : list N) : N :=
  let v := (8317987319222330741, 7237128888997146477, 7816392313619706465, 8387220255154660723) in
  let '(v, tail) := sip_wordsf (length b) b v in
  let last := w64f (N.shiftl (N.of_nat (length b) mod 256) 56 + le_val tail) in
  let '(v0, v1, v2, v3) := absorbf v last in
  let '(v0, v1, v2, v3) := siproundf (siproundf (siproundf (v0, v1, N.lxor v2 255, v3))) in
  N.lxor (N.lxor v0 v1) (N.lxor v2 v3).

Lemma w64f_eq : forall x, w64f x = w64 x.
Proof.
  intro x. unfold w64f, w64.
  change MASK64 with (N.ones 64). change M64 with (2 ^ 64).
  apply N.land_ones.
Qed.

Lemma rotlf_eq : forall x b, rotlf x b = rotl x b.
Proof. intros. unfold rotlf, rotl. apply w64f_eq. Qed.

Lemma siproundf_eq : forall v, siproundf v = sipround v.
Proof.
  intros [[[v0 v1] v2] v3]. unfold siproundf, sipround.
  rewrite ?w64f_eq, ?rotlf_eq. reflexivity.
Qed.

Lemma absorbf_eq : forall v m, absorbf v m = absorb v m.
Proof.
  intros [[[v0 v1] v2] v3] m. unfold absorbf, absorb. rewrite siproundf_eq. reflexivity.
Qed.

Lemma sip_wordsf_eq : forall fuel b v, sip_wordsf fuel b v = sip_words fuel b v.
Proof.
  induction fuel as [|f IH]; intros b v; [reflexivity|].
  cbn [sip_wordsf sip_words].
  do 8 (destruct b as [|? b]; [reflexivity|]).
  rewrite absorbf_eq. apply IH.
Qed.

Theorem sip13f_eq : forall b, sip13f b = sip13 b.
Proof.
  intro b. unfold sip13f, sip13. rewrite sip_wordsf_eq.
  destruct (sip_words (length b) b _) as [v tail].
  rewrite w64f_eq, absorbf_eq.
  destruct (absorb v _) as [[[v0 v1] v2] v3].
  rewrite !siproundf_eq. reflexivity.
Qed.

(* SipHash-1-3 (keys 0,0) on Coq's primitive 63-bit integers: a 64-bit word is a pair
   (hi, lo) of 32-bit halves.  Same function as Lib/SipHash.v [sip13] (not proved equal:
   compared on test vectors below, and numerically against Rust's DefaultHasher by every
   correspondence run that uses it); about 30x faster under vm_compute.  Used only
   as the executable hash of correspondence checks; no theorem depends on it. *)
From Coq Require Import NArith ZArith List Uint63.
From RV Require Import Lib.SipHash Lib.SipHashFast.
Import ListNotations.

Module SipInt.
Local Open Scope uint63_scope.

Definition m32 : int := 4294967295.
Definition wadd (a b : int * int) : int * int :=
  let l := snd a + snd b in
  ((fst a + fst b + (l >> 32)) land m32, l land m32).
Definition wxor (a b : int * int) : int * int := (fst a lxor fst b, snd a lxor snd b).
(* rotate left by 0 < b < 32 *)
Definition wrotl (a : int * int) (b : int) : int * int :=
  let '(h, l) := a in
  (((h << b) lor (l >> (32 - b))) land m32, ((l << b) lor (h >> (32 - b))) land m32).
Definition wrot32 (a : int * int) : int * int := (snd a, fst a).

Notation word := (int * int)%type (only parsing).

Definition sipround (v : word * word * word * word) : word * word * word * word :=
  let '(v0, v1, v2, v3) := v in
  let v0 := wadd v0 v1 in let v1 := wrotl v1 13 in let v1 := wxor v1 v0 in
  let v0 := wrot32 v0 in
  let v2 := wadd v2 v3 in let v3 := wrotl v3 16 in let v3 := wxor v3 v2 in
  let v0 := wadd v0 v3 in let v3 := wrotl v3 21 in let v3 := wxor v3 v0 in
  let v2 := wadd v2 v1 in let v1 := wrotl v1 17 in let v1 := wxor v1 v2 in
  let v2 := wrot32 v2 in
  (v0, v1, v2, v3).

Definition absorb (v : word * word * word * word) (m : word) :=
  let '(v0, v1, v2, v3) := v in
  let '(v0, v1, v2, v3) := sipround (v0, v1, v2, wxor v3 m) in
  (wxor v0 m, v1, v2, v3).

Definition byte (b : N) : int := of_Z (Z.of_N b).
(* little-endian value of up to 4 bytes *)
Fixpoint le4 (n : nat) (b : list N) : int * list N :=
  match n, b with
  | S k, x :: r => let '(v, rest) := le4 k r in (byte x + (v << 8), rest)
  | _, _ => (0, b)
  end.
Definition le_word (b : list N) : word :=
  let '(l, r) := le4 4 b in let '(h, _) := le4 4 r in (h, l).

Fixpoint words (fuel : nat) (b : list N) (v : word * word * word * word) :=
  match fuel with
  | O => (v, b)
  | S f =>
    match b with
    | b0 :: b1 :: b2 :: b3 :: b4 :: b5 :: b6 :: b7 :: r =>
        words f r (absorb v (le_word [b0; b1; b2; b3; b4; b5; b6; b7]))
    | _ => (v, b)
    end
  end.

Definition w_of_N (x : N) : word :=
  (of_Z (Z.of_N (N.shiftr x 32)), of_Z (Z.of_N (N.land x 4294967295))).
Definition N_of_w (w : word) : N :=
  (Z.to_N (to_Z (fst w)) * 4294967296 + Z.to_N (to_Z (snd w)))%N.

Definition init : word * word * word * word :=
  (w_of_N 8317987319222330741, w_of_N 7237128888997146477,
   w_of_N 7816392313619706465, w_of_N 8387220255154660723).

Definition sip13i (b : list N) : N :=
  let '(v, tail) := words (length b) b init in
  let '(th, tl) := le_word tail in
  let last := (th lor ((of_Z (Z.of_nat (length b)) land 255) << 24), tl) in
  let '(v0, v1, v2, v3) := absorb v last in
  let '(v0, v1, v2, v3) := sipround (sipround (sipround (v0, v1, wxor v2 (0, 255), v3))) in
  N_of_w (wxor (wxor v0 v1) (wxor v2 v3)).
End SipInt.

Definition sip13i := SipInt.sip13i.

(* test vectors: every length 0..40, bytes covering 0..255 *)
Definition sip_test_inputs : list (list N) :=
  map (fun n => map (fun i => N.of_nat ((i * 37 + n * 11) mod 256)) (seq 0 n)) (seq 0 41).
Example sip13i_agrees_on_vectors :
  map sip13i sip_test_inputs = map sip13f sip_test_inputs.
Proof. vm_compute. reflexivity. Qed.

(* Lemmas about Model/Digest.v: the bucket order is a total order, so the digest is a
   function of the SET of entries; what the digest can and cannot distinguish; one sync
   round merges the divergent buckets; starvation under a short limit. *)
From stdpp Require Import gmap sorting.
From Coq Require Import NArith Lia.
From RV Require Import Lib.Hex Lib.SipHash Lib.SipHashFast Model.Crdt Model.Digest Proofs.CrdtProofs.
Local Open Scope N_scope.

(* ---------- the order used by from_digests ---------- *)
Lemma kd_le_spec a b :
  kd_le a b ↔
  kd_key a < kd_key b ∨
  (kd_key a = kd_key b ∧ (kd_val a < kd_val b ∨ (kd_val a = kd_val b ∧ kd_ts a ≤ kd_ts b))).
Proof.
  unfold kd_le, kd_leb. rewrite Is_true_true, orb_true_iff, andb_true_iff, orb_true_iff,
    andb_true_iff, !N.ltb_lt, !N.eqb_eq, N.leb_le. tauto.
Qed.

Global Instance kd_le_total : Total kd_le.
Proof. intros a b. rewrite !kd_le_spec. lia. Qed.
Global Instance kd_le_trans : Transitive kd_le.
Proof. intros a b c. rewrite !kd_le_spec. lia. Qed.
Global Instance kd_le_antisym : AntiSymm (=) kd_le.
Proof.
  intros [k1 v1 t1] [k2 v2 t2]. rewrite !kd_le_spec. simpl. intros H1 H2.
  assert (k1 = k2) by lia. assert (v1 = v2) by lia. assert (t1 = t2) by lia. congruence.
Qed.

Lemma bucket_order_Permutation l : bucket_order l ≡ₚ l.
Proof. apply merge_sort_Permutation. Qed.

(* sorting a permutation gives the same list *)
Lemma bucket_order_perm l1 l2 : l1 ≡ₚ l2 → bucket_order l1 = bucket_order l2.
Proof.
  intros Hp. apply (Sorted_unique kd_le).
  - apply Sorted_merge_sort; apply _.
  - apply Sorted_merge_sort; apply _.
  - unfold bucket_order. by rewrite !merge_sort_Permutation.
Qed.

(* ---------- the digest is a function of the multiset of entries ---------- *)
Section perm.
  Variable h : list N → N.

  Lemma from_digests_perm l1 l2 : l1 ≡ₚ l2 → from_digests h l1 = from_digests h l2.
  Proof.
    intros Hp. destruct l1 as [|a l1], l2 as [|b l2].
    - reflexivity.
    - apply Permutation_nil_l in Hp. discriminate.
    - apply Permutation_nil_r in Hp. discriminate.
    - unfold from_digests. rewrite (bucket_order_perm _ _ Hp), (Permutation_length Hp). reflexivity.
  Qed.

  Lemma digests_perm l1 l2 : l1 ≡ₚ l2 → digests h l1 ≡ₚ digests h l2.
  Proof. apply Permutation_map. Qed.

  Lemma bucket_digests_perm depth d1 d2 i :
    d1 ≡ₚ d2 → bucket_digests depth d1 i ≡ₚ bucket_digests depth d2 i.
  Proof. intros Hp. unfold bucket_digests. by rewrite Hp. Qed.

  Lemma bucket_nodes_perm depth l1 l2 : l1 ≡ₚ l2 → bucket_nodes h depth l1 = bucket_nodes h depth l2.
  Proof.
    intros Hp. unfold bucket_nodes. apply map_ext. intros i.
    apply from_digests_perm, bucket_digests_perm, digests_perm, Hp.
  Qed.

  Lemma from_state_perm depth l1 l2 : l1 ≡ₚ l2 → from_state h depth l1 = from_state h depth l2.
  Proof. intros Hp. unfold from_state. by rewrite (bucket_nodes_perm _ _ _ Hp). Qed.

  Lemma from_state_same_map (depth : N) (m : gmap (list N) rvalue) (la lb : list (list N * rvalue)) :
    la ≡ₚ map_to_list m → lb ≡ₚ map_to_list m →
    from_state h depth la = from_state h depth lb ∧
    differs (from_state h depth la) (from_state h depth lb) = false.
  Proof.
    intros Ha Hb. assert (from_state h depth la = from_state h depth lb) as ->.
    { apply from_state_perm. by rewrite Ha, Hb. }
    split; [reflexivity|]. unfold differs. by rewrite N.eqb_refl.
  Qed.
End perm.

(* ---------- what the digest does not see ---------- *)
Section blind.
  Variable h : list N → N.

  Lemma key_digest_ext k v1 v2 :
    rv_ts v1 = rv_ts v2 → rv_get v1 = rv_get v2 → key_digest h k v1 = key_digest h k v2.
  Proof. intros Ht Hg. unfold key_digest, value_bytes. by rewrite Ht, Hg. Qed.

  (* same keys, same outer stamps, same get(): same digest, whatever else differs *)
  Definition same_visible (e1 e2 : list N * rvalue) : Prop :=
    e1.1 = e2.1 ∧ rv_ts e1.2 = rv_ts e2.2 ∧ rv_get e1.2 = rv_get e2.2.

  Lemma digests_same_visible l1 l2 : Forall2 same_visible l1 l2 → digests h l1 = digests h l2.
  Proof.
    induction 1 as [|[k1 v1] [k2 v2] l1 l2 (Hk & Ht & Hg) _ IH]; [reflexivity|].
    simpl in *. subst k2. unfold digests in *. simpl. by rewrite IH, (key_digest_ext k1 v1 v2).
  Qed.

  Lemma from_state_same_visible depth l1 l2 :
    Forall2 same_visible l1 l2 → from_state h depth l1 = from_state h depth l2.
  Proof.
    intros H. unfold from_state, bucket_nodes. by rewrite (digests_same_visible _ _ H).
  Qed.
End blind.

(* witness of finding C18-digest-blind: replica A merged both HSETs, replica B has only
   the later one; the outer stamps agree (max), get() is None on both sides. *)
Definition hv (fs : list (list N * lww)) (t r : N) : rvalue :=
  RV (CHash (list_to_map fs)) None None (Stamp t r) None.
Definition blind_x : rvalue := hv [([102;49], Lww (Some [49]) (Stamp 1 1) false)] 1 1.
Definition blind_y : rvalue := hv [([102;50], Lww (Some [50]) (Stamp 2 2) false)] 2 2.
Definition blind_a : list (list N * rvalue) := [([107], rv_merge blind_x blind_y)].
Definition blind_b : list (list N * rvalue) := [([107], blind_y)].

Lemma blind_witness :
  obs (rv_merge blind_x blind_y) ≠ obs blind_y ∧
  DigestBlind (rv_merge blind_x blind_y) ∧ DigestBlind blind_y ∧
  ∀ (h : list N → N) depth,
    from_state h depth blind_a = from_state h depth blind_b ∧
    differs (from_state h depth blind_a) (from_state h depth blind_b) = false.
Proof.
  split; [|split; [|split]].
  - intros H. apply (f_equal (λ v, bool_decide (rv_crdt v = rv_crdt (obs blind_y)))) in H.
    vm_compute in H. discriminate.
  - intros (r & Hr & _). vm_compute in Hr. discriminate.
  - intros (r & Hr & _). vm_compute in Hr. discriminate.
  - intros h depth.
    assert (from_state h depth blind_a = from_state h depth blind_b) as ->.
    { apply from_state_same_visible. repeat constructor. }
    split; [reflexivity|]. unfold differs. by rewrite N.eqb_refl.
Qed.

(* ---------- one sync round ---------- *)
Notation mergeo := (union_with (λ a b : rvalue, Some (rv_merge a b))) (only parsing).

Lemma apply_delta_lookup (m : gmap (list N) rvalue) k0 v0 k :
  apply_delta m (k0, v0) !! k =
  if decide (k = k0) then mergeo (m !! k0) (Some v0) else m !! k.
Proof.
  unfold apply_delta; simpl. destruct (decide (k = k0)) as [->|Hne].
  - destruct (m !! k0); by rewrite lookup_insert.
  - destruct (m !! k0); by rewrite lookup_insert_ne.
Qed.

Lemma apply_deltas_lookup ds : ∀ (m : gmap (list N) rvalue) k,
  NoDup (ds.*1) →
  apply_deltas m ds !! k = mergeo (m !! k) ((list_to_map ds : gmap (list N) rvalue) !! k).
Proof.
  induction ds as [|[k0 v0] ds IH]; intros m k Hnd.
  - simpl. rewrite lookup_empty. by destruct (m !! k).
  - apply NoDup_cons in Hnd as [Hnotin Hnd]. simpl in Hnotin.
    unfold apply_deltas in *. simpl. rewrite (IH _ _ Hnd), apply_delta_lookup.
    destruct (decide (k = k0)) as [->|Hne].
    + rewrite lookup_insert, (not_elem_of_list_to_map_1 _ _ Hnotin).
      destruct (m !! k0); reflexivity.
    + by rewrite lookup_insert_ne.
Qed.

Section sync.
  Variable h : list N → N.
  Variable depth : N.

  Lemma list_to_map_filter_buckets bs (l : list (list N * rvalue)) k :
    (list_to_map (filter (in_buckets h depth bs) l) : gmap (list N) rvalue) !! k =
    if decide (key_bucket h depth k ∈ bs)
    then (list_to_map l : gmap (list N) rvalue) !! k else None.
  Proof.
    induction l as [|[k0 v0] l IH].
    - simpl. rewrite lookup_empty. by destruct (decide _).
    - rewrite filter_cons. destruct (decide (in_buckets h depth bs (k0, v0))) as [Hin|Hnin];
        unfold in_buckets in *; simpl in *.
      + destruct (decide (k = k0)) as [->|Hne].
        * rewrite !lookup_insert. by destruct (decide (key_bucket h depth k0 ∈ bs)).
        * rewrite !lookup_insert_ne by done. apply IH.
      + rewrite IH. destruct (decide (k = k0)) as [->|Hne].
        * by destruct (decide (key_bucket h depth k0 ∈ bs)).
        * by rewrite lookup_insert_ne.
  Qed.

  Lemma NoDup_fst_filter (P : list N * rvalue → Prop) `{∀ x, Decision (P x)} l :
    NoDup (l.*1) → NoDup ((filter P l).*1).
  Proof.
    induction l as [|[k0 v0] l IH]; [constructor|].
    rewrite fmap_cons, filter_cons. intros Hnd. apply NoDup_cons in Hnd as [Hni Hnd].
    destruct (decide (P (k0, v0))); [|by apply IH].
    rewrite fmap_cons. apply NoDup_cons. split; [|by apply IH].
    intros Hin. apply Hni. apply elem_of_list_fmap in Hin as ([k v] & -> & Hin).
    apply elem_of_list_filter in Hin as [_ Hin]. apply elem_of_list_fmap. by exists (k, v).
  Qed.

  Lemma divergent_from_same x : ∀ b, divergent_from b x x = [].
  Proof.
    induction x as [|a x IH]; intros b; [reflexivity|].
    simpl. rewrite bool_decide_true by done. apply IH.
  Qed.

  (* what one side holds after applying the other side's deltas, when the limit covers
     the other side's keys in the requested buckets *)
  Lemma round_side limit (la lb : list (list N * rvalue)) dv k :
    NoDup (lb.*1) →
    (length (filter (in_buckets h depth dv) lb) ≤ limit)%nat →
    apply_deltas (list_to_map la) (keys_in_buckets h depth limit dv lb) !! k =
    if decide (key_bucket h depth k ∈ dv)
    then mergeo ((list_to_map la : gmap (list N) rvalue) !! k)
                ((list_to_map lb : gmap (list N) rvalue) !! k)
    else (list_to_map la : gmap (list N) rvalue) !! k.
  Proof.
    intros Hnd Hcov. unfold keys_in_buckets. rewrite take_ge by done.
    rewrite apply_deltas_lookup by (by apply NoDup_fst_filter).
    rewrite list_to_map_filter_buckets. destruct (decide _); [reflexivity|].
    by destruct (list_to_map la !! k).
  Qed.

  (* ---- bucket nodes ---- *)
  Definition node_at (l : list (list N * rvalue)) (i : N) : node :=
    from_digests h (bucket_digests depth (digests h l) i).

  Lemma bucket_nodes_node_at l : bucket_nodes h depth l = map (node_at l) (bucket_ids depth).
  Proof. reflexivity. Qed.

  Lemma low_bits_lt x : low_bits depth x < 2 ^ depth.
  Proof.
    unfold low_bits. rewrite N.land_ones. apply N.mod_lt. apply N.pow_nonzero. lia.
  Qed.

  Lemma elem_of_bucket_ids i : i ∈ bucket_ids depth ↔ i < 2 ^ depth.
  Proof.
    unfold bucket_ids. change (map N.of_nat ?l) with (N.of_nat <$> l).
    rewrite elem_of_list_fmap. split.
    - intros (j & -> & Hj). apply elem_of_seq in Hj. lia.
    - intros Hi. exists (N.to_nat i). split; [lia|]. apply elem_of_seq. lia.
  Qed.

  Lemma key_bucket_in_ids k : key_bucket h depth k ∈ bucket_ids depth.
  Proof. apply elem_of_bucket_ids, low_bits_lt. Qed.

  Lemma divergent_from_map (F G : N → node) n : ∀ s,
    divergent_from (N.of_nat s) (map F (map N.of_nat (seq s n))) (map G (map N.of_nat (seq s n)))
    = filter (λ i, F i ≠ G i) (map N.of_nat (seq s n)).
  Proof.
    induction n as [|n IH]; intros s; [reflexivity|].
    simpl. rewrite filter_cons.
    replace (N.of_nat s + 1) with (N.of_nat (S s)) by lia. rewrite IH.
    destruct (decide (F (N.of_nat s) = G (N.of_nat s))) as [He|Hne].
    - rewrite bool_decide_true by done. rewrite decide_False by (intros Hx; by apply Hx). reflexivity.
    - rewrite bool_decide_false by done. rewrite decide_True by done. reflexivity.
  Qed.

  Lemma divergent_buckets_spec la lb :
    divergent_buckets (from_state h depth la) (from_state h depth lb)
    = filter (λ i, node_at la i ≠ node_at lb i) (bucket_ids depth).
  Proof.
    unfold divergent_buckets, from_state; simpl. rewrite !bucket_nodes_node_at.
    unfold bucket_ids. apply (divergent_from_map (node_at la) (node_at lb) _ 0%nat).
  Qed.

  Lemma filter_map_comm {A B} (f : A → B) (P : B → Prop) `{∀ x, Decision (P x)} (l : list A) :
    filter P (map f l) = map f (filter (λ x, P (f x)) l).
  Proof.
    induction l as [|a l IH]; [reflexivity|]. simpl. rewrite !filter_cons.
    destruct (decide (P (f a))); simpl; by rewrite IH.
  Qed.

  Lemma bucket_digests_entries l i :
    bucket_digests depth (digests h l) i
    = digests h (filter (λ kv, key_bucket h depth kv.1 = i) l).
  Proof. unfold bucket_digests, digests. apply filter_map_comm. Qed.

  (* a bucket's node only depends on the set of entries whose key falls in it *)
  Lemma node_at_ext (m1 m2 : gmap (list N) rvalue) l1 l2 i :
    l1 ≡ₚ map_to_list m1 → l2 ≡ₚ map_to_list m2 →
    (∀ k, key_bucket h depth k = i → m1 !! k = m2 !! k) →
    node_at l1 i = node_at l2 i.
  Proof.
    intros H1 H2 Hext. unfold node_at. apply from_digests_perm.
    rewrite !bucket_digests_entries. apply Permutation_map.
    apply NoDup_Permutation.
    - apply NoDup_filter. rewrite H1. apply NoDup_map_to_list.
    - apply NoDup_filter. rewrite H2. apply NoDup_map_to_list.
    - intros [k v]. rewrite !elem_of_list_filter, H1, H2, !elem_of_map_to_list. simpl.
      split; intros [Hk Hv]; (split; [done|]); [rewrite <- (Hext k Hk)|rewrite (Hext k Hk)]; done.
  Qed.

  Lemma nodes_equal_digest_equal la lb :
    (∀ i, i ∈ bucket_ids depth → node_at la i = node_at lb i) →
    from_state h depth la = from_state h depth lb.
  Proof.
    intros Heq. unfold from_state. rewrite !bucket_nodes_node_at.
    assert (map (node_at la) (bucket_ids depth) = map (node_at lb) (bucket_ids depth)) as ->; [|done].
    apply map_ext_in. intros i Hi. apply Heq. by apply elem_of_list_In.
  Qed.

  Lemma mergeo_comm (a b : option rvalue) :
    (∀ x y, a = Some x → b = Some y → Compatible x y) → mergeo a b = mergeo b a.
  Proof.
    intros Hc. destruct a as [x|], b as [y|]; simpl; try reflexivity.
    f_equal. apply rv_merge_comm. by apply Hc.
  Qed.

  Theorem sync_round_merges_lemma limit (la lb : list (list N * rvalue)) :
    NoDup (la.*1) → NoDup (lb.*1) →
    let A : gmap (list N) rvalue := list_to_map la in
    let B : gmap (list N) rvalue := list_to_map lb in
    let dv := divergent_buckets (from_state h depth la) (from_state h depth lb) in
    differs (from_state h depth la) (from_state h depth lb) = true →
    (length (filter (in_buckets h depth dv) la) ≤ limit)%nat →
    (length (filter (in_buckets h depth dv) lb) ≤ limit)%nat →
    let A' := (sync_round h depth limit la lb).1 in
    let B' := (sync_round h depth limit la lb).2 in
    (∀ k, key_bucket h depth k ∈ dv →
          A' !! k = mergeo (A !! k) (B !! k) ∧ B' !! k = mergeo (B !! k) (A !! k)) ∧
    (∀ k, key_bucket h depth k ∉ dv → A' !! k = A !! k ∧ B' !! k = B !! k) ∧
    ((∀ k a b, A !! k = Some a → B !! k = Some b → Compatible a b) →
     (∀ k, key_bucket h depth k ∈ dv → A' !! k = B' !! k) ∧
     ∀ la' lb', la' ≡ₚ map_to_list A' → lb' ≡ₚ map_to_list B' →
       from_state h depth la' = from_state h depth lb' ∧
       differs (from_state h depth la') (from_state h depth lb') = false ∧
       divergent_buckets (from_state h depth la') (from_state h depth lb') = []).
  Proof.
    intros Hna Hnb A B dv Hdif Hca Hcb A' B'.
    assert (HA' : ∀ k, A' !! k = if decide (key_bucket h depth k ∈ dv)
                                then mergeo (A !! k) (B !! k) else A !! k).
    { intros k. subst A' B' dv. unfold sync_round, sync_exchange. rewrite Hdif.
      destruct (divergent_buckets _ _) as [|d0 dv0]; simpl.
      - destruct (decide (key_bucket h depth k ∈ [])) as [Hx|]; [inversion Hx|reflexivity].
      - by apply round_side. }
    assert (HB' : ∀ k, B' !! k = if decide (key_bucket h depth k ∈ dv)
                                then mergeo (B !! k) (A !! k) else B !! k).
    { intros k. subst A' B' dv. unfold sync_round, sync_exchange. rewrite Hdif.
      destruct (divergent_buckets _ _) as [|d0 dv0]; simpl.
      - destruct (decide (key_bucket h depth k ∈ [])) as [Hx|]; [inversion Hx|reflexivity].
      - by apply round_side. }
    split; [|split].
    - intros k Hk. rewrite HA', HB', !decide_True by done. done.
    - intros k Hk. rewrite HA', HB', !decide_False by done. done.
    - intros Hcompat.
      assert (Heq : ∀ k, key_bucket h depth k ∈ dv → A' !! k = B' !! k).
      { intros k Hk. rewrite HA', HB', !decide_True by done. apply mergeo_comm.
        intros x y. apply Hcompat. }
      split; [exact Heq|]. intros la' lb' Hla' Hlb'.
      assert (Hfs : from_state h depth la' = from_state h depth lb').
      { apply nodes_equal_digest_equal. intros i Hi.
        destruct (decide (i ∈ dv)) as [Hin|Hnin].
        - apply (node_at_ext A' B'); [done|done|]. intros k <-. by apply Heq.
        - transitivity (node_at la i); [|transitivity (node_at lb i)].
          + apply (node_at_ext A' A); [done| |].
            * symmetry. by apply map_to_list_to_map.
            * intros k <-. rewrite HA'. by rewrite decide_False.
          + subst dv. rewrite divergent_buckets_spec in Hnin.
            rewrite elem_of_list_filter in Hnin.
            destruct (decide (node_at la i = node_at lb i)) as [|Hne]; [done|].
            exfalso. apply Hnin. done.
          + apply (node_at_ext B B'); [|done|].
            * symmetry. by apply map_to_list_to_map.
            * intros k <-. rewrite HB'. by rewrite decide_False. }
      rewrite Hfs. split; [reflexivity|]. split.
      + unfold differs. by rewrite N.eqb_refl.
      + apply divergent_from_same.
  Qed.
End sync.

(* ---------- starvation under a short limit ---------- *)
Definition lwwv (b : list N) (t r : N) : rvalue :=
  RV (CLww (Lww (Some b) (Stamp t r) false)) None None (Stamp t r) None.
Definition starve_A : gmap (list N) rvalue :=
  {[ [107;49] := lwwv [97] 1 1; [107;50] := lwwv [98] 2 1 ]}.
Definition starve_B : gmap (list N) rvalue := ∅.
Definition starve_1 : gmap (list N) rvalue * gmap (list N) rvalue :=
  sync_round_ord map_to_list sip13f 0 1 (starve_A, starve_B).

Lemma starve_fixed_point : sync_round_ord map_to_list sip13f 0 1 starve_1 = starve_1.
Proof.
  apply (bool_decide_eq_true_1 (sync_round_ord map_to_list sip13f 0 1 starve_1 = starve_1)).
  vm_compute. reflexivity.
Qed.

Lemma starve_rounds n :
  sync_rounds map_to_list sip13f 0 1 (S n) (starve_A, starve_B) = starve_1.
Proof.
  simpl. fold starve_1. induction n as [|n IH]; [reflexivity|].
  simpl. by rewrite starve_fixed_point.
Qed.

Lemma starve_witness :
  ShortLimit sip13f 0 1 (map_to_list starve_A) (map_to_list starve_B) ∧
  (∀ a b, starve_A !! a = Some b → DigestVisible b) ∧
  ∀ n, let s := sync_rounds map_to_list sip13f 0 1 n (starve_A, starve_B) in
       differs (from_state sip13f 0 (map_to_list s.1)) (from_state sip13f 0 (map_to_list s.2)) = true ∧
       s.1 !! [107;50] = Some (lwwv [98] 2 1) ∧ s.2 !! [107;50] = None.
Proof.
  split; [|split].
  - intros [H _]. vm_compute in H. lia.
  - intros a b Hab. unfold starve_A in Hab.
    apply lookup_insert_Some in Hab as [[_ <-]|[_ Hab]];
      [|apply lookup_singleton_Some in Hab as [_ <-]];
      (eexists; repeat split; try reflexivity; try discriminate).
  - intros [|n].
    + vm_compute. done.
    + rewrite starve_rounds. vm_compute. done.
Qed.

(* ---------- equal digests ⇒ equal states (for an injective hash, visible values) ---------- *)
Lemma le_val_le_bytes n : ∀ x, le_val (le_bytes n x) = x mod 256 ^ N.of_nat n.
Proof.
  induction n as [|n IH]; intros x.
  - simpl. by rewrite N.mod_1_r.
  - cbn [le_bytes le_val]. rewrite IH.
    replace (256 ^ N.of_nat (S n)) with (256 * 256 ^ N.of_nat n).
    + rewrite N.mod_mul_r; [reflexivity|lia|]. apply N.pow_nonzero. lia.
    + rewrite Nat2N.inj_succ, N.pow_succ_r'. reflexivity.
Qed.

Lemma le64f_inj x y : x < M64 → y < M64 → le64f x = le64f y → x = y.
Proof.
  intros Hx Hy H. rewrite !le64f_eq in H. unfold le64 in H.
  apply (f_equal le_val) in H. rewrite !le_val_le_bytes in H.
  change (256 ^ N.of_nat 8) with M64 in H. by rewrite !N.mod_small in H.
Qed.

Lemma le64f_length x : length (le64f x) = 8%nat.
Proof. reflexivity. Qed.

Lemma le64f_app_inj x1 x2 (r1 r2 : list N) :
  le64f x1 ++ r1 = le64f x2 ++ r2 → le64f x1 = le64f x2 ∧ r1 = r2.
Proof. intros H. apply app_inj_1 in H; [done|]. by rewrite !le64f_length. Qed.

Lemma value_bytes_inj v1 v2 :
  DigestVisible v1 → DigestVisible v2 → value_bytes v1 = value_bytes v2 → v1 = v2.
Proof.
  intros (r1 & Hc1 & Hts1 & Htomb1 & Hvc1 & He1 & Hrf1 & Ht1 & Hr1)
         (r2 & Hc2 & Hts2 & Htomb2 & Hvc2 & He2 & Hrf2 & Ht2 & Hr2) H.
  unfold value_bytes in H.
  apply le64f_app_inj in H as [Htime H]. apply le64f_app_inj in H as [Hrid H].
  apply le64f_inj in Htime; [|done..]. apply le64f_inj in Hrid; [|done..].
  assert (Hg : rv_get v1 = rv_get v2).
  { destruct (rv_get v1) as [b1|], (rv_get v2) as [b2|]; try done.
    - apply le64f_app_inj in H as [_ ->]. done. }
  clear H Ht1 Hr1 Ht2 Hr2.
  destruct v1 as [c1 vc1 e1 [t1 i1] rf1], v2 as [c2 vc2 e2 [t2 i2] rf2].
  cbn [rv_crdt rv_vc rv_exp rv_ts rv_rf st_time st_rid] in *.
  subst. unfold rv_get in Hg. cbn [rv_crdt] in Hg.
  destruct r1 as [val1 ts1 tomb1], r2 as [val2 ts2 tomb2].
  cbn [lw_val lw_ts lw_tomb] in *. subst.
  unfold lww_get in Hg. cbn [lw_val lw_tomb] in Hg.
  assert (val1 = val2 ∧ tomb1 = tomb2) as [-> ->]; [|reflexivity].
  destruct tomb1, tomb2.
  - by rewrite (proj1 Htomb1 eq_refl), (proj1 Htomb2 eq_refl).
  - exfalso. pose proof (proj2 Htomb2 (eq_sym Hg)). discriminate.
  - exfalso. pose proof (proj2 Htomb1 Hg). discriminate.
  - by split.
Qed.

Lemma Permutation_map_inj_on {A B} (f : A → B) (l1 : list A) : ∀ l2,
  (∀ x y, x ∈ l1 ++ l2 → y ∈ l1 ++ l2 → f x = f y → x = y) →
  map f l1 ≡ₚ map f l2 → l1 ≡ₚ l2.
Proof.
  induction l1 as [|x l1 IH]; intros l2 Hinj Hp.
  - simpl in Hp. apply Permutation_nil_l in Hp. destruct l2; [done|discriminate].
  - assert (Hin : f x ∈ map f l2).
    { rewrite <- Hp. simpl. left. }
    change (map f l2) with (f <$> l2) in Hin.
    apply elem_of_list_fmap in Hin as (y & Hxy & Hy).
    assert (y = x) as ->.
    { symmetry. apply Hinj; [left|apply elem_of_app; right; done|done]. }
    apply elem_of_Permutation in Hy as [l2' Hl2'].
    rewrite Hl2'. constructor. apply IH.
    + intros a b Ha Hb. apply Hinj.
      * apply elem_of_app in Ha as [Ha|Ha]; [right; apply elem_of_app; by left|].
        apply elem_of_app; right. rewrite Hl2'. by right.
      * apply elem_of_app in Hb as [Hb|Hb]; [right; apply elem_of_app; by left|].
        apply elem_of_app; right. rewrite Hl2'. by right.
    + rewrite Hl2' in Hp. simpl in Hp. by apply Permutation_cons_inv in Hp.
Qed.

Section partition.
  Variable depth : N.

  Lemma filter_split_lt (ds : list kdigest) (n : nat) :
    filter (λ d, bucket_of depth d < N.of_nat (S n)) ds ≡ₚ
    filter (λ d, bucket_of depth d < N.of_nat n) ds ++
    filter (λ d, bucket_of depth d = N.of_nat n) ds.
  Proof.
    induction ds as [|d ds IH]; [reflexivity|].
    rewrite !filter_cons.
    destruct (decide (bucket_of depth d < N.of_nat n)) as [Hlt|Hnlt].
    - rewrite decide_True by lia. rewrite decide_False by lia. simpl. by rewrite IH.
    - destruct (decide (bucket_of depth d = N.of_nat n)) as [He|Hne].
      + rewrite decide_True by lia. rewrite IH. by rewrite Permutation_middle.
      + rewrite decide_False by lia. exact IH.
  Qed.

  Lemma filter_lt_partition (ds : list kdigest) (n : nat) :
    filter (λ d, bucket_of depth d < N.of_nat n) ds ≡ₚ
    concat (map (λ i, bucket_digests depth ds i) (map N.of_nat (seq 0 n))).
  Proof.
    induction n as [|n IH].
    - simpl. induction ds as [|d ds IHd]; [reflexivity|].
      rewrite filter_cons. rewrite decide_False by lia. exact IHd.
    - rewrite filter_split_lt, IH, seq_S, !map_app, concat_app. simpl.
      by rewrite app_nil_r.
  Qed.

  Lemma bucket_partition (ds : list kdigest) :
    ds ≡ₚ concat (map (λ i, bucket_digests depth ds i) (bucket_ids depth)).
  Proof.
    unfold bucket_ids. rewrite <- filter_lt_partition.
    assert (filter (λ d, bucket_of depth d < N.of_nat (N.to_nat (2 ^ depth))) ds = ds) as ->; [|done].
    induction ds as [|d ds IH]; [reflexivity|].
    rewrite filter_cons, decide_True, IH; [done|].
    rewrite N2Nat.id. apply low_bits_lt.
  Qed.

  Lemma concat_map_perm {A} (f g : N → list A) (ids : list N) :
    (∀ i, i ∈ ids → f i ≡ₚ g i) → concat (map f ids) ≡ₚ concat (map g ids).
  Proof.
    induction ids as [|i ids IH]; intros H; [reflexivity|].
    simpl. rewrite (H i) by left. rewrite IH; [done|]. intros j Hj. apply H. by right.
  Qed.
End partition.

Lemma Forall_filter_keep {A} (P Q : A → Prop) `{∀ x, Decision (Q x)} (l : list A) :
  Forall P l → Forall P (filter Q l).
Proof.
  intros HF. apply Forall_forall. intros x Hx. apply elem_of_list_filter in Hx as [_ Hx].
  by apply (proj1 (Forall_forall _ _) HF).
Qed.

Definition kv_of (d : kdigest) : N * N := (kd_key d, kd_val d).
Definition kd_u64 (d : kdigest) : Prop := kd_key d < M64 ∧ kd_val d < M64.

Lemma enc_inj s1 : ∀ s2, Forall kd_u64 s1 → Forall kd_u64 s2 →
  enc_digests s1 = enc_digests s2 → map kv_of s1 = map kv_of s2.
Proof.
  induction s1 as [|d1 s1 IH]; intros [|d2 s2] H1 H2 He.
  - reflexivity.
  - discriminate He.
  - discriminate He.
  - unfold enc_digests in He. cbn [flat_map] in He. rewrite <- !app_assoc in He.
    apply le64f_app_inj in He as [Hk He]. apply le64f_app_inj in He as [Hv He].
    apply Forall_cons in H1 as [[Rk1 Rv1] H1]. apply Forall_cons in H2 as [[Rk2 Rv2] H2].
    apply le64f_inj in Hk; [|done..]. apply le64f_inj in Hv; [|done..].
    cbn [map]. unfold kv_of at 1 3. rewrite Hk, Hv. f_equal. by apply IH.
Qed.

Section inj.
  Variable h : list N → N.
  Variable S : list (list N).
  Hypothesis HS : HashOK h S.

  Definition nwf (n : node) : Prop := (n_count n = 0 → n_hash n = 0) ∧ n_hash n < M64.

  Lemma HS_range x : x ∈ S → 0 < h x < M64.
  Proof. apply HS. Qed.
  Lemma HS_inj x y : x ∈ S → y ∈ S → h x = h y → x = y.
  Proof. apply HS. Qed.

  Lemma nwf_empty : nwf node_empty.
  Proof. split; [done|]. reflexivity. Qed.

  Lemma nwf_combine a b : combine_bytes a b ∈ S → nwf (combine h a b).
  Proof.
    intros Hin. unfold combine.
    destruct ((n_count a =? 0) && (n_count b =? 0)) eqn:Hz; [apply nwf_empty|].
    split; simpl.
    - intros H0. exfalso. apply andb_false_iff in Hz.
      rewrite !N.eqb_neq in Hz. lia.
    - apply HS_range, Hin.
  Qed.

  Lemma nwf_from_digests ds : enc_digests (bucket_order ds) ∈ S → nwf (from_digests h ds).
  Proof.
    intros Hin. destruct ds as [|d ds]; [apply nwf_empty|].
    split; simpl.
    - lia.
    - apply HS_range, Hin.
  Qed.

  Lemma combine_hash_inj a1 b1 a2 b2 :
    nwf a1 → nwf b1 → nwf a2 → nwf b2 →
    combine_bytes a1 b1 ∈ S → combine_bytes a2 b2 ∈ S →
    n_hash (combine h a1 b1) = n_hash (combine h a2 b2) →
    n_hash a1 = n_hash a2 ∧ n_hash b1 = n_hash b2.
  Proof.
    intros [Ha1 Ra1] [Hb1 Rb1] [Ha2 Ra2] [Hb2 Rb2] Hin1 Hin2. unfold combine.
    destruct ((n_count a1 =? 0) && (n_count b1 =? 0)) eqn:Hz1;
      destruct ((n_count a2 =? 0) && (n_count b2 =? 0)) eqn:Hz2; simpl; intros He.
    - apply andb_true_iff in Hz1 as [?%N.eqb_eq ?%N.eqb_eq].
      apply andb_true_iff in Hz2 as [?%N.eqb_eq ?%N.eqb_eq].
      rewrite Ha1, Hb1, Ha2, Hb2 by done. done.
    - pose proof (HS_range _ Hin2). lia.
    - pose proof (HS_range _ Hin1). lia.
    - apply HS_inj in He; [|done..]. unfold combine_bytes in He.
      apply le64f_app_inj in He as [H1 H2].
      split; apply le64f_inj; done.
  Qed.

  Lemma chain_inj r1 : ∀ r2 a1 a2,
    length r1 = length r2 →
    nwf a1 → nwf a2 → Forall nwf r1 → Forall nwf r2 →
    (∀ x, x ∈ chain_inputs h a1 r1 → x ∈ S) →
    (∀ x, x ∈ chain_inputs h a2 r2 → x ∈ S) →
    n_hash (fold_left (combine h) r1 a1) = n_hash (fold_left (combine h) r2 a2) →
    n_hash a1 = n_hash a2 ∧ Forall2 (λ x y, n_hash x = n_hash y) r1 r2.
  Proof.
    induction r1 as [|b1 r1 IH]; intros [|b2 r2] a1 a2 Hlen Wa1 Wa2 W1 W2 Hin1 Hin2 He;
      try discriminate Hlen.
    - simpl in He. split; [done|constructor].
    - simpl in *. apply Forall_cons in W1 as [Wb1 W1]. apply Forall_cons in W2 as [Wb2 W2].
      assert (Hc1 : combine_bytes a1 b1 ∈ S) by (apply Hin1; left).
      assert (Hc2 : combine_bytes a2 b2 ∈ S) by (apply Hin2; left).
      destruct (IH r2 (combine h a1 b1) (combine h a2 b2)) as [Hc Hr]; try done.
      + lia.
      + by apply nwf_combine.
      + by apply nwf_combine.
      + intros x Hx. apply Hin1. by right.
      + intros x Hx. apply Hin2. by right.
      + apply combine_hash_inj in Hc as [? ?]; try done. split; [done|]. by constructor.
  Qed.

  Lemma from_digests_hash_inj ds1 ds2 :
    enc_digests (bucket_order ds1) ∈ S → enc_digests (bucket_order ds2) ∈ S →
    Forall kd_u64 ds1 → Forall kd_u64 ds2 →
    n_hash (from_digests h ds1) = n_hash (from_digests h ds2) →
    map kv_of ds1 ≡ₚ map kv_of ds2.
  Proof.
    intros Hin1 Hin2 R1 R2 He.
    destruct ds1 as [|d1 ds1], ds2 as [|d2 ds2].
    - reflexivity.
    - simpl in He. pose proof (HS_range _ Hin2). lia.
    - simpl in He. pose proof (HS_range _ Hin1). lia.
    - simpl in He. apply HS_inj in He; [|done..].
      apply enc_inj in He.
      + rewrite <- (bucket_order_Permutation (d1 :: ds1)), <- (bucket_order_Permutation (d2 :: ds2)).
        by rewrite He.
      + by rewrite bucket_order_Permutation.
      + by rewrite bucket_order_Permutation.
  Qed.
End inj.

Section main.
  Variable h : list N → N.
  Variable depth : N.

  Definition kvf (e : list N * rvalue) : N * N := (h (key_bytes e.1), h (value_bytes e.2)).

  Lemma kv_digests l : map kv_of (digests h l) = map kvf l.
  Proof. unfold digests. rewrite map_map. reflexivity. Qed.

  Lemma in_inputs_key l e : e ∈ l → key_bytes e.1 ∈ hash_inputs h depth l.
  Proof.
    intros He. unfold hash_inputs. apply elem_of_app. left.
    change (map ?f ?l) with (f <$> l). apply elem_of_list_fmap. by exists e.
  Qed.
  Lemma in_inputs_val l e : e ∈ l → value_bytes e.2 ∈ hash_inputs h depth l.
  Proof.
    intros He. unfold hash_inputs. apply elem_of_app. right. apply elem_of_app. left.
    change (map ?f ?l) with (f <$> l). apply elem_of_list_fmap. by exists e.
  Qed.
  Lemma in_inputs_bucket l i :
    i ∈ bucket_ids depth →
    enc_digests (bucket_order (bucket_digests depth (digests h l) i)) ∈ hash_inputs h depth l.
  Proof.
    intros Hi. unfold hash_inputs. apply elem_of_app. right. apply elem_of_app. right.
    apply elem_of_app. left.
    change (map ?f ?l) with (f <$> l). apply elem_of_list_fmap. by exists i.
  Qed.
  Lemma in_inputs_chain l i0 ids x :
    bucket_ids depth = i0 :: ids →
    x ∈ chain_inputs h (node_at h depth l i0) (map (node_at h depth l) ids) →
    x ∈ hash_inputs h depth l.
  Proof.
    intros Hids Hx. unfold hash_inputs. apply elem_of_app. right. apply elem_of_app. right.
    apply elem_of_app. right. unfold bucket_nodes. rewrite Hids. exact Hx.
  Qed.

  Lemma Forall2_map_same {A B} (R : B → B → Prop) (f g : A → B) (l : list A) :
    Forall2 R (map f l) (map g l) → ∀ x, x ∈ l → R (f x) (g x).
  Proof.
    induction l as [|a l IH]; intros HF x Hx; [by apply elem_of_nil in Hx|].
    simpl in HF. apply Forall2_cons in HF as [Ha HF].
    apply elem_of_cons in Hx as [->|Hx]; [done|]. by apply IH.
  Qed.

  Theorem equal_digest_equal_state_lemma (l1 l2 : list (list N * rvalue)) :
    HashOK h (hash_inputs h depth l1 ++ hash_inputs h depth l2) →
    Forall (λ e, DigestVisible e.2) l1 → Forall (λ e, DigestVisible e.2) l2 →
    sd_root (from_state h depth l1) = sd_root (from_state h depth l2) →
    l1 ≡ₚ l2.
  Proof.
    set (S := hash_inputs h depth l1 ++ hash_inputs h depth l2).
    intros HS V1 V2 Hroot.
    assert (In1 : ∀ x, x ∈ hash_inputs h depth l1 → x ∈ S).
    { intros x Hx. apply elem_of_app. by left. }
    assert (In2 : ∀ x, x ∈ hash_inputs h depth l2 → x ∈ S).
    { intros x Hx. apply elem_of_app. by right. }
    (* every key/value hash is a u64 *)
    assert (R1 : Forall kd_u64 (digests h l1)).
    { apply Forall_forall. intros d Hd. unfold digests in Hd.
      change (map ?f ?l) with (f <$> l) in Hd. apply elem_of_list_fmap in Hd as (e & -> & He).
      split; simpl.
      - apply (HS_range h S HS), In1. by apply in_inputs_key.
      - apply (HS_range h S HS), In1. by apply in_inputs_val. }
    assert (R2 : Forall kd_u64 (digests h l2)).
    { apply Forall_forall. intros d Hd. unfold digests in Hd.
      change (map ?f ?l) with (f <$> l) in Hd. apply elem_of_list_fmap in Hd as (e & -> & He).
      split; simpl.
      - apply (HS_range h S HS), In2. by apply in_inputs_key.
      - apply (HS_range h S HS), In2. by apply in_inputs_val. }
    (* equal roots: equal hash in every bucket *)
    assert (Hnodes : ∀ i, i ∈ bucket_ids depth →
              n_hash (node_at h depth l1 i) = n_hash (node_at h depth l2 i)).
    { unfold from_state in Hroot. simpl in Hroot. rewrite !bucket_nodes_node_at in Hroot.
      destruct (bucket_ids depth) as [|i0 ids] eqn:Hids.
      { intros i Hi. by apply elem_of_nil in Hi. }
      simpl in Hroot.
      assert (W : ∀ l, (∀ x, x ∈ hash_inputs h depth l → x ∈ S) →
                  ∀ i, i ∈ i0 :: ids → nwf (node_at h depth l i)).
      { intros l Hl i Hi. apply (nwf_from_digests h S HS). apply Hl, in_inputs_bucket.
        by rewrite Hids. }
      destruct (chain_inj h S HS (map (node_at h depth l1) ids) (map (node_at h depth l2) ids)
                  (node_at h depth l1 i0) (node_at h depth l2 i0)) as [H0 HF].
      - by rewrite !map_length.
      - apply (W l1 In1). left.
      - apply (W l2 In2). left.
      - apply Forall_forall. intros n Hn. change (map ?f ?l) with (f <$> l) in Hn.
        apply elem_of_list_fmap in Hn as (i & -> & Hi). apply (W l1 In1). by right.
      - apply Forall_forall. intros n Hn. change (map ?f ?l) with (f <$> l) in Hn.
        apply elem_of_list_fmap in Hn as (i & -> & Hi). apply (W l2 In2). by right.
      - intros x Hx. eapply In1, in_inputs_chain; eauto.
      - intros x Hx. eapply In2, in_inputs_chain; eauto.
      - exact Hroot.
      - intros i Hi. apply elem_of_cons in Hi as [->|Hi]; [done|].
        by apply (Forall2_map_same _ _ _ _ HF). }
    (* equal bucket hash: the same (key hash, value hash) pairs in the bucket *)
    assert (Hb : ∀ i, i ∈ bucket_ids depth →
              map kv_of (bucket_digests depth (digests h l1) i) ≡ₚ
              map kv_of (bucket_digests depth (digests h l2) i)).
    { intros i Hi. apply (from_digests_hash_inj h S HS).
      - by apply In1, in_inputs_bucket.
      - by apply In2, in_inputs_bucket.
      - unfold bucket_digests. by apply Forall_filter_keep.
      - unfold bucket_digests. by apply Forall_filter_keep.
      - by apply Hnodes. }
    (* hence over the whole state *)
    assert (Hkv : map kvf l1 ≡ₚ map kvf l2).
    { rewrite <- !kv_digests.
      rewrite (bucket_partition depth (digests h l1)) at 1.
      rewrite (bucket_partition depth (digests h l2)) at 1.
      rewrite !concat_map, !map_map. by apply concat_map_perm. }
    (* the pair of hashes determines the entry *)
    apply (Permutation_map_inj_on kvf); [|exact Hkv].
    intros e1 e2 He1 He2 Hf. unfold kvf in Hf. injection Hf as Hk Hv.
    assert (Mk : ∀ e, e ∈ l1 ++ l2 → key_bytes e.1 ∈ S ∧ value_bytes e.2 ∈ S ∧ DigestVisible e.2).
    { intros e He. apply elem_of_app in He as [He|He].
      - split; [by apply In1, in_inputs_key|]. split; [by apply In1, in_inputs_val|].
        by apply (proj1 (Forall_forall _ _) V1).
      - split; [by apply In2, in_inputs_key|]. split; [by apply In2, in_inputs_val|].
        by apply (proj1 (Forall_forall _ _) V2). }
    destruct (Mk e1 He1) as (K1 & Va1 & D1). destruct (Mk e2 He2) as (K2 & Va2 & D2).
    apply (HS_inj h S HS) in Hk; [|done..]. apply (HS_inj h S HS) in Hv; [|done..].
    unfold key_bytes in Hk. apply app_inv_tail in Hk.
    apply value_bytes_inj in Hv; [|done..].
    destruct e1, e2; simpl in *; congruence.
  Qed.
End main.

(* ---------- consequences and sanity of the executable definitions ---------- *)
Lemma visible_states_differ h depth (l1 l2 : list (list N * rvalue)) :
  HashOK h (hash_inputs h depth l1 ++ hash_inputs h depth l2) →
  Forall (λ e, DigestVisible e.2) l1 → Forall (λ e, DigestVisible e.2) l2 →
  ¬ l1 ≡ₚ l2 →
  differs (from_state h depth l1) (from_state h depth l2) = true.
Proof.
  intros HS V1 V2 Hne. unfold differs.
  destruct (sd_root (from_state h depth l1) =? sd_root (from_state h depth l2)) eqn:He; [|done].
  exfalso. apply Hne. apply N.eqb_eq in He. by apply (equal_digest_equal_state_lemma h depth).
Qed.

Lemma hash_ok_b_sound h S : hash_ok_b h S = true → HashOK h S.
Proof.
  unfold hash_ok_b. rewrite andb_true_iff, !forallb_forall. intros [Hr Hi]. split.
  - intros x Hx. apply elem_of_list_In, Hr in Hx.
    apply andb_true_iff in Hx as [?%N.ltb_lt ?%N.ltb_lt]. done.
  - intros x y Hx Hy He. apply elem_of_list_In in Hx, Hy.
    specialize (Hi x Hx). rewrite forallb_forall in Hi. specialize (Hi y Hy).
    rewrite He, N.eqb_refl in Hi. simpl in Hi. by apply bool_decide_eq_true_1 in Hi.
Qed.

Lemma low_bits_mod depth x : low_bits depth x = x mod 2 ^ depth.
Proof. apply N.land_ones. Qed.

Lemma key_bucket_digest h depth k v : bucket_of depth (key_digest h k v) = key_bucket h depth k.
Proof. reflexivity. Qed.

(* a concrete instance of the hypotheses of equal_digest_equal_state *)
Definition ex_l1 : list (list N * rvalue) :=
  [([107;49], lwwv [97] 1 1); ([107;50], lwwv [98] 2 1); ([107;51], lwwv [] 3 2)].
Definition ex_l2 : list (list N * rvalue) :=
  [([107;51], lwwv [] 3 2); ([107;49], lwwv [97] 1 1); ([107;50], lwwv [98] 2 1)].
Definition ex_l3 : list (list N * rvalue) :=
  [([107;51], lwwv [] 3 2); ([107;49], lwwv [97] 1 1); ([107;50], lwwv [99] 2 1)].

Lemma lwwv_visible b t r : t < M64 → r < M64 → DigestVisible (lwwv b t r).
Proof. intros Ht Hr. eexists. repeat split; try reflexivity; try done; discriminate. Qed.

Lemma ex_hash_ok :
  ex_l1 ≠ ex_l2 ∧
  HashOK sip13f (hash_inputs sip13f 1 ex_l1 ++ hash_inputs sip13f 1 ex_l2) ∧
  HashOK sip13f (hash_inputs sip13f 1 ex_l1 ++ hash_inputs sip13f 1 ex_l3) ∧
  Forall (λ e, DigestVisible e.2) ex_l1 ∧ Forall (λ e, DigestVisible e.2) ex_l2 ∧
  Forall (λ e, DigestVisible e.2) ex_l3 ∧
  sd_root (from_state sip13f 1 ex_l1) = sd_root (from_state sip13f 1 ex_l2) ∧
  differs (from_state sip13f 1 ex_l1) (from_state sip13f 1 ex_l3) = true.
Proof.
  split; [discriminate|].
  split; [apply hash_ok_b_sound; vm_compute; reflexivity|].
  split; [apply hash_ok_b_sound; vm_compute; reflexivity|].
  split; [repeat constructor; by apply lwwv_visible|].
  split; [repeat constructor; by apply lwwv_visible|].
  split; [repeat constructor; by apply lwwv_visible|].
  split; vm_compute; reflexivity.
Qed.

(* a concrete instance of the hypotheses of sync_round_merges *)
Definition ex_sa : list (list N * rvalue) := [([107;49], lwwv [120] 1 1)].
Definition ex_sb : list (list N * rvalue) :=
  [([107;49], lwwv [121] 2 2); ([107;50], lwwv [122] 1 2)].

Lemma ex_sync_hyps :
  NoDup (ex_sa.*1) ∧ NoDup (ex_sb.*1) ∧
  differs (from_state sip13f 1 ex_sa) (from_state sip13f 1 ex_sb) = true ∧
  Covering sip13f 1 2 ex_sa ex_sb ∧
  (∀ k a b, (list_to_map ex_sa : gmap (list N) rvalue) !! k = Some a →
            (list_to_map ex_sb : gmap (list N) rvalue) !! k = Some b → Compatible a b) ∧
  (sync_round sip13f 1 2 ex_sa ex_sb).1 ≠ list_to_map ex_sa.
Proof.
  split; [apply (bool_decide_unpack _); vm_compute; exact I|].
  split; [apply (bool_decide_unpack _); vm_compute; exact I|].
  split; [vm_compute; reflexivity|].
  split; [split; vm_compute; lia|].
  split.
  - intros k a b Ha Hb. unfold ex_sa in Ha. cbn [list_to_map foldr fst snd] in Ha.
    apply lookup_insert_Some in Ha as [[<- <-]|[_ Ha]]; [|by rewrite lookup_empty in Ha].
    unfold ex_sb in Hb. cbn [list_to_map foldr fst snd] in Hb.
    rewrite lookup_insert in Hb. injection Hb as <-.
    unfold Compatible, lww_compat, lwwv. cbn. intros Hts. discriminate.
  - intros H. apply (f_equal (λ m : gmap (list N) rvalue, bool_decide (m !! [107;50] = None))) in H.
    vm_compute in H. discriminate.
Qed.

(* Lemmas about Model/Store.v and Model/Persist.v.
   Part 1 (C12): the store-level invariant of flush / compaction under every fault script
   and crash point. *)
From stdpp Require Import gmap.
From Coq Require Import NArith Lia.
From RV Require Import Lib.Hex Model.Crdt Model.Store Model.Persist Proofs.CrdtProofs.
Local Open Scope N_scope.

(* ---------- what one store call can do ---------- *)
Lemma st_get_spec (w w' : world obj) n r :
  st_get w n = (w', r) →
  w_store w' = w_store w ∧
  (r = RCrash ∨ r = RErr ∨ r = ROk (w_store w !! n) ∨ r = ROk (garble (w_store w !! n))) ∧
  (r = RCrash → w_crashed w' = true) ∧ (w_crashed w = true → w_crashed w' = true).
Proof.
  unfold st_get. destruct (w_io w) as [|[|[]] io]; intros [= <- <-]; simpl;
    repeat split; auto; try discriminate.
Qed.

Lemma st_put_spec (w w' : world obj) n o r :
  st_put w n o = (w', r) →
  (∀ k, k ≠ n → w_store w' !! k = w_store w !! k) ∧
  (r = ROk tt → w_store w' !! n = Some (Whole o)) ∧
  (r = RCrash → w_store w' = w_store w ∧ w_crashed w' = true) ∧
  (w_crashed w = true → w_crashed w' = true).
Proof.
  unfold st_put. destruct (w_io w) as [|[|[]] io]; intros [= <- <-]; simpl;
    repeat split; auto; try discriminate; intros; rewrite ?lookup_insert_ne by done;
    rewrite ?lookup_insert; done.
Qed.

Lemma st_rename_spec (w w' : world obj) a b r :
  st_rename w a b = (w', r) →
  (r = ROk tt → ∃ x, w_store w !! a = Some x ∧ w_store w' = <[b := x]> (delete a (w_store w))) ∧
  (r ≠ ROk tt → w_store w' = w_store w) ∧
  (r = RCrash → w_crashed w' = true) ∧ (w_crashed w = true → w_crashed w' = true).
Proof.
  unfold st_rename. destruct (w_io w) as [|[|e] io].
  - intros [= <- <-]; simpl. repeat split; auto; discriminate.
  - destruct (w_store w !! a) as [x|] eqn:Ha; intros [= <- <-]; simpl;
      repeat split; auto; try discriminate; try congruence. eauto.
  - intros [= <- <-]; simpl. repeat split; auto; discriminate.
Qed.

Lemma st_delete_spec (w w' : world obj) n r :
  st_delete w n = (w', r) →
  (∀ k, k ≠ n → w_store w' !! k = w_store w !! k) ∧
  (r = RCrash → w_crashed w' = true) ∧ (w_crashed w = true → w_crashed w' = true).
Proof.
  unfold st_delete. destruct (w_io w) as [|[|e] io]; intros [= <- <-]; simpl;
    repeat split; auto; try discriminate. intros. by rewrite lookup_delete_ne.
Qed.

Lemma load_or_create_spec (w w' : world obj) rid r :
  load_or_create w rid = (w', r) →
  w_store w' = w_store w ∧
  (∀ m, r = ROk m → cur_manifest (w_store w) rid = Some m) ∧
  (r = RCrash → w_crashed w' = true) ∧ (w_crashed w = true → w_crashed w' = true).
Proof.
  unfold load_or_create. destruct (st_get w NMan) as [w1 g] eqn:Hg.
  apply st_get_spec in Hg as (Hs & Hr & Hc & Hm). unfold cur_manifest.
  destruct g as [[[[]|]|]| |]; intros [= <- <-]; repeat split; auto; try discriminate;
    intros m' [= <-]; destruct Hr as [Hr|[Hr|[Hr|Hr]]]; try discriminate;
    injection Hr as Hr; try (by rewrite <- Hr);
    destruct (w_store w !! NMan); simpl in Hr; try discriminate; done.
Qed.

Lemma save_spec (w w' : world obj) m r :
  save w m = (w', r) →
  (∀ k, k ≠ NTmp → k ≠ NMan → w_store w' !! k = w_store w !! k) ∧
  (r = ROk tt → w_store w' !! NMan = Some (Whole (OMan m))) ∧
  (r ≠ ROk tt → w_store w' !! NMan = w_store w !! NMan) ∧
  (r = RCrash → w_crashed w' = true) ∧ (w_crashed w = true → w_crashed w' = true).
Proof.
  unfold save. destruct (st_put w NTmp (OMan m)) as [w1 r1] eqn:Hp.
  apply st_put_spec in Hp as (Hk & Hok & Hcr & Hm).
  destruct r1 as [[]| |].
  - intros Hr. apply st_rename_spec in Hr as (Hrok & Hrne & Hrc & Hrm).
    specialize (Hok eq_refl). destruct r as [[]| |].
    + destruct (Hrok eq_refl) as (x & Hx & Hst). rewrite Hst. repeat split; auto; try done.
      * intros k H1 H2. rewrite lookup_insert_ne, lookup_delete_ne by done. by apply Hk.
      * intros _. rewrite lookup_insert. congruence.
    + rewrite (Hrne ltac:(discriminate)). repeat split; auto; try discriminate;
        try (intros _; by apply Hk).
    + rewrite (Hrne ltac:(discriminate)). repeat split; auto; try discriminate;
        try (intros _; by apply Hk).
  - intros [= <- <-]. repeat split; auto; try discriminate; try (intros _; by apply Hk).
  - intros [= <- <-]. repeat split; auto; try discriminate; try (intros _; by apply Hk);
      try (intros _; by apply Hcr).
Qed.

(* ---------- small list facts ---------- *)
Lemma in_insert_seg x l s : In s (insert_seg x l) ↔ s = x ∨ In s l.
Proof.
  induction l as [|y l IH]; simpl; [intuition|].
  destruct (si_id y <? si_id x); simpl; rewrite ?IH; intuition.
Qed.

Lemma in_insert_by {A} (f : A → N) x l y : In y (insert_by f x l) ↔ y = x ∨ In y l.
Proof.
  induction l as [|z l IH]; simpl; [intuition|].
  destruct (f x <? f z); simpl; rewrite ?IH; intuition.
Qed.
Lemma in_sort_by {A} (f : A → N) l y : In y (sort_by f l) ↔ In y l.
Proof.
  unfold sort_by. assert (H : ∀ acc, In y (fold_left (λ a x, insert_by f x a) l acc) ↔ In y acc ∨ In y l).
  { induction l as [|x l IH]; intros acc; simpl; [intuition|].
    rewrite IH, in_insert_by. intuition. }
  rewrite H. simpl. intuition.
Qed.

(* ---------- the invariant ---------- *)
Definition agree_on (m : manifest) (st st' : gmap name (sobj obj)) : Prop :=
  (∀ s, In s (m_segs m) → st' !! si_key s = st !! si_key s) ∧
  (∀ ci, m_ck m = Some ci → st' !! ci_key ci = st !! ci_key ci).

Lemma agree_on_frame st st' m :
  man_good st m →
  (∀ k, (k = NTmp ∨ k = NMan ∨ ∃ i, k = NSeg i ∧ m_next m <= i) ∨ st' !! k = st !! k) →
  agree_on m st st'.
Proof.
  intros [Hs Hc] Hf. split.
  - intros s Hin. rewrite Forall_forall in Hs. destruct (Hs s) as (Hk & Hlt & _).
    { by apply elem_of_list_In. }
    destruct (Hf (si_key s)) as [[H|[H|(i & H & Hi)]]|H]; try done; rewrite Hk in H; try discriminate.
    injection H as <-. lia.
  - intros ci Hci. unfold ck_ok in Hc. rewrite Hci in Hc. destruct Hc as (_ & (i & Hk) & _).
    destruct (Hf (ci_key ci)) as [[H|[H|(j & H & _)]]|H]; try done; rewrite Hk in H; discriminate.
Qed.

Lemma man_good_agree st st' m : agree_on m st st' → man_good st m → man_good st' m.
Proof.
  intros [Ha Hb] [Hs Hc]. split.
  - rewrite Forall_forall in *. intros s Hin. destruct (Hs s Hin) as (H1 & H2 & ds & H3).
    repeat split; auto. exists ds. rewrite Ha; [done|]. by apply elem_of_list_In.
  - unfold ck_ok in *. destruct (m_ck m) as [ci|] eqn:Hci; [|done].
    destruct Hc as (H1 & H2 & kvs & H3). repeat split; auto. exists kvs. by rewrite (Hb ci).
Qed.

Section inv.
  Variable cov : delta → delta → Prop.
  Hypothesis cov_refl : ∀ d, cov d d.
  Hypothesis cov_trans : ∀ a b c, cov a b → cov b c → cov a c.

  Definition vis (m : manifest) (s : seginfo) : Prop :=
    match m_ck m with None => True | Some ci => ci_last ci < si_id s end.
  Definition covered (st : gmap name (sobj obj)) (m : manifest) (d : delta) : Prop :=
    ∃ s ds d', In s (m_segs m) ∧ vis m s ∧ st !! si_key s = Some (Whole (OSeg ds)) ∧
               In d' ds ∧ cov d' d.
  Definition Good (st : gmap name (sobj obj)) (m : manifest) (conf : list delta) : Prop :=
    man_good st m ∧ ∀ d, In d conf → covered st m d.
  Definition Inv (st : gmap name (sobj obj)) (conf : list delta) : Prop :=
    ∀ rid, ∃ m, cur_manifest st rid = Some m ∧ Good st m conf.

  Lemma good_agree st st' m conf : agree_on m st st' → Good st m conf → Good st' m conf.
  Proof.
    intros Ha [Hg Hc]. split; [by eapply man_good_agree|].
    intros d Hd. destruct (Hc d Hd) as (s & ds & d' & H1 & H2 & H3 & H4 & H5).
    exists s, ds, d'. repeat split; auto. destruct Ha as [Ha _]. by rewrite Ha.
  Qed.

  Lemma inv_agree st st' conf :
    st' !! NMan = st !! NMan →
    (∀ rid m, cur_manifest st rid = Some m → man_good st m → agree_on m st st') →
    Inv st conf → Inv st' conf.
  Proof.
    intros Hm Ha HI rid. destruct (HI rid) as (m & Hc & Hg). exists m. split.
    - unfold cur_manifest in *. by rewrite Hm.
    - eapply good_agree; [|done]. eapply Ha; [done|]. apply Hg.
  Qed.

  (* a change confined to the temp manifest and to segment names not yet allocated *)
  Lemma inv_frame st st' conf :
    st' !! NMan = st !! NMan →
    (∀ rid m, cur_manifest st rid = Some m →
       ∀ k, (k = NTmp ∨ k = NMan ∨ ∃ i, k = NSeg i ∧ m_next m <= i) ∨ st' !! k = st !! k) →
    Inv st conf → Inv st' conf.
  Proof.
    intros Hm Hf. apply inv_agree; [done|]. intros rid m Hc Hg.
    apply agree_on_frame; [done|]. by apply (Hf rid).
  Qed.

  Lemma inv_install st m conf :
    st !! NMan = Some (Whole (OMan m)) → Good st m conf → Inv st conf.
  Proof. intros Hm Hg rid. exists m. unfold cur_manifest. by rewrite Hm. Qed.

  Lemma inv_cur st conf rid m : Inv st conf → cur_manifest st rid = Some m → Good st m conf.
  Proof. intros HI Hc. destruct (HI rid) as (m' & Hc' & Hg). congruence. Qed.
End inv.

Lemma cur_manifest_rid st r1 r2 m1 m2 :
  cur_manifest st r1 = Some m1 → cur_manifest st r2 = Some m2 →
  m_segs m1 = m_segs m2 ∧ m_ck m1 = m_ck m2 ∧ m_next m1 = m_next m2.
Proof.
  unfold cur_manifest. destruct (st !! NMan) as [[[]|]|]; intros [= <-] [= <-]; auto.
Qed.

Section flush.
  Variable cov : delta → delta → Prop.
  Hypothesis cov_refl : ∀ d, cov d d.

  (* installing a manifest that lists one more, freshly written segment *)
  Lemma good_extend st st' m m' conf x ds :
    Good cov st m conf →
    agree_on m st st' →
    m_ck m' = m_ck m → m_next m < m_next m' →
    (∀ s, In s (m_segs m') ↔ s = x ∨ In s (m_segs m)) →
    si_id x = m_next m → si_key x = NSeg (m_next m) →
    st' !! NSeg (m_next m) = Some (Whole (OSeg ds)) →
    Good cov st' m' (conf ++ ds).
  Proof.
    intros Hg Ha Hck Hnx Hin Hid Hkey Hobj.
    apply (good_agree cov _ _ _ _ Ha) in Hg. destruct Hg as [[Hs Hc] Hcov].
    assert (Hvis : ∀ s, vis m' s ↔ vis m s) by (intros s; unfold vis; by rewrite Hck).
    split; [split|].
    - rewrite Forall_forall in *. intros s Hs'. apply elem_of_list_In, Hin in Hs' as [->|Hs'].
      + repeat split; [by rewrite Hkey, Hid|lia|]. exists ds. by rewrite Hkey.
      + destruct (Hs s) as (H1 & H2 & H3); [by apply elem_of_list_In|]. repeat split; auto. lia.
    - unfold ck_ok in *. rewrite Hck. destruct (m_ck m) as [ci|]; [|done].
      destruct Hc as (H1 & H2 & H3). repeat split; auto. lia.
    - intros d Hd. apply in_app_or in Hd as [Hd|Hd].
      + destruct (Hcov d Hd) as (s & ds' & d' & H1 & H2 & H3 & H4 & H5).
        exists s, ds', d'. repeat split; auto; [apply Hin; auto|by apply Hvis].
      + exists x, ds, d. repeat split; auto; [apply Hin; auto| |by rewrite Hkey].
        unfold vis. rewrite Hck. unfold ck_ok in Hc. destruct (m_ck m) as [ci|]; [|done]. lia.
  Qed.

  Definition new_of (p p' : pstate) : list delta := drop (length (ps_conf p)) (ps_conf p').
  Lemma new_of_same p p' : ps_conf p' = ps_conf p → new_of p p' = [].
  Proof. unfold new_of. intros ->. apply drop_all. Qed.

  Lemma flush_inv v p sz (w : world obj) p' w' r conf :
    flush v p sz w = (p', w', r) →
    ps_conf p' = ps_conf p ++ new_of p p' ∧
    (Inv cov (w_store w) conf → Inv cov (w_store w') (conf ++ new_of p p')).
  Proof.
    unfold flush. destruct (ps_buf p) as [|d0 ds0] eqn:Hb.
    { intros [= <- <- <-]. rewrite new_of_same, !app_nil_r by done. done. }
    set (ds := d0 :: ds0).
    destruct (load_or_create w (ps_rid p)) as [w1 r1] eqn:Hl.
    apply load_or_create_spec in Hl as (Hs1 & Hm1 & _ & _).
    assert (Hback : ps_conf (if v_restore v then p else PState (ps_rid p) [] 0 (ps_conf p) (ps_acc p)) = ps_conf p)
      by by destruct (v_restore v).
    assert (Hsame : ∀ q st, ps_conf q = ps_conf p → (Inv cov (w_store w) conf → Inv cov st conf) →
              ps_conf q = ps_conf p ++ new_of p q ∧ (Inv cov (w_store w) conf → Inv cov st (conf ++ new_of p q))).
    { intros q st Hq HI. rewrite (new_of_same _ _ Hq), !app_nil_r. done. }
    destruct r1 as [m| |]; [|intros [= <- <- <-]; apply Hsame; [done|by rewrite Hs1]..].
    specialize (Hm1 m eq_refl). unfold alloc_id.
    destruct (negb (man_ok _)).
    { intros [= <- <- <-]. apply Hsame; [done|by rewrite Hs1]. }
    destruct (st_put w1 (NSeg (m_next m)) (OSeg ds)) as [w2 r2] eqn:Hp.
    apply st_put_spec in Hp as (Hk2 & Hok2 & _ & _).
    intros Hrest.
    assert (HI2 : Inv cov (w_store w) conf → Inv cov (w_store w2) conf).
    { intros HI. eapply inv_frame; [| |exact HI].
      - rewrite Hk2 by done. by rewrite Hs1.
      - intros rid m' Hc k. destruct (decide (k = NSeg (m_next m))) as [->|Hne].
        + left. right. right. exists (m_next m). split; [done|].
          destruct (cur_manifest_rid _ _ _ _ _ Hc Hm1) as (_ & _ & ->). lia.
        + right. rewrite Hk2 by done. by rewrite Hs1. }
    revert Hrest. destruct r2 as [[]| |]; [|intros [= <- <- <-]; by apply Hsame..].
    specialize (Hok2 eq_refl).
    set (m1 := Manifest (m_version m) (m_rid m) (m_segs m) (m_ck m) (m_next m + 1)).
    set (x := SegInfo (m_next m) (NSeg (m_next m)) (N.of_nat (length ds)) sz (min_time ds) (max_time ds)).
    destruct (negb (man_ok (add_segment m1 x))).
    { intros [= <- <- <-]. by apply Hsame. }
    destruct (save w2 (add_segment m1 x)) as [w3 r3] eqn:Hsv.
    apply save_spec in Hsv as (Hk3 & Hok3 & Hne3 & _ & _).
    assert (HI3 : r3 ≠ ROk tt → Inv cov (w_store w) conf → Inv cov (w_store w3) conf).
    { intros Hne HI. eapply inv_frame; [| |exact (HI2 HI)].
      + by apply Hne3.
      + intros rid m' Hc k. destruct (decide (k = NTmp)) as [->|H1]; [auto|].
        destruct (decide (k = NMan)) as [->|H2]; [auto|]. right. by apply Hk3. }
    destruct r3 as [[]| |]; [|intros [= <- <- <-]; apply Hsame; [done|by apply HI3]..].
    intros [= <- <- <-]. unfold new_of. simpl. rewrite drop_app. split; [done|].
    intros HI. eapply inv_install; [by apply Hok3|].
    assert (Hg : Good cov (w_store w) m conf) by (eapply inv_cur; eauto).
    eapply (good_extend _ _ m _ _ x ds Hg); simpl; auto.
    + apply agree_on_frame; [apply Hg|]. intros k.
      destruct (decide (k = NTmp)) as [->|H1]; [auto|].
      destruct (decide (k = NMan)) as [->|H2]; [auto|].
      destruct (decide (k = NSeg (m_next m))) as [->|H3].
      * left. right. right. exists (m_next m). split; [done|lia].
      * right. rewrite Hk3, Hk2 by done. by rewrite Hs1.
    + destruct (m_next m + 1 <=? m_next m) eqn:E; [apply N.leb_le in E|]; lia.
    + intros s. apply in_insert_seg.
    + rewrite Hk3 by done. done.
  Qed.
End flush.

(* ---------- compaction ---------- *)
Lemma in_take {A} n (l : list A) x : In x (take n l) → In x l.
Proof. intros H. rewrite <- (take_drop n l). apply in_or_app. auto. Qed.

Lemma select_sub c m s : In s (select c m) → In s (m_segs m).
Proof.
  unfold select. intros H%in_take. apply in_sort_by in H.
  apply elem_of_list_In, elem_of_list_filter in H as [_ H]. by apply elem_of_list_In.
Qed.

Lemma in_without ids l s : In s (without ids l) ↔ In s l ∧ ¬ In (si_id s) ids.
Proof.
  unfold without. rewrite <- !elem_of_list_In, elem_of_list_filter, !elem_of_list_In.
  split; intros [H1 H2]; split; auto.
  - intros Hin. apply Is_true_true in H1. apply negb_true_iff in H1.
    assert (existsb (N.eqb (si_id s)) ids = true); [|congruence].
    apply existsb_exists. exists (si_id s). split; [done|apply N.eqb_refl].
  - apply Is_true_true, negb_true_iff. destruct (existsb _ _) eqn:E; [|done].
    apply existsb_exists in E as (i & Hi & He). apply N.eqb_eq in He. subst. done.
Qed.

Lemma read_segs_store v (w : world obj) segs a w' r :
  read_segs v w segs a = (w', r) → w_store w' = w_store w.
Proof.
  revert w a. induction segs as [|s segs IH]; intros w a; simpl.
  { by intros [= <- <-]. }
  destruct (st_get w (si_key s)) as [w1 g] eqn:Hg.
  apply st_get_spec in Hg as (Hs & _).
  destruct g as [[[[]|]|]| |]; try (intros H%IH; congruence); try (intros [= <- <-]; congruence).
  destruct (v_strict_get v); [intros [= <- <-]; congruence|intros H%IH; congruence].
Qed.

Lemma read_segs_ok v (w : world obj) segs a w' a' :
  v_strict_get v = true →
  (∀ s, In s segs → ∃ ds, w_store w !! si_key s = Some (Whole (OSeg ds))) →
  read_segs v w segs a = (w', ROk a') →
  ∃ act, (∀ s, In s act → In s segs) ∧
  ca_actual a' = ca_actual a ++ act ∧ ca_missing a' = ca_missing a ∧
  ca_map a' = fold_left (absorb v) (flat_map (seg_deltas (w_store w)) act) (ca_map a).
Proof.
  intros Hv. revert w a. induction segs as [|s segs IH]; intros w a Hex; simpl.
  { intros [= <- <-]. exists []. by rewrite app_nil_r. }
  destruct (st_get w (si_key s)) as [w1 g] eqn:Hg.
  apply st_get_spec in Hg as (Hs & Hr & _).
  destruct (Hex s (or_introl eq_refl)) as (ds & Hds).
  assert (Hex' : ∀ s', In s' segs → ∃ ds', w_store w1 !! si_key s' = Some (Whole (OSeg ds'))).
  { intros s' Hs'. rewrite Hs. apply Hex. by right. }
  destruct Hr as [ -> | [ -> | [ -> | -> ] ] ]; [discriminate| | |].
  { rewrite Hv. discriminate. }
  - (* a clean read *)
    rewrite Hds. intros H. apply IH in H as (act & Hsub & H1 & H2 & H3); [|done].
    simpl in H1, H2, H3. exists (s :: act). split; [|split; [|split]].
    + intros s' [<-|Hs']; [by left|right; auto].
    + by rewrite H1, <- app_assoc.
    + done.
    + rewrite H3, Hs. simpl. rewrite fold_left_app. f_equal. unfold seg_deltas. by rewrite Hds.
  - (* the bytes arrived damaged: the segment is skipped and stays listed *)
    rewrite Hds. simpl. intros H. apply IH in H as (act & Hsub & H1 & H2 & H3); [|done].
    exists act. split; [|split; [|split]]; auto. by rewrite H3, Hs.
Qed.

Lemma delete_all_spec (w : world obj) ns w' dead :
  delete_all w ns = (w', dead) → ∀ k, ¬ In k ns → w_store w' !! k = w_store w !! k.
Proof.
  revert w. induction ns as [|n ns IH]; intros w; simpl.
  { by intros [= <- <-]. }
  destruct (st_delete w n) as [w1 g] eqn:Hd. apply st_delete_spec in Hd as (Hk & _).
  intros H k Hn.
  assert (Hk1 : w_store w1 !! k = w_store w !! k) by (apply Hk; intros ->; apply Hn; by left).
  destruct g; try (rewrite (IH _ H); [done|intros ?; apply Hn; by right]).
  injection H as <- <-. done.
Qed.

Section compact.
  Variable cov : delta → delta → Prop.
  Hypothesis cov_trans : ∀ a b c, cov a b → cov b c → cov a c.

  (* installing a manifest in which the segments with ids in [ids] are replaced by [xs]
     (zero or one new segment holding [out]) *)
  Lemma good_replace st st' m m' conf ids (xs : list seginfo) out :
    Good cov st m conf →
    m_ck m' = m_ck m → m_next m <= m_next m' →
    (∀ s, In s (m_segs m') ↔ In s xs ∨ (In s (m_segs m) ∧ ¬ In (si_id s) ids)) →
    (∀ s, In s (m_segs m) → ¬ In (si_id s) ids → st' !! si_key s = st !! si_key s) →
    (∀ ci, m_ck m = Some ci → st' !! ci_key ci = st !! ci_key ci) →
    (∀ x, In x xs → si_key x = NSeg (si_id x) ∧ si_id x < m_next m' ∧ m_next m <= si_id x ∧
                    st' !! si_key x = Some (Whole (OSeg out))) →
    (conf ≠ [] →
     ∀ s ds d, In s (m_segs m) → In (si_id s) ids → st !! si_key s = Some (Whole (OSeg ds)) →
               In d ds → ∃ x d', In x xs ∧ In d' out ∧ cov d' d) →
    Good cov st' m' conf.
  Proof.
    intros [[Hs Hc] Hcov] Hck Hnx Hin Hkeep Hckk Hnew Hrep.
    rewrite Forall_forall in Hs.
    split; [split|].
    - rewrite Forall_forall. intros s Hs'. apply elem_of_list_In, Hin in Hs' as [Hx|[Hs' Hni]].
      + destruct (Hnew s Hx) as (H1 & H2 & H3 & H4). repeat split; auto. eauto.
      + destruct (Hs s) as (H1 & H2 & ds & H3); [by apply elem_of_list_In|].
        repeat split; auto; [lia|]. exists ds. by rewrite Hkeep.
    - unfold ck_ok in *. rewrite Hck. destruct (m_ck m) as [ci|] eqn:Hci; [|done].
      destruct Hc as (H1 & H2 & kvs & H3). repeat split; auto; [lia|]. exists kvs. by rewrite (Hckk ci).
    - intros d Hd. destruct (Hcov d Hd) as (s & ds & d' & H1 & H2 & H3 & H4 & H5).
      destruct (in_dec N.eq_dec (si_id s) ids) as [Hi|Hi].
      + assert (Hne : conf ≠ []) by (intros ->; destruct Hd).
        destruct (Hrep Hne s ds d' H1 Hi H3 H4) as (x & d'' & Hx & Hd'' & Hc'').
        destruct (Hnew x Hx) as (K1 & K2 & K3 & K4).
        exists x, out, d''. repeat split; auto.
        * apply Hin. auto.
        * unfold vis. rewrite Hck. unfold ck_ok in Hc. destruct (m_ck m) as [ci|]; [|done]. lia.
        * eauto.
      + exists s, ds, d'. repeat split; auto.
        * apply Hin. auto.
        * unfold vis in *. by rewrite Hck.
        * by rewrite Hkeep.
  Qed.
End compact.

Section compact_inv.
  Variable cov : delta → delta → Prop.
  Hypothesis cov_trans : ∀ a b c, cov a b → cov b c → cov a c.
  Variable v : variant.
  Hypothesis Hstrict : v_strict_get v = true.
  (* what the compaction writes covers everything it read (tombstone GC inactive) *)
  Hypothesis Hcf : ∀ ds d, In d ds →
    ∃ d', In d' (compact_out 0 (fold_left (absorb v) ds ∅)) ∧ cov d' d.

  Lemma compact_inv c now sz (w : world obj) w' r conf :
    conf = [] ∨ now <= cc_ttl c →
    compact v c now sz w = (w', r) →
    Inv cov (w_store w) conf → Inv cov (w_store w') conf.
  Proof.
    intros Hnow. unfold compact.
    destruct (load_or_create w 0) as [w1 r1] eqn:Hl.
    apply load_or_create_spec in Hl as (Hs1 & Hm1 & _ & _).
    destruct r1 as [m| |]; [|intros [= <- <-]; by rewrite Hs1..].
    specialize (Hm1 m eq_refl). unfold compact_rest.
    destruct (N.of_nat (length (select c m)) <? cc_min c). { intros [= <- <-]; by rewrite Hs1. }
    set (cutoff := now - cc_ttl c).
    destruct (read_segs v w1 (select c m) (CAcc ∅ 0 [] [])) as [w2 r2] eqn:Hr.
    pose proof (read_segs_store _ _ _ _ _ _ Hr) as Hs2.
    destruct r2 as [a| |]; [|intros [= <- <-]; by rewrite Hs2, Hs1..].
    intros Hrest HI.
    assert (Hg : Good cov (w_store w) m conf) by (eapply inv_cur; eauto).
    assert (Hsegok : ∀ s, In s (m_segs m) → seg_ok (w_store w) m s).
    { intros s Hs. destruct Hg as [[Hf _] _]. rewrite Forall_forall in Hf. by apply Hf, elem_of_list_In. }
    apply read_segs_ok in Hr as (act & Hact & Ha & Hmi & Hmap); [|done|].
    2: { intros s Hs. rewrite Hs1. by destruct (Hsegok s (select_sub _ _ _ Hs)) as (_ & _ & H). }
    simpl in Ha, Hmi, Hmap. rewrite Hs1 in Hmap.
    set (st := w_store w) in *.
    assert (Hsub : ∀ s, In s act → In s (m_segs m)) by (intros s Hs; apply (select_sub c), Hact, Hs).
    assert (Hselkey : ∀ s, In s act → si_key s = NSeg (si_id s) ∧ si_id s < m_next m).
    { intros s Hs. destruct (Hsegok s (Hsub s Hs)) as (H1 & H2 & _). auto. }
    assert (Hrep : conf ≠ [] → ∀ s ds d, In s (m_segs m) → In (si_id s) (map si_id (ca_actual a)) →
              st !! si_key s = Some (Whole (OSeg ds)) → In d ds →
              ∃ d', In d' (compact_out cutoff (ca_map a)) ∧ cov d' d).
    { intros Hne s ds d Hs Hi Hobj Hd. destruct Hnow as [->|Hnow]; [done|].
      replace cutoff with 0 by (unfold cutoff; lia). rewrite Ha in Hi. apply in_map_iff in Hi as (s' & Hid & Hs').
      rewrite Hmap. apply Hcf. apply in_flat_map. exists s'. split; [done|].
      unfold seg_deltas. destruct (Hselkey s' Hs') as [Hk' _]. destruct (Hsegok s Hs) as (Hk & _).
      rewrite Hk', Hid, <- Hk, Hobj. done. }
    assert (Hnotdel : ∀ k, (∀ s', In s' act → k ≠ NSeg (si_id s')) → ¬ In k (map si_key (ca_actual a))).
    { intros k Hk Hin. rewrite Ha in Hin. apply in_map_iff in Hin as (s' & Hks & Hs').
      destruct (Hselkey s' Hs') as [Hk' _]. apply (Hk s' Hs'). congruence. }
    assert (Hkeepdel : ∀ s, In s (m_segs m) → ¬ In (si_id s) (map si_id (ca_actual a)) →
              ¬ In (si_key s) (map si_key (ca_actual a))).
    { intros s Hs Hni. apply Hnotdel. intros s' Hs' Heq. destruct (Hsegok s Hs) as (Hk & _).
      rewrite Hk in Heq. injection Heq as Heq. apply Hni. rewrite Ha. apply in_map_iff. eauto. }
    revert Hrest. rewrite Hmi. rewrite (bool_decide_true ([] = [])) by done. cbn [negb andb].
    destruct (N.of_nat (length (ca_actual a)) <? cc_min c).
    { intros [= <- <-]. by rewrite Hs2, Hs1. }
    destruct (compact_out cutoff (ca_map a)) as [|o outs] eqn:Hout.
    - (* nothing survives: only the manifest is rewritten *)
      destruct (save w2 _) as [w3 r3] eqn:Hsv.
      apply save_spec in Hsv as (Hk3 & Hok3 & Hne3 & _ & _).
      assert (HI3 : r3 ≠ ROk tt → Inv cov (w_store w3) conf).
      { intros Hne. eapply inv_frame; [| |exact HI].
        - rewrite (Hne3 Hne). by rewrite Hs2, Hs1.
        - intros rid m' Hc k. destruct (decide (k = NTmp)) as [->|H1]; [auto|].
          destruct (decide (k = NMan)) as [->|H2]; [auto|]. right. rewrite Hk3 by done. by rewrite Hs2, Hs1. }
      destruct r3 as [[]| |]; [|intros [= <- <-]; by apply HI3..].
      destruct (delete_all w3 _) as [w4 dead] eqn:Hd.
      pose proof (delete_all_spec _ _ _ _ Hd) as Hk4.
      intros Hfin. assert (w' = w4) as -> by (by destruct dead; injection Hfin). clear Hfin.
      eapply inv_install.
      { rewrite Hk4; [by apply Hok3|]. apply Hnotdel. intros; discriminate. }
      eapply (good_replace cov cov_trans st _ m _ conf (map si_id (ca_actual a)) [] [] Hg); simpl.
      + reflexivity.
      + lia.
      + intros s. rewrite in_without. tauto.
      + intros s Hs Hni. destruct (Hsegok s Hs) as (Hk & _).
        rewrite Hk4 by (by apply Hkeepdel). rewrite Hk3 by (rewrite Hk; discriminate).
        by rewrite Hs2, Hs1.
      + intros ci Hci. destruct Hg as [[_ Hc] _]. unfold ck_ok in Hc. rewrite Hci in Hc.
        destruct Hc as (_ & (i & Hi) & _).
        rewrite Hk4 by (apply Hnotdel; intros; rewrite Hi; discriminate).
        rewrite Hk3 by (rewrite Hi; discriminate). by rewrite Hs2, Hs1.
      + intros x [].
      + intros Hne s ds d H1 H2 H3 H4. destruct (Hrep Hne s ds d H1 H2 H3 H4) as (d' & [] & _).
    - (* a new segment is written, then the manifest is swapped, then inputs are deleted *)
      set (out := o :: outs) in *.
      destruct (st_put w2 (NSeg (m_next m)) (OSeg out)) as [w3 r3] eqn:Hp.
      apply st_put_spec in Hp as (Hk3 & Hok3 & _ & _).
      assert (HI3 : Inv cov (w_store w3) conf).
      { eapply inv_frame; [| |exact HI].
        - rewrite Hk3 by done. by rewrite Hs2, Hs1.
        - intros rid m' Hc k. destruct (decide (k = NSeg (m_next m))) as [->|Hne].
          + left. right. right. exists (m_next m). split; [done|].
            destruct (cur_manifest_rid _ _ _ _ _ Hc Hm1) as (_ & _ & ->). lia.
          + right. rewrite Hk3 by done. by rewrite Hs2, Hs1. }
      destruct r3 as [[]| |]; [|by intros [= <- <-]..].
      specialize (Hok3 eq_refl).
      set (seg := SegInfo (m_next m) (NSeg (m_next m)) (N.of_nat (length out)) sz (min_time out) (max_time out)).
      set (m0 := Manifest (m_version m) (m_rid m) (without (map si_id (ca_actual a)) (m_segs m)) (m_ck m) (m_next m)).
      destruct (negb (man_ok (add_segment m0 seg))). { by intros [= <- <-]. }
      destruct (save w3 _) as [w4 r4] eqn:Hsv.
      apply save_spec in Hsv as (Hk4 & Hok4 & Hne4 & _ & _).
      assert (HI4 : r4 ≠ ROk tt → Inv cov (w_store w4) conf).
      { intros Hne. eapply inv_frame; [| |exact HI3].
        - by rewrite (Hne4 Hne).
        - intros rid m' Hc k. destruct (decide (k = NTmp)) as [->|H1]; [auto|].
          destruct (decide (k = NMan)) as [->|H2]; [auto|]. right. by rewrite Hk4. }
      destruct r4 as [[]| |]; [|intros [= <- <-]; by apply HI4..].
      destruct (delete_all w4 _) as [w5 dead] eqn:Hd.
      pose proof (delete_all_spec _ _ _ _ Hd) as Hk5.
      intros Hfin. assert (w' = w5) as -> by (by destruct dead; injection Hfin). clear Hfin.
      eapply inv_install.
      { rewrite Hk5; [by apply Hok4|]. apply Hnotdel. intros; discriminate. }
      assert (Hnewkey : ¬ In (NSeg (m_next m)) (map si_key (ca_actual a))).
      { apply Hnotdel. intros s' Hs' [= Heq]. destruct (Hselkey s' Hs') as [_ Hlt]. lia. }
      eapply (good_replace cov cov_trans st _ m _ conf (map si_id (ca_actual a)) [seg] out Hg); simpl.
      + reflexivity.
      + lia.
      + intros s. rewrite in_insert_seg, in_without. intuition.
      + intros s Hs Hni. destruct (Hsegok s Hs) as (Hk & Hlt & _).
        rewrite Hk5 by (by apply Hkeepdel). rewrite Hk4 by (rewrite Hk; discriminate).
        rewrite Hk3 by (rewrite Hk; intros [= Heq]; lia). by rewrite Hs2, Hs1.
      + intros ci Hci. destruct Hg as [[_ Hc] _]. unfold ck_ok in Hc. rewrite Hci in Hc.
        destruct Hc as (_ & (i & Hi) & _).
        rewrite Hk5 by (apply Hnotdel; intros; rewrite Hi; discriminate).
        rewrite Hk4 by (rewrite Hi; discriminate).
        rewrite Hk3 by (rewrite Hi; discriminate). by rewrite Hs2, Hs1.
      + intros x [<-|[]]. simpl. repeat split; [lia|lia|].
        rewrite Hk5 by done. rewrite Hk4 by discriminate. done.
      + intros Hne s ds d H1 H2 H3 H4. destruct (Hrep Hne s ds d H1 H2 H3 H4) as (d' & Hd' & Hc').
        exists seg, d'. auto.
  Qed.
End compact_inv.

(* ---------- what a compaction writes covers what it read ---------- *)
Definition absorb_val (v : variant) (e d : delta) : delta :=
  if v_merge v then Delta (d_key e) (rv_merge (d_val e) (d_val d)) (d_src e)
  else if d_time e <? d_time d then d else e.

Lemma absorb_some v m d e :
  m !! d_key d = Some e → absorb v m d = <[d_key d := absorb_val v e d]> m.
Proof.
  intros He. unfold absorb, absorb_val. rewrite He.
  destruct (v_merge v); [done|]. destruct (d_time e <? d_time d); [done|].
  by rewrite insert_id.
Qed.

Section content.
  Variable cov : delta → delta → Prop.
  Variable v : variant.
  Hypothesis cov_refl : ∀ d, cov d d.
  Hypothesis cov_step : ∀ e d, d_key e = d_key d →
    d_key (absorb_val v e d) = d_key d ∧ cov (absorb_val v e d) d ∧
    ∀ d0, cov e d0 → cov (absorb_val v e d) d0.

  Definition content_inv (m : gmap (list N) delta) (seen : list delta) : Prop :=
    (∀ k e, m !! k = Some e → d_key e = k) ∧
    (∀ d, In d seen → ∃ e, m !! d_key d = Some e ∧ cov e d).

  Lemma content_step m seen d :
    content_inv m seen → content_inv (absorb v m d) (seen ++ [d]).
  Proof.
    intros [Hk Hc]. destruct (m !! d_key d) as [e|] eqn:He.
    - rewrite (absorb_some _ _ _ _ He). destruct (cov_step e d (Hk _ _ He)) as (S1 & S2 & S3). split.
      + intros k e'. destruct (decide (k = d_key d)) as [->|Hne].
        * rewrite lookup_insert. by intros [= <-].
        * rewrite lookup_insert_ne by done. apply Hk.
      + intros d0 Hd0. apply in_app_or in Hd0 as [Hd0|[<-|[]]].
        * destruct (Hc d0 Hd0) as (e0 & H1 & H2).
          destruct (decide (d_key d0 = d_key d)) as [Heq|Hne].
          -- rewrite Heq, lookup_insert. eexists; split; [done|]. apply S3.
             rewrite Heq in H1. congruence.
          -- rewrite lookup_insert_ne by done. eauto.
        * rewrite lookup_insert. eauto.
    - unfold absorb. rewrite He. split.
      + intros k e'. destruct (decide (k = d_key d)) as [->|Hne].
        * rewrite lookup_insert. by intros [= <-].
        * rewrite lookup_insert_ne by done. apply Hk.
      + intros d0 Hd0. apply in_app_or in Hd0 as [Hd0|[<-|[]]].
        * destruct (Hc d0 Hd0) as (e0 & H1 & H2).
          destruct (decide (d_key d0 = d_key d)) as [Heq|Hne]; [rewrite Heq in H1; congruence|].
          rewrite lookup_insert_ne by done. eauto.
        * rewrite lookup_insert. eauto.
  Qed.

  Lemma content_fold ds m seen :
    content_inv m seen → content_inv (fold_left (absorb v) ds m) (seen ++ ds).
  Proof.
    revert m seen. induction ds as [|d ds IH]; intros m seen H; simpl.
    - by rewrite app_nil_r.
    - replace (seen ++ d :: ds) with ((seen ++ [d]) ++ ds) by (by rewrite <- app_assoc).
      apply IH. by apply content_step.
  Qed.

  Lemma compact_covers ds d :
    In d ds → ∃ d', In d' (compact_out 0 (fold_left (absorb v) ds ∅)) ∧ cov d' d.
  Proof.
    intros Hd. destruct (content_fold ds ∅ []) as [_ Hc].
    { split; [intros k e; by rewrite lookup_empty|intros ? []]. }
    destruct (Hc d Hd) as (e & He & Hcov). exists e. split; [|done].
    unfold compact_out. apply in_sort_by, elem_of_list_In, elem_of_list_filter. split.
    - unfold keep_delta. destruct (d_time e <? 0) eqn:E; [apply N.ltb_lt in E; lia|].
      by rewrite andb_false_r.
    - apply elem_of_list_fmap. exists (d_key d, e). split; [done|]. by apply elem_of_map_to_list.
  Qed.
End content.

Lemma contains_trans a b c : Contains a b → Contains b c → Contains a c.
Proof. induction 1; intros Hbc; auto using Contains. Qed.
Lemma represents_refl d : represents d d.
Proof. split; [done|constructor]. Qed.
Lemma represents_trans a b c : represents a b → represents b c → represents a c.
Proof. intros [H1 H2] [H3 H4]. split; [congruence|]. by eapply contains_trans. Qed.
Lemma supersedes_refl d : supersedes d d.
Proof. split; [done|lia]. Qed.
Lemma supersedes_trans a b c : supersedes a b → supersedes b c → supersedes a c.
Proof. intros [H1 H2] [H3 H4]. split; [congruence|lia]. Qed.

Lemma represents_step v e d : v_merge v = true → d_key e = d_key d →
  d_key (absorb_val v e d) = d_key d ∧ represents (absorb_val v e d) d ∧
  ∀ d0, represents e d0 → represents (absorb_val v e d) d0.
Proof.
  intros Hv Hk. unfold absorb_val. rewrite Hv. split; [done|]. split.
  - split; [done|]. simpl. apply contains_r. constructor.
  - intros d0 [H1 H2]. split; [simpl; congruence|]. simpl. by apply contains_l.
Qed.
Lemma supersedes_step v e d : v_merge v = false → d_key e = d_key d →
  d_key (absorb_val v e d) = d_key d ∧ supersedes (absorb_val v e d) d ∧
  ∀ d0, supersedes e d0 → supersedes (absorb_val v e d) d0.
Proof.
  intros Hv Hk. unfold absorb_val. rewrite Hv.
  destruct (d_time e <? d_time d) eqn:E; [apply N.ltb_lt in E|apply N.ltb_ge in E].
  - split; [done|]. split; [apply supersedes_refl|]. intros d0 [H1 H2]. split; [congruence|lia].
  - split; [done|]. split; [by split|]. auto.
Qed.

(* ---------- recovery on a store satisfying the invariant ---------- *)
Lemma load_segs_all (st : gmap name (sobj obj)) l :
  (∀ s, In s l → ∃ ds, st !! si_key s = Some (Whole (OSeg ds))) →
  ∃ all, load_segs st l = Some all ∧
    ∀ s ds d, In s l → st !! si_key s = Some (Whole (OSeg ds)) → In d ds → In d all.
Proof.
  induction l as [|s l IH]; intros Hex; simpl.
  { exists []. split; [done|]. intros ? ? ? []. }
  destruct (Hex s (or_introl eq_refl)) as (ds & Hds).
  destruct IH as (rest & Hr & Hin); [intros; apply Hex; by right|].
  unfold load_seg. rewrite Hds, Hr. exists (ds ++ rest). split; [done|].
  intros s' ds' d [<-|Hs'] Hobj Hd; apply in_or_app.
  - left. congruence.
  - right. eauto.
Qed.

Lemma in_visible m s : In s (visible m) ↔ In s (m_segs m) ∧ vis m s.
Proof.
  unfold visible, vis. rewrite in_sort_by. destruct (m_ck m) as [ci|]; [|tauto].
  rewrite <- !elem_of_list_In, elem_of_list_filter, Is_true_true, N.ltb_lt. tauto.
Qed.

Section run.
  Variable cov : delta → delta → Prop.
  Hypothesis cov_refl : ∀ d, cov d d.
  Hypothesis cov_trans : ∀ a b c, cov a b → cov b c → cov a c.
  Variable c : pcfg.
  Hypothesis Hstrict : v_strict_get (pc_var c) = true.
  Hypothesis Hcf : ∀ ds d, In d ds →
    ∃ d', In d' (compact_out 0 (fold_left (absorb (pc_var c)) ds ∅)) ∧ cov d' d.

  Definition op_gc_off (op : wop) : Prop :=
    match op with WCompact now _ => now <= cc_ttl (pc_cc c) | _ => True end.

  Lemma inv_weaken st conf conf' :
    (∀ d, In d conf' → In d conf) → Inv cov st conf → Inv cov st conf'.
  Proof.
    intros Hsub HI rid. destruct (HI rid) as (m & Hc & Hg & Hcov). exists m.
    split; [done|]. split; [done|]. intros d Hd. apply Hcov. by apply Hsub.
  Qed.

  Lemma wstep_inv s op conf :
    conf = [] ∨ op_gc_off op → Inv cov (w_store (s_w s)) conf →
    Inv cov (w_store (s_w (wstep c s op))) (conf ++ new_of (s_p s) (s_p (wstep c s op))) ∧
    ps_conf (s_p (wstep c s op)) = ps_conf (s_p s) ++ new_of (s_p s) (s_p (wstep c s op)).
  Proof.
    intros Hop HI. destruct op as [d|sz|now sz]; simpl.
    - unfold push. destruct (_ <=? _); simpl; rewrite new_of_same, !app_nil_r by done; done.
    - destruct (flush (pc_var c) (s_p s) sz (s_w s)) as [[p w] r] eqn:Hf. simpl.
      destruct (flush_inv cov cov_refl _ _ _ _ _ _ _ conf Hf) as [H1 H2]. split; [|done].
      specialize (H2 HI). by destruct r.
    - destruct (compact (pc_var c) (pc_cc c) now sz (s_w s)) as [w r] eqn:Hc. simpl.
      rewrite new_of_same, !app_nil_r by done. split; [|done].
      eapply (compact_inv cov cov_trans (pc_var c) Hstrict Hcf) in Hc; [|exact Hop|exact HI].
      by destruct r.
  Qed.

  Lemma run_inv_from ops s conf0 :
    Forall op_gc_off ops → Inv cov (w_store (s_w s)) (conf0 ++ ps_conf (s_p s)) →
    let s' := fold_left (wstep c) ops s in
    Inv cov (w_store (s_w s')) (conf0 ++ ps_conf (s_p s')).
  Proof.
    revert s. induction ops as [|op ops IH]; intros s Hall HI; simpl; [done|].
    inversion Hall; subst. apply IH; [done|].
    destruct (wstep_inv s op _ (or_intror H1) HI) as [K1 K2]. by rewrite K2, app_assoc.
  Qed.

  (* without the GC hypothesis the store still only references complete objects *)
  Lemma run_ok_from ops s :
    Inv cov (w_store (s_w s)) [] → Inv cov (w_store (s_w (fold_left (wstep c) ops s))) [].
  Proof.
    revert s. induction ops as [|op ops IH]; intros s HI; simpl; [done|].
    apply IH. destruct (wstep_inv s op [] (or_introl eq_refl) HI) as [K1 _].
    eapply inv_weaken; [|exact K1]. intros ? [].
  Qed.

  Lemma inv_recover st conf rid :
    Inv cov st conf →
    ∃ rec, recover st rid = Some rec ∧ ∀ d, In d conf → ∃ d', In d' (r_deltas rec) ∧ cov d' d.
  Proof.
    intros HI. destruct (HI rid) as (m & Hc & [[Hs Hck] Hcov]).
    rewrite Forall_forall in Hs.
    destruct (load_segs_all st (visible m)) as (all & Hall & Hin).
    { intros s Hv%in_visible. destruct (Hs s) as (_ & _ & H); [apply elem_of_list_In; tauto|done]. }
    assert (Hd : ∀ d, In d conf → ∃ d', In d' all ∧ cov d' d).
    { intros d Hd. destruct (Hcov d Hd) as (s & ds & d' & H1 & H2 & H3 & H4 & H5).
      exists d'. split; [|done]. eapply Hin; eauto. apply in_visible. auto. }
    unfold recover. rewrite Hc. unfold ck_ok in Hck. destruct (m_ck m) as [ci|].
    - destruct Hck as (_ & _ & kvs & Hk). rewrite Hk, Hall. eexists; split; [done|]. done.
    - rewrite Hall. eexists; split; [done|]. done.
  Qed.
End run.

Lemma store_ok_inv cov st : store_ok st → Inv cov st [].
Proof.
  intros H rid. destruct (H rid) as (m & Hc & Hg). exists m. split; [done|]. split; [done|].
  intros ? [].
Qed.
Lemma inv_store_ok cov st conf : Inv cov st conf → store_ok st.
Proof. intros H rid. destruct (H rid) as (m & Hc & Hg & _). eauto. Qed.
Lemma store_ok_empty : store_ok ∅.
Proof.
  intros rid. exists (new_manifest rid). split; [done|]. split; [constructor|done].
Qed.

(* workloads without compaction: no hypothesis on the variant *)
Section run_nc.
  Variable cov : delta → delta → Prop.
  Hypothesis cov_refl : ∀ d, cov d d.
  Variable c : pcfg.
  Definition op_nc (op : wop) : Prop := match op with WCompact _ _ => False | _ => True end.

  Lemma run_inv_nc ops s conf0 :
    Forall op_nc ops → Inv cov (w_store (s_w s)) (conf0 ++ ps_conf (s_p s)) →
    let s' := fold_left (wstep c) ops s in
    Inv cov (w_store (s_w s')) (conf0 ++ ps_conf (s_p s')).
  Proof.
    revert s. induction ops as [|op ops IH]; intros s Hall HI; simpl; [done|].
    inversion Hall as [|? ? Hop Hall']; subst. apply IH; [done|].
    destruct op as [d|sz|now sz]; simpl; [| |done].
    - unfold push. by destruct (_ <=? _).
    - destruct (flush (pc_var c) (s_p s) sz (s_w s)) as [[p w] r] eqn:Hf. simpl.
      destruct (flush_inv cov cov_refl _ _ _ _ _ _ _ (conf0 ++ ps_conf (s_p s)) Hf) as [H1 H2].
      specialize (H2 HI). rewrite H1, app_assoc. by destruct r.
  Qed.
End run_nc.

(* ---------- the C12 lemmas ---------- *)
Definition same_key (d' d : delta) : Prop := d_key d' = d_key d.
Lemma same_key_step v e d : d_key e = d_key d →
  d_key (absorb_val v e d) = d_key d ∧ same_key (absorb_val v e d) d ∧
  ∀ d0, same_key e d0 → same_key (absorb_val v e d) d0.
Proof.
  intros Hk. unfold absorb_val, same_key.
  destruct (v_merge v); simpl; [repeat split; auto|].
  destruct (d_time e <? d_time d); repeat split; auto; congruence.
Qed.

Lemma refs_complete_lemma c rid st0 ops io :
  v_strict_get (pc_var c) = true → store_ok st0 →
  store_ok (w_store (s_w (run_persist c rid st0 ops io))).
Proof.
  intros Hv H0. apply (inv_store_ok same_key _ []). unfold run_persist.
  apply (run_ok_from same_key (λ d, eq_refl)); try done.
  - unfold same_key; congruence.
  - intros ds d. apply compact_covers; [by intros|apply same_key_step].
  - simpl. by apply store_ok_inv.
Qed.

Lemma gc_off_ops c ops : gc_off (pc_cc c) ops → Forall (op_gc_off c) ops.
Proof. unfold gc_off. intros H. eapply Forall_impl; [exact H|]. intros [] K; exact K. Qed.

Lemma confirmed_merge_lemma c rid rid' st0 ops io :
  v_strict_get (pc_var c) = true → v_merge (pc_var c) = true →
  store_ok st0 → gc_off (pc_cc c) ops →
  let s := run_persist c rid st0 ops io in
  ∃ rec, recover (w_store (s_w s)) rid' = Some rec ∧
    ∀ d, In d (ps_conf (s_p s)) → ∃ d', In d' (r_deltas rec) ∧ represents d' d.
Proof.
  intros Hv Hm H0 Hgc s. apply (inv_recover represents).
  apply (run_inv_from represents represents_refl represents_trans c Hv) with (conf0 := []).
  - intros ds d. apply compact_covers; [apply represents_refl|]. intros e d0. by apply represents_step.
  - by apply gc_off_ops.
  - simpl. by apply store_ok_inv.
Qed.

Lemma confirmed_select_lemma c rid rid' st0 ops io :
  v_strict_get (pc_var c) = true → v_merge (pc_var c) = false →
  store_ok st0 → gc_off (pc_cc c) ops →
  let s := run_persist c rid st0 ops io in
  ∃ rec, recover (w_store (s_w s)) rid' = Some rec ∧
    ∀ d, In d (ps_conf (s_p s)) → ∃ d', In d' (r_deltas rec) ∧ supersedes d' d.
Proof.
  intros Hv Hm H0 Hgc s. apply (inv_recover supersedes).
  apply (run_inv_from supersedes supersedes_refl supersedes_trans c Hv) with (conf0 := []).
  - intros ds d. apply compact_covers; [apply supersedes_refl|]. intros e d0. by apply supersedes_step.
  - by apply gc_off_ops.
  - simpl. by apply store_ok_inv.
Qed.

Lemma confirmed_verbatim_lemma c rid rid' st0 ops io :
  store_ok st0 → no_compaction ops →
  let s := run_persist c rid st0 ops io in
  ∃ rec, recover (w_store (s_w s)) rid' = Some rec ∧
    ∀ d, In d (ps_conf (s_p s)) → In d (r_deltas rec).
Proof.
  intros H0 Hnc s.
  destruct (inv_recover eq (w_store (s_w s)) (ps_conf (s_p s)) rid') as (rec & Hr & Hin).
  - apply (run_inv_nc eq (λ d, eq_refl) c) with (conf0 := []).
    + eapply Forall_impl; [exact Hnc|]. by intros [].
    + simpl. by apply store_ok_inv.
  - exists rec. split; [done|]. intros d Hd. destruct (Hin d Hd) as (d' & H1 & ->). done.
Qed.

(* a flush that returns Err leaves the coordinator as it was (repaired code) *)
Lemma failed_flush_lemma v p sz (w : world obj) p' w' :
  v_restore v = true → flush v p sz w = (p', w', FErr) → p' = p.
Proof.
  intros Hv. unfold flush. rewrite Hv. destruct (ps_buf p); [discriminate|].
  destruct (load_or_create _ _) as [w1 [m| |]]; try (intros [= <- <-]; done); try discriminate.
  unfold alloc_id. destruct (negb (man_ok _)); [discriminate|].
  destruct (st_put _ _ _) as [w2 [[]| |]]; try (intros [= <- <-]; done); try discriminate.
  destruct (negb (man_ok _)); [discriminate|].
  destruct (save _ _) as [w3 [[]| |]]; try (intros [= <- <-]; done); discriminate.
Qed.

(* ---------- witnesses ---------- *)
Definition lwwv (val t r : N) : rvalue :=
  RV (CLww (Lww (Some [val]) (Stamp t r) false)) None None (Stamp t r) None.
Definition dlt (k val t r : N) : delta := Delta [k] (lwwv val t r) r.
Definition ex_pcfg (v : variant) : pcfg := PCfg v 1048576 (CCfg 1000 2 5 1000).
Definition sig_of (d : delta) : N * N := (hd 0 (d_key d), d_time d).

(* as found: a flush whose manifest get fails returns Err and the accepted delta is gone *)
Definition w1_ops : list wop := [WPush (dlt 1 7 1 1); WFlush 100].
Definition w1_io : list outcome := [OErr ENone].
Lemma as_found_flush_drops_buffer :
  let s := run_persist (ex_pcfg as_found) 1 ∅ w1_ops w1_io in
  s_res s = [RFlush FErr 0; RPush true] ∧ w_crashed (s_w s) = false ∧
  ps_acc (s_p s) = [dlt 1 7 1 1] ∧ ps_conf (s_p s) = [] ∧ ps_buf (s_p s) = [].
Proof. vm_compute. repeat split. Qed.
Lemma repaired_flush_keeps_buffer_example :
  let s := run_persist (ex_pcfg repaired) 1 ∅ w1_ops w1_io in
  s_res s = [RFlush FErr 1; RPush true] ∧ ps_buf (s_p s) = [dlt 1 7 1 1].
Proof. vm_compute. repeat split. Qed.

(* as found: a transient get error inside compaction drops a confirmed segment *)
Definition w2_ops : list wop :=
  [WPush (dlt 1 7 1 1); WFlush 100; WPush (dlt 2 8 2 1); WFlush 100; WCompact 0 100].
Definition w2_io : list outcome :=
  [OOk; OOk; OOk; OOk; OOk; OOk; OOk; OOk; OOk; OErr ENone; OOk; OOk; OOk; OOk; OOk; OOk].
Lemma as_found_compaction_get_error :
  let s := run_persist (ex_pcfg as_found) 1 ∅ w2_ops w2_io in
  w_crashed (s_w s) = false ∧ w_io (s_w s) = [] ∧
  map sig_of (ps_conf (s_p s)) = [(1, 1); (2, 2)] ∧
  match recover (w_store (s_w s)) 1 with
  | Some rec => map sig_of (r_deltas rec) = [(2, 2)]
  | None => False
  end.
Proof. vm_compute. repeat split. Qed.
Lemma repaired_compaction_get_error :
  let s := run_persist (ex_pcfg repaired) 1 ∅ w2_ops w2_io in
  s_res s = [RCompact CErr; RFlush (FOk 1) 0; RPush true; RFlush (FOk 1) 0; RPush true] ∧
  match recover (w_store (s_w s)) 1 with
  | Some rec => map sig_of (r_deltas rec) = [(1, 1); (2, 2)]
  | None => False
  end.
Proof. vm_compute. repeat split. Qed.

(* non-vacuity: a workload with a failed put (torn), a retried flush, a compaction and a
   crash in the middle of the deletes *)
Definition w3_ops : list wop :=
  [WPush (dlt 1 7 1 1); WFlush 100;
   WPush (dlt 2 8 2 1); WPush (dlt 1 9 3 2); WFlush 100; WFlush 100;
   WCompact 0 100].
Definition w3_io : list outcome :=
  [OOk; OOk; OOk; OOk;          (* flush 1 *)
   OOk; OErr ETorn;              (* flush 2: the segment put is torn *)
   OOk; OOk; OOk; OOk;           (* flush 3: retried, succeeds *)
   OOk; OOk; OOk; OOk; OOk; OOk; OOk].  (* compaction; the stream ends before the 2nd delete *)
Lemma example_run :
  let s := run_persist (ex_pcfg repaired) 1 ∅ w3_ops w3_io in
  s_res s = [RCompact CCrash; RFlush (FOk 2) 0; RFlush FErr 2; RPush true; RPush true;
             RFlush (FOk 1) 0; RPush true] ∧
  w_crashed (s_w s) = true ∧
  map sig_of (ps_conf (s_p s)) = [(1, 1); (2, 2); (1, 3)] ∧
  match recover (w_store (s_w s)) 1 with
  | Some rec => map sig_of (r_deltas rec) = [(2, 2); (1, 3)]
  | None => False
  end ∧
  gc_off (pc_cc (ex_pcfg repaired)) w3_ops.
Proof.
  vm_compute. repeat split; try done. repeat constructor; vm_compute; discriminate.
Qed.

(* crash / restart histories *)
Lemma incarnations_lemma c rid st0 hist rid' :
  v_strict_get (pc_var c) = true → v_merge (pc_var c) = true →
  store_ok st0 → Forall (λ h, gc_off (pc_cc c) (fst h)) hist →
  let '(st, conf) := run_incarnations c rid st0 hist in
  ∃ rec, recover st rid' = Some rec ∧
    ∀ d, In d conf → ∃ d', In d' (r_deltas rec) ∧ represents d' d.
Proof.
  intros Hv Hm H0 Hgc.
  assert (H : ∀ conf0, Inv represents st0 conf0 →
    Inv represents (fst (run_incarnations c rid st0 hist)) (conf0 ++ snd (run_incarnations c rid st0 hist))).
  { clear H0. revert st0. induction hist as [|[ops io] hist IH]; intros st0 conf0 HI; simpl.
    - by rewrite app_nil_r.
    - inversion Hgc as [|? ? Hg1 Hg2]; subst. simpl in Hg1.
      set (s := run_persist c rid st0 ops io).
      specialize (IH Hg2 (w_store (s_w s)) (conf0 ++ ps_conf (s_p s))).
      destruct (run_incarnations c rid (w_store (s_w s)) hist) as [st conf] eqn:E. simpl in *.
      rewrite app_assoc. apply IH.
      apply (run_inv_from represents represents_refl represents_trans c Hv).
      + intros ds d. apply compact_covers; [apply represents_refl|]. intros e d0. by apply represents_step.
      + by apply gc_off_ops.
      + simpl. by rewrite app_nil_r. }
  specialize (H [] (store_ok_inv _ _ H0)).
  destruct (run_incarnations c rid st0 hist) as [st conf]. simpl in H.
  by apply (inv_recover represents).
Qed.

Lemma compaction_get_error_witness :
  ∃ ops io d rec,
    let s := run_persist (ex_pcfg as_found) 1 ∅ ops io in
    w_crashed (s_w s) = false ∧ In d (ps_conf (s_p s)) ∧
    recover (w_store (s_w s)) 1 = Some rec ∧
    ∀ d', In d' (r_deltas rec) → d_key d' ≠ d_key d.
Proof.
  exists w2_ops, w2_io, (dlt 1 7 1 1).
  destruct as_found_compaction_get_error as (H1 & _ & H2 & H3). cbv zeta in *.
  destruct (recover _ 1) as [rec|] eqn:Hr; [|done]. exists rec. split; [done|]. split.
  - assert (E : ps_conf (s_p (run_persist (ex_pcfg as_found) 1 ∅ w2_ops w2_io)) =
                [dlt 1 7 1 1; dlt 2 8 2 1]) by (vm_compute; reflexivity).
    rewrite E. by left.
  - split; [done|]. intros d' Hd'.
    assert (Hs : In (sig_of d') (map sig_of (r_deltas rec))) by by apply in_map.
    rewrite H3 in Hs. destruct Hs as [Hs|[]]. intros Hk. unfold sig_of in Hs. rewrite Hk in Hs.
    simpl in Hs. discriminate.
Qed.

(* ---------- an accepted delta is pending or confirmed while the process lives ---------- *)
Lemma read_segs_crashed v (w : world obj) segs a w' r :
  read_segs v w segs a = (w', r) → w_crashed w = true → w_crashed w' = true.
Proof.
  revert w a. induction segs as [|s segs IH]; intros w a; simpl.
  { by intros [= <- <-]. }
  destruct (st_get w (si_key s)) as [w1 g] eqn:Hg.
  apply st_get_spec in Hg as (_ & _ & _ & Hm).
  destruct g as [[[[]|]|]| |]; try (intros H Hc; apply (IH _ _ H); auto); try (intros [= <- <-]; auto).
  destruct (v_strict_get v); [intros [= <- <-]; auto|intros H Hc; apply (IH _ _ H); auto].
Qed.

Lemma delete_all_crashed (w : world obj) ns w' dead :
  delete_all w ns = (w', dead) → w_crashed w = true → w_crashed w' = true.
Proof.
  revert w. induction ns as [|n ns IH]; intros w; simpl.
  { by intros [= <- <-]. }
  destruct (st_delete w n) as [w1 g] eqn:Hd. apply st_delete_spec in Hd as (_ & _ & Hm).
  destruct g; try (intros H Hc; apply (IH _ H); auto). intros [= <- <-]. auto.
Qed.

Lemma compact_crashed v c now sz (w : world obj) w' r :
  compact v c now sz w = (w', r) → w_crashed w = true → w_crashed w' = true.
Proof.
  unfold compact. destruct (load_or_create w 0) as [w1 r1] eqn:Hl.
  apply load_or_create_spec in Hl as (_ & _ & _ & M1).
  destruct r1 as [m| |]; [|intros [= <- <-]; auto 10..]. unfold compact_rest.
  destruct (_ <? _). { intros [= <- <-]; auto 10. }
  destruct (read_segs _ _ _ _) as [w2 r2] eqn:Hr. pose proof (read_segs_crashed _ _ _ _ _ _ Hr) as M2.
  destruct r2 as [a| |]; [|intros [= <- <-]; auto 10..].
  destruct (_ && _).
  { destruct (save w2 _) as [w3 r3] eqn:Hs. apply save_spec in Hs as (_ & _ & _ & _ & M3).
    intros [= <- <-]. auto 10. }
  destruct (_ <? _). { intros [= <- <-]; auto 10. }
  destruct (compact_out _ _).
  - destruct (save w2 _) as [w3 r3] eqn:Hs. apply save_spec in Hs as (_ & _ & _ & _ & M3).
    destruct r3 as [[]| |]; [|intros [= <- <-]; auto 10..].
    destruct (delete_all w3 _) as [w4 dead] eqn:Hd. pose proof (delete_all_crashed _ _ _ _ Hd) as M4.
    intros [= <- <-]. auto 10.
  - destruct (st_put w2 _ _) as [w3 r3] eqn:Hp. apply st_put_spec in Hp as (_ & _ & _ & M3).
    destruct r3 as [[]| |]; [|intros [= <- <-]; auto 10..].
    destruct (negb _). { intros [= <- <-]; auto 10. }
    destruct (save w3 _) as [w4 r4] eqn:Hs. apply save_spec in Hs as (_ & _ & _ & _ & M4).
    destruct r4 as [[]| |]; [|intros [= <- <-]; auto 10..].
    destruct (delete_all w4 _) as [w5 dead] eqn:Hd. pose proof (delete_all_crashed _ _ _ _ Hd) as M5.
    intros [= <- <-]. auto 10.
Qed.

Lemma flush_acc v p sz (w : world obj) p' w' r :
  v_restore v = true → flush v p sz w = (p', w', r) →
  (w_crashed w = true → w_crashed w' = true) ∧
  (r = FCrash → w_crashed w' = true) ∧
  (ps_acc p = ps_conf p ++ ps_buf p → r ≠ FCrash → r ≠ FPanic →
   ps_acc p' = ps_conf p' ++ ps_buf p').
Proof.
  intros Hv. unfold flush. rewrite Hv. destruct (ps_buf p) as [|d0 ds0] eqn:Hb.
  { intros [= <- <- <-]. rewrite Hb. repeat split; auto; discriminate. }
  destruct (load_or_create w (ps_rid p)) as [w1 r1] eqn:Hl.
  apply load_or_create_spec in Hl as (_ & _ & C1 & M1).
  destruct r1 as [m| |].
  2: { intros [= <- <- <-]. rewrite Hb. repeat split; auto; discriminate. }
  2: { intros [= <- <- <-]. repeat split; auto; try done. }
  unfold alloc_id. destruct (negb (man_ok _)).
  { intros [= <- <- <-]. repeat split; auto; try discriminate. done. }
  destruct (st_put w1 _ _) as [w2 r2] eqn:Hp. apply st_put_spec in Hp as (_ & _ & C2 & M2).
  destruct r2 as [[]| |].
  2: { intros [= <- <- <-]. rewrite Hb. repeat split; auto; discriminate. }
  2: { intros [= <- <- <-]. repeat split; auto; try done. intros _. by apply C2. }
  destruct (negb (man_ok _)).
  { intros [= <- <- <-]. repeat split; auto; try discriminate. done. }
  destruct (save w2 _) as [w3 r3] eqn:Hs. apply save_spec in Hs as (_ & _ & _ & C3 & M3).
  destruct r3 as [[]| |]; intros [= <- <- <-]; simpl.
  - repeat split; auto; try discriminate. intros ->. by rewrite app_nil_r.
  - rewrite Hb. repeat split; auto; discriminate.
  - repeat split; auto; try done.
Qed.

Lemma accepted_lemma c rid st0 ops io :
  v_restore (pc_var c) = true →
  let s := run_persist c rid st0 ops io in
  w_crashed (s_w s) = false → ps_acc (s_p s) = ps_conf (s_p s) ++ ps_buf (s_p s).
Proof.
  intros Hv. unfold run_persist.
  assert (H : ∀ s, (w_crashed (s_w s) = false → ps_acc (s_p s) = ps_conf (s_p s) ++ ps_buf (s_p s)) →
     let s' := fold_left (wstep c) ops s in
     w_crashed (s_w s') = false → ps_acc (s_p s') = ps_conf (s_p s') ++ ps_buf (s_p s')).
  { induction ops as [|op ops IH]; intros s HJ; simpl; [done|]. apply IH.
    destruct op as [d|sz|now sz]; simpl.
    - unfold push. destruct (_ <=? _); simpl; [done|]. intros Hc. rewrite (HJ Hc). by rewrite app_assoc.
    - destruct (flush (pc_var c) (s_p s) sz (s_w s)) as [[p w] r] eqn:Hf. simpl.
      destruct (flush_acc _ _ _ _ _ _ _ Hv Hf) as (M & C & A).
      destruct r; simpl; intros Hc; try (apply A; try discriminate; apply HJ;
        destruct (w_crashed (s_w s)) eqn:E; [by rewrite M in Hc|done]).
      + by rewrite C in Hc.
      + discriminate.
    - destruct (compact (pc_var c) (pc_cc c) now sz (s_w s)) as [w r] eqn:Hc'. simpl.
      pose proof (compact_crashed _ _ _ _ _ _ _ Hc') as M. intros Hc. apply HJ.
      destruct (w_crashed (s_w s)) eqn:E; [|done]. destruct r; simpl in Hc; try (by rewrite M in Hc). discriminate. }
  apply H. simpl. done.
Qed.

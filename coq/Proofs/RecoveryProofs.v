(* Lemmas for C11 (and C13): what recovery returns, folded into a node state, is the
   merge of everything persisted - independent of order and multiplicity. *)
From stdpp Require Import gmap.
From Coq Require Import NArith Lia.
From RV Require Import Lib.Hex Model.Crdt Model.Store Model.Persist.
From RV Require Import Proofs.CrdtProofs Proofs.MergeFoldProofs Proofs.PersistProofs.
Local Open Scope N_scope.

(* ---------- per-key view of replay ---------- *)
Definition valsk (k : list N) (us : list (list N * rvalue)) : list rvalue :=
  map snd (filter (λ p, p.1 = k) us).
Definition mfoldo (o : option rvalue) (vs : list rvalue) : option rvalue :=
  match o, vs with
  | Some x, _ => Some (mfold1 x vs)
  | None, [] => None
  | None, v :: r => Some (mfold1 v r)
  end.

Lemma valsk_cons k p us :
  valsk k (p :: us) = if decide (p.1 = k) then p.2 :: valsk k us else valsk k us.
Proof. unfold valsk. rewrite filter_cons. by destruct (decide (p.1 = k)). Qed.
Lemma valsk_app k us us' : valsk k (us ++ us') = valsk k us ++ valsk k us'.
Proof. unfold valsk. by rewrite filter_app, map_app. Qed.
Lemma in_valsk k us v : In v (valsk k us) ↔ In (k, v) us.
Proof.
  unfold valsk. rewrite in_map_iff. split.
  - intros ([k' v'] & <- & H). apply elem_of_list_In, elem_of_list_filter in H as [Hk H].
    simpl in *. subst. by apply elem_of_list_In.
  - intros H. exists (k, v). split; [done|]. apply elem_of_list_In, elem_of_list_filter.
    split; [done|]. by apply elem_of_list_In.
Qed.

Lemma mfoldo_cons o v vs : mfoldo o (v :: vs) = mfoldo (mfoldo o [v]) vs.
Proof. destruct o; reflexivity. Qed.
Lemma mfoldo_app o vs ws : mfoldo o (vs ++ ws) = mfoldo (mfoldo o vs) ws.
Proof.
  revert o. induction vs as [|v vs IH]; intros o; simpl.
  - destruct o; [done|]. by destruct ws.
  - rewrite mfoldo_cons, IH. by rewrite <- mfoldo_cons.
Qed.

Lemma merge_into_lookup s k v j :
  merge_into s k v !! j = if decide (j = k) then mfoldo (s !! k) [v] else s !! j.
Proof.
  unfold merge_into. destruct (decide (j = k)) as [->|Hne].
  - rewrite lookup_insert. by destruct (s !! k).
  - by rewrite lookup_insert_ne.
Qed.

Lemma replay_lookup us s k : replay us s !! k = mfoldo (s !! k) (valsk k us).
Proof.
  revert s. induction us as [|p us IH]; intros s; simpl.
  - by destruct (s !! k).
  - unfold replay in *. simpl. rewrite IH, valsk_cons, merge_into_lookup.
    destruct (decide (p.1 = k)) as [<-|Hne].
    + rewrite decide_True by done. by rewrite <- mfoldo_cons.
    + by rewrite decide_False by done.
Qed.

Lemma replay_app us us' s : replay (us ++ us') s = replay us' (replay us s).
Proof. unfold replay. by rewrite fold_left_app. Qed.

Lemma apply_deltas_replay ds s : fold_left apply_delta ds s = replay (map upd_of ds) s.
Proof. revert s. induction ds as [|d ds IH]; intros s; simpl; [done|]. by rewrite IH. Qed.

(* ---------- the node state depends only on the set of updates ---------- *)
Lemma mfoldo_set_determined o vs vs' :
  (∀ v, In v vs ↔ In v vs') →
  Coh (match o with Some x => x :: vs ++ vs' | None => vs ++ vs' end) →
  option_map obs (mfoldo o vs) = option_map obs (mfoldo o vs').
Proof.
  intros Hset Hc. destruct o as [x|]; simpl.
  - f_equal. apply fold_set_determined.
    + eapply Coh_sub; [|exact Hc]. intros z Hz. apply in_app_or in Hz.
      destruct Hz as [[<-|Hz]|[<-|Hz]]; [by left|right; apply in_or_app; auto|by left|right; apply in_or_app; auto].
    + intros z. simpl. rewrite Hset. tauto.
  - destruct vs as [|v r], vs' as [|v' r']; simpl; [done| | |].
    + exfalso. apply (Hset v'). by left.
    + exfalso. apply (Hset v). by left.
    + f_equal. apply fold_set_determined; [done|]. intros z. apply Hset.
Qed.

Lemma coherent_coh k (us : list (list N * rvalue)) (l : list rvalue) :
  coherent us → (∀ v, In v l → In (k, v) us) → Coh l.
Proof. intros Hc Hl a b Ha Hb. apply (Hc (k, a) (k, b)); auto. Qed.

Theorem replay_set_determined s us us' :
  (∀ p, In p us ↔ In p us') → coherent (map_to_list s ++ us) →
  obs_kv (replay us s) = obs_kv (replay us' s).
Proof.
  intros Hset Hc. apply map_eq. intros k. unfold obs_kv. rewrite !lookup_fmap, !replay_lookup.
  change (option_map obs (mfoldo (s !! k) (valsk k us)) = option_map obs (mfoldo (s !! k) (valsk k us'))).
  apply mfoldo_set_determined.
  - intros v. by rewrite !in_valsk, Hset.
  - apply (coherent_coh k _ _ Hc). intros v Hv. apply in_or_app.
    destruct (s !! k) as [x|] eqn:Hx.
    + destruct Hv as [<-|Hv].
      * left. by apply elem_of_list_In, elem_of_map_to_list.
      * right. apply in_app_or in Hv as [Hv|Hv]; apply in_valsk in Hv; [done|by apply Hset].
    + right. apply in_app_or in Hv as [Hv|Hv]; apply in_valsk in Hv; [done|by apply Hset].
Qed.

(* ---------- what recover returns ---------- *)
Lemma load_segs_in (st : gmap name (sobj obj)) l all :
  load_segs st l = Some all → ∀ d, In d all ↔ ∃ s, In s l ∧ In d (seg_deltas st s).
Proof.
  revert all. induction l as [|s l IH]; intros all; simpl.
  { intros [= <-] d. split; [intros []|intros (s & [] & _)]. }
  unfold load_seg at 1. unfold seg_deltas.
  destruct (st !! si_key s) as [[[ds| |]|]|] eqn:Hs; try discriminate.
  destruct (load_segs st l) as [rest|]; [|discriminate]. intros [= <-] d.
  rewrite in_app_iff, (IH rest eq_refl). split.
  - intros [H|(s' & H1 & H2)]; [exists s; rewrite Hs; auto|exists s'; auto].
  - intros (s' & [<-|H1] & H2); [left; by rewrite Hs in H2|right; eauto].
Qed.

Lemma recover_spec st rid rec :
  recover st rid = Some rec →
  cur_manifest st rid = Some (r_man rec) ∧
  load_segs st (visible (r_man rec)) = Some (r_deltas rec).
Proof.
  unfold recover. destruct (cur_manifest st rid) as [m|]; [|discriminate].
  destruct (m_ck m) as [ci|].
  - destruct (st !! ci_key ci) as [[[| |kvs]|]|]; try discriminate.
    destruct (load_segs st (visible m)) as [ds|] eqn:E; [|discriminate]. by intros [= <-].
  - destruct (load_segs st (visible m)) as [ds|] eqn:E; [|discriminate]. by intros [= <-].
Qed.

Lemma state_of_replay r : state_of r = replay (map upd_of (r_deltas r)) (ck_state r).
Proof.
  unfold state_of, apply_recovered, ck_state. rewrite apply_deltas_replay.
  destruct (r_ck r); simpl; [|done]. by rewrite (right_id_L ∅ (∪)).
Qed.

Lemma visible_all m s : ck_covers m → In s (visible m) ↔ In s (m_segs m).
Proof.
  intros Hc. rewrite in_visible. unfold vis, ck_covers in *. destruct (m_ck m); [|tauto].
  split; [tauto|]. intros H. split; [done|]. by apply Hc.
Qed.

Lemma recovered_updates st rid rec :
  recover st rid = Some rec → ck_covers (r_man rec) →
  ∀ p, In p (map upd_of (r_deltas rec)) ↔ In p (listed_updates st (r_man rec)).
Proof.
  intros Hr Hc p. apply recover_spec in Hr as [_ Hl]. unfold listed_updates.
  rewrite !in_map_iff. split; intros (d & Hp & Hd); exists d; (split; [done|]).
  - apply (load_segs_in _ _ _ Hl) in Hd as (s & Hs & Hd). apply in_flat_map. exists s.
    split; [|done]. by apply visible_all in Hs.
  - apply in_flat_map in Hd as (s & Hs & Hd). apply (load_segs_in _ _ _ Hl). exists s.
    split; [|done]. by apply visible_all.
Qed.

(* C11: recover_complete (and with it order_independent for the delta list) *)
Lemma recover_complete_lemma st rid rec us :
  recover st rid = Some rec → ck_covers (r_man rec) →
  (∀ p, In p us ↔ In p (listed_updates st (r_man rec))) →
  coherent (map_to_list (ck_state rec) ++ us) →
  obs_kv (state_of rec) = obs_kv (replay us (ck_state rec)).
Proof.
  intros Hr Hc Hset Hco. rewrite state_of_replay. symmetry. apply replay_set_determined; [|done].
  intros p. rewrite Hset. symmetry. by apply (recovered_updates st rid).
Qed.

(* any permutation / duplication of the segment list *)
Lemma order_independent_lemma (st : gmap name (sobj obj)) segs segs' ds ds' s0 :
  load_segs st segs = Some ds → load_segs st segs' = Some ds' →
  (∀ s, In s segs ↔ In s segs') →
  coherent (map_to_list s0 ++ map upd_of ds) →
  obs_kv (replay (map upd_of ds) s0) = obs_kv (replay (map upd_of ds') s0).
Proof.
  intros H1 H2 Hset Hco. apply replay_set_determined; [|done].
  intros p. rewrite !in_map_iff. split; intros (d & Hp & Hd); exists d; (split; [done|]).
  - apply (load_segs_in _ _ _ H1) in Hd as (s & Hs & Hd). apply (load_segs_in _ _ _ H2). exists s.
    split; [by apply Hset|done].
  - apply (load_segs_in _ _ _ H2) in Hd as (s & Hs & Hd). apply (load_segs_in _ _ _ H1). exists s.
    split; [by apply Hset|done].
Qed.

(* applying the recovered state a second time changes nothing *)
Lemma repeat_idempotent_lemma rec :
  coherent (map_to_list (ck_state rec) ++ map upd_of (r_deltas rec)) →
  obs_kv (apply_recovered (r_ck rec) (r_deltas rec) (state_of rec)) = obs_kv (state_of rec).
Proof.
  intros Hco. set (U := map upd_of (r_deltas rec)). set (c := ck_state rec).
  assert (HT : state_of rec = replay U c) by apply state_of_replay.
  unfold apply_recovered. rewrite apply_deltas_replay. fold U.
  set (base := match r_ck rec with Some c0 => c0 ∪ state_of rec | None => state_of rec end).
  assert (Hbase : ∀ k, base !! k = match c !! k with Some x => Some x | None => state_of rec !! k end).
  { intros k. unfold base, c, ck_state. destruct (r_ck rec) as [c0|]; simpl.
    - rewrite lookup_union. destruct (c0 !! k), (state_of rec !! k); done.
    - by rewrite lookup_empty. }
  apply map_eq. intros k. unfold obs_kv. rewrite !lookup_fmap, replay_lookup, Hbase.
  rewrite HT, replay_lookup. destruct (c !! k) as [x|] eqn:Hx; [done|].
  change (option_map obs (mfoldo (mfoldo None (valsk k U)) (valsk k U)) = option_map obs (mfoldo None (valsk k U))).
  rewrite <- mfoldo_app. apply mfoldo_set_determined.
  - intros v. rewrite in_app_iff. tauto.
  - apply (coherent_coh k _ _ Hco). intros v Hv. apply in_or_app. right.
    rewrite !in_app_iff in Hv. apply in_valsk. tauto.
Qed.

(* the production start-up path and the repaired recover_with_wal replay the whole WAL *)
Definition wal_updates (wl : list (N * delta)) : list (list N * rvalue) := map (λ e, upd_of e.2) wl.

Lemma wal_complete_lemma st rid rec wl us :
  recover st rid = Some rec → ck_covers (r_man rec) →
  (∀ p, In p us ↔ In p (listed_updates st (r_man rec) ++ wal_updates wl)) →
  coherent (map_to_list (ck_state rec) ++ us) →
  ∃ s, recover_prod st rid wl = Some s ∧ obs_kv s = obs_kv (replay us (ck_state rec)).
Proof.
  intros Hr Hc Hset Hco. unfold recover_prod. rewrite Hr. eexists; split; [done|].
  unfold apply_recovered. rewrite apply_deltas_replay, state_of_replay, <- replay_app.
  symmetry. apply replay_set_determined; [|done].
  intros p. rewrite Hset, !in_app_iff, (recovered_updates _ _ _ Hr Hc p).
  unfold wal_updates. rewrite map_map. tauto.
Qed.

Lemma wal_after_0 wl : wal_after 0 wl = map snd wl.
Proof.
  unfold wal_after. f_equal. induction wl as [|e wl IH]; [done|].
  rewrite filter_cons. destruct (decide _) as [|Hn]; [by rewrite IH|].
  exfalso. apply Hn. apply Is_true_true. by destruct (fst e).
Qed.

Lemma recover_with_wal_complete_lemma v st rid rec wl us :
  v_wal_all v = true →
  recover st rid = Some rec → ck_covers (r_man rec) →
  (∀ p, In p us ↔ In p (listed_updates st (r_man rec) ++ wal_updates wl)) →
  coherent (map_to_list (ck_state rec) ++ us) →
  ∃ rw, recover_with_wal v st rid wl = Some rw ∧
        obs_kv (state_of rw) = obs_kv (replay us (ck_state rec)).
Proof.
  intros Hv Hr Hc Hset Hco. unfold recover_with_wal. rewrite Hr, Hv, wal_after_0.
  eexists; split; [done|]. rewrite state_of_replay. unfold ck_state at 1. simpl. fold (ck_state rec).
  rewrite map_app, replay_app. rewrite <- replay_app.
  symmetry. apply replay_set_determined; [|done].
  intros p. rewrite Hset, !in_app_iff, (recovered_updates _ _ _ Hr Hc p).
  unfold wal_updates. rewrite !map_map. tauto.
Qed.

(* nothing persisted is dropped: the recovered state absorbs every persisted update *)
Lemma nothing_dropped_lemma s us p :
  coherent (map_to_list s ++ us) → In p us →
  ∃ x, replay us s !! p.1 = Some x ∧ obs (rv_merge x p.2) = obs x.
Proof.
  intros Hco Hp.
  assert (H : obs_kv (replay (us ++ [p]) s) = obs_kv (replay us s)).
  { apply replay_set_determined.
    - intros q. rewrite in_app_iff. simpl. split; [intros [H|[<-|[]]]; done|auto].
    - intros a b Ha Hb. apply Hco; rewrite !in_app_iff in *; simpl in *; intuition; subst; auto. }
  apply (f_equal (λ m, m !! p.1)) in H. unfold obs_kv in H. rewrite !lookup_fmap in H.
  rewrite replay_app in H. unfold replay at 1 in H. simpl in H. rewrite merge_into_lookup in H.
  rewrite decide_True in H by done.
  destruct (replay us s !! p.1) as [x|]; simpl in H; [|discriminate].
  exists x. split; [done|]. unfold mfold1 in H. simpl in H. congruence.
Qed.

(* ---------- witnesses ---------- *)
(* recover_with_wal as found: the WAL entry of a slow shard (stamp 3) lies below the
   high-water mark of the segments (10, written by a fast shard) and is filtered out
   although no segment holds it *)
Definition hw_store : gmap name (sobj obj) :=
  <[NMan := Whole (OMan (Manifest 1 1 [SegInfo 0 (NSeg 0) 1 100 10 10] None 1))]>
    (<[NSeg 0 := Whole (OSeg [dlt 1 7 10 2])]> ∅).
Definition hw_wal : list (N * delta) := [(3, dlt 2 8 3 1)].

Lemma high_water_witness :
  match recover_with_wal as_found hw_store 1 hw_wal with
  | Some rw => map sig_of (r_deltas rw) = [(1, 10)] ∧ state_of rw !! [2] = None
  | None => False
  end ∧
  match recover_with_wal repaired hw_store 1 hw_wal with
  | Some rw => map sig_of (r_deltas rw) = [(1, 10); (2, 3)] ∧ state_of rw !! [2] = Some (lwwv 8 3 1)
  | None => False
  end ∧
  match recover_prod hw_store 1 hw_wal with
  | Some s => s !! [2] = Some (lwwv 8 3 1)
  | None => False
  end.
Proof. vm_compute. repeat split. Qed.

(* a boolean test of [coherent] for lists of LWW values (used by the examples) *)
Definition lww_of (v : rvalue) : option lww := match rv_crdt v with CLww r => Some r | _ => None end.
Definition pair_okb (a b : list N * rvalue) : bool :=
  negb (bool_decide (a.1 = b.1)) ||
  match lww_of a.2, lww_of b.2 with
  | Some x, Some y => negb (bool_decide (lw_ts x = lw_ts y)) || bool_decide (x = y)
  | _, _ => false
  end.
Definition coherentb (us : list (list N * rvalue)) : bool :=
  forallb (λ a, forallb (pair_okb a) us) us.
Lemma coherentb_sound us : coherentb us = true → coherent us.
Proof.
  unfold coherentb. rewrite forallb_forall. intros H a b Ha Hb Hk.
  specialize (H a Ha). rewrite forallb_forall in H. specialize (H b Hb).
  unfold pair_okb in H. rewrite bool_decide_true in H by done. simpl in H.
  unfold lww_of, Compatible in *.
  destruct (rv_crdt a.2) as [x| | | | |], (rv_crdt b.2) as [y| | | | |]; try discriminate.
  split; [done|]. unfold lww_compat. intros Hts.
  rewrite bool_decide_true in H by done. simpl in H. by apply bool_decide_eq_true in H.
Qed.

(* non-vacuity: a checkpoint, two segments with interleaved stamps (listed out of stamp
   order), a WAL entry below the high-water mark, a duplicate; three keys *)
Definition ex_ck : gmap (list N) rvalue := {[ [1] := lwwv 1 5 1 ]}.
Definition ex_store : gmap name (sobj obj) :=
  <[NMan := Whole (OMan (Manifest 3 1 [SegInfo 4 (NSeg 4) 2 100 20 1000; SegInfo 5 (NSeg 5) 2 100 7 9]
                                  (Some (CkInfo (NCk 77) 77 1 3)) 6))]>
    (<[NCk 77 := Whole (OCk ex_ck)]>
    (<[NSeg 4 := Whole (OSeg [dlt 1 2 1000 3; dlt 2 3 20 2])]>
    (<[NSeg 5 := Whole (OSeg [dlt 1 4 7 1; dlt 2 3 20 2 (* duplicate *); dlt 2 5 9 1])]> ∅))).
Definition ex_wal : list (N * delta) := [(6, dlt 1 6 6 1); (8, dlt 3 9 8 1)].
Definition ex_updates : list (list N * rvalue) :=
  [([3], lwwv 9 8 1); ([2], lwwv 5 9 1); ([1], lwwv 6 6 1); ([2], lwwv 3 20 2);
   ([1], lwwv 4 7 1); ([1], lwwv 2 1000 3); ([1], lwwv 6 6 1)].

Lemma example_recovery :
  match recover ex_store 1 with
  | Some rec =>
      ck_covers (r_man rec) ∧ ck_state rec = ex_ck ∧
      map sig_of (r_deltas rec) = [(1, 7); (2, 20); (2, 9); (1, 1000); (2, 20)] ∧
      (∀ p, In p ex_updates ↔ In p (listed_updates ex_store (r_man rec) ++ wal_updates ex_wal)) ∧
      coherent (map_to_list (ck_state rec) ++ ex_updates)
  | None => False
  end.
Proof.
  destruct (recover ex_store 1) as [rec|] eqn:Hr; [|by vm_compute in Hr].
  assert (Hm : r_man rec = Manifest 3 1 [SegInfo 4 (NSeg 4) 2 100 20 1000; SegInfo 5 (NSeg 5) 2 100 7 9]
                                  (Some (CkInfo (NCk 77) 77 1 3)) 6).
  { vm_compute in Hr. by injection Hr as <-. }
  assert (Hck : ck_state rec = ex_ck) by (vm_compute in Hr; by injection Hr as <-).
  split; [|split; [done|split; [|split]]].
  - rewrite Hm. simpl. intros s [<-|[<-|[]]]; simpl; lia.
  - vm_compute in Hr. by injection Hr as <-.
  - rewrite Hm. intros p.
    assert (E : listed_updates ex_store
        (Manifest 3 1 [SegInfo 4 (NSeg 4) 2 100 20 1000; SegInfo 5 (NSeg 5) 2 100 7 9]
           (Some (CkInfo (NCk 77) 77 1 3)) 6) ++ wal_updates ex_wal =
      [([1], lwwv 2 1000 3); ([2], lwwv 3 20 2); ([1], lwwv 4 7 1); ([2], lwwv 3 20 2);
       ([2], lwwv 5 9 1); ([1], lwwv 6 6 1); ([3], lwwv 9 8 1)]) by (vm_compute; reflexivity).
    rewrite E. unfold ex_updates. simpl. intuition.
  - rewrite Hck. apply coherentb_sound. vm_compute. reflexivity.
Qed.

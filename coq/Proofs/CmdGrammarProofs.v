(* C16: laws of the reference grammar (Model/CmdGrammar.v). *)
From Coq Require Import NArith ZArith List String Bool Lia.
From RV Require Import Lib.Hex Model.CmdGrammar.
Import ListNotations.
Local Open Scope bool_scope.

(* ------------------------------------------------------------------ byte strings *)
Lemma bytes_eqb_refl a : bytes_eqb a a = true.
Proof. induction a; cbn; [reflexivity|]. now rewrite N.eqb_refl. Qed.
Lemma bytes_eqb_eq a b : bytes_eqb a b = true <-> a = b.
Proof.
  split; [|intros ->; apply bytes_eqb_refl].
  revert b; induction a as [|x a IH]; destruct b as [|y b]; cbn; try discriminate; auto.
  intros H. apply andb_true_iff in H as [H1 H2]. apply N.eqb_eq in H1. f_equal; auto.
Qed.
Lemma bytes_eqb_neq a b : bytes_eqb a b = false <-> a <> b.
Proof.
  split.
  - intros H E. apply bytes_eqb_eq in E. congruence.
  - intros H. destruct (bytes_eqb a b) eqn:E; [|reflexivity]. apply bytes_eqb_eq in E. contradiction.
Qed.

(* ------------------------------------------------------------------ the table is a function *)


Lemma nodupb_NoDup l : nodupb l = true -> NoDup l.
Proof.
  induction l as [|x r IH]; cbn; intros H; constructor.
  - apply andb_true_iff in H as [H _]. apply negb_true_iff in H.
    intros HI. assert (existsb (bytes_eqb x) r = true); [|congruence].
    apply existsb_exists. exists x. split; [assumption|apply bytes_eqb_refl].
  - apply andb_true_iff in H as [_ H]. auto.
Qed.

Lemma grammar_names_distinct : nodupb (names grammar) = true.
Proof. vm_compute. reflexivity. Qed.
Lemma subtables_names_distinct :
  forallb (fun t => nodupb (names t))
          [config_tbl; acl_tbl; script_tbl; function_tbl; client_tbl; object_tbl; debug_tbl] = true.
Proof. vm_compute. reflexivity. Qed.

Lemma lookup_In {A} n (t : list (bytes * A)) r : lookup n t = Some r -> In (n, r) t.
Proof.
  induction t as [|[m a] t IH]; cbn; [discriminate|].
  destruct (bytes_eqb n m) eqn:E.
  - intros [= ->]. apply bytes_eqb_eq in E. subst. now left.
  - intros H. right. auto.
Qed.
Lemma lookup_None {A} n (t : list (bytes * A)) : lookup n t = None <-> ~ In n (names t).
Proof.
  induction t as [|[m a] t IH]; cbn.
  - split; auto.
  - destruct (bytes_eqb n m) eqn:E.
    + apply bytes_eqb_eq in E. subst. split; [discriminate|]. intros H. exfalso. apply H. now left.
    + apply bytes_eqb_neq in E. rewrite IH. split.
      * intros H [H1|H1]; [congruence|auto].
      * intros H H1. apply H. now right.
Qed.
Lemma lookup_unique {A} n (t : list (bytes * A)) r :
  NoDup (names t) -> In (n, r) t -> lookup n t = Some r.
Proof.
  induction t as [|[m a] t IH]; cbn; [contradiction|].
  intros ND [H|H].
  - injection H as -> ->. now rewrite bytes_eqb_refl.
  - inversion ND as [|? ? Hn ND']; subst.
    destruct (bytes_eqb n m) eqn:E.
    + apply bytes_eqb_eq in E. subst. exfalso. apply Hn.
      change m with (fst (m, r)). now apply in_map.
    + auto.
Qed.
Lemma grammar_lookup n r : In (n, r) grammar -> lookup n grammar = Some r.
Proof. apply lookup_unique, nodupb_NoDup, grammar_names_distinct. Qed.

Local Opaque grammar.

(* the grammar read as a relation: "some row named like the frame's first element yields r" *)

Lemma parses_parse_frame f : parses f (parse_frame f).
Proof.
  destruct f as [[|[n| |] args]|]; cbn; try reflexivity.
  destruct (lookup (ustr n) grammar) eqn:E.
  - left. exists r. split; [now apply lookup_In|reflexivity].
  - right. split; [now apply lookup_None|reflexivity].
Qed.
Lemma parses_functional f r : parses f r -> r = parse_frame f.
Proof.
  destruct f as [[|[n| |] args]|]; cbn; try (intros ->; reflexivity).
  intros [[rl [HI ->]]|[HN ->]].
  - now rewrite (grammar_lookup _ _ HI).
  - apply lookup_None in HN. now rewrite HN.
Qed.
Theorem parse_deterministic f r1 r2 : parses f r1 -> parses f r2 -> r1 = r2.
Proof. intros H1 H2. apply parses_functional in H1, H2. congruence. Qed.

(* ------------------------------------------------------------------ arity *)
Theorem arity_error n rl args name :
  In (name, rl) grammar -> ustr n = name -> arity_ok rl (List.length args) = false ->
  parse_frame (Some (EBulk n :: args)) = PErr (arity_text rl).
Proof.
  intros HI <- HA. cbn. rewrite (grammar_lookup _ _ HI). unfold run_rule. now rewrite HA.
Qed.

(* ------------------------------------------------------------------ letter case *)



Lemma width_ascii x : (x < 128)%N -> width x = 1%nat.
Proof. intros H. unfold width. apply N.ltb_lt in H. now rewrite H. Qed.
Lemma lossy_ascii b : ascii b -> lossy b = b.
Proof.
  induction 1 as [|x r Hx Hr IH]; [reflexivity|].
  cbn [lossy]. rewrite (width_ascii _ Hx). now rewrite IH.
Qed.
Lemma upper_ascii b : ascii b -> upper b = map up1 b.
Proof.
  induction 1 as [|x r Hx Hr IH]; [reflexivity|].
  cbn [upper map]. destruct r as [|y r1].
  - reflexivity.
  - assert (E1 : (x =? 195)%N = false) by (apply N.eqb_neq; lia).
    assert (E2 : (x =? 196)%N = false) by (apply N.eqb_neq; lia).
    assert (E3 : (x =? 197)%N = false) by (apply N.eqb_neq; lia).
    assert (E4 : (x =? 239)%N = false) by (apply N.eqb_neq; lia).
    rewrite E1, E2, E3, E4. cbn [andb]. now rewrite IH.
Qed.
Lemma ustr_ascii b : ascii b -> ustr b = map up1 b.
Proof. intros H. unfold ustr. rewrite (lossy_ascii _ H). now apply upper_ascii. Qed.
Lemma up1_lt x : (x < 128)%N -> forall y, up1 x = up1 y -> (y < 128)%N.
Proof.
  intros Hx y. unfold up1.
  destruct ((97 <=? x) && (x <=? 122))%N eqn:E1; destruct ((97 <=? y) && (y <=? 122))%N eqn:E2;
    repeat match goal with
           | H : (_ && _)%bool = true |- _ => apply andb_true_iff in H as [? ?]
           | H : (_ <=? _)%N = true |- _ => apply N.leb_le in H
           end; lia.
Qed.
Lemma case_variant_ascii a b : case_variant a b -> ascii a -> ascii b.
Proof.
  induction 1 as [|x y a b Hxy _ IH]; intros Ha; [constructor|].
  inversion Ha as [|? ? Hx Ha']; subst. constructor.
  - exact (up1_lt x Hx y Hxy).
  - exact (IH Ha').
Qed.
Lemma case_variant_map a b : case_variant a b -> map up1 a = map up1 b.
Proof. induction 1; cbn; congruence. Qed.
Lemma ustr_case_variant a b : ascii a -> case_variant a b -> ustr a = ustr b.
Proof.
  intros Ha H. rewrite (ustr_ascii _ Ha), (ustr_ascii _ (case_variant_ascii _ _ H Ha)).
  now apply case_variant_map.
Qed.
Theorem name_case_insensitive n n' args :
  ascii n -> case_variant n n' ->
  parse_frame (Some (EBulk n :: args)) = parse_frame (Some (EBulk n' :: args)).
Proof. intros Ha H. cbn. now rewrite (ustr_case_variant _ _ Ha H). Qed.
(* more generally the outcome depends on the name only through its upper-cased decoding,
   which also identifies the non-ASCII spellings that str::to_uppercase maps to ASCII *)
Theorem name_only_through_ustr n n' args :
  ustr n = ustr n' ->
  parse_frame (Some (EBulk n :: args)) = parse_frame (Some (EBulk n' :: args)).
Proof. intros H. cbn. now rewrite H. Qed.

(* ------------------------------------------------------------------ the Lua bridge *)
Theorem lua_parse_eq_parse n rest :
  lua_supported (ustr n) = true -> lua_parse (n :: rest) = parse_cmd (n :: rest).
Proof. intros H. unfold lua_parse. now rewrite H. Qed.
Theorem lua_parse_refuses n rest :
  lua_supported (ustr n) = false ->
  lua_parse (n :: rest) = PErr (tx "ERR Unknown Redis command '" ++ ustr n ++ tx "' called from Lua").
Proof. intros H. unfold lua_parse. now rewrite H. Qed.
Lemma lua_commands_in_grammar :
  forallb (fun n => match lookup n grammar with Some _ => true | None => false end) lua_commands = true.
Proof. vm_compute. reflexivity. Qed.

(* both entry paths run the same executor on the same parsed command *)
Section ScriptThm.
  Variable state : Type.
  Variable exec : state -> cmd -> state * resp.
  Theorem script_call_eq_direct s n rest :
    lua_supported (ustr n) = true ->
    (forall t, parse_cmd (n :: rest) = PErr t -> lossy t = t) ->
    parse_cmd (n :: rest) <> PPanic ->
    script_call state exec s (n :: rest) =
      (fst (direct_call state exec s (n :: rest)),
       match parse_cmd (n :: rest) with
       | POk _ => conv (snd (direct_call state exec s (n :: rest)))
       | _ => snd (direct_call state exec s (n :: rest))
       end).
  Proof.
    intros H HU HP. unfold script_call, direct_call. rewrite (lua_parse_eq_parse _ _ H).
    destruct (parse_cmd (n :: rest)) as [c|t|] eqn:E.
    - destruct (exec s c). reflexivity.
    - cbn. unfold conv, err_reply. cbn. rewrite (HU t eq_refl), bytes_eqb_refl. reflexivity.
    - contradiction.
  Qed.
End ScriptThm.

(* ------------------------------------------------------------------ RESP <-> Lua values *)
Section RespInd.
  Variable P : resp -> Prop.
  Hypothesis Hs : forall s, P (RSimple_ s).
  Hypothesis He : forall s, P (RError s).
  Hypothesis Hi : forall z, P (RInt z).
  Hypothesis Hb : forall o, P (RBulk o).
  Hypothesis Hn : P (RArr None).
  Hypothesis Ha : forall l, Forall P l -> P (RArr (Some l)).
  Fixpoint resp_ind' (r : resp) : P r :=
    match r with
    | RSimple_ s => Hs s
    | RError s => He s
    | RInt z => Hi z
    | RBulk o => Hb o
    | RArr None => Hn
    | RArr (Some l) =>
        Ha l ((fix go (l : list resp) : Forall P l :=
                 match l with
                 | [] => Forall_nil P
                 | x :: t => Forall_cons x (resp_ind' x) (go t)
                 end) l)
    end.
End RespInd.




Definition go_arr : list lval -> list resp :=
  fix go (l : list lval) : list resp :=
    match l with
    | [] => []
    | LNil :: _ => []
    | x :: t => lua_to_resp x :: go t
    end.
Lemma lua_to_resp_tab o e arr :
  lua_to_resp (LTab o e arr) =
    match get_str e with
    | Some x => RError (sanitize x)
    | None => match get_str o with
              | Some s => RSimple_ (sanitize s)
              | None => RArr (Some (go_arr arr))
              end
    end.
Proof. reflexivity. Qed.
Lemma go_arr_cons x t : x <> LNil -> go_arr (x :: t) = lua_to_resp x :: go_arr t.
Proof. destruct x; try reflexivity. congruence. Qed.

Lemma conv_with nil_as a :
  (a = true -> lua_to_resp nil_as = RBulk None /\ nil_as <> LNil) ->
  forall r, inner_ok_with a r = true ->
            lua_to_resp (resp_to_lua_with nil_as r) = r /\ resp_to_lua_with nil_as r <> LNil.
Proof.
  intros Hnil. induction r as [s|s|z|o| |l IH] using resp_ind'; cbn [inner_ok_with resp_to_lua_with]; intros H.
  - unfold text_ok in H. apply andb_true_iff in H as [H1 H2]. apply bytes_eqb_eq in H2.
    split; [|discriminate]. rewrite lua_to_resp_tab. cbn [get_str]. rewrite H1. now rewrite H2.
  - unfold text_ok in H. apply andb_true_iff in H as [H1 H2]. apply bytes_eqb_eq in H2.
    split; [|discriminate]. rewrite lua_to_resp_tab. cbn [get_str]. rewrite H1. now rewrite H2.
  - split; [reflexivity|discriminate].
  - destruct o as [b|]; [split; [reflexivity|discriminate]|]. now apply Hnil.
  - discriminate.
  - split; [|discriminate]. rewrite lua_to_resp_tab. cbn [get_str]. do 2 f_equal.
    induction IH as [|x t Hx _ IHt]; [reflexivity|].
    apply andb_true_iff in H as [H1 H2]. destruct (Hx H1) as [E1 E2].
    cbn [map]. rewrite (go_arr_cons _ _ E2), E1. f_equal. exact (IHt H2).
Qed.

Theorem conv_roundtrip r : conv_ok r = true -> lua_to_resp (resp_to_lua r) = r.
Proof.
  intros H. assert (G : forall r, inner_ok_with false r = true -> lua_to_resp (resp_to_lua r) = r).
  { intros r0 H0. apply (conv_with LNil false); [discriminate|exact H0]. }
  destruct r as [| | |[b|]|]; try (apply G; exact H); reflexivity.
Qed.
Theorem conv_roundtrip_redis r :
  conv_ok_redis r = true -> lua_to_resp (resp_to_lua_redis r) = r.
Proof.
  intros H. apply (conv_with (LBool false) true); [|exact H].
  intros _. split; [reflexivity|discriminate].
Qed.
(* the nil exception of the coded conversion: a nil inside an array ends the array, and a
   nil array becomes a nil bulk; the first does not happen under Redis' nil -> false *)
Theorem conv_nil_exception :
  let v := RArr (Some [RBulk (Some [97%N]); RBulk None; RBulk (Some [99%N])]) in
  lua_to_resp (resp_to_lua v) = RArr (Some [RBulk (Some [97%N])])
  /\ lua_to_resp (resp_to_lua_redis v) = v
  /\ lua_to_resp (resp_to_lua (RArr None)) = RBulk None.
Proof. repeat split. Qed.
Theorem nil_reaches_script_as_nil :
  resp_to_lua (RBulk None) = LNil /\ resp_to_lua_redis (RBulk None) = LBool false.
Proof. split; reflexivity. Qed.

(* ------------------------------------------------------------------ printing and re-reading numbers *)
Definition is_digit (c : N) : bool := ((48 <=? c) && (c <=? 57))%N.
Definition all_digits (ds : bytes) : bool := forallb is_digit ds.
Fixpoint val (r : Z) (ds : bytes) : Z :=
  match ds with [] => r | c :: t => val (10 * r + Z.of_N (c - 48)) t end.

Lemma digit_is c : is_digit c = true -> digit c = Some (Z.of_N (c - 48)).
Proof. unfold is_digit, digit. now intros ->. Qed.
Lemma is_digit_range c : is_digit c = true -> (48 <= c <= 57)%N.
Proof. unfold is_digit. intros H. apply andb_true_iff in H as [H1 H2]. apply N.leb_le in H1, H2. lia. Qed.
Lemma val_mono ds : all_digits ds = true -> forall r, (0 <= r)%Z -> (r <= val r ds)%Z.
Proof.
  induction ds as [|c t IH]; cbn [val all_digits forallb]; intros H r Hr; [lia|].
  apply andb_true_iff in H as [Hc Ht]. apply is_digit_range in Hc.
  specialize (IH Ht (10 * r + Z.of_N (c - 48))%Z). lia.
Qed.
Lemma acc_pos_val hi ds : all_digits ds = true -> forall r, (0 <= r)%Z -> (val r ds <= hi)%Z ->
  acc_pos hi r ds = IOk (val r ds).
Proof.
  induction ds as [|c t IH]; cbn [val all_digits forallb acc_pos]; intros H r Hr Hv; [reflexivity|].
  apply andb_true_iff in H as [Hc Ht]. rewrite (digit_is _ Hc).
  pose proof (is_digit_range _ Hc) as Hc'.
  pose proof (val_mono t Ht (10 * r + Z.of_N (c - 48))%Z ltac:(lia)) as Hm.
  cbv zeta. destruct (Z.gtb_spec (10 * r + Z.of_N (c - 48)) hi); [lia|].
  apply IH; auto; lia.
Qed.
Lemma acc_neg_val lo ds : all_digits ds = true -> forall r, (r <= 0)%Z -> (lo <= - val (- r) ds)%Z ->
  acc_neg lo r ds = IOk (- val (- r) ds)%Z.
Proof.
  induction ds as [|c t IH]; cbn [val all_digits forallb acc_neg]; intros H r Hr Hv.
  - f_equal. lia.
  - apply andb_true_iff in H as [Hc Ht]. rewrite (digit_is _ Hc).
    pose proof (is_digit_range _ Hc) as Hc'.
    replace (10 * - r + Z.of_N (c - 48))%Z with (- (10 * r - Z.of_N (c - 48)))%Z in * by lia.
    pose proof (val_mono t Ht (- (10 * r - Z.of_N (c - 48)))%Z ltac:(lia)) as Hm.
    cbv zeta. destruct (Z.ltb_spec (10 * r - Z.of_N (c - 48)) lo); [lia|].
    apply IH; auto; lia.
Qed.

Lemma ndigits_digits fuel : forall n acc, all_digits acc = true -> all_digits (ndigits fuel n acc) = true.
Proof.
  induction fuel as [|f IH]; cbn [ndigits]; intros n acc Ha; [exact Ha|].
  assert (Hd : all_digits ((48 + n mod 10)%N :: acc) = true).
  { cbn [all_digits forallb]. fold (all_digits acc). rewrite Ha, andb_true_r.
    unfold is_digit. pose proof (N.mod_lt n 10 ltac:(lia)) as Hm.
    remember (n mod 10)%N as m. apply andb_true_iff. split; apply N.leb_le; lia. }
  cbv zeta. destruct (n / 10 =? 0)%N; [exact Hd|]. now apply IH.
Qed.
Lemma ndigits_nonempty fuel : forall n acc, acc <> [] -> ndigits fuel n acc <> [].
Proof.
  induction fuel as [|f IH]; cbn [ndigits]; intros n acc Ha; [exact Ha|].
  cbv zeta. destruct (n / 10 =? 0)%N; [discriminate|]. apply IH. discriminate.
Qed.
Lemma ndigits_val fuel : forall n acc, (n < 2 ^ N.of_nat fuel)%N ->
  val 0 (ndigits fuel n acc) = val (Z.of_N n) acc.
Proof.
  induction fuel as [|f IH]; intros n acc Hn.
  - cbn [ndigits]. change (2 ^ N.of_nat 0)%N with 1%N in Hn. replace n with 0%N by lia. reflexivity.
  - cbn [ndigits]. cbv zeta.
    pose proof (N.div_mod n 10 ltac:(lia)) as Hdm. pose proof (N.mod_lt n 10 ltac:(lia)) as Hml.
    remember (n mod 10)%N as m. remember (n / 10)%N as q.
    destruct (N.eqb_spec q 0) as [E|E].
    + cbn [val]. f_equal. rewrite E in Hdm. lia.
    + rewrite IH.
      * cbn [val]. f_equal. lia.
      * rewrite Nat2N.inj_succ, N.pow_succ_r' in Hn. remember (2 ^ N.of_nat f)%N as pw. lia.
Qed.
Lemma ntoa_digits n : all_digits (ntoa n) = true.
Proof. apply ndigits_digits. reflexivity. Qed.
Lemma ntoa_nonempty n : ntoa n <> [].
Proof.
  unfold ntoa. cbn [ndigits]. cbv zeta. destruct (n / 10 =? 0)%N; [discriminate|].
  apply ndigits_nonempty. discriminate.
Qed.
Lemma ntoa_val n : val 0 (ntoa n) = Z.of_N n.
Proof.
  unfold ntoa. rewrite ndigits_val; [reflexivity|].
  rewrite Nat2N.inj_succ, N2Nat.id, N.pow_succ_r'. pose proof (N.size_gt n). lia.
Qed.

Lemma all_digits_ascii ds : all_digits ds = true -> ascii ds.
Proof.
  induction ds as [|c t IH]; cbn [all_digits forallb]; intros H; [constructor|].
  apply andb_true_iff in H as [H1 H2]. constructor.
  - apply is_digit_range in H1. lia.
  - apply IH. exact H2.
Qed.
Lemma itoa_ascii z : ascii (itoa z).
Proof.
  destruct z; cbn [itoa].
  - repeat constructor.
  - apply all_digits_ascii, ntoa_digits.
  - constructor; [lia|]. apply all_digits_ascii, ntoa_digits.
Qed.
Lemma lossy_itoa z : lossy (itoa z) = itoa z.
Proof. apply lossy_ascii, itoa_ascii. Qed.

Lemma head_digit_not_sign c t : all_digits (c :: t) = true -> ((c =? 43) || (c =? 45))%N = false /\ (c =? 43)%N = false /\ (c =? 45)%N = false.
Proof.
  cbn [all_digits forallb]. intros H. apply andb_true_iff in H as [H _]. apply is_digit_range in H.
  assert ((c =? 43)%N = false) by (apply N.eqb_neq; lia).
  assert ((c =? 45)%N = false) by (apply N.eqb_neq; lia).
  now rewrite H0, H1.
Qed.
Lemma parse_int_digits signed lo hi ds :
  ds <> [] -> all_digits ds = true -> (val 0 ds <= hi)%Z ->
  parse_int signed lo hi ds = IOk (val 0 ds).
Proof.
  intros Hne Hd Hv. destruct ds as [|c t]; [contradiction|].
  destruct (head_digit_not_sign _ _ Hd) as (E1 & E2 & E3).
  unfold parse_int. destruct t.
  - rewrite E1. apply acc_pos_val; auto. lia.
  - rewrite E2, E3. cbn [andb]. apply acc_pos_val; auto. lia.
Qed.
Lemma parse_int_itoa signed lo hi z :
  (lo <= z <= hi)%Z -> (signed = true \/ 0 <= z)%Z ->
  parse_int signed lo hi (itoa z) = IOk z.
Proof.
  intros Hr Hs. destruct z as [|p|p]; cbn [itoa].
  - cbn. destruct (Z.gtb_spec 0 hi); [lia|reflexivity].
  - rewrite parse_int_digits.
    + now rewrite ntoa_val.
    + apply ntoa_nonempty.
    + apply ntoa_digits.
    + rewrite ntoa_val. cbn. lia.
  - destruct Hs as [->|Hs]; [|lia].
    unfold parse_int. pose proof (ntoa_nonempty (N.pos p)) as Hne.
    destruct (ntoa (N.pos p)) as [|c t] eqn:E; [contradiction|].
    cbn [N.eqb Pos.eqb andb orb]. rewrite <- E.
    rewrite (acc_neg_val lo _ (ntoa_digits _) 0%Z ltac:(lia)); cbn [Z.opp]; rewrite ntoa_val; cbn; [reflexivity|lia].
Qed.
Lemma parse_i64_itoa z : in_range I64_MIN I64_MAX z = true -> parse_i64 (lossy (itoa z)) = IOk z.
Proof.
  unfold in_range. intros H. apply andb_true_iff in H as [H1 H2]. apply Z.leb_le in H1, H2.
  rewrite lossy_itoa. apply parse_int_itoa; auto.
Qed.
Lemma parse_unsigned_itoa hi z : in_range 0 hi z = true -> parse_int false 0 hi (lossy (itoa z)) = IOk z.
Proof.
  unfold in_range. intros H. apply andb_true_iff in H as [H1 H2]. apply Z.leb_le in H1, H2.
  rewrite lossy_itoa. apply parse_int_itoa; auto.
Qed.

(* ------------------------------------------------------------------ extract (unext v) = v *)
Lemma in_range_spec lo hi z : in_range lo hi z = true -> (lo <= z <= hi)%Z.
Proof. unfold in_range. intros H. apply andb_true_iff in H as [H1 H2]. apply Z.leb_le in H1, H2. lia. Qed.
Lemma ext_int_itoa z : in_range I64_MIN I64_MAX z = true -> ext_int (EBulk (itoa z)) = Ok z.
Proof. intros H. unfold ext_int. now rewrite parse_i64_itoa. Qed.
Lemma ext_u64_itoa z : in_range 0 U64_MAX z = true -> ext_u64 (EBulk (itoa z)) = Ok z.
Proof. intros H. unfold ext_u64, parse_u64. now rewrite parse_unsigned_itoa. Qed.

Lemma ext_unext k v : wf_val k v = true -> extract k (EBulk (unext_k k v)) = Ok v.
Proof.
  destruct k, v; cbn [wf_val]; try discriminate; intros H; cbn [unext_k unext unext_usz extract].
  - apply bytes_eqb_eq in H. now rewrite H.
  - apply bytes_eqb_eq in H. now rewrite H.
  - reflexivity.
  - now rewrite ext_int_itoa.
  - (* KUsz *)
    pose proof (in_range_spec _ _ _ H) as Hr. unfold U64_MAX in Hr.
    destruct (Z.ltb_spec z (2 ^ 63)).
    + rewrite ext_int_itoa.
      * rewrite Z.mod_small; [reflexivity|unfold TWO64; lia].
      * unfold in_range, I64_MIN, I64_MAX. apply andb_true_iff. split; apply Z.leb_le; lia.
    + rewrite ext_int_itoa.
      * f_equal. f_equal. unfold TWO64.
        replace (z - 2 ^ 64)%Z with (z + (-1) * 2 ^ 64)%Z by lia.
        rewrite Z.mod_add by lia. apply Z.mod_small. lia.
      * unfold in_range, I64_MIN, I64_MAX, TWO64. apply andb_true_iff. split; apply Z.leb_le; lia.
  - now rewrite ext_u64_itoa.
  - rewrite ext_u64_itoa by exact H. reflexivity.
  - (* KBit *)
    pose proof (in_range_spec _ _ _ H) as Hr.
    rewrite ext_int_itoa.
    + cbn [remap]. destruct (Z.ltb_spec z 0); [lia|]. destruct (Z.ltb_spec 1 z); [lia|]. reflexivity.
    + unfold in_range, I64_MIN, I64_MAX. apply andb_true_iff. split; apply Z.leb_le; lia.
  - (* KOffset *)
    pose proof (in_range_spec _ _ _ H) as Hr.
    rewrite ext_int_itoa.
    + destruct (Z.ltb_spec z 0); [lia|]. reflexivity.
    + unfold in_range, I64_MIN, I64_MAX in *. apply andb_true_iff. split; apply Z.leb_le; lia.
  - (* KFloat *)
    apply andb_true_iff in H as [H1 H2]. apply bytes_eqb_eq in H1. rewrite H1.
    destruct (float_class t); [reflexivity|discriminate].
  - (* KFinite *)
    apply andb_true_iff in H as [H1 H2]. apply bytes_eqb_eq in H1. rewrite H1.
    destruct (float_class t) as [[| |]|]; try discriminate. reflexivity.
  - (* KDb *)
    pose proof (in_range_spec _ _ _ H) as Hr.
    rewrite ext_u64_itoa.
    + destruct (Z.ltb_spec 15 z); [lia|]. reflexivity.
    + unfold in_range, U64_MAX. apply andb_true_iff. split; apply Z.leb_le; lia.
  - (* KUszStr *)
    unfold parse_u64. now rewrite parse_unsigned_itoa.
  - (* KU32Str *)
    unfold parse_u32. now rewrite parse_unsigned_itoa.
Qed.

Lemma extract_list_unext k l :
  forallb (wf_val k) l = true -> extract_list k (map EBulk (map (unext_k k) l)) = Ok l.
Proof.
  induction l as [|v l IH]; cbn [forallb map extract_list]; intros H; [reflexivity|].
  apply andb_true_iff in H as [H1 H2]. now rewrite (ext_unext _ _ H1), (IH H2).
Qed.
Definition pair_tokens (k1 k2 : kind) (p : cval) : list bytes :=
  match p with VP a b => [unext_k k1 a; unext_k k2 b] | _ => [] end.
Lemma extract_pairs_unext k1 k2 l :
  forallb (wf_pair k1 k2) l = true ->
  extract_pairs k1 k2 (map EBulk (flat_map (pair_tokens k1 k2) l)) = Ok l
  /\ List.length (flat_map (pair_tokens k1 k2) l) = (2 * List.length l)%nat.
Proof.
  induction l as [|v l IH]; cbn [forallb flat_map]; intros H; [split; reflexivity|].
  apply andb_true_iff in H as [H1 H2]. destruct v; try discriminate. cbn [wf_pair] in H1.
  apply andb_true_iff in H1 as [Ha Hb]. destruct (IH H2) as [E L].
  cbn [pair_tokens app map extract_pairs]. rewrite (ext_unext _ _ Ha), (ext_unext _ _ Hb), E.
  split; [reflexivity|]. cbn [List.length]. rewrite L. lia.
Qed.
Lemma extract_pre_unext pre : forall vs rest,
  wf_pre pre vs = true ->
  extract_pre pre (map EBulk (unext_pre pre vs) ++ rest) = Ok (vs, rest)
  /\ List.length (unext_pre pre vs) = List.length pre.
Proof.
  induction pre as [|k pre IH]; intros [|v vs] rest; cbn [wf_pre]; try discriminate; intros H.
  - split; reflexivity.
  - apply andb_true_iff in H as [H1 H2]. destruct (IH vs rest H2) as [E L].
    cbn [unext_pre map app extract_pre]. rewrite (ext_unext _ _ H1), E. cbn [fst snd].
    split; [reflexivity|]. cbn [List.length]. now rewrite L.
Qed.

Lemma run_simple tag pre tl e a1 a2 :
  wf_pre pre a1 = true -> wf_tail tl a2 = true ->
  run_rule (RSimple tag pre tl e) (map EBulk (unext_pre pre a1 ++ unext_tail tl a2))
  = POk (Cmd tag (a1 ++ a2)).
Proof.
  intros Hp Ht. rewrite map_app.
  destruct (extract_pre_unext pre a1 (map EBulk (unext_tail tl a2)) Hp) as [E L].
  unfold run_rule.
  assert (HA : arity_ok (RSimple tag pre tl e)
                 (List.length (map EBulk (unext_pre pre a1) ++ map EBulk (unext_tail tl a2))) = true).
  { rewrite app_length, !map_length, L. cbn [arity_ok].
    destruct tl; cbn [wf_tail] in Ht.
    - destruct a2; [|discriminate]. cbn. rewrite Nat.add_0_r. apply Nat.eqb_refl.
    - reflexivity.
    - destruct a2 as [|[] [|]]; try discriminate. apply Nat.leb_le. lia.
    - destruct a2 as [|[] [|]]; try discriminate. apply andb_true_iff in Ht as [Hn _].
      cbn [unext_tail]. rewrite map_length. destruct l; [discriminate|]. apply Nat.leb_le. cbn. lia.
    - destruct a2 as [|[] [|]]; try discriminate. apply andb_true_iff in Ht as [Hn Hf].
      cbn [unext_tail]. destruct (extract_pairs_unext k1 k2 l Hf) as [_ L2].
      fold (pair_tokens k1 k2). rewrite L2. destruct l; [discriminate|].
      apply andb_true_iff. split.
      + apply Nat.leb_le. cbn. lia.
      + replace (List.length pre + 2 * List.length (c :: l) - List.length pre)%nat
          with (2 * List.length (c :: l))%nat by lia.
        rewrite Nat.even_mul. reflexivity. }
  rewrite HA. cbn [negb]. rewrite E. cbn [fst snd to_presult].
  destruct tl; cbn [wf_tail] in Ht.
  - destruct a2; [|discriminate]. now rewrite app_nil_r.
  - destruct a2; [|discriminate]. now rewrite app_nil_r.
  - destruct a2 as [|[] [|]]; try discriminate. cbn [unext_tail]. now rewrite (extract_list_unext _ _ Ht).
  - destruct a2 as [|[] [|]]; try discriminate. apply andb_true_iff in Ht as [_ Hf].
    cbn [unext_tail]. now rewrite (extract_list_unext _ _ Hf).
  - destruct a2 as [|[] [|]]; try discriminate. apply andb_true_iff in Ht as [_ Hf].
    cbn [unext_tail]. fold (pair_tokens k1 k2). destruct (extract_pairs_unext k1 k2 l Hf) as [E2 _].
    now rewrite E2.
Qed.

(* ------------------------------------------------------------------ where a simple row lives *)
Lemma simple_of_In path t p r :
  In (p, r) (simple_of path t) -> exists n, p = path ++ [n] /\ In (n, r) t.
Proof.
  unfold simple_of. intros H. apply in_flat_map in H as [[n r0] [HI H]].
  cbn [fst snd] in H. destruct r0; [|contradiction].
  destruct H as [H|[]]. injection H as <- <-. exists n. split; [reflexivity|exact HI].
Qed.
Lemma find_tag_In tag ix : forall path pre tl,
  find_tag tag ix = Some (path, pre, tl) -> exists e, In (path, RSimple tag pre tl e) ix.
Proof.
  induction ix as [|[p r] ix IH]; cbn [find_tag]; intros path pre tl H; [discriminate|].
  destruct r as [t pr l e|].
  - destruct (String.eqb_spec tag t) as [->|Hne].
    + injection H as <- <- <-. exists e. now left.
    + destruct (IH _ _ _ H) as [e' He']. exists e'. now right.
  - destruct (IH _ _ _ H) as [e' He']. exists e'. now right.
Qed.

Local Transparent grammar.
Lemma names_upper :
  forallb (fun n => bytes_eqb (ustr n) n)
          (names grammar ++ flat_map (fun ct => fst ct :: names (snd ct)) subtables) = true.
Proof. vm_compute. reflexivity. Qed.
Lemma subtables_nodup : forallb (fun ct => nodupb (names (snd ct))) subtables = true.
Proof. vm_compute. reflexivity. Qed.
Definition is_container (ct : bytes * list (bytes * rule)) : Prop :=
  exists miss unk, lookup (fst ct) grammar = Some (RCustom 1 None miss (sub_run (snd ct) unk)).
Lemma subtables_containers : Forall is_container subtables.
Proof.
  unfold subtables. repeat constructor; unfold is_container; cbn [fst snd].
  - exists (wrong_args "config"), config_unknown. reflexivity.
  - exists (tx "ACL requires a subcommand"), acl_unknown. reflexivity.
  - exists (tx "SCRIPT requires a subcommand"), script_unknown. reflexivity.
  - exists (wrong_args "function"), (named_unknown "FUNCTION"). reflexivity.
  - exists (wrong_args "client"), (named_unknown "CLIENT"). reflexivity.
  - exists (wrong_args "object"), (named_unknown "OBJECT"). reflexivity.
  - exists (wrong_args "debug"), debug_unknown. reflexivity.
Qed.
Local Opaque grammar.

Lemma upper_name n : In n (names grammar ++ flat_map (fun ct => fst ct :: names (snd ct)) subtables) -> ustr n = n.
Proof.
  intros H. pose proof names_upper as HU. rewrite forallb_forall in HU.
  apply bytes_eqb_eq. now apply HU.
Qed.
Lemma upper_top n r : In (n, r) grammar -> ustr n = n.
Proof.
  intros H. apply upper_name. apply in_or_app. left. change n with (fst (n, r)). now apply in_map.
Qed.
Lemma upper_container c tbl : In (c, tbl) subtables -> ustr c = c.
Proof.
  intros H. apply upper_name. apply in_or_app. right. apply in_flat_map. exists (c, tbl). split; [exact H|now left].
Qed.
Lemma upper_sub c tbl n r : In (c, tbl) subtables -> In (n, r) tbl -> ustr n = n.
Proof.
  intros H H2. apply upper_name. apply in_or_app. right. apply in_flat_map. exists (c, tbl). split; [exact H|].
  right. cbn [snd]. change n with (fst (n, r)). now apply in_map.
Qed.
Lemma sub_lookup c tbl n r : In (c, tbl) subtables -> In (n, r) tbl -> lookup n tbl = Some r.
Proof.
  intros H H2. apply lookup_unique; [|exact H2]. apply nodupb_NoDup.
  pose proof subtables_nodup as HN. rewrite forallb_forall in HN. exact (HN _ H).
Qed.

Section Casing.
  Variable k : bytes -> bytes.
  Hypothesis Hk : forall w, ustr (k w) = ustr w.

  Lemma parse_top n r args :
    In (n, r) grammar -> parse_frame (Some (EBulk (k n) :: args)) = run_rule r args.
  Proof.
    intros H. unfold parse_frame. rewrite Hk, (upper_top _ _ H), (grammar_lookup _ _ H). reflexivity.
  Qed.
  Lemma parse_sub c tbl n r args :
    In (c, tbl) subtables -> In (n, r) tbl ->
    parse_frame (Some (EBulk (k c) :: EBulk (k n) :: args)) = run_rule r args.
  Proof.
    intros H H2. pose proof subtables_containers as HC. rewrite Forall_forall in HC.
    destruct (HC _ H) as (miss & unk & HL). cbn [fst snd] in HL.
    unfold parse_frame. rewrite Hk, (upper_container _ _ H), HL.
    unfold run_rule at 1. cbn [arity_ok List.length Nat.leb andb negb].
    unfold sub_run, kw_of. rewrite Hk, (upper_sub _ _ _ _ H H2), (sub_lookup _ _ _ _ H H2). reflexivity.
  Qed.

  Lemma tokens_map path xs :
    map (fun t : bool * bytes => if fst t then k (snd t) else snd t)
        (map (fun w => (true, w)) path ++ map arg xs) = map k path ++ xs.
  Proof.
    rewrite map_app, !map_map. cbn [fst snd arg]. f_equal.
    induction xs; cbn; congruence.
  Qed.

  Lemma parse_unparse_simple tag a path pre tl ps :
    find_tag tag simple_index = Some (path, pre, tl) ->
    canonical (Cmd tag a) = true -> unparse_k k (Cmd tag a) = Some ps ->
    parse_cmd ps = POk (Cmd tag a).
  Proof.
    intros HF HC HU. unfold canonical in HC. unfold unparse_k, unparse_tokens in HU. rewrite HF in *.
    apply andb_true_iff in HC as [Hp Ht]. injection HU as <-. rewrite tokens_map.
    destruct (find_tag_In _ _ _ _ _ HF) as [e HI].
    replace (Cmd tag a) with (Cmd tag (firstn (List.length pre) a ++ skipn (List.length pre) a))
      by (now rewrite firstn_skipn).
    unfold simple_index in HI. apply in_app_or in HI as [HI|HI].
    - apply simple_of_In in HI as (n & -> & HI). cbn [app map]. unfold parse_cmd. cbn [map].
      rewrite (parse_top _ _ _ HI). now apply run_simple.
    - apply in_flat_map in HI as ([c tbl] & HS & HI). cbn [fst snd] in HI.
      apply simple_of_In in HI as (n & -> & HI). cbn [app map]. unfold parse_cmd. cbn [map].
      rewrite (parse_sub _ _ _ _ _ HS HI). now apply run_simple.
  Qed.
End Casing.

(* ------------------------------------------------------------------ commands with their own parser *)
Local Open Scope string_scope.
Local Open Scope list_scope.
Local Open Scope bool_scope.
Notation cased k := (map (fun t : bool * bytes => if fst t then k (snd t) else snd t)).
Definition custom_ok (k : bytes -> bytes) (tag : string) (c : custom) : Prop :=
  forall a, c_canon c a = true ->
            exists ts, c_unparse c a = Some ts /\ parse_cmd (cased k ts) = POk (Cmd tag a).

Definition cond_set (b : bool) (n : nat) (v : cval) (st : list cval) : list cval :=
  if b then setn n v st else st.

Ltac split_and :=
  repeat match goal with
         | H : (_ && _)%bool = true |- _ => apply andb_true_iff in H as [? ?]
         end.
Ltac ext := repeat (rewrite ext_unext by assumption).

Section Customs.
  Variable k : bytes -> bytes.
  Hypothesis Hk : forall w, ustr (k w) = ustr w.

  Lemma parse_row n r args :
    lookup n grammar = Some r -> ustr n = n ->
    parse_frame (Some (EBulk (k n) :: args)) = run_rule r args.
  Proof. intros H1 H2. unfold parse_frame. now rewrite Hk, H2, H1. Qed.

  (* one optional piece of an option list *)
  Lemma oloop_opt_flag tbl unk st kw n v rest :
    lookup (tx kw) tbl = Some (AFlag n) -> ustr (tx kw) = tx kw -> is_flag v = true ->
    oloop tbl unk st (map EBulk (cased k (opt_flag kw v)) ++ rest)
    = oloop tbl unk (cond_set (flag_of v) n (VFlag true) st) rest.
  Proof.
    intros HL HU HF. destruct v as [| | | | |[|]| | |]; try discriminate; cbn [opt_flag flag_of cond_set map app fst snd].
    - cbn [oloop kw_of]. now rewrite Hk, HU, HL.
    - reflexivity.
  Qed.
  Lemma oloop_opt_val tbl unk st kw n kd miss v rest :
    lookup (tx kw) tbl = Some (AVal n kd miss) -> ustr (tx kw) = tx kw -> wf_opt kd v = true ->
    oloop tbl unk st (map EBulk (cased k (opt_val kw kd v)) ++ rest)
    = oloop tbl unk (cond_set (is_some v) n v st) rest.
  Proof.
    intros HL HU HF. destruct v as [| | | | | |[x|]| |]; try discriminate; cbn [opt_val is_some cond_set map app fst snd].
    - cbn [oloop kw_of]. rewrite Hk, HU, HL. cbn [wf_opt] in HF. now rewrite (ext_unext _ _ HF).
    - reflexivity.
  Qed.
  Lemma oloop_opt_flag_end tbl unk st kw n v :
    lookup (tx kw) tbl = Some (AFlag n) -> ustr (tx kw) = tx kw -> is_flag v = true ->
    oloop tbl unk st (map EBulk (cased k (opt_flag kw v)))
    = Ok (cond_set (flag_of v) n (VFlag true) st).
  Proof.
    intros. rewrite <- (app_nil_r (map EBulk _)). erewrite oloop_opt_flag by eassumption. reflexivity.
  Qed.
  Lemma oloop_opt_val_end tbl unk st kw n kd miss v :
    lookup (tx kw) tbl = Some (AVal n kd miss) -> ustr (tx kw) = tx kw -> wf_opt kd v = true ->
    oloop tbl unk st (map EBulk (cased k (opt_val kw kd v)))
    = Ok (cond_set (is_some v) n v st).
  Proof.
    intros. rewrite <- (app_nil_r (map EBulk _)). erewrite oloop_opt_val by eassumption. reflexivity.
  Qed.

  Ltac dflag v := destruct v as [| | | | |[|]| | |]; try discriminate.
  Ltac dopt v := destruct v as [| | | | | |[?|]| |]; try discriminate.
  Ltac side := reflexivity || assumption.
  Ltac kill_neg :=
    repeat match goal with
           | H : negb _ = true |- _ =>
               cbn [negb andb orb flag_of is_some] in H; try discriminate H; clear H
           end.

  Local Transparent grammar.

  Ltac start := intros a HC; cbn [c_canon c_unparse] in *.
  Ltac open_frame :=
    eexists; split; [reflexivity|]; unfold parse_cmd; cbn [map fst snd kwd ua arg app]; rewrite ?map_app.
  Ltac enter NAME ROW :=
    rewrite (parse_row (tx NAME) ROW) by side;
    unfold run_rule; cbn [arity_ok List.length Nat.leb andb negb].

  Local Transparent grammar.

  Lemma ping_ok : custom_ok k "Ping" {| c_canon := c_ping; c_unparse := u_ping |}.
  Proof.
    start. destruct a as [|o [|? ?]]; try discriminate; dopt o; cbn [c_ping] in HC; try discriminate; open_frame.
    - enter "PING" (RCustom 0 None [] p_ping). unfold p_ping. ext. reflexivity.
    - enter "PING" (RCustom 0 None [] p_ping). reflexivity.
  Qed.

  Lemma auth_ok : custom_ok k "Auth" {| c_canon := c_auth; c_unparse := u_auth |}.
  Proof.
    start. destruct a as [|o [|p [|? ?]]]; try discriminate; dopt o; cbn [c_auth] in HC; try discriminate; split_and; open_frame.
    - enter "AUTH" (RCustom 1 (Some 2%nat) (tx "AUTH requires 1 or 2 arguments") p_auth).
      unfold p_auth. ext. reflexivity.
    - enter "AUTH" (RCustom 1 (Some 2%nat) (tx "AUTH requires 1 or 2 arguments") p_auth).
      unfold p_auth. ext. reflexivity.
  Qed.

  Lemma set_ok : custom_ok k "Set" {| c_canon := c_set; c_unparse := u_set |}.
  Proof.
    start.
    destruct a as [|k0 [|v [|ex [|px [|exat [|pxat [|nx [|xx [|g [|kt [|]]]]]]]]]]]; try discriminate.
    cbn [c_set] in HC. split_and. open_frame.
    enter "SET" (RCustom 2 None (req "SET" "at least 2 arguments") p_set).
    unfold p_set. ext.
    rewrite (oloop_opt_flag set_kw _ _ "NX" 6) by side.
    rewrite (oloop_opt_flag set_kw _ _ "XX" 7) by side.
    rewrite (oloop_opt_flag set_kw _ _ "GET" 8) by side.
    erewrite (oloop_opt_val set_kw _ _ "EX" 2 KInt) by side.
    erewrite (oloop_opt_val set_kw _ _ "PX" 3 KInt) by side.
    erewrite (oloop_opt_val set_kw _ _ "EXAT" 4 KInt) by side.
    erewrite (oloop_opt_val set_kw _ _ "PXAT" 5 KInt) by side.
    rewrite (oloop_opt_flag_end set_kw _ _ "KEEPTTL" 9) by side.
    dflag nx; dflag xx; dflag g; dflag kt; dopt ex; dopt px; dopt exat; dopt pxat; kill_neg; vm_compute; reflexivity.
  Qed.

  Lemma getex_ok : custom_ok k "GetEx" {| c_canon := c_getex; c_unparse := u_getex |}.
  Proof.
    start. destruct a as [|k0 [|ex [|px [|exat [|pxat [|ps [|]]]]]]]; try discriminate.
    cbn [c_getex] in HC. split_and. open_frame.
    enter "GETEX" (RCustom 1 None (wrong_args "getex") p_getex).
    unfold p_getex. ext.
    erewrite (oloop_opt_val getex_kw _ _ "EX" 1 KInt) by side.
    erewrite (oloop_opt_val getex_kw _ _ "PX" 2 KInt) by side.
    erewrite (oloop_opt_val getex_kw _ _ "EXAT" 3 KInt) by side.
    erewrite (oloop_opt_val getex_kw _ _ "PXAT" 4 KInt) by side.
    rewrite (oloop_opt_flag_end getex_kw _ _ "PERSIST" 5) by side.
    dflag ps; dopt ex; dopt px; dopt exat; dopt pxat;
      match goal with H : Nat.leb _ _ = true |- _ => cbn in H; try discriminate H end;
      vm_compute; reflexivity.
  Qed.

  Lemma expire_ok name tag :
    lookup (tx name) grammar = Some (RCustom 2 None (req name "at least 2 arguments") (p_expire tag)) ->
    ustr (tx name) = tx name ->
    custom_ok k tag {| c_canon := c_expire; c_unparse := u_expire name |}.
  Proof.
    intros HR HN. start. destruct a as [|k0 [|n [|nx [|xx [|gt [|lt [|]]]]]]]; try discriminate.
    cbn [c_expire] in HC. split_and. open_frame.
    rewrite (parse_row _ _ _ HR HN). unfold run_rule. cbn [arity_ok List.length Nat.leb andb negb].
    unfold p_expire. ext.
    rewrite (oloop_opt_flag expire_kw _ _ "NX" 2) by side.
    rewrite (oloop_opt_flag expire_kw _ _ "XX" 3) by side.
    rewrite (oloop_opt_flag expire_kw _ _ "GT" 4) by side.
    rewrite (oloop_opt_flag_end expire_kw _ _ "LT" 5) by side.
    dflag nx; dflag xx; dflag gt; dflag lt; kill_neg; reflexivity.
  Qed.

  Lemma kw_cased w : ustr (tx w) = tx w -> kw_of (EBulk (k (tx w))) = Ok (tx w).
  Proof. intros H. unfold kw_of. now rewrite Hk, H. Qed.

  Lemma oloop_limit tbl unk st w n miss o c off cnt rest :
    lookup (ustr w) tbl = Some (ALimit n miss) ->
    extract KInt (EBulk o) = Ok off -> extract KUsz (EBulk c) = Ok cnt ->
    oloop tbl unk st (EBulk w :: EBulk o :: EBulk c :: rest)
    = oloop tbl unk (setn n (VOpt (Some (VP off cnt))) st) rest.
  Proof. intros H1 H2 H3. cbn [oloop kw_of]. now rewrite H1, H2, H3. Qed.

  Lemma zrangebyscore_ok :
    custom_ok k "ZRangeByScore" {| c_canon := c_zrangebyscore; c_unparse := u_zrangebyscore |}.
  Proof.
    start. destruct a as [|k0 [|mn [|mx [|ws [|lim [|? ?]]]]]]; try discriminate;
    destruct lim as [| | | | | |[[| | | | | | | |off cnt]|]| |];
      cbn [c_zrangebyscore] in HC; try discriminate; split_and; open_frame;
      enter "ZRANGEBYSCORE" (RCustom 3 None (req "ZRANGEBYSCORE" "at least 3 arguments") p_zrangebyscore);
      unfold p_zrangebyscore; ext.
    - rewrite (oloop_opt_flag zrbs_kw _ _ "WITHSCORES" 3) by side.
      cbn [map fst snd kwd ua].
      erewrite (oloop_limit zrbs_kw _ _ (k (tx "LIMIT")) 4);
        [|rewrite Hk; reflexivity|apply ext_unext; assumption|apply ext_unext; assumption].
      dflag ws; reflexivity.
    - rewrite (oloop_opt_flag_end zrbs_kw _ _ "WITHSCORES" 3) by side.
      dflag ws; reflexivity.
  Qed.

  Lemma scan_ok : custom_ok k "Scan" {| c_canon := c_scan; c_unparse := u_scan |}.
  Proof.
    start. destruct a as [|c [|pat [|cnt [|? ?]]]]; try discriminate.
    cbn [c_scan] in HC. split_and. open_frame.
    enter "SCAN" (RCustom 1 None (req "SCAN" "at least 1 argument") p_scan).
    unfold p_scan. ext.
    erewrite (oloop_opt_val (scan_kw 1) _ _ "MATCH" 1 KStr) by side.
    erewrite (oloop_opt_val_end (scan_kw 1) _ _ "COUNT" 2 KUsz) by side.
    dopt pat; dopt cnt; reflexivity.
  Qed.

  Lemma kscan_ok name tag :
    lookup (tx name) grammar = Some (RCustom 2 None (req name "at least 2 arguments") (p_kscan tag name)) ->
    ustr (tx name) = tx name ->
    custom_ok k tag {| c_canon := c_kscan; c_unparse := u_kscan name |}.
  Proof.
    intros HR HN. start. destruct a as [|k0 [|c [|pat [|cnt [|? ?]]]]]; try discriminate.
    cbn [c_kscan] in HC. split_and. open_frame.
    rewrite (parse_row _ _ _ HR HN). unfold run_rule. cbn [arity_ok List.length Nat.leb andb negb].
    unfold p_kscan. ext.
    erewrite (oloop_opt_val (scan_kw 2) _ _ "MATCH" 2 KStr) by side.
    erewrite (oloop_opt_val_end (scan_kw 2) _ _ "COUNT" 3 KUsz) by side.
    dopt pat; dopt cnt; reflexivity.
  Qed.

  Lemma sort_ok : custom_ok k "Sort" {| c_canon := c_sort; c_unparse := u_sort |}.
  Proof.
    start. destruct a as [|k0 [|st [|? ?]]]; try discriminate.
    cbn [c_sort] in HC. split_and. dopt st; open_frame;
      enter "SORT" (RCustom 1 None (wrong_args "sort") p_sort); unfold p_sort; ext.
    - cbn [opt_val map oloop fst snd app]. rewrite (kw_cased "STORE") by reflexivity.
      cbn [lookup bytes_eqb]. replace (lookup (tx "STORE") [(tx "STORE", AStore 1)]) with (Some (AStore 1)) by reflexivity.
      cbn [wf_opt] in *. ext. reflexivity.
    - reflexivity.
  Qed.

  Lemma zrange_ok name tag :
    lookup (tx name) grammar = Some (RCustom 3 (Some 4%nat) (req name "3 or 4 arguments") (p_zrange tag)) ->
    ustr (tx name) = tx name ->
    custom_ok k tag {| c_canon := c_zrange; c_unparse := u_zrange name |}.
  Proof.
    intros HR HN. start. destruct a as [|k0 [|x [|y [|ws [|? ?]]]]]; try discriminate.
    cbn [c_zrange] in HC. split_and. dflag ws; open_frame;
      rewrite (parse_row _ _ _ HR HN); unfold run_rule; cbn [opt_flag map app arity_ok List.length Nat.leb andb negb fst snd];
      unfold p_zrange; ext.
    - rewrite (kw_cased "WITHSCORES") by reflexivity. reflexivity.
    - reflexivity.
  Qed.

  Lemma spop_ok : custom_ok k "SPop" {| c_canon := c_spop; c_unparse := u_spop |}.
  Proof.
    start. destruct a as [|k0 [|o [|? ?]]]; try discriminate; dopt o; cbn [c_spop] in HC; try discriminate;
      split_and; open_frame; enter "SPOP" (RCustom 1 (Some 2%nat) (req "SPOP" "1 or 2 arguments") p_spop);
      unfold p_spop; ext; reflexivity.
  Qed.

  Lemma dir_cased f : is_dir f = true -> kw_of (EBulk (k f)) = Ok f.
  Proof.
    unfold is_dir. intros H. apply orb_true_iff in H as [H|H]; apply bytes_eqb_eq in H; subst f;
      unfold kw_of; rewrite Hk; reflexivity.
  Qed.
  Lemma lmove_ok : custom_ok k "LMove" {| c_canon := c_lmove; c_unparse := u_lmove |}.
  Proof.
    start. destruct a as [|s [|d [|f [|t [|? ?]]]]]; try discriminate;
    destruct f as [f| | | | | | | |]; try discriminate; destruct t as [t| | | | | | | |]; try discriminate.
    cbn [c_lmove] in HC. split_and. open_frame.
    enter "LMOVE" (RCustom 4 (Some 4%nat) (req "LMOVE" "4 arguments") p_lmove).
    unfold p_lmove. ext. rewrite !dir_cased by assumption.
    unfold is_dir in *.
    repeat match goal with H : (bytes_eqb ?a ?b || bytes_eqb ?a ?c) = true |- _ => rewrite H; clear H end.
    reflexivity.
  Qed.

  Lemma run_custom lo hi e f args :
    arity_ok (RCustom lo hi e f) (List.length args) = true -> run_rule (RCustom lo hi e f) args = f args.
  Proof. intros H. unfold run_rule. now rewrite H. Qed.

  (* ZADD *)
  Lemma zadd_flags_opt st kw n v rest :
    zadd_flag (tx kw) = Some n -> ustr (tx kw) = tx kw -> is_flag v = true ->
    zadd_flags st (map EBulk (cased k (opt_flag kw v)) ++ rest)
    = zadd_flags (cond_set (flag_of v) n (VFlag true) st) rest.
  Proof.
    intros HL HU HF. destruct v as [| | | | |[|]| | |]; try discriminate; cbn [opt_flag flag_of cond_set map app fst snd].
    - cbn [zadd_flags kw_of]. now rewrite Hk, HU, HL.
    - reflexivity.
  Qed.
  Lemma pair_toks_tokens k1 k2 ps :
    map EBulk (cased k (flat_map (pair_toks k1 k2) ps)) = map EBulk (flat_map (pair_tokens k1 k2) ps).
  Proof.
    induction ps as [|p ps IH]; [reflexivity|]. cbn [flat_map]. rewrite !map_app, IH. f_equal.
    destruct p; reflexivity.
  Qed.
  Lemma zadd_ok : custom_ok k "ZAdd" {| c_canon := c_zadd; c_unparse := u_zadd |}.
  Proof.
    start. destruct a as [|k0 [|ps [|nx [|xx [|gt [|lt [|ch [|? ?]]]]]]]]; try discriminate;
    destruct ps as [| | | | | | |ps|]; try discriminate.
    cbn [c_zadd] in HC. split_and.
    destruct ps as [|[| | | | | | | |[| | |t| | | | |] m] ps]; try discriminate.
    open_frame.
    rewrite (parse_row (tx "ZADD") (RCustom 3 None (tx "ZADD requires key and score-member pairs") p_zadd)) by side.
    rewrite run_custom.
    2:{ cbn [arity_ok andb]. rewrite Bool.andb_true_r. apply Nat.leb_le. cbn [List.length].
        rewrite !app_length, !map_length. cbn [flat_map pair_toks app List.length]. lia. }
    - unfold p_zadd. ext.
      rewrite (zadd_flags_opt _ "NX" 2) by side.
      rewrite (zadd_flags_opt _ "XX" 3) by side.
      rewrite (zadd_flags_opt _ "GT" 4) by side.
      rewrite (zadd_flags_opt _ "LT" 5) by side.
      rewrite (zadd_flags_opt _ "CH" 6) by side.
      rewrite pair_toks_tokens.
      match goal with H : forallb (wf_pair KFloat KSds) _ = true |- _ =>
        destruct (extract_pairs_unext KFloat KSds _ H) as [EP LP] end.
      cbn [flat_map pair_tokens app map zadd_flags kw_of].
      match goal with H : match zadd_flag (ustr t) with _ => _ end = true |- _ =>
        destruct (zadd_flag (ustr t)) eqn:EZ; [discriminate H|] end.
      cbn [unext_k unext]. rewrite EZ. cbn [fst snd].
      cbn [flat_map pair_tokens app map] in EP, LP. cbn [unext_k unext] in EP, LP.
      match goal with |- context [Nat.even (List.length ?l)] =>
        assert (HL : List.length l = (2 * List.length (VP (VF t) m :: ps))%nat)
          by (cbn [List.length] in *; rewrite map_length; exact LP);
        rewrite HL end.
      rewrite Nat.even_mul. cbn [Nat.even orb negb List.length Nat.mul Nat.add Nat.eqb].
      rewrite EP. dflag nx; dflag xx; dflag gt; dflag lt; dflag ch; reflexivity.
  Qed.

  (* EVAL / EVALSHA *)
  Lemma cased_ua K l : map EBulk (cased k (map (ua K) l)) = map EBulk (map (unext_k K) l).
  Proof. rewrite !map_map. apply map_ext. reflexivity. Qed.
  Lemma firstn_app_len {A} (l1 l2 : list A) n : List.length l1 = n -> firstn n (l1 ++ l2) = l1.
  Proof. intros <-. rewrite firstn_app, Nat.sub_diag, firstn_all. cbn. apply app_nil_r. Qed.
  Lemma skipn_app_len {A} (l1 l2 : list A) n : List.length l1 = n -> skipn n (l1 ++ l2) = l2.
  Proof. intros <-. rewrite skipn_app, Nat.sub_diag, skipn_all. reflexivity. Qed.
  Lemma eval_ok name tag :
    lookup (tx name) grammar = Some (RCustom 2 None (req name "at least 2 arguments") (p_eval tag name)) ->
    ustr (tx name) = tx name ->
    custom_ok k tag {| c_canon := c_eval; c_unparse := u_eval name |}.
  Proof.
    intros HR HN. start. destruct a as [|s [|ks [|vs [|? ?]]]]; try discriminate;
    destruct ks as [| | | | | | |ks|]; try discriminate; destruct vs as [| | | | | | |vs|]; try discriminate.
    cbn [c_eval] in HC. split_and. open_frame.
    rewrite (parse_row _ _ _ HR HN). unfold run_rule. cbn [arity_ok List.length Nat.leb andb negb].
    unfold p_eval. ext. rewrite !cased_ua.
    match goal with H : (Z.of_nat _ <=? I64_MAX)%Z = true |- _ => apply Z.leb_le in H; rename H into HB end.
    rewrite ext_int_itoa.
    2:{ unfold in_range. apply andb_true_iff. split; apply Z.leb_le; [unfold I64_MIN|]; lia. }
    destruct (Z.ltb_spec (Z.of_nat (List.length ks)) 0); [lia|].
    rewrite app_length, !map_length.
    destruct (Z.ltb_spec (Z.of_nat (List.length ks + List.length vs)) (Z.of_nat (List.length ks))); [lia|].
    rewrite Nat2Z.id.
    rewrite firstn_app_len, skipn_app_len by (now rewrite !map_length).
    rewrite !extract_list_unext by assumption. reflexivity.
  Qed.

  (* subcommands *)
  Lemma parse_sub_row c tbl miss unk n r args :
    lookup c grammar = Some (RCustom 1 None miss (sub_run tbl unk)) -> ustr c = c ->
    lookup n tbl = Some r -> ustr n = n ->
    parse_frame (Some (EBulk (k c) :: EBulk (k n) :: args)) = run_rule r args.
  Proof.
    intros H1 H2 H3 H4. rewrite (parse_row _ _ _ H1 H2).
    unfold run_rule at 1. cbn [arity_ok List.length Nat.leb andb negb].
    unfold sub_run, kw_of. now rewrite Hk, H4, H3.
  Qed.
  Ltac enter_acl SUB ROW :=
    rewrite (parse_sub_row (tx "ACL") acl_tbl (tx "ACL requires a subcommand") acl_unknown (tx SUB) ROW) by side;
    unfold run_rule; cbn [arity_ok List.length Nat.leb andb negb].

  Lemma aclcat_ok : custom_ok k "AclCat" {| c_canon := c_optional KStr; c_unparse := u_aclcat |}.
  Proof.
    start. destruct a as [|o [|? ?]]; try discriminate; dopt o; cbn [c_optional] in HC; try discriminate; open_frame;
      enter_acl "CAT" (RCustom 0 None [] p_acl_cat); unfold p_acl_cat; ext; reflexivity.
  Qed.
  Lemma aclgenpass_ok : custom_ok k "AclGenPass" {| c_canon := c_optional KU32Str; c_unparse := u_aclgenpass |}.
  Proof.
    start. destruct a as [|o [|? ?]]; try discriminate; dopt o; cbn [c_optional] in HC; try discriminate; open_frame;
      enter_acl "GENPASS" (RCustom 0 None [] p_acl_genpass); unfold p_acl_genpass; ext; reflexivity.
  Qed.

  Lemma map_up1_digits ds : all_digits ds = true -> map up1 ds = ds.
  Proof.
    induction ds as [|c t IH]; cbn [all_digits forallb map]; intros H; [reflexivity|].
    apply andb_true_iff in H as [Hc Ht]. apply is_digit_range in Hc. rewrite (IH Ht). f_equal.
    unfold up1. destruct (N.leb_spec 97 c); [lia|reflexivity].
  Qed.
  Lemma nonneg_itoa_digits z : (0 <= z)%Z -> all_digits (itoa z) = true /\ itoa z <> [].
  Proof.
    destruct z; cbn [itoa]; intros H; try lia.
    - split; [reflexivity|discriminate].
    - split; [apply ntoa_digits|apply ntoa_nonempty].
  Qed.
  Lemma acllog_ok : custom_ok k "AclLog" {| c_canon := c_optional KUszStr; c_unparse := u_acllog |}.
  Proof.
    start. destruct a as [|o [|? ?]]; try discriminate; dopt o; cbn [c_optional] in HC; try discriminate; open_frame;
      enter_acl "LOG" (RCustom 0 (Some 1%nat) (tx "ERR wrong number of arguments for 'acl|log' command") p_acl_log);
      unfold p_acl_log; [|reflexivity].
    destruct c; try discriminate. cbn [wf_val] in HC. cbn [unext_k unext kw_of].
    pose proof (in_range_spec _ _ _ HC) as Hr.
    destruct (nonneg_itoa_digits z ltac:(lia)) as [Hd Hne].
    rewrite (ustr_ascii _ (all_digits_ascii _ Hd)), (map_up1_digits _ Hd).
    destruct (itoa z) as [|d ds] eqn:E; [contradiction|].
    assert (HR : bytes_eqb (d :: ds) (tx "RESET") = false).
    { cbn [all_digits forallb] in Hd. apply andb_true_iff in Hd as [Hd _]. apply is_digit_range in Hd.
      cbn. destruct (N.eqb_spec d 82); [lia|reflexivity]. }
    rewrite HR, <- E. unfold parse_u64. rewrite <- (lossy_itoa z), parse_unsigned_itoa by exact HC. reflexivity.
  Qed.

  Lemma const_kw w : ustr (tx w) = tx w -> ustr (k (tx w)) = tx w.
  Proof. intros H. now rewrite Hk. Qed.
  Lemma acllogreset_ok : custom_ok k "AclLogReset" {| c_canon := c_const; c_unparse := u_const ["ACL"; "LOG"; "RESET"] |}.
  Proof.
    start. destruct a; try discriminate. open_frame.
    enter_acl "LOG" (RCustom 0 (Some 1%nat) (tx "ERR wrong number of arguments for 'acl|log' command") p_acl_log).
    unfold p_acl_log, kw_of. rewrite (const_kw "RESET") by reflexivity. reflexivity.
  Qed.
  Lemma commandcommand_ok : custom_ok k "CommandCommand" {| c_canon := c_const; c_unparse := u_const ["COMMAND"] |}.
  Proof.
    start. destruct a; try discriminate. open_frame.
    enter "COMMAND" (RCustom 0 None [] p_command). reflexivity.
  Qed.
  Lemma commandcount_ok : custom_ok k "CommandCount" {| c_canon := c_const; c_unparse := u_const ["COMMAND"; "COUNT"] |}.
  Proof.
    start. destruct a; try discriminate. open_frame.
    enter "COMMAND" (RCustom 0 None [] p_command).
    unfold p_command, kw_of. rewrite (const_kw "COUNT") by reflexivity. reflexivity.
  Qed.

  Lemma debugset_ok : custom_ok k "DebugSet" {| c_canon := c_debugset; c_unparse := u_debugset |}.
  Proof.
    start. destruct a as [|sub [|v [|? ?]]]; try discriminate; destruct sub as [sub| | | | | | | |]; try discriminate.
    cbn [c_debugset] in HC. split_and. open_frame.
    enter "DEBUG" (RCustom 1 None (wrong_args "debug") (sub_run debug_tbl debug_unknown)).
    unfold sub_run, kw_of. rewrite Hk.
    match goal with H : bytes_eqb (ustr sub) sub = true |- _ => apply bytes_eqb_eq in H; rewrite H end.
    match goal with H : none_lookup sub debug_tbl = true |- _ =>
      unfold none_lookup in H; destruct (lookup sub debug_tbl); [discriminate H|] end.
    unfold debug_unknown. ext. reflexivity.
  Qed.
  Lemma unknown_ok : custom_ok k "Unknown" {| c_canon := c_unknown; c_unparse := u_unknown |}.
  Proof.
    start. destruct a as [|n [|? ?]]; try discriminate; destruct n as [n| | | | | | | |]; try discriminate.
    cbn [c_unknown] in HC. split_and. open_frame.
    unfold parse_frame. rewrite Hk.
    match goal with H : bytes_eqb (ustr n) n = true |- _ => apply bytes_eqb_eq in H; rewrite H end.
    match goal with H : none_lookup n grammar = true |- _ =>
      unfold none_lookup in H; destruct (lookup n grammar); [discriminate H|] end.
    reflexivity.
  Qed.

  Lemma customs_ok : Forall (fun tc => custom_ok k (fst tc) (snd tc)) customs.
  Proof.
    unfold customs.
    repeat (constructor;
            [cbn [fst snd];
             first [ apply ping_ok | apply auth_ok | apply set_ok | apply getex_ok
                   | apply expire_ok; reflexivity | apply zrangebyscore_ok | apply scan_ok
                   | apply kscan_ok; reflexivity | apply sort_ok | apply zadd_ok
                   | apply zrange_ok; reflexivity | apply spop_ok | apply lmove_ok
                   | apply eval_ok; reflexivity | apply aclcat_ok | apply aclgenpass_ok
                   | apply acllog_ok | apply acllogreset_ok | apply commandcommand_ok
                   | apply commandcount_ok | apply debugset_ok | apply unknown_ok ]
            |]).
    constructor.
  Qed.
  Local Opaque grammar.

  Lemma find_custom_In tag l : forall c, find_custom tag l = Some c -> In (tag, c) l.
  Proof.
    induction l as [|[t c0] l IH]; cbn [find_custom]; intros c H; [discriminate|].
    destruct (String.eqb_spec tag t) as [->|Hne].
    - injection H as <-. now left.
    - right. auto.
  Qed.

  Theorem parse_unparse_k c :
    canonical c = true -> exists ps, unparse_k k c = Some ps /\ parse_cmd ps = POk c.
  Proof.
    destruct c as [tag a]. intros HC.
    destruct (find_tag tag simple_index) as [[[path pre] tl]|] eqn:HF.
    - assert (HU : exists ps, unparse_k k (Cmd tag a) = Some ps).
      { unfold unparse_k, unparse_tokens. rewrite HF. eexists. reflexivity. }
      destruct HU as [ps HU]. exists ps. split; [exact HU|].
      eapply parse_unparse_simple; eauto.
    - unfold canonical in HC. rewrite HF in HC. unfold canonical_custom in HC.
      destruct (find_custom tag customs) as [cu|] eqn:HCu; [|discriminate].
      pose proof (find_custom_In _ _ _ HCu) as HIn. pose proof customs_ok as HA. rewrite Forall_forall in HA.
      specialize (HA _ HIn). cbn [fst snd] in HA. destruct (HA a HC) as (ts & HU & HP).
      exists (cased k ts). split; [|exact HP].
      unfold unparse_k, unparse_tokens. rewrite HF. unfold unparse_custom. rewrite HCu, HU. reflexivity.
  Qed.
End Customs.

(* an instance of the casing hypothesis: write every ASCII keyword in lower case *)

Lemma lower_kw_ok w : ustr (lower_kw w) = ustr w.
Proof.
  unfold lower_kw. destruct (forallb (fun x => (x <? 128)%N) w) eqn:E; [|reflexivity].
  assert (Ha : ascii w).
  { rewrite forallb_forall in E. apply Forall_forall. intros x Hx. apply N.ltb_lt. auto. }
  symmetry. apply ustr_case_variant; [exact Ha|].
  clear E. induction Ha as [|x r Hx Hr IH]; constructor; [|exact IH].
  unfold up1, low1.
  destruct ((65 <=? x) && (x <=? 90))%N eqn:E1.
  - apply andb_true_iff in E1 as [A B]. apply N.leb_le in A, B.
    destruct (N.leb_spec 97 x); [lia|]. cbn [andb].
    destruct (N.leb_spec 97 (x + 32)); [|lia]. destruct (N.leb_spec (x + 32) 122); [|lia]. cbn [andb]. lia.
  - reflexivity.
Qed.
Theorem parse_unparse c :
  canonical c = true -> exists ps, unparse c = Some ps /\ parse_cmd ps = POk c.
Proof. apply (parse_unparse_k (fun w => w)). reflexivity. Qed.

(* ------------------------------------------------------------------ no frame panics the parser *)
Definition safe (r : rule) : Prop := forall args, run_rule r args <> PPanic.

Lemma ext_int_no_pn e : ext_int e <> Pn.
Proof. destruct e as [b|z|]; cbn; try discriminate. destruct (parse_i64 (lossy b)); discriminate. Qed.
Lemma ext_u64_no_pn e : ext_u64 e <> Pn.
Proof. destruct e as [b|z|]; cbn; try discriminate. destruct (parse_u64 (lossy b)); discriminate. Qed.
Lemma bind_no_pn {A B} (r : res A) (f : A -> res B) :
  r <> Pn -> (forall a, f a <> Pn) ->
  (match r with Ok x => f x | Er t => Er t | Pn => Pn end) <> Pn.
Proof. intros H1 H2. destruct r; [apply H2|discriminate|contradiction]. Qed.
Lemma remap_no_pn {A} t (r : res A) : r <> Pn -> remap t r <> Pn.
Proof. destruct r; [discriminate|discriminate|contradiction]. Qed.
Lemma extract_no_pn k e : extract k e <> Pn.
Proof.
  pose proof (ext_int_no_pn e) as HI. pose proof (ext_u64_no_pn e) as HU.
  destruct k; cbn [extract].
  - destruct e; discriminate.
  - destruct e; discriminate.
  - destruct e; discriminate.
  - apply bind_no_pn; [exact HI|discriminate].
  - apply bind_no_pn; [exact HI|discriminate].
  - apply bind_no_pn; [exact HU|discriminate].
  - apply bind_no_pn; [apply remap_no_pn; exact HU|discriminate].
  - apply bind_no_pn; [apply remap_no_pn; exact HI|]. intros a. destruct ((a <? 0)%Z || (1 <? a)%Z); discriminate.
  - apply bind_no_pn; [exact HI|]. intros a. destruct (a <? 0)%Z; discriminate.
  - destruct e; try discriminate. destruct (float_class (lossy b)); discriminate.
  - destruct e; try discriminate. destruct (float_class (lossy b)) as [[| |]|]; discriminate.
  - apply bind_no_pn; [exact HU|]. intros a. destruct (15 <? a)%Z; discriminate.
  - destruct e; try discriminate. destruct (parse_u64 (lossy b)); discriminate.
  - destruct e; try discriminate. destruct (parse_u32 (lossy b)); discriminate.
Qed.
Lemma kw_of_no_pn e : kw_of e <> Pn.
Proof. destruct e; discriminate. Qed.
Lemma extract_list_no_pn k es : extract_list k es <> Pn.
Proof.
  induction es as [|e t IH]; cbn [extract_list]; [discriminate|].
  pose proof (extract_no_pn k e). destruct (extract k e); [| discriminate | contradiction].
  destruct (extract_list k t); [discriminate | discriminate | contradiction].
Qed.
Lemma extract_pairs_no_pn k1 k2 n : forall es, (List.length es <= n)%nat -> extract_pairs k1 k2 es <> Pn.
Proof.
  induction n as [|n IH]; intros [|a [|b t]] H; cbn [extract_pairs]; try discriminate; cbn [List.length] in H; try lia.
  pose proof (extract_no_pn k1 a). destruct (extract k1 a); [| discriminate | contradiction].
  pose proof (extract_no_pn k2 b). destruct (extract k2 b); [| discriminate | contradiction].
  assert (HT : extract_pairs k1 k2 t <> Pn) by (apply IH; lia).
  destruct (extract_pairs k1 k2 t); [discriminate | discriminate | contradiction].
Qed.
Lemma extract_pre_no_pn pre : forall es, extract_pre pre es <> Pn.
Proof.
  induction pre as [|k pre IH]; intros [|e es]; cbn [extract_pre]; try discriminate.
  pose proof (extract_no_pn k e). destruct (extract k e); [| discriminate | contradiction].
  specialize (IH es). destruct (extract_pre pre es); [discriminate | discriminate | contradiction].
Qed.
Lemma to_presult_safe tag r : r <> Pn -> to_presult tag r <> PPanic.
Proof. destruct r; [discriminate | discriminate | contradiction]. Qed.

Lemma simple_safe tag pre tl e : safe (RSimple tag pre tl e).
Proof.
  intros args. unfold run_rule. destruct (negb _); [discriminate|].
  apply to_presult_safe.
  pose proof (extract_pre_no_pn pre args). destruct (extract_pre pre args) as [pr| |]; [| discriminate | contradiction].
  destruct tl; try discriminate.
  - pose proof (extract_list_no_pn k (snd pr)). destruct (extract_list k (snd pr)); [discriminate|discriminate|contradiction].
  - pose proof (extract_list_no_pn k (snd pr)). destruct (extract_list k (snd pr)); [discriminate|discriminate|contradiction].
  - pose proof (extract_pairs_no_pn k1 k2 _ (snd pr) (le_n _)). destruct (extract_pairs k1 k2 (snd pr)); [discriminate|discriminate|contradiction].
Qed.

(* option loops never yield Pn when no valued option is declared without a missing-text *)
Definition tbl_total (tbl : list (bytes * oact)) : Prop :=
  forall kw n k, lookup kw tbl <> Some (AVal n k None).
Lemma oloop_no_pn tbl unk : tbl_total tbl ->
  forall n args st, (List.length args <= n)%nat -> oloop tbl unk st args <> Pn.
Proof.
  intros HT. induction n as [|n IH]; intros [|a rest] st H; cbn [oloop]; try discriminate; cbn [List.length] in H; try lia.
  pose proof (kw_of_no_pn a). destruct (kw_of a) as [kw| |]; [| discriminate | contradiction].
  destruct (lookup kw tbl) as [[m|m kd miss|m miss|m|pre post]|] eqn:EL.
  - apply IH. lia.
  - destruct rest as [|v rest'].
    + destruct miss; [discriminate|]. exfalso. exact (HT _ _ _ EL).
    + pose proof (extract_no_pn kd v). destruct (extract kd v); [| discriminate | contradiction].
      apply IH. cbn [List.length] in H. lia.
  - destruct rest as [|o [|c rest']]; try discriminate.
    pose proof (extract_no_pn KInt o). destruct (extract KInt o); [| discriminate | contradiction].
    pose proof (extract_no_pn KUsz c). destruct (extract KUsz c); [| discriminate | contradiction].
    apply IH. cbn [List.length] in H. lia.
  - destruct rest as [|v rest']; [discriminate|].
    pose proof (extract_no_pn KStr v). destruct (extract KStr v); [| discriminate | contradiction].
    apply IH. cbn [List.length] in H. lia.
  - discriminate.
  - destruct unk; try discriminate. apply IH. lia.
Qed.
Lemma total_by_check tbl :
  forallb (fun na => match snd na with AVal _ _ None => false | _ => true end) tbl = true -> tbl_total tbl.
Proof.
  intros H kw n k HL. apply lookup_In in HL. rewrite forallb_forall in H. specialize (H _ HL). discriminate.
Qed.

(* one step of "the bind of something that is not Pn" *)
Ltac step :=
  match goal with
  | |- context [match extract ?k ?e with _ => _ end] =>
      let H := fresh in pose proof (extract_no_pn k e) as H; destruct (extract k e); [| | contradiction]
  | |- context [match ext_int ?e with _ => _ end] =>
      let H := fresh in pose proof (ext_int_no_pn e) as H; destruct (ext_int e); [| | contradiction]
  | |- context [match kw_of ?e with _ => _ end] =>
      let H := fresh in pose proof (kw_of_no_pn e) as H; destruct (kw_of e); [| | contradiction]
  | |- context [match extract_list ?k ?e with _ => _ end] =>
      let H := fresh in pose proof (extract_list_no_pn k e) as H; destruct (extract_list k e); [| | contradiction]
  | |- context [match extract_pairs ?a ?b ?e with _ => _ end] =>
      let H := fresh in pose proof (extract_pairs_no_pn a b _ e (le_n _)) as H; destruct (extract_pairs a b e); [| | contradiction]
  | |- context [match oloop ?t ?u ?s ?a with _ => _ end] =>
      let H := fresh in
      assert (H : oloop t u s a <> Pn) by (apply (oloop_no_pn t u (total_by_check t eq_refl) _ a s (le_n _)));
      destruct (oloop t u s a); [| | contradiction]
  | |- context [if ?b then _ else _] => destruct b
  end.
Ltac steps := repeat (try discriminate; step); try discriminate;
  try match goal with |- oloop ?t ?u ?s ?a <> Pn =>
        apply (oloop_no_pn t u (total_by_check t eq_refl) _ a s (le_n _)) end.

Definition custom_safe lo hi e (f : list relem -> presult) : Prop :=
  forall args, arity_ok (RCustom lo hi e f) (List.length args) = true -> f args <> PPanic.
Lemma custom_is_safe lo hi e f : custom_safe lo hi e f -> safe (RCustom lo hi e f).
Proof.
  intros H args. unfold run_rule. destruct (arity_ok _ _) eqn:E; cbn [negb]; [apply H; exact E|discriminate].
Qed.
Ltac shape args :=
  cbn [arity_ok List.length Nat.leb andb] in *; try discriminate.

Lemma zadd_flags_no_pn : forall args st, zadd_flags st args <> Pn.
Proof.
  induction args as [|a rest IH]; intros st; cbn [zadd_flags]; [discriminate|].
  pose proof (kw_of_no_pn a). destruct (kw_of a); [| discriminate | contradiction].
  destruct (zadd_flag a0); [apply IH|discriminate].
Qed.

Lemma p_ping_safe : custom_safe 0 None [] p_ping.
Proof. intros [|m ?] _; cbn [p_ping]; [discriminate|]. apply to_presult_safe. steps. Qed.
Lemma p_auth_safe : custom_safe 1 (Some 2%nat) (tx "AUTH requires 1 or 2 arguments") p_auth.
Proof.
  intros [|a [|b [|c ?]]] H; shape H; cbn [p_auth]; apply to_presult_safe; steps.
Qed.
Lemma p_set_safe : custom_safe 2 None (req "SET" "at least 2 arguments") p_set.
Proof.
  intros [|a [|b rest]] H; shape H. unfold p_set. steps.
Qed.
Lemma set_with_safe name n : custom_safe 3 (Some 3%nat) (req name "3 arguments") (set_with n).
Proof.
  intros [|a [|b [|c [|d ?]]]] H; shape H. cbn [set_with]. apply to_presult_safe. steps.
Qed.
Lemma p_getex_safe : custom_safe 1 None (wrong_args "getex") p_getex.
Proof. intros [|a rest] H; shape H. unfold p_getex. apply to_presult_safe. steps. Qed.
Lemma p_expire_safe name tag : custom_safe 2 None (req name "at least 2 arguments") (p_expire tag).
Proof. intros [|a [|b rest]] H; shape H. unfold p_expire. apply to_presult_safe. steps. Qed.
Lemma p_zrbs_safe : custom_safe 3 None (req "ZRANGEBYSCORE" "at least 3 arguments") p_zrangebyscore.
Proof. intros [|a [|b [|c rest]]] H; shape H. unfold p_zrangebyscore. apply to_presult_safe. steps. Qed.
Lemma p_scan_safe : custom_safe 1 None (req "SCAN" "at least 1 argument") p_scan.
Proof. intros [|a rest] H; shape H. unfold p_scan. apply to_presult_safe. steps. Qed.
Lemma p_kscan_safe tag name : custom_safe 2 None (req name "at least 2 arguments") (p_kscan tag name).
Proof. intros [|a [|b rest]] H; shape H. unfold p_kscan. apply to_presult_safe. steps. Qed.
Lemma p_sort_safe : custom_safe 1 None (wrong_args "sort") p_sort.
Proof. intros [|a rest] H; shape H. unfold p_sort. apply to_presult_safe. steps. Qed.
Lemma p_zadd_safe : custom_safe 3 None (tx "ZADD requires key and score-member pairs") p_zadd.
Proof.
  intros [|a rest] H; shape H. unfold p_zadd. apply to_presult_safe. step; [|discriminate].
  pose proof (zadd_flags_no_pn rest [a0; VL []; F; F; F; F; F]) as HZ.
  destruct (zadd_flags _ rest); [| discriminate | contradiction]. steps.
Qed.
Lemma p_zrange_safe name tag : custom_safe 3 (Some 4%nat) (req name "3 or 4 arguments") (p_zrange tag).
Proof.
  intros [|a [|b [|c rest]]] H; shape H. unfold p_zrange. apply to_presult_safe. steps. destruct rest; steps.
Qed.
Lemma p_spop_safe : custom_safe 1 (Some 2%nat) (req "SPOP" "1 or 2 arguments") p_spop.
Proof. intros [|a rest] H; shape H. unfold p_spop. apply to_presult_safe. steps. destruct rest; steps. Qed.
Lemma p_lmove_safe : custom_safe 4 (Some 4%nat) (req "LMOVE" "4 arguments") p_lmove.
Proof.
  intros [|a [|b [|c [|d [|e ?]]]]] H; shape H. cbn [p_lmove]. apply to_presult_safe. steps.
Qed.
Lemma p_eval_safe tag name : custom_safe 2 None (req name "at least 2 arguments") (p_eval tag name).
Proof.
  intros [|a [|b rest]] H; shape H. unfold p_eval, eval_negative. apply to_presult_safe. steps.
Qed.
Lemma p_command_safe : custom_safe 0 None [] p_command.
Proof. intros [|a rest] _; cbn [p_command]; [discriminate|]. steps. Qed.
Lemma p_acl_cat_safe : custom_safe 0 None [] p_acl_cat.
Proof. intros [|a rest] _; cbn [p_acl_cat]; [discriminate|]. apply to_presult_safe. steps. Qed.
Lemma p_acl_genpass_safe : custom_safe 0 None [] p_acl_genpass.
Proof. intros [|a rest] _; cbn [p_acl_genpass]; [discriminate|]. apply to_presult_safe. steps. Qed.
Lemma p_acl_log_safe : custom_safe 0 (Some 1%nat) (tx "ERR wrong number of arguments for 'acl|log' command") p_acl_log.
Proof.
  intros [|a [|b ?]] H; shape H; cbn [p_acl_log]; try discriminate. steps. destruct (parse_u64 a0); discriminate.
Qed.
Lemma stub_safe name : safe (stub name).
Proof. intros args. unfold stub, run_rule. destruct (negb _); discriminate. Qed.

Lemma sub_run_safe tbl unk miss :
  Forall (fun nr => safe (snd nr)) tbl -> (forall s r, unk s r <> PPanic) ->
  custom_safe 1 None miss (sub_run tbl unk).
Proof.
  intros HT HU [|a rest] H; shape H. unfold sub_run. steps.
  destruct (lookup a0 tbl) eqn:EL; [|apply HU].
  apply lookup_In in EL. rewrite Forall_forall in HT. exact (HT _ EL rest).
Qed.

Ltac custom_row :=
  apply custom_is_safe;
  first [ apply p_ping_safe | apply p_auth_safe | apply p_set_safe | apply set_with_safe
        | apply p_getex_safe | apply p_expire_safe | apply p_zrbs_safe | apply p_scan_safe
        | apply p_kscan_safe | apply p_sort_safe | apply p_zadd_safe | apply p_zrange_safe
        | apply p_spop_safe | apply p_lmove_safe | apply p_eval_safe | apply p_command_safe
        | apply p_acl_cat_safe | apply p_acl_genpass_safe | apply p_acl_log_safe ].
Ltac rows := repeat (constructor; [cbn [snd]; first [apply simple_safe | apply stub_safe | custom_row]|]); try constructor.

Lemma config_safe : Forall (fun nr => safe (snd nr)) config_tbl.
Proof. unfold config_tbl. rows. Qed.
Lemma acl_safe : Forall (fun nr => safe (snd nr)) acl_tbl.
Proof. unfold acl_tbl, acl_stubs. cbn [app]. rows. Qed.
Lemma script_safe : Forall (fun nr => safe (snd nr)) script_tbl.
Proof. unfold script_tbl. rows. Qed.
Lemma function_safe : Forall (fun nr => safe (snd nr)) function_tbl.
Proof. unfold function_tbl. rows. Qed.
Lemma client_safe : Forall (fun nr => safe (snd nr)) client_tbl.
Proof. unfold client_tbl. rows. Qed.
Lemma object_safe : Forall (fun nr => safe (snd nr)) object_tbl.
Proof. unfold object_tbl. rows. Qed.
Lemma debug_safe : Forall (fun nr => safe (snd nr)) debug_tbl.
Proof. unfold debug_tbl. rows. Qed.
Lemma debug_unknown_safe s r : debug_unknown s r <> PPanic.
Proof. destruct r; cbn [debug_unknown]; [discriminate|]. apply to_presult_safe. steps. Qed.

Local Transparent grammar.
Lemma grammar_safe : Forall (fun nr => safe (snd nr)) grammar.
Proof.
  unfold grammar.
  repeat (constructor;
    [cbn [snd];
     first [ apply simple_safe | custom_row
           | apply custom_is_safe; apply sub_run_safe;
             [ first [apply config_safe | apply acl_safe | apply script_safe | apply function_safe
                     | apply client_safe | apply object_safe | apply debug_safe]
             | first [apply debug_unknown_safe | intros; discriminate] ] ]
    |]).
  constructor.
Qed.
Local Opaque grammar.

Theorem no_panic f : parse_frame f <> PPanic.
Proof.
  destruct f as [[|[n| |] args]|]; unfold parse_frame; try discriminate.
  destruct (lookup (ustr n) grammar) eqn:E; [|discriminate].
  apply lookup_In in E. pose proof grammar_safe as HS. rewrite Forall_forall in HS. exact (HS _ E args).
Qed.
Corollary lua_no_panic parts : lua_parse parts <> PPanic.
Proof.
  destruct parts as [|n rest]; cbn [lua_parse]; [discriminate|].
  destruct (lua_supported (ustr n)); [apply no_panic|discriminate].
Qed.

(* EVAL's key count: a negative count is an error, not a panic (before b9ac17d: PPanic) *)
Theorem eval_negative_numkeys name s z rest :
  (name = tx "EVAL" \/ name = tx "EVALSHA") -> (z < 0)%Z -> in_range I64_MIN I64_MAX z = true ->
  exists c, parse_cmd (name :: s :: itoa z :: rest) = PErr c /\ c = tx "ERR Number of keys can't be negative".
Proof.
  intros Hn Hz Hr. eexists. split; [|reflexivity].
  unfold parse_cmd. cbn [map].
  destruct Hn as [-> | ->].
  - rewrite (parse_row (fun w => w) (fun w => eq_refl) (tx "EVAL") (RCustom 2 None (req "EVAL" "at least 2 arguments") (p_eval "Eval" "EVAL"))) by reflexivity.
    unfold run_rule. cbn [arity_ok List.length Nat.leb andb negb]. unfold p_eval.
    cbn [extract]. rewrite ext_int_itoa by exact Hr. destruct (Z.ltb_spec z 0); [|lia]. reflexivity.
  - rewrite (parse_row (fun w => w) (fun w => eq_refl) (tx "EVALSHA") (RCustom 2 None (req "EVALSHA" "at least 2 arguments") (p_eval "EvalSha" "EVALSHA"))) by reflexivity.
    unfold run_rule. cbn [arity_ok List.length Nat.leb andb negb]. unfold p_eval.
    cbn [extract]. rewrite ext_int_itoa by exact Hr. destruct (Z.ltb_spec z 0); [|lia]. reflexivity.
Qed.

(* the redis.call subset is a proper subset of what a client can send *)
Lemma lua_subset_witness :
  let parts := [tx "SUBSTR"; tx "j"; tx "2"; tx "-1"] in
  parse_cmd parts = POk (Cmd "GetRange" [VS (tx "j"); VI 2; VI (-1)])
  /\ lua_parse parts = PErr (tx "ERR Unknown Redis command 'SUBSTR' called from Lua").
Proof. split; vm_compute; reflexivity. Qed.

(* ------------------------------------------------------------------ letter case, any bytes *)
Lemma up1_cases x : (up1 x = x /\ ~ (97 <= x <= 122)%N) \/ ((97 <= x <= 122)%N /\ up1 x = (x - 32)%N).
Proof.
  unfold up1. destruct (N.leb_spec 97 x); destruct (N.leb_spec x 122); cbn [andb]; try (left; split; [reflexivity|lia]).
  right. split; [lia|reflexivity].
Qed.
Lemma width_up1 x : width (up1 x) = width x.
Proof.
  destruct (up1_cases x) as [[-> _]|[H ->]]; [reflexivity|].
  unfold width. destruct (N.ltb_spec (x - 32) 128); [|lia]. destruct (N.ltb_spec x 128); [reflexivity|lia].
Qed.
Lemma cont_up1 x : cont (up1 x) = cont x.
Proof.
  destruct (up1_cases x) as [[-> _]|[H ->]]; [reflexivity|].
  unfold cont. destruct (N.leb_spec 128 (x - 32)); [lia|]. destruct (N.leb_spec 128 x); [lia|reflexivity].
Qed.
Lemma width_big x : width x <> 1%nat -> up1 x = x.
Proof.
  intros H. destruct (up1_cases x) as [[E _]|[R _]]; [exact E|].
  exfalso. apply H. unfold width. destruct (N.ltb_spec x 128); [reflexivity|lia].
Qed.
Lemma second_ok_up1 x c : second_ok x (up1 c) = second_ok x c.
Proof.
  destruct (up1_cases c) as [[-> _]|[H ->]]; [reflexivity|].
  assert (A1 : forall k, (128 <= k)%N -> (k <=? c)%N = false) by (intros; apply N.leb_gt; lia).
  assert (A2 : forall k, (128 <= k)%N -> (k <=? c - 32)%N = false) by (intros; apply N.leb_gt; lia).
  unfold second_ok, cont. rewrite !A1, !A2 by lia. reflexivity.
Qed.
Lemma map_up1_fffd : map up1 FFFD = FFFD.
Proof. reflexivity. Qed.

Lemma lossy_up1 n : forall b, (List.length b <= n)%nat -> lossy (map up1 b) = map up1 (lossy b).
Proof.
  induction n as [|n IH]; intros [|x r] H; try reflexivity; cbn [List.length] in H; [lia|].
  cbn [map lossy]. rewrite width_up1.
  destruct (width x) as [|[|[|[|[|w]]]]] eqn:W.
  - rewrite map_app, map_up1_fffd, IH by lia. rewrite ?Ex; reflexivity.
  - cbn [map]. rewrite IH by lia. rewrite ?Ex; reflexivity.
  - assert (Ex : up1 x = x) by (apply width_big; rewrite W; discriminate).
    destruct r as [|c1 r1]; [reflexivity|]. rewrite ?Ex. cbn [map]. rewrite cont_up1.
    destruct (cont c1).
    + cbn [map]. rewrite IH by (cbn [List.length] in H; lia). rewrite ?Ex; reflexivity.
    + rewrite map_app, map_up1_fffd. change (up1 c1 :: map up1 r1) with (map up1 (c1 :: r1)).
      rewrite IH by lia. rewrite ?Ex; reflexivity.
  - assert (Ex : up1 x = x) by (apply width_big; rewrite W; discriminate).
    destruct r as [|c1 r1]; [reflexivity|]. rewrite ?Ex. cbn [map]. rewrite ?Ex, second_ok_up1.
    destruct (second_ok x c1).
    + destruct r1 as [|c2 r2]; [reflexivity|]. cbn [map]. rewrite cont_up1.
      destruct (cont c2).
      * cbn [map]. rewrite IH by (cbn [List.length] in H; lia). rewrite ?Ex; reflexivity.
      * rewrite map_app, map_up1_fffd. change (up1 c2 :: map up1 r2) with (map up1 (c2 :: r2)).
        rewrite IH by (cbn [List.length] in *; lia). rewrite ?Ex; reflexivity.
    + rewrite map_app, map_up1_fffd. change (up1 c1 :: map up1 r1) with (map up1 (c1 :: r1)).
      rewrite IH by lia. rewrite ?Ex; reflexivity.
  - assert (Ex : up1 x = x) by (apply width_big; rewrite W; discriminate).
    destruct r as [|c1 r1]; [reflexivity|]. rewrite ?Ex. cbn [map]. rewrite ?Ex, second_ok_up1.
    destruct (second_ok x c1).
    + destruct r1 as [|c2 r2]; [reflexivity|]. cbn [map]. rewrite cont_up1.
      destruct (cont c2).
      * destruct r2 as [|c3 r3]; [reflexivity|]. cbn [map]. rewrite cont_up1.
        destruct (cont c3).
        -- cbn [map]. rewrite IH by (cbn [List.length] in H; lia). rewrite ?Ex; reflexivity.
        -- rewrite map_app, map_up1_fffd. change (up1 c3 :: map up1 r3) with (map up1 (c3 :: r3)).
           rewrite IH by (cbn [List.length] in *; lia). rewrite ?Ex; reflexivity.
      * rewrite map_app, map_up1_fffd. change (up1 c2 :: map up1 r2) with (map up1 (c2 :: r2)).
        rewrite IH by (cbn [List.length] in *; lia). rewrite ?Ex; reflexivity.
    + rewrite map_app, map_up1_fffd. change (up1 c1 :: map up1 r1) with (map up1 (c1 :: r1)).
      rewrite IH by lia. rewrite ?Ex; reflexivity.
  - rewrite map_app, map_up1_fffd, IH by lia. rewrite ?Ex; reflexivity.
Qed.

(* upper absorbs up1 *)
Lemma up1_idem x : up1 (up1 x) = up1 x.
Proof.
  destruct (up1_cases x) as [[E _]|[H ->]]; [now rewrite !E|].
  unfold up1. destruct (N.leb_spec 97 (x - 32)); [lia|reflexivity].
Qed.
Lemma up1_eqb_big x v : (128 <= v)%N -> (up1 x =? v)%N = (x =? v)%N.
Proof.
  intros Hv. destruct (up1_cases x) as [[-> _]|[H ->]]; [reflexivity|].
  destruct (N.eqb_spec (x - 32) v); destruct (N.eqb_spec x v); try reflexivity; lia.
Qed.
Lemma upper_unfold x y r1 :
  upper (x :: y :: r1) =
    if ((x =? 195) && (y =? 159))%N then 83%N :: 83%N :: upper r1
    else if ((x =? 196) && (y =? 177))%N then 73%N :: upper r1
    else if ((x =? 197) && (y =? 191))%N then 83%N :: upper r1
    else if ((x =? 239) && (y =? 172))%N then
      match r1 with
      | c :: r2 => match lig c with Some w => w ++ upper r2 | None => up1 x :: upper (y :: r1) end
      | [] => up1 x :: upper (y :: r1)
      end
    else up1 x :: upper (y :: r1).
Proof. reflexivity. Qed.
Lemma upper_up1 n : forall b, (List.length b <= n)%nat -> upper (map up1 b) = upper b.
Proof.
  induction n as [|n IH]; intros [|x r] H; try reflexivity; cbn [List.length] in H; [lia|].
  destruct r as [|y r1]; [cbn; now rewrite up1_idem|].
  assert (IH1 : upper (map up1 r1) = upper r1) by (apply IH; cbn [List.length] in H; lia).
  assert (IH2 : upper (map up1 (y :: r1)) = upper (y :: r1)) by (apply IH; lia).
  cbn [map] in *. rewrite !upper_unfold, !up1_eqb_big, up1_idem, IH1, IH2 by lia.
  destruct r1 as [|c r2]; [reflexivity|].
  assert (IH3 : upper (map up1 r2) = upper r2) by (apply IH; cbn [List.length] in H; lia).
  cbn [map].
  assert (HL : lig (up1 c) = lig c) by (unfold lig; rewrite !up1_eqb_big by lia; reflexivity).
  rewrite HL, IH3. reflexivity.
Qed.
Lemma ustr_up1 b : ustr (map up1 b) = ustr b.
Proof.
  unfold ustr. rewrite (lossy_up1 _ b (le_n _)). apply (upper_up1 _ _ (le_n _)).
Qed.
Theorem name_case_insensitive_any n n' args :
  case_variant n n' ->
  parse_frame (Some (EBulk n :: args)) = parse_frame (Some (EBulk n' :: args)).
Proof.
  intros H. apply name_only_through_ustr.
  rewrite <- (ustr_up1 n), <- (ustr_up1 n'). now rewrite (case_variant_map _ _ H).
Qed.
Lemma case_variant_ustr a b : case_variant a b -> ustr a = ustr b.
Proof. intros H. rewrite <- (ustr_up1 a), <- (ustr_up1 b). now rewrite (case_variant_map _ _ H). Qed.
Theorem parse_unparse_any_case (k : bytes -> bytes) :
  (forall w, case_variant w (k w)) ->
  forall c, canonical c = true -> exists ps, unparse_k k c = Some ps /\ parse_cmd ps = POk c.
Proof. intros H. apply parse_unparse_k. intros w. symmetry. apply case_variant_ustr, H. Qed.

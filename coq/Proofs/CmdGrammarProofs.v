(* C16: laws of the reference grammar (Model/CmdGrammar.v). *)
From Coq Require Import NArith ZArith List String Bool Lia.
From RV Require Import Lib.Hex Model.CmdGrammar.
Import ListNotations.
Local Open Scope bool_scope.

(* ------------------------------------------------------------------ byte strings *)
Lemma bytes_eqb_refl a : bytes_eqb a a = true.
Proof. induction a; cbn; [reflexivity|]. now rewrite N.eqb_refl. Qed.
Lemma bytes_eqb_eq a b : bytes_eqb a b = true <-> a = b.
Proof.
  split; [|intros ->; apply bytes_eqb_refl].
  revert b; induction a as [|x a IH]; destruct b as [|y b]; cbn; try discriminate; auto.
  intros H. apply andb_true_iff in H as [H1 H2]. apply N.eqb_eq in H1. f_equal; auto.
Qed.
Lemma bytes_eqb_neq a b : bytes_eqb a b = false <-> a <> b.
Proof.
  split.
  - intros H E. apply bytes_eqb_eq in E. congruence.
  - intros H. destruct (bytes_eqb a b) eqn:E; [|reflexivity]. apply bytes_eqb_eq in E. contradiction.
Qed.

(* ------------------------------------------------------------------ the table is a function *)
Definition names {A} (t : list (bytes * A)) : list bytes := map fst t.
Fixpoint nodupb (l : list bytes) : bool :=
  match l with
  | [] => true
  | x :: r => negb (existsb (bytes_eqb x) r) && nodupb r
  end.
Lemma nodupb_NoDup l : nodupb l = true -> NoDup l.
Proof.
  induction l as [|x r IH]; cbn; intros H; constructor.
  - apply andb_true_iff in H as [H _]. apply negb_true_iff in H.
    intros HI. assert (existsb (bytes_eqb x) r = true); [|congruence].
    apply existsb_exists. exists x. split; [assumption|apply bytes_eqb_refl].
  - apply andb_true_iff in H as [_ H]. auto.
Qed.

Lemma grammar_names_distinct : nodupb (names grammar) = true.
Proof. vm_compute. reflexivity. Qed.
Lemma subtables_names_distinct :
  forallb (fun t => nodupb (names t))
          [config_tbl; acl_tbl; script_tbl; function_tbl; client_tbl; object_tbl; debug_tbl] = true.
Proof. vm_compute. reflexivity. Qed.

Lemma lookup_In {A} n (t : list (bytes * A)) r : lookup n t = Some r -> In (n, r) t.
Proof.
  induction t as [|[m a] t IH]; cbn; [discriminate|].
  destruct (bytes_eqb n m) eqn:E.
  - intros [= ->]. apply bytes_eqb_eq in E. subst. now left.
  - intros H. right. auto.
Qed.
Lemma lookup_None {A} n (t : list (bytes * A)) : lookup n t = None <-> ~ In n (names t).
Proof.
  induction t as [|[m a] t IH]; cbn.
  - split; auto.
  - destruct (bytes_eqb n m) eqn:E.
    + apply bytes_eqb_eq in E. subst. split; [discriminate|]. intros H. exfalso. apply H. now left.
    + apply bytes_eqb_neq in E. rewrite IH. split.
      * intros H [H1|H1]; [congruence|auto].
      * intros H H1. apply H. now right.
Qed.
Lemma lookup_unique {A} n (t : list (bytes * A)) r :
  NoDup (names t) -> In (n, r) t -> lookup n t = Some r.
Proof.
  induction t as [|[m a] t IH]; cbn; [contradiction|].
  intros ND [H|H].
  - injection H as -> ->. now rewrite bytes_eqb_refl.
  - inversion ND as [|? ? Hn ND']; subst.
    destruct (bytes_eqb n m) eqn:E.
    + apply bytes_eqb_eq in E. subst. exfalso. apply Hn.
      change m with (fst (m, r)). now apply in_map.
    + auto.
Qed.
Lemma grammar_lookup n r : In (n, r) grammar -> lookup n grammar = Some r.
Proof. apply lookup_unique, nodupb_NoDup, grammar_names_distinct. Qed.

Local Opaque grammar.

(* the grammar read as a relation: "some row named like the frame's first element yields r" *)
Definition parses (f : option (list relem)) (r : presult) : Prop :=
  match f with
  | Some (EBulk n :: args) =>
      (exists rl, In (ustr n, rl) grammar /\ r = run_rule rl args)
      \/ (~ In (ustr n) (names grammar) /\ r = unknown_cmd (ustr n))
  | _ => r = PErr E_FORMAT
  end.
Lemma parses_parse_frame f : parses f (parse_frame f).
Proof.
  destruct f as [[|[n| |] args]|]; cbn; try reflexivity.
  destruct (lookup (ustr n) grammar) eqn:E.
  - left. exists r. split; [now apply lookup_In|reflexivity].
  - right. split; [now apply lookup_None|reflexivity].
Qed.
Lemma parses_functional f r : parses f r -> r = parse_frame f.
Proof.
  destruct f as [[|[n| |] args]|]; cbn; try (intros ->; reflexivity).
  intros [[rl [HI ->]]|[HN ->]].
  - now rewrite (grammar_lookup _ _ HI).
  - apply lookup_None in HN. now rewrite HN.
Qed.
Theorem parse_deterministic f r1 r2 : parses f r1 -> parses f r2 -> r1 = r2.
Proof. intros H1 H2. apply parses_functional in H1, H2. congruence. Qed.

(* ------------------------------------------------------------------ arity *)
Theorem arity_error n rl args name :
  In (name, rl) grammar -> ustr n = name -> arity_ok rl (List.length args) = false ->
  parse_frame (Some (EBulk n :: args)) = PErr (arity_text rl).
Proof.
  intros HI <- HA. cbn. rewrite (grammar_lookup _ _ HI). unfold run_rule. now rewrite HA.
Qed.

(* ------------------------------------------------------------------ letter case *)
Definition ascii (b : bytes) : Prop := Forall (fun x => (x < 128)%N) b.
Definition case_variant (a b : bytes) : Prop := Forall2 (fun x y => up1 x = up1 y) a b.

Lemma width_ascii x : (x < 128)%N -> width x = 1%nat.
Proof. intros H. unfold width. apply N.ltb_lt in H. now rewrite H. Qed.
Lemma lossy_ascii b : ascii b -> lossy b = b.
Proof.
  induction 1 as [|x r Hx Hr IH]; [reflexivity|].
  cbn [lossy]. rewrite (width_ascii _ Hx). now rewrite IH.
Qed.
Lemma upper_ascii b : ascii b -> upper b = map up1 b.
Proof.
  induction 1 as [|x r Hx Hr IH]; [reflexivity|].
  cbn [upper map]. destruct r as [|y r1].
  - reflexivity.
  - assert (E1 : (x =? 195)%N = false) by (apply N.eqb_neq; lia).
    assert (E2 : (x =? 196)%N = false) by (apply N.eqb_neq; lia).
    assert (E3 : (x =? 197)%N = false) by (apply N.eqb_neq; lia).
    assert (E4 : (x =? 239)%N = false) by (apply N.eqb_neq; lia).
    rewrite E1, E2, E3, E4. cbn [andb]. now rewrite IH.
Qed.
Lemma ustr_ascii b : ascii b -> ustr b = map up1 b.
Proof. intros H. unfold ustr. rewrite (lossy_ascii _ H). now apply upper_ascii. Qed.
Lemma up1_lt x : (x < 128)%N -> forall y, up1 x = up1 y -> (y < 128)%N.
Proof.
  intros Hx y. unfold up1.
  destruct ((97 <=? x) && (x <=? 122))%N eqn:E1; destruct ((97 <=? y) && (y <=? 122))%N eqn:E2;
    repeat match goal with
           | H : (_ && _)%bool = true |- _ => apply andb_true_iff in H as [? ?]
           | H : (_ <=? _)%N = true |- _ => apply N.leb_le in H
           end; lia.
Qed.
Lemma case_variant_ascii a b : case_variant a b -> ascii a -> ascii b.
Proof.
  induction 1 as [|x y a b Hxy _ IH]; intros Ha; [constructor|].
  inversion Ha as [|? ? Hx Ha']; subst. constructor.
  - exact (up1_lt x Hx y Hxy).
  - exact (IH Ha').
Qed.
Lemma case_variant_map a b : case_variant a b -> map up1 a = map up1 b.
Proof. induction 1; cbn; congruence. Qed.
Lemma ustr_case_variant a b : ascii a -> case_variant a b -> ustr a = ustr b.
Proof.
  intros Ha H. rewrite (ustr_ascii _ Ha), (ustr_ascii _ (case_variant_ascii _ _ H Ha)).
  now apply case_variant_map.
Qed.
Theorem name_case_insensitive n n' args :
  ascii n -> case_variant n n' ->
  parse_frame (Some (EBulk n :: args)) = parse_frame (Some (EBulk n' :: args)).
Proof. intros Ha H. cbn. now rewrite (ustr_case_variant _ _ Ha H). Qed.
(* more generally the outcome depends on the name only through its upper-cased decoding,
   which also identifies the non-ASCII spellings that str::to_uppercase maps to ASCII *)
Theorem name_only_through_ustr n n' args :
  ustr n = ustr n' ->
  parse_frame (Some (EBulk n :: args)) = parse_frame (Some (EBulk n' :: args)).
Proof. intros H. cbn. now rewrite H. Qed.

(* ------------------------------------------------------------------ the Lua bridge *)
Theorem lua_parse_eq_parse n rest :
  lua_supported (ustr n) = true -> lua_parse (n :: rest) = parse_cmd (n :: rest).
Proof. intros H. unfold lua_parse. now rewrite H. Qed.
Theorem lua_parse_refuses n rest :
  lua_supported (ustr n) = false ->
  lua_parse (n :: rest) = PErr (tx "ERR Unknown Redis command '" ++ ustr n ++ tx "' called from Lua").
Proof. intros H. unfold lua_parse. now rewrite H. Qed.
Lemma lua_commands_in_grammar :
  forallb (fun n => match lookup n grammar with Some _ => true | None => false end) lua_commands = true.
Proof. vm_compute. reflexivity. Qed.

(* both entry paths run the same executor on the same parsed command *)
Section Script.
  Variable state : Type.
  Variable exec : state -> cmd -> state * resp.
  Definition conv (r : resp) : resp := lua_to_resp (resp_to_lua r).
  Definition err_reply (t : bytes) : resp := RError (sanitize t).
  Definition direct_call (s : state) (parts : list bytes) : state * resp :=
    match parse_cmd parts with
    | POk c => exec s c
    | PErr t => (s, err_reply t)
    | PPanic => (s, err_reply [])
    end.
  (* EVAL "return redis.pcall(...)": translate, execute, convert to Lua, convert the script's
     return value back *)
  Definition script_call (s : state) (parts : list bytes) : state * resp :=
    match lua_parse parts with
    | POk c => let '(s', r) := exec s c in (s', conv r)
    | PErr t => (s, conv (RError t))
    | PPanic => (s, err_reply [])
    end.
  Theorem script_call_eq_direct s n rest :
    lua_supported (ustr n) = true ->
    (forall t, parse_cmd (n :: rest) = PErr t -> lossy t = t) ->
    parse_cmd (n :: rest) <> PPanic ->
    script_call s (n :: rest) =
      (fst (direct_call s (n :: rest)),
       match parse_cmd (n :: rest) with
       | POk _ => conv (snd (direct_call s (n :: rest)))
       | _ => snd (direct_call s (n :: rest))
       end).
  Proof.
    intros H HU HP. unfold script_call, direct_call. rewrite (lua_parse_eq_parse _ _ H).
    destruct (parse_cmd (n :: rest)) as [c|t|] eqn:E.
    - destruct (exec s c). reflexivity.
    - cbn. unfold conv, err_reply. cbn. rewrite (HU t eq_refl), bytes_eqb_refl. reflexivity.
    - contradiction.
  Qed.
End Script.

(* ------------------------------------------------------------------ RESP <-> Lua values *)
Section RespInd.
  Variable P : resp -> Prop.
  Hypothesis Hs : forall s, P (RSimple_ s).
  Hypothesis He : forall s, P (RError s).
  Hypothesis Hi : forall z, P (RInt z).
  Hypothesis Hb : forall o, P (RBulk o).
  Hypothesis Hn : P (RArr None).
  Hypothesis Ha : forall l, Forall P l -> P (RArr (Some l)).
  Fixpoint resp_ind' (r : resp) : P r :=
    match r with
    | RSimple_ s => Hs s
    | RError s => He s
    | RInt z => Hi z
    | RBulk o => Hb o
    | RArr None => Hn
    | RArr (Some l) =>
        Ha l ((fix go (l : list resp) : Forall P l :=
                 match l with
                 | [] => Forall_nil P
                 | x :: t => Forall_cons x (resp_ind' x) (go t)
                 end) l)
    end.
End RespInd.

Definition text_ok (s : bytes) : bool := bytes_eqb (lossy s) s && bytes_eqb (sanitize s) s.
(* [a]: is a nil bulk allowed (inside arrays) *)
Fixpoint inner_ok_with (a : bool) (r : resp) : bool :=
  match r with
  | RSimple_ s | RError s => text_ok s
  | RInt _ => true
  | RBulk (Some _) => true
  | RBulk None => a
  | RArr None => false
  | RArr (Some l) =>
      (fix all (l : list resp) : bool :=
         match l with [] => true | x :: t => inner_ok_with a x && all t end) l
  end.
Definition conv_ok (r : resp) : bool :=
  match r with RBulk None => true | _ => inner_ok_with false r end.
Definition conv_ok_redis (r : resp) : bool := inner_ok_with true r.

Definition go_arr : list lval -> list resp :=
  fix go (l : list lval) : list resp :=
    match l with
    | [] => []
    | LNil :: _ => []
    | x :: t => lua_to_resp x :: go t
    end.
Lemma lua_to_resp_tab o e arr :
  lua_to_resp (LTab o e arr) =
    match get_str e with
    | Some x => RError (sanitize x)
    | None => match get_str o with
              | Some s => RSimple_ (sanitize s)
              | None => RArr (Some (go_arr arr))
              end
    end.
Proof. reflexivity. Qed.
Lemma go_arr_cons x t : x <> LNil -> go_arr (x :: t) = lua_to_resp x :: go_arr t.
Proof. destruct x; try reflexivity. congruence. Qed.

Lemma conv_with nil_as a :
  (a = true -> lua_to_resp nil_as = RBulk None /\ nil_as <> LNil) ->
  forall r, inner_ok_with a r = true ->
            lua_to_resp (resp_to_lua_with nil_as r) = r /\ resp_to_lua_with nil_as r <> LNil.
Proof.
  intros Hnil. induction r as [s|s|z|o| |l IH] using resp_ind'; cbn [inner_ok_with resp_to_lua_with]; intros H.
  - unfold text_ok in H. apply andb_true_iff in H as [H1 H2]. apply bytes_eqb_eq in H2.
    split; [|discriminate]. rewrite lua_to_resp_tab. cbn [get_str]. rewrite H1. now rewrite H2.
  - unfold text_ok in H. apply andb_true_iff in H as [H1 H2]. apply bytes_eqb_eq in H2.
    split; [|discriminate]. rewrite lua_to_resp_tab. cbn [get_str]. rewrite H1. now rewrite H2.
  - split; [reflexivity|discriminate].
  - destruct o as [b|]; [split; [reflexivity|discriminate]|]. now apply Hnil.
  - discriminate.
  - split; [|discriminate]. rewrite lua_to_resp_tab. cbn [get_str]. do 2 f_equal.
    induction IH as [|x t Hx _ IHt]; [reflexivity|].
    apply andb_true_iff in H as [H1 H2]. destruct (Hx H1) as [E1 E2].
    cbn [map]. rewrite (go_arr_cons _ _ E2), E1. f_equal. exact (IHt H2).
Qed.

Theorem conv_roundtrip r : conv_ok r = true -> lua_to_resp (resp_to_lua r) = r.
Proof.
  intros H. assert (G : forall r, inner_ok_with false r = true -> lua_to_resp (resp_to_lua r) = r).
  { intros r0 H0. apply (conv_with LNil false); [discriminate|exact H0]. }
  destruct r as [| | |[b|]|]; try (apply G; exact H); reflexivity.
Qed.
Theorem conv_roundtrip_redis r :
  conv_ok_redis r = true -> lua_to_resp (resp_to_lua_redis r) = r.
Proof.
  intros H. apply (conv_with (LBool false) true); [|exact H].
  intros _. split; [reflexivity|discriminate].
Qed.
(* the nil exception of the coded conversion: a nil inside an array ends the array, and a
   nil array becomes a nil bulk; the first does not happen under Redis' nil -> false *)
Theorem conv_nil_exception :
  let v := RArr (Some [RBulk (Some [97%N]); RBulk None; RBulk (Some [99%N])]) in
  lua_to_resp (resp_to_lua v) = RArr (Some [RBulk (Some [97%N])])
  /\ lua_to_resp (resp_to_lua_redis v) = v
  /\ lua_to_resp (resp_to_lua (RArr None)) = RBulk None.
Proof. repeat split. Qed.
Theorem nil_reaches_script_as_nil :
  resp_to_lua (RBulk None) = LNil /\ resp_to_lua_redis (RBulk None) = LBool false.
Proof. split; reflexivity. Qed.

(* C16: laws of the reference grammar (Model/CmdGrammar.v). *)
From Coq Require Import NArith ZArith List String Bool Lia.
From RV Require Import Lib.Hex Model.CmdGrammar.
Import ListNotations.
Local Open Scope bool_scope.

(* ------------------------------------------------------------------ byte strings *)
Lemma bytes_eqb_refl a : bytes_eqb a a = true.
Proof. induction a; cbn; [reflexivity|]. now rewrite N.eqb_refl. Qed.
Lemma bytes_eqb_eq a b : bytes_eqb a b = true <-> a = b.
Proof.
  split; [|intros ->; apply bytes_eqb_refl].
  revert b; induction a as [|x a IH]; destruct b as [|y b]; cbn; try discriminate; auto.
  intros H. apply andb_true_iff in H as [H1 H2]. apply N.eqb_eq in H1. f_equal; auto.
Qed.
Lemma bytes_eqb_neq a b : bytes_eqb a b = false <-> a <> b.
Proof.
  split.
  - intros H E. apply bytes_eqb_eq in E. congruence.
  - intros H. destruct (bytes_eqb a b) eqn:E; [|reflexivity]. apply bytes_eqb_eq in E. contradiction.
Qed.

(* ------------------------------------------------------------------ the table is a function *)
Definition names {A} (t : list (bytes * A)) : list bytes := map fst t.
Fixpoint nodupb (l : list bytes) : bool :=
  match l with
  | [] => true
  | x :: r => negb (existsb (bytes_eqb x) r) && nodupb r
  end.
Lemma nodupb_NoDup l : nodupb l = true -> NoDup l.
Proof.
  induction l as [|x r IH]; cbn; intros H; constructor.
  - apply andb_true_iff in H as [H _]. apply negb_true_iff in H.
    intros HI. assert (existsb (bytes_eqb x) r = true); [|congruence].
    apply existsb_exists. exists x. split; [assumption|apply bytes_eqb_refl].
  - apply andb_true_iff in H as [_ H]. auto.
Qed.

Lemma grammar_names_distinct : nodupb (names grammar) = true.
Proof. vm_compute. reflexivity. Qed.
Lemma subtables_names_distinct :
  forallb (fun t => nodupb (names t))
          [config_tbl; acl_tbl; script_tbl; function_tbl; client_tbl; object_tbl; debug_tbl] = true.
Proof. vm_compute. reflexivity. Qed.

Lemma lookup_In {A} n (t : list (bytes * A)) r : lookup n t = Some r -> In (n, r) t.
Proof.
  induction t as [|[m a] t IH]; cbn; [discriminate|].
  destruct (bytes_eqb n m) eqn:E.
  - intros [= ->]. apply bytes_eqb_eq in E. subst. now left.
  - intros H. right. auto.
Qed.
Lemma lookup_None {A} n (t : list (bytes * A)) : lookup n t = None <-> ~ In n (names t).
Proof.
  induction t as [|[m a] t IH]; cbn.
  - split; auto.
  - destruct (bytes_eqb n m) eqn:E.
    + apply bytes_eqb_eq in E. subst. split; [discriminate|]. intros H. exfalso. apply H. now left.
    + apply bytes_eqb_neq in E. rewrite IH. split.
      * intros H [H1|H1]; [congruence|auto].
      * intros H H1. apply H. now right.
Qed.
Lemma lookup_unique {A} n (t : list (bytes * A)) r :
  NoDup (names t) -> In (n, r) t -> lookup n t = Some r.
Proof.
  induction t as [|[m a] t IH]; cbn; [contradiction|].
  intros ND [H|H].
  - injection H as -> ->. now rewrite bytes_eqb_refl.
  - inversion ND as [|? ? Hn ND']; subst.
    destruct (bytes_eqb n m) eqn:E.
    + apply bytes_eqb_eq in E. subst. exfalso. apply Hn.
      change m with (fst (m, r)). now apply in_map.
    + auto.
Qed.
Lemma grammar_lookup n r : In (n, r) grammar -> lookup n grammar = Some r.
Proof. apply lookup_unique, nodupb_NoDup, grammar_names_distinct. Qed.

Local Opaque grammar.

(* the grammar read as a relation: "some row named like the frame's first element yields r" *)
Definition parses (f : option (list relem)) (r : presult) : Prop :=
  match f with
  | Some (EBulk n :: args) =>
      (exists rl, In (ustr n, rl) grammar /\ r = run_rule rl args)
      \/ (~ In (ustr n) (names grammar) /\ r = unknown_cmd (ustr n))
  | _ => r = PErr E_FORMAT
  end.
Lemma parses_parse_frame f : parses f (parse_frame f).
Proof.
  destruct f as [[|[n| |] args]|]; cbn; try reflexivity.
  destruct (lookup (ustr n) grammar) eqn:E.
  - left. exists r. split; [now apply lookup_In|reflexivity].
  - right. split; [now apply lookup_None|reflexivity].
Qed.
Lemma parses_functional f r : parses f r -> r = parse_frame f.
Proof.
  destruct f as [[|[n| |] args]|]; cbn; try (intros ->; reflexivity).
  intros [[rl [HI ->]]|[HN ->]].
  - now rewrite (grammar_lookup _ _ HI).
  - apply lookup_None in HN. now rewrite HN.
Qed.
Theorem parse_deterministic f r1 r2 : parses f r1 -> parses f r2 -> r1 = r2.
Proof. intros H1 H2. apply parses_functional in H1, H2. congruence. Qed.

(* ------------------------------------------------------------------ arity *)
Theorem arity_error n rl args name :
  In (name, rl) grammar -> ustr n = name -> arity_ok rl (List.length args) = false ->
  parse_frame (Some (EBulk n :: args)) = PErr (arity_text rl).
Proof.
  intros HI <- HA. cbn. rewrite (grammar_lookup _ _ HI). unfold run_rule. now rewrite HA.
Qed.

(* ------------------------------------------------------------------ letter case *)
Definition ascii (b : bytes) : Prop := Forall (fun x => (x < 128)%N) b.
Definition case_variant (a b : bytes) : Prop := Forall2 (fun x y => up1 x = up1 y) a b.

Lemma width_ascii x : (x < 128)%N -> width x = 1%nat.
Proof. intros H. unfold width. apply N.ltb_lt in H. now rewrite H. Qed.
Lemma lossy_ascii b : ascii b -> lossy b = b.
Proof.
  induction 1 as [|x r Hx Hr IH]; [reflexivity|].
  cbn [lossy]. rewrite (width_ascii _ Hx). now rewrite IH.
Qed.
Lemma upper_ascii b : ascii b -> upper b = map up1 b.
Proof.
  induction 1 as [|x r Hx Hr IH]; [reflexivity|].
  cbn [upper map]. destruct r as [|y r1].
  - reflexivity.
  - assert (E1 : (x =? 195)%N = false) by (apply N.eqb_neq; lia).
    assert (E2 : (x =? 196)%N = false) by (apply N.eqb_neq; lia).
    assert (E3 : (x =? 197)%N = false) by (apply N.eqb_neq; lia).
    assert (E4 : (x =? 239)%N = false) by (apply N.eqb_neq; lia).
    rewrite E1, E2, E3, E4. cbn [andb]. now rewrite IH.
Qed.
Lemma ustr_ascii b : ascii b -> ustr b = map up1 b.
Proof. intros H. unfold ustr. rewrite (lossy_ascii _ H). now apply upper_ascii. Qed.
Lemma up1_lt x : (x < 128)%N -> forall y, up1 x = up1 y -> (y < 128)%N.
Proof.
  intros Hx y. unfold up1.
  destruct ((97 <=? x) && (x <=? 122))%N eqn:E1; destruct ((97 <=? y) && (y <=? 122))%N eqn:E2;
    repeat match goal with
           | H : (_ && _)%bool = true |- _ => apply andb_true_iff in H as [? ?]
           | H : (_ <=? _)%N = true |- _ => apply N.leb_le in H
           end; lia.
Qed.
Lemma case_variant_ascii a b : case_variant a b -> ascii a -> ascii b.
Proof.
  induction 1 as [|x y a b Hxy _ IH]; intros Ha; [constructor|].
  inversion Ha as [|? ? Hx Ha']; subst. constructor.
  - exact (up1_lt x Hx y Hxy).
  - exact (IH Ha').
Qed.
Lemma case_variant_map a b : case_variant a b -> map up1 a = map up1 b.
Proof. induction 1; cbn; congruence. Qed.
Lemma ustr_case_variant a b : ascii a -> case_variant a b -> ustr a = ustr b.
Proof.
  intros Ha H. rewrite (ustr_ascii _ Ha), (ustr_ascii _ (case_variant_ascii _ _ H Ha)).
  now apply case_variant_map.
Qed.
Theorem name_case_insensitive n n' args :
  ascii n -> case_variant n n' ->
  parse_frame (Some (EBulk n :: args)) = parse_frame (Some (EBulk n' :: args)).
Proof. intros Ha H. cbn. now rewrite (ustr_case_variant _ _ Ha H). Qed.
(* more generally the outcome depends on the name only through its upper-cased decoding,
   which also identifies the non-ASCII spellings that str::to_uppercase maps to ASCII *)
Theorem name_only_through_ustr n n' args :
  ustr n = ustr n' ->
  parse_frame (Some (EBulk n :: args)) = parse_frame (Some (EBulk n' :: args)).
Proof. intros H. cbn. now rewrite H. Qed.

(* ------------------------------------------------------------------ the Lua bridge *)
Theorem lua_parse_eq_parse n rest :
  lua_supported (ustr n) = true -> lua_parse (n :: rest) = parse_cmd (n :: rest).
Proof. intros H. unfold lua_parse. now rewrite H. Qed.
Theorem lua_parse_refuses n rest :
  lua_supported (ustr n) = false ->
  lua_parse (n :: rest) = PErr (tx "ERR Unknown Redis command '" ++ ustr n ++ tx "' called from Lua").
Proof. intros H. unfold lua_parse. now rewrite H. Qed.
Lemma lua_commands_in_grammar :
  forallb (fun n => match lookup n grammar with Some _ => true | None => false end) lua_commands = true.
Proof. vm_compute. reflexivity. Qed.

(* both entry paths run the same executor on the same parsed command *)
Section Script.
  Variable state : Type.
  Variable exec : state -> cmd -> state * resp.
  Definition conv (r : resp) : resp := lua_to_resp (resp_to_lua r).
  Definition err_reply (t : bytes) : resp := RError (sanitize t).
  Definition direct_call (s : state) (parts : list bytes) : state * resp :=
    match parse_cmd parts with
    | POk c => exec s c
    | PErr t => (s, err_reply t)
    | PPanic => (s, err_reply [])
    end.
  (* EVAL "return redis.pcall(...)": translate, execute, convert to Lua, convert the script's
     return value back *)
  Definition script_call (s : state) (parts : list bytes) : state * resp :=
    match lua_parse parts with
    | POk c => let '(s', r) := exec s c in (s', conv r)
    | PErr t => (s, conv (RError t))
    | PPanic => (s, err_reply [])
    end.
  Theorem script_call_eq_direct s n rest :
    lua_supported (ustr n) = true ->
    (forall t, parse_cmd (n :: rest) = PErr t -> lossy t = t) ->
    parse_cmd (n :: rest) <> PPanic ->
    script_call s (n :: rest) =
      (fst (direct_call s (n :: rest)),
       match parse_cmd (n :: rest) with
       | POk _ => conv (snd (direct_call s (n :: rest)))
       | _ => snd (direct_call s (n :: rest))
       end).
  Proof.
    intros H HU HP. unfold script_call, direct_call. rewrite (lua_parse_eq_parse _ _ H).
    destruct (parse_cmd (n :: rest)) as [c|t|] eqn:E.
    - destruct (exec s c). reflexivity.
    - cbn. unfold conv, err_reply. cbn. rewrite (HU t eq_refl), bytes_eqb_refl. reflexivity.
    - contradiction.
  Qed.
End Script.

(* ------------------------------------------------------------------ RESP <-> Lua values *)
Section RespInd.
  Variable P : resp -> Prop.
  Hypothesis Hs : forall s, P (RSimple_ s).
  Hypothesis He : forall s, P (RError s).
  Hypothesis Hi : forall z, P (RInt z).
  Hypothesis Hb : forall o, P (RBulk o).
  Hypothesis Hn : P (RArr None).
  Hypothesis Ha : forall l, Forall P l -> P (RArr (Some l)).
  Fixpoint resp_ind' (r : resp) : P r :=
    match r with
    | RSimple_ s => Hs s
    | RError s => He s
    | RInt z => Hi z
    | RBulk o => Hb o
    | RArr None => Hn
    | RArr (Some l) =>
        Ha l ((fix go (l : list resp) : Forall P l :=
                 match l with
                 | [] => Forall_nil P
                 | x :: t => Forall_cons x (resp_ind' x) (go t)
                 end) l)
    end.
End RespInd.

Definition text_ok (s : bytes) : bool := bytes_eqb (lossy s) s && bytes_eqb (sanitize s) s.
(* [a]: is a nil bulk allowed (inside arrays) *)
Fixpoint inner_ok_with (a : bool) (r : resp) : bool :=
  match r with
  | RSimple_ s | RError s => text_ok s
  | RInt _ => true
  | RBulk (Some _) => true
  | RBulk None => a
  | RArr None => false
  | RArr (Some l) =>
      (fix all (l : list resp) : bool :=
         match l with [] => true | x :: t => inner_ok_with a x && all t end) l
  end.
Definition conv_ok (r : resp) : bool :=
  match r with RBulk None => true | _ => inner_ok_with false r end.
Definition conv_ok_redis (r : resp) : bool := inner_ok_with true r.

Definition go_arr : list lval -> list resp :=
  fix go (l : list lval) : list resp :=
    match l with
    | [] => []
    | LNil :: _ => []
    | x :: t => lua_to_resp x :: go t
    end.
Lemma lua_to_resp_tab o e arr :
  lua_to_resp (LTab o e arr) =
    match get_str e with
    | Some x => RError (sanitize x)
    | None => match get_str o with
              | Some s => RSimple_ (sanitize s)
              | None => RArr (Some (go_arr arr))
              end
    end.
Proof. reflexivity. Qed.
Lemma go_arr_cons x t : x <> LNil -> go_arr (x :: t) = lua_to_resp x :: go_arr t.
Proof. destruct x; try reflexivity. congruence. Qed.

Lemma conv_with nil_as a :
  (a = true -> lua_to_resp nil_as = RBulk None /\ nil_as <> LNil) ->
  forall r, inner_ok_with a r = true ->
            lua_to_resp (resp_to_lua_with nil_as r) = r /\ resp_to_lua_with nil_as r <> LNil.
Proof.
  intros Hnil. induction r as [s|s|z|o| |l IH] using resp_ind'; cbn [inner_ok_with resp_to_lua_with]; intros H.
  - unfold text_ok in H. apply andb_true_iff in H as [H1 H2]. apply bytes_eqb_eq in H2.
    split; [|discriminate]. rewrite lua_to_resp_tab. cbn [get_str]. rewrite H1. now rewrite H2.
  - unfold text_ok in H. apply andb_true_iff in H as [H1 H2]. apply bytes_eqb_eq in H2.
    split; [|discriminate]. rewrite lua_to_resp_tab. cbn [get_str]. rewrite H1. now rewrite H2.
  - split; [reflexivity|discriminate].
  - destruct o as [b|]; [split; [reflexivity|discriminate]|]. now apply Hnil.
  - discriminate.
  - split; [|discriminate]. rewrite lua_to_resp_tab. cbn [get_str]. do 2 f_equal.
    induction IH as [|x t Hx _ IHt]; [reflexivity|].
    apply andb_true_iff in H as [H1 H2]. destruct (Hx H1) as [E1 E2].
    cbn [map]. rewrite (go_arr_cons _ _ E2), E1. f_equal. exact (IHt H2).
Qed.

Theorem conv_roundtrip r : conv_ok r = true -> lua_to_resp (resp_to_lua r) = r.
Proof.
  intros H. assert (G : forall r, inner_ok_with false r = true -> lua_to_resp (resp_to_lua r) = r).
  { intros r0 H0. apply (conv_with LNil false); [discriminate|exact H0]. }
  destruct r as [| | |[b|]|]; try (apply G; exact H); reflexivity.
Qed.
Theorem conv_roundtrip_redis r :
  conv_ok_redis r = true -> lua_to_resp (resp_to_lua_redis r) = r.
Proof.
  intros H. apply (conv_with (LBool false) true); [|exact H].
  intros _. split; [reflexivity|discriminate].
Qed.
(* the nil exception of the coded conversion: a nil inside an array ends the array, and a
   nil array becomes a nil bulk; the first does not happen under Redis' nil -> false *)
Theorem conv_nil_exception :
  let v := RArr (Some [RBulk (Some [97%N]); RBulk None; RBulk (Some [99%N])]) in
  lua_to_resp (resp_to_lua v) = RArr (Some [RBulk (Some [97%N])])
  /\ lua_to_resp (resp_to_lua_redis v) = v
  /\ lua_to_resp (resp_to_lua (RArr None)) = RBulk None.
Proof. repeat split. Qed.
Theorem nil_reaches_script_as_nil :
  resp_to_lua (RBulk None) = LNil /\ resp_to_lua_redis (RBulk None) = LBool false.
Proof. split; reflexivity. Qed.

(* ------------------------------------------------------------------ printing and re-reading numbers *)
Definition is_digit (c : N) : bool := ((48 <=? c) && (c <=? 57))%N.
Definition all_digits (ds : bytes) : bool := forallb is_digit ds.
Fixpoint val (r : Z) (ds : bytes) : Z :=
  match ds with [] => r | c :: t => val (10 * r + Z.of_N (c - 48)) t end.

Lemma digit_is c : is_digit c = true -> digit c = Some (Z.of_N (c - 48)).
Proof. unfold is_digit, digit. now intros ->. Qed.
Lemma is_digit_range c : is_digit c = true -> (48 <= c <= 57)%N.
Proof. unfold is_digit. intros H. apply andb_true_iff in H as [H1 H2]. apply N.leb_le in H1, H2. lia. Qed.
Lemma val_mono ds : all_digits ds = true -> forall r, (0 <= r)%Z -> (r <= val r ds)%Z.
Proof.
  induction ds as [|c t IH]; cbn [val all_digits forallb]; intros H r Hr; [lia|].
  apply andb_true_iff in H as [Hc Ht]. apply is_digit_range in Hc.
  specialize (IH Ht (10 * r + Z.of_N (c - 48))%Z). lia.
Qed.
Lemma acc_pos_val hi ds : all_digits ds = true -> forall r, (0 <= r)%Z -> (val r ds <= hi)%Z ->
  acc_pos hi r ds = IOk (val r ds).
Proof.
  induction ds as [|c t IH]; cbn [val all_digits forallb acc_pos]; intros H r Hr Hv; [reflexivity|].
  apply andb_true_iff in H as [Hc Ht]. rewrite (digit_is _ Hc).
  pose proof (is_digit_range _ Hc) as Hc'.
  pose proof (val_mono t Ht (10 * r + Z.of_N (c - 48))%Z ltac:(lia)) as Hm.
  cbv zeta. destruct (Z.gtb_spec (10 * r + Z.of_N (c - 48)) hi); [lia|].
  apply IH; auto; lia.
Qed.
Lemma acc_neg_val lo ds : all_digits ds = true -> forall r, (r <= 0)%Z -> (lo <= - val (- r) ds)%Z ->
  acc_neg lo r ds = IOk (- val (- r) ds)%Z.
Proof.
  induction ds as [|c t IH]; cbn [val all_digits forallb acc_neg]; intros H r Hr Hv.
  - f_equal. lia.
  - apply andb_true_iff in H as [Hc Ht]. rewrite (digit_is _ Hc).
    pose proof (is_digit_range _ Hc) as Hc'.
    replace (10 * - r + Z.of_N (c - 48))%Z with (- (10 * r - Z.of_N (c - 48)))%Z in * by lia.
    pose proof (val_mono t Ht (- (10 * r - Z.of_N (c - 48)))%Z ltac:(lia)) as Hm.
    cbv zeta. destruct (Z.ltb_spec (10 * r - Z.of_N (c - 48)) lo); [lia|].
    apply IH; auto; lia.
Qed.

Lemma ndigits_digits fuel : forall n acc, all_digits acc = true -> all_digits (ndigits fuel n acc) = true.
Proof.
  induction fuel as [|f IH]; cbn [ndigits]; intros n acc Ha; [exact Ha|].
  assert (Hd : all_digits ((48 + n mod 10)%N :: acc) = true).
  { cbn [all_digits forallb]. fold (all_digits acc). rewrite Ha, andb_true_r.
    unfold is_digit. pose proof (N.mod_lt n 10 ltac:(lia)) as Hm.
    remember (n mod 10)%N as m. apply andb_true_iff. split; apply N.leb_le; lia. }
  cbv zeta. destruct (n / 10 =? 0)%N; [exact Hd|]. now apply IH.
Qed.
Lemma ndigits_nonempty fuel : forall n acc, acc <> [] -> ndigits fuel n acc <> [].
Proof.
  induction fuel as [|f IH]; cbn [ndigits]; intros n acc Ha; [exact Ha|].
  cbv zeta. destruct (n / 10 =? 0)%N; [discriminate|]. apply IH. discriminate.
Qed.
Lemma ndigits_val fuel : forall n acc, (n < 2 ^ N.of_nat fuel)%N ->
  val 0 (ndigits fuel n acc) = val (Z.of_N n) acc.
Proof.
  induction fuel as [|f IH]; intros n acc Hn.
  - cbn [ndigits]. change (2 ^ N.of_nat 0)%N with 1%N in Hn. replace n with 0%N by lia. reflexivity.
  - cbn [ndigits]. cbv zeta.
    pose proof (N.div_mod n 10 ltac:(lia)) as Hdm. pose proof (N.mod_lt n 10 ltac:(lia)) as Hml.
    remember (n mod 10)%N as m. remember (n / 10)%N as q.
    destruct (N.eqb_spec q 0) as [E|E].
    + cbn [val]. f_equal. rewrite E in Hdm. lia.
    + rewrite IH.
      * cbn [val]. f_equal. lia.
      * rewrite Nat2N.inj_succ, N.pow_succ_r' in Hn. remember (2 ^ N.of_nat f)%N as pw. lia.
Qed.
Lemma ntoa_digits n : all_digits (ntoa n) = true.
Proof. apply ndigits_digits. reflexivity. Qed.
Lemma ntoa_nonempty n : ntoa n <> [].
Proof.
  unfold ntoa. cbn [ndigits]. cbv zeta. destruct (n / 10 =? 0)%N; [discriminate|].
  apply ndigits_nonempty. discriminate.
Qed.
Lemma ntoa_val n : val 0 (ntoa n) = Z.of_N n.
Proof.
  unfold ntoa. rewrite ndigits_val; [reflexivity|].
  rewrite Nat2N.inj_succ, N2Nat.id, N.pow_succ_r'. pose proof (N.size_gt n). lia.
Qed.

Lemma all_digits_ascii ds : all_digits ds = true -> ascii ds.
Proof.
  induction ds as [|c t IH]; cbn [all_digits forallb]; intros H; [constructor|].
  apply andb_true_iff in H as [H1 H2]. constructor.
  - apply is_digit_range in H1. lia.
  - apply IH. exact H2.
Qed.
Lemma itoa_ascii z : ascii (itoa z).
Proof.
  destruct z; cbn [itoa].
  - repeat constructor.
  - apply all_digits_ascii, ntoa_digits.
  - constructor; [lia|]. apply all_digits_ascii, ntoa_digits.
Qed.
Lemma lossy_itoa z : lossy (itoa z) = itoa z.
Proof. apply lossy_ascii, itoa_ascii. Qed.

Lemma head_digit_not_sign c t : all_digits (c :: t) = true -> ((c =? 43) || (c =? 45))%N = false /\ (c =? 43)%N = false /\ (c =? 45)%N = false.
Proof.
  cbn [all_digits forallb]. intros H. apply andb_true_iff in H as [H _]. apply is_digit_range in H.
  assert ((c =? 43)%N = false) by (apply N.eqb_neq; lia).
  assert ((c =? 45)%N = false) by (apply N.eqb_neq; lia).
  now rewrite H0, H1.
Qed.
Lemma parse_int_digits signed lo hi ds :
  ds <> [] -> all_digits ds = true -> (val 0 ds <= hi)%Z ->
  parse_int signed lo hi ds = IOk (val 0 ds).
Proof.
  intros Hne Hd Hv. destruct ds as [|c t]; [contradiction|].
  destruct (head_digit_not_sign _ _ Hd) as (E1 & E2 & E3).
  unfold parse_int. destruct t.
  - rewrite E1. apply acc_pos_val; auto. lia.
  - rewrite E2, E3. cbn [andb]. apply acc_pos_val; auto. lia.
Qed.
Lemma parse_int_itoa signed lo hi z :
  (lo <= z <= hi)%Z -> (signed = true \/ 0 <= z)%Z ->
  parse_int signed lo hi (itoa z) = IOk z.
Proof.
  intros Hr Hs. destruct z as [|p|p]; cbn [itoa].
  - cbn. destruct (Z.gtb_spec 0 hi); [lia|reflexivity].
  - rewrite parse_int_digits.
    + now rewrite ntoa_val.
    + apply ntoa_nonempty.
    + apply ntoa_digits.
    + rewrite ntoa_val. cbn. lia.
  - destruct Hs as [->|Hs]; [|lia].
    unfold parse_int. pose proof (ntoa_nonempty (N.pos p)) as Hne.
    destruct (ntoa (N.pos p)) as [|c t] eqn:E; [contradiction|].
    cbn [N.eqb Pos.eqb andb orb]. rewrite <- E.
    rewrite (acc_neg_val lo _ (ntoa_digits _) 0%Z ltac:(lia)); cbn [Z.opp]; rewrite ntoa_val; cbn; [reflexivity|lia].
Qed.
Lemma parse_i64_itoa z : in_range I64_MIN I64_MAX z = true -> parse_i64 (lossy (itoa z)) = IOk z.
Proof.
  unfold in_range. intros H. apply andb_true_iff in H as [H1 H2]. apply Z.leb_le in H1, H2.
  rewrite lossy_itoa. apply parse_int_itoa; auto.
Qed.
Lemma parse_unsigned_itoa hi z : in_range 0 hi z = true -> parse_int false 0 hi (lossy (itoa z)) = IOk z.
Proof.
  unfold in_range. intros H. apply andb_true_iff in H as [H1 H2]. apply Z.leb_le in H1, H2.
  rewrite lossy_itoa. apply parse_int_itoa; auto.
Qed.

(* ------------------------------------------------------------------ extract (unext v) = v *)
Lemma in_range_spec lo hi z : in_range lo hi z = true -> (lo <= z <= hi)%Z.
Proof. unfold in_range. intros H. apply andb_true_iff in H as [H1 H2]. apply Z.leb_le in H1, H2. lia. Qed.
Lemma ext_int_itoa z : in_range I64_MIN I64_MAX z = true -> ext_int (EBulk (itoa z)) = Ok z.
Proof. intros H. unfold ext_int. now rewrite parse_i64_itoa. Qed.
Lemma ext_u64_itoa z : in_range 0 U64_MAX z = true -> ext_u64 (EBulk (itoa z)) = Ok z.
Proof. intros H. unfold ext_u64, parse_u64. now rewrite parse_unsigned_itoa. Qed.

Lemma ext_unext k v : wf_val k v = true -> extract k (EBulk (unext_k k v)) = Ok v.
Proof.
  destruct k, v; cbn [wf_val]; try discriminate; intros H; cbn [unext_k unext unext_usz extract].
  - apply bytes_eqb_eq in H. now rewrite H.
  - apply bytes_eqb_eq in H. now rewrite H.
  - reflexivity.
  - now rewrite ext_int_itoa.
  - (* KUsz *)
    pose proof (in_range_spec _ _ _ H) as Hr. unfold U64_MAX in Hr.
    destruct (Z.ltb_spec z (2 ^ 63)).
    + rewrite ext_int_itoa.
      * rewrite Z.mod_small; [reflexivity|unfold TWO64; lia].
      * unfold in_range, I64_MIN, I64_MAX. apply andb_true_iff. split; apply Z.leb_le; lia.
    + rewrite ext_int_itoa.
      * f_equal. f_equal. unfold TWO64.
        replace (z - 2 ^ 64)%Z with (z + (-1) * 2 ^ 64)%Z by lia.
        rewrite Z.mod_add by lia. apply Z.mod_small. lia.
      * unfold in_range, I64_MIN, I64_MAX, TWO64. apply andb_true_iff. split; apply Z.leb_le; lia.
  - now rewrite ext_u64_itoa.
  - rewrite ext_u64_itoa by exact H. reflexivity.
  - (* KBit *)
    pose proof (in_range_spec _ _ _ H) as Hr.
    rewrite ext_int_itoa.
    + cbn [remap]. destruct (Z.ltb_spec z 0); [lia|]. destruct (Z.ltb_spec 1 z); [lia|]. reflexivity.
    + unfold in_range, I64_MIN, I64_MAX. apply andb_true_iff. split; apply Z.leb_le; lia.
  - (* KOffset *)
    pose proof (in_range_spec _ _ _ H) as Hr.
    rewrite ext_int_itoa.
    + destruct (Z.ltb_spec z 0); [lia|]. reflexivity.
    + unfold in_range, I64_MIN, I64_MAX in *. apply andb_true_iff. split; apply Z.leb_le; lia.
  - (* KFloat *)
    apply andb_true_iff in H as [H1 H2]. apply bytes_eqb_eq in H1. rewrite H1.
    destruct (float_class t); [reflexivity|discriminate].
  - (* KFinite *)
    apply andb_true_iff in H as [H1 H2]. apply bytes_eqb_eq in H1. rewrite H1.
    destruct (float_class t) as [[| |]|]; try discriminate. reflexivity.
  - (* KDb *)
    pose proof (in_range_spec _ _ _ H) as Hr.
    rewrite ext_u64_itoa.
    + destruct (Z.ltb_spec 15 z); [lia|]. reflexivity.
    + unfold in_range, U64_MAX. apply andb_true_iff. split; apply Z.leb_le; lia.
  - (* KUszStr *)
    unfold parse_u64. now rewrite parse_unsigned_itoa.
  - (* KU32Str *)
    unfold parse_u32. now rewrite parse_unsigned_itoa.
Qed.

Lemma extract_list_unext k l :
  forallb (wf_val k) l = true -> extract_list k (map EBulk (map (unext_k k) l)) = Ok l.
Proof.
  induction l as [|v l IH]; cbn [forallb map extract_list]; intros H; [reflexivity|].
  apply andb_true_iff in H as [H1 H2]. now rewrite (ext_unext _ _ H1), (IH H2).
Qed.
Definition pair_tokens (k1 k2 : kind) (p : cval) : list bytes :=
  match p with VP a b => [unext_k k1 a; unext_k k2 b] | _ => [] end.
Lemma extract_pairs_unext k1 k2 l :
  forallb (wf_pair k1 k2) l = true ->
  extract_pairs k1 k2 (map EBulk (flat_map (pair_tokens k1 k2) l)) = Ok l
  /\ List.length (flat_map (pair_tokens k1 k2) l) = (2 * List.length l)%nat.
Proof.
  induction l as [|v l IH]; cbn [forallb flat_map]; intros H; [split; reflexivity|].
  apply andb_true_iff in H as [H1 H2]. destruct v; try discriminate. cbn [wf_pair] in H1.
  apply andb_true_iff in H1 as [Ha Hb]. destruct (IH H2) as [E L].
  cbn [pair_tokens app map extract_pairs]. rewrite (ext_unext _ _ Ha), (ext_unext _ _ Hb), E.
  split; [reflexivity|]. cbn [List.length]. rewrite L. lia.
Qed.
Lemma extract_pre_unext pre : forall vs rest,
  wf_pre pre vs = true ->
  extract_pre pre (map EBulk (unext_pre pre vs) ++ rest) = Ok (vs, rest)
  /\ List.length (unext_pre pre vs) = List.length pre.
Proof.
  induction pre as [|k pre IH]; intros [|v vs] rest; cbn [wf_pre]; try discriminate; intros H.
  - split; reflexivity.
  - apply andb_true_iff in H as [H1 H2]. destruct (IH vs rest H2) as [E L].
    cbn [unext_pre map app extract_pre]. rewrite (ext_unext _ _ H1), E. cbn [fst snd].
    split; [reflexivity|]. cbn [List.length]. now rewrite L.
Qed.

Lemma run_simple tag pre tl e a1 a2 :
  wf_pre pre a1 = true -> wf_tail tl a2 = true ->
  run_rule (RSimple tag pre tl e) (map EBulk (unext_pre pre a1 ++ unext_tail tl a2))
  = POk (Cmd tag (a1 ++ a2)).
Proof.
  intros Hp Ht. rewrite map_app.
  destruct (extract_pre_unext pre a1 (map EBulk (unext_tail tl a2)) Hp) as [E L].
  unfold run_rule.
  assert (HA : arity_ok (RSimple tag pre tl e)
                 (List.length (map EBulk (unext_pre pre a1) ++ map EBulk (unext_tail tl a2))) = true).
  { rewrite app_length, !map_length, L. cbn [arity_ok].
    destruct tl; cbn [wf_tail] in Ht.
    - destruct a2; [|discriminate]. cbn. rewrite Nat.add_0_r. apply Nat.eqb_refl.
    - reflexivity.
    - destruct a2 as [|[] [|]]; try discriminate. apply Nat.leb_le. lia.
    - destruct a2 as [|[] [|]]; try discriminate. apply andb_true_iff in Ht as [Hn _].
      cbn [unext_tail]. rewrite map_length. destruct l; [discriminate|]. apply Nat.leb_le. cbn. lia.
    - destruct a2 as [|[] [|]]; try discriminate. apply andb_true_iff in Ht as [Hn Hf].
      cbn [unext_tail]. destruct (extract_pairs_unext k1 k2 l Hf) as [_ L2].
      fold (pair_tokens k1 k2). rewrite L2. destruct l; [discriminate|].
      apply andb_true_iff. split.
      + apply Nat.leb_le. cbn. lia.
      + replace (List.length pre + 2 * List.length (c :: l) - List.length pre)%nat
          with (2 * List.length (c :: l))%nat by lia.
        rewrite Nat.even_mul. reflexivity. }
  rewrite HA. cbn [negb]. rewrite E. cbn [fst snd to_presult].
  destruct tl; cbn [wf_tail] in Ht.
  - destruct a2; [|discriminate]. now rewrite app_nil_r.
  - destruct a2; [|discriminate]. now rewrite app_nil_r.
  - destruct a2 as [|[] [|]]; try discriminate. cbn [unext_tail]. now rewrite (extract_list_unext _ _ Ht).
  - destruct a2 as [|[] [|]]; try discriminate. apply andb_true_iff in Ht as [_ Hf].
    cbn [unext_tail]. now rewrite (extract_list_unext _ _ Hf).
  - destruct a2 as [|[] [|]]; try discriminate. apply andb_true_iff in Ht as [_ Hf].
    cbn [unext_tail]. fold (pair_tokens k1 k2). destruct (extract_pairs_unext k1 k2 l Hf) as [E2 _].
    now rewrite E2.
Qed.

(* ------------------------------------------------------------------ where a simple row lives *)
Lemma simple_of_In path t p r :
  In (p, r) (simple_of path t) -> exists n, p = path ++ [n] /\ In (n, r) t.
Proof.
  unfold simple_of. intros H. apply in_flat_map in H as [[n r0] [HI H]].
  cbn [fst snd] in H. destruct r0; [|contradiction].
  destruct H as [H|[]]. injection H as <- <-. exists n. split; [reflexivity|exact HI].
Qed.
Lemma find_tag_In tag ix : forall path pre tl,
  find_tag tag ix = Some (path, pre, tl) -> exists e, In (path, RSimple tag pre tl e) ix.
Proof.
  induction ix as [|[p r] ix IH]; cbn [find_tag]; intros path pre tl H; [discriminate|].
  destruct r as [t pr l e|].
  - destruct (String.eqb_spec tag t) as [->|Hne].
    + injection H as <- <- <-. exists e. now left.
    + destruct (IH _ _ _ H) as [e' He']. exists e'. now right.
  - destruct (IH _ _ _ H) as [e' He']. exists e'. now right.
Qed.

Local Transparent grammar.
Lemma names_upper :
  forallb (fun n => bytes_eqb (ustr n) n)
          (names grammar ++ flat_map (fun ct => fst ct :: names (snd ct)) subtables) = true.
Proof. vm_compute. reflexivity. Qed.
Lemma subtables_nodup : forallb (fun ct => nodupb (names (snd ct))) subtables = true.
Proof. vm_compute. reflexivity. Qed.
Definition is_container (ct : bytes * list (bytes * rule)) : Prop :=
  exists miss unk, lookup (fst ct) grammar = Some (RCustom 1 None miss (sub_run (snd ct) unk)).
Lemma subtables_containers : Forall is_container subtables.
Proof.
  unfold subtables. repeat constructor; unfold is_container; cbn [fst snd].
  - exists (wrong_args "config"), config_unknown. reflexivity.
  - exists (tx "ACL requires a subcommand"), acl_unknown. reflexivity.
  - exists (tx "SCRIPT requires a subcommand"), script_unknown. reflexivity.
  - exists (wrong_args "function"), (named_unknown "FUNCTION"). reflexivity.
  - exists (wrong_args "client"), (named_unknown "CLIENT"). reflexivity.
  - exists (wrong_args "object"), (named_unknown "OBJECT"). reflexivity.
  - exists (wrong_args "debug"), debug_unknown. reflexivity.
Qed.
Local Opaque grammar.

Lemma upper_name n : In n (names grammar ++ flat_map (fun ct => fst ct :: names (snd ct)) subtables) -> ustr n = n.
Proof.
  intros H. pose proof names_upper as HU. rewrite forallb_forall in HU.
  apply bytes_eqb_eq. now apply HU.
Qed.
Lemma upper_top n r : In (n, r) grammar -> ustr n = n.
Proof.
  intros H. apply upper_name. apply in_or_app. left. change n with (fst (n, r)). now apply in_map.
Qed.
Lemma upper_container c tbl : In (c, tbl) subtables -> ustr c = c.
Proof.
  intros H. apply upper_name. apply in_or_app. right. apply in_flat_map. exists (c, tbl). split; [exact H|now left].
Qed.
Lemma upper_sub c tbl n r : In (c, tbl) subtables -> In (n, r) tbl -> ustr n = n.
Proof.
  intros H H2. apply upper_name. apply in_or_app. right. apply in_flat_map. exists (c, tbl). split; [exact H|].
  right. cbn [snd]. change n with (fst (n, r)). now apply in_map.
Qed.
Lemma sub_lookup c tbl n r : In (c, tbl) subtables -> In (n, r) tbl -> lookup n tbl = Some r.
Proof.
  intros H H2. apply lookup_unique; [|exact H2]. apply nodupb_NoDup.
  pose proof subtables_nodup as HN. rewrite forallb_forall in HN. exact (HN _ H).
Qed.

Section Casing.
  Variable k : bytes -> bytes.
  Hypothesis Hk : forall w, ustr (k w) = ustr w.

  Lemma parse_top n r args :
    In (n, r) grammar -> parse_frame (Some (EBulk (k n) :: args)) = run_rule r args.
  Proof.
    intros H. unfold parse_frame. rewrite Hk, (upper_top _ _ H), (grammar_lookup _ _ H). reflexivity.
  Qed.
  Lemma parse_sub c tbl n r args :
    In (c, tbl) subtables -> In (n, r) tbl ->
    parse_frame (Some (EBulk (k c) :: EBulk (k n) :: args)) = run_rule r args.
  Proof.
    intros H H2. pose proof subtables_containers as HC. rewrite Forall_forall in HC.
    destruct (HC _ H) as (miss & unk & HL). cbn [fst snd] in HL.
    unfold parse_frame. rewrite Hk, (upper_container _ _ H), HL.
    unfold run_rule at 1. cbn [arity_ok List.length Nat.leb andb negb].
    unfold sub_run, kw_of. rewrite Hk, (upper_sub _ _ _ _ H H2), (sub_lookup _ _ _ _ H H2). reflexivity.
  Qed.

  Lemma tokens_map path xs :
    map (fun t : bool * bytes => if fst t then k (snd t) else snd t)
        (map (fun w => (true, w)) path ++ map arg xs) = map k path ++ xs.
  Proof.
    rewrite map_app, !map_map. cbn [fst snd arg]. f_equal.
    induction xs; cbn; congruence.
  Qed.

  Lemma parse_unparse_simple tag a path pre tl ps :
    find_tag tag simple_index = Some (path, pre, tl) ->
    canonical (Cmd tag a) = true -> unparse_k k (Cmd tag a) = Some ps ->
    parse_cmd ps = POk (Cmd tag a).
  Proof.
    intros HF HC HU. unfold canonical in HC. unfold unparse_k, unparse_tokens in HU. rewrite HF in *.
    apply andb_true_iff in HC as [Hp Ht]. injection HU as <-. rewrite tokens_map.
    destruct (find_tag_In _ _ _ _ _ HF) as [e HI].
    replace (Cmd tag a) with (Cmd tag (firstn (List.length pre) a ++ skipn (List.length pre) a))
      by (now rewrite firstn_skipn).
    unfold simple_index in HI. apply in_app_or in HI as [HI|HI].
    - apply simple_of_In in HI as (n & -> & HI). cbn [app map]. unfold parse_cmd. cbn [map].
      rewrite (parse_top _ _ _ HI). now apply run_simple.
    - apply in_flat_map in HI as ([c tbl] & HS & HI). cbn [fst snd] in HI.
      apply simple_of_In in HI as (n & -> & HI). cbn [app map]. unfold parse_cmd. cbn [map].
      rewrite (parse_sub _ _ _ _ _ HS HI). now apply run_simple.
  Qed.
End Casing.

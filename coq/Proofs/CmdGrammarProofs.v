(* C16: laws of the reference grammar (Model/CmdGrammar.v). *)
From Coq Require Import NArith ZArith List String Bool Lia.
From RV Require Import Lib.Hex Model.CmdGrammar.
Import ListNotations.
Local Open Scope bool_scope.

Definition names (t : list (bytes * rule)) : list bytes := map fst t.
Fixpoint nodupb (l : list bytes) : bool :=
  match l with
  | [] => true
  | x :: r => negb (existsb (bytes_eqb x) r) && nodupb r
  end.
Lemma grammar_names_distinct : nodupb (names grammar) = true.
Proof. vm_compute. reflexivity. Qed.

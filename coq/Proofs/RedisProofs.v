(* Lemmas about the reference Redis model (Model/Redis.v): C01 laws (reachable-state invariant,
   deadline visibility, empty collections vanish, key locality) and the C17 laws (a command that
   replies an error changes nothing; a read-only command changes nothing). *)
From stdpp Require Import gmap.
From Coq Require Import ZArith NArith Lia String.
From RV Require Import Lib.Hex Model.Redis Gen.ReadOnly.
Local Open Scope Z_scope.

(* ------------------------------------------------------------------ advance / deadlines *)

Lemma advance_lookup (s : gmap (list N) (value * option N)) (t : N) (k : list N) :
  advance s t !! k = match s !! k with
                     | Some e => if alive t e then Some e else None
                     | None => None
                     end.
Proof.
  unfold advance. rewrite lookup_omap. destruct (s !! k); reflexivity.
Qed.

(* a key with deadline d is visible at every instant t < d and at no instant t >= d;
   a key without deadline is visible at every instant; nothing appears *)
Lemma visible_iff_before_deadline_lemma (s : gmap (list N) (value * option N)) k v :
  (∀ d t, s !! k = Some (v, Some d) →
     ((t < d)%N → advance s t !! k = Some (v, Some d)) ∧ ((d <= t)%N → advance s t !! k = None)) ∧
  (∀ t, s !! k = Some (v, None) → advance s t !! k = Some (v, None)) ∧
  (∀ t, s !! k = None → advance s t !! k = None).
Proof.
  repeat split; intros; rewrite advance_lookup, H; unfold alive; simpl; try reflexivity.
  - destruct (N.ltb_spec t d); [reflexivity | lia].
  - destruct (N.ltb_spec t d); [lia | reflexivity].
Qed.

(* ------------------------------------------------------------------ upd / on_key *)

Lemma upd_lookup (s : gmap (list N) (value * option N)) k oe : upd s k oe !! k = oe.
Proof. destruct oe; simpl; [apply lookup_insert | apply lookup_delete]. Qed.
Lemma upd_lookup_ne (s : gmap (list N) (value * option N)) k oe k' : k ≠ k' → upd s k oe !! k' = s !! k'.
Proof. intros. destruct oe; simpl; [by apply lookup_insert_ne | by apply lookup_delete_ne]. Qed.
Lemma upd_id (s : gmap (list N) (value * option N)) k : upd s k (s !! k) = s.
Proof. destruct (s !! k) eqn:E; simpl; [by apply insert_id | by apply delete_notin]. Qed.

(* ------------------------------------------------------------------ per-command lemmas *)

Ltac unfold_cmds :=
  unfold c_get, c_set, c_setnx, c_append, c_getset, c_strlen, c_getrange, c_setrange, c_getex, c_getdel,
         c_decrby, c_incrby, c_type, c_expire, c_pexpire, c_expireat, c_pexpireat, c_expire_at, c_ttl, c_persist,
         c_push, c_pop, c_llen, c_lindex, c_lrange, c_lset, c_ltrim,
         c_sadd, c_srem, c_smembers, c_sismember, c_scard,
         c_hset, c_hget, c_hdel, c_hgetall, c_hkeys, c_hvals, c_hlen, c_hexists, c_hincrby,
         c_zadd, c_zrem, c_zscore, c_zrank, c_zcard, c_zcount, c_zrange, c_zrangebyscore,
         getrange, old_str, ROk, RNil, RB in *.

Ltac crush_err :=
  intros; repeat (simpl in *; first [ discriminate | reflexivity | case_match ]).

(* every single-key command: an error reply means the entry at the key is untouched *)
Lemma key_fun_err dl now c k f oe :
  key_fun dl now c = Some (k, f) → is_error (f oe).2 = true → (f oe).1 = oe.
Proof.
  destruct c; simpl; intros H; inversion H; subst; clear H; unfold_cmds; crush_err.
Qed.

Definition oentry_ok (now : N) (oe : option (value * option N)) : Prop :=
  match oe with Some e => entry_ok now e | None => True end.

Lemma mk_ok now v d :
  match d with Some t => (now < t)%N | None => True end → oentry_ok now (mk v d).
Proof. unfold mk. destruct (value_nonempty v) eqn:E; simpl; [|done]. intros. split; done. Qed.

Lemma with_deadline_ok now v w : value_nonempty v = true → oentry_ok now (with_deadline now v w).
Proof.
  unfold with_deadline. intros Hv. destruct (Z.leb_spec w (Z.of_N now)); simpl; [done|].
  split; simpl; [done | lia].
Qed.

Ltac crush_ok :=
  repeat (simpl in *; first
    [ done
    | apply mk_ok; done
    | apply with_deadline_ok; done
    | match goal with H : entry_ok _ _ |- _ => destruct H as [? ?] end
    | match goal with |- entry_ok _ _ => split end
    | case_match; simplify_eq ]).

Lemma nonempty_linsert j (v : list N) l : value_nonempty (VList (<[j:=v]> l)) = value_nonempty (VList l).
Proof. destruct l; [done|]. destruct j; done. Qed.
Lemma nonempty_hinsert (h : gmap (list N) (list N)) f x : value_nonempty (VHash (<[f:=x]> h)) = true.
Proof.
  simpl. destruct (map_to_list (<[f:=x]> h)) eqn:E; [|done].
  apply map_to_list_empty_iff in E. by apply insert_non_empty in E.
Qed.

(* every single-key command keeps "no empty collection, deadline in the future" at its key *)
Lemma key_fun_ok dl now c k f oe :
  key_fun dl now c = Some (k, f) → oentry_ok now oe → oentry_ok now (f oe).1.
Proof.
  destruct c; simpl; intros H; inversion H; subst; clear H; unfold_cmds; intros Hok.
  all: try (destruct oe as [[v d]|]; crush_ok; fail).
  all: try (destruct oe as [[[] ?]|]; crush_ok; fail).
  - (* LSET *)
    destruct oe as [[[] ?]|]; try done. destruct Hok as [Hn Hd]. simpl in *.
    destruct (norm_index _ _); simpl; [|done]. split; [|done]. simpl fst. by rewrite nonempty_linsert.
  - (* HINCRBY *)
    destruct oe as [[[] ?]|]; try done.
    + destruct Hok as [Hn Hd]. unfold hincr. simpl.
      destruct (match h !! f0 with Some b => parse_i64 b | None => Some 0 end); simpl; [|done].
      destruct (in_i64 _); simpl; [|done]. split; [apply nonempty_hinsert | done].
    + simpl. split; [|done]. unfold singletonM, map_singleton. apply nonempty_hinsert.
Qed.

(* the key a single-key command works on does not depend on the clock *)
Lemma key_fun_key dl dl' now now' c k f :
  key_fun dl now c = Some (k, f) → ∃ f', key_fun dl' now' c = Some (k, f').
Proof. destruct c; simpl; intros H; inversion H; subst; eauto. Qed.

(* ------------------------------------------------------------------ C17: errors change nothing *)

Lemma c_rename_err s a b nx : is_error (c_rename s a b nx).2 = true → (c_rename s a b nx).1 = s.
Proof. unfold c_rename, ROk. crush_err. Qed.
Lemma c_lmove_err s a b fl tl : is_error (c_lmove s a b fl tl).2 = true → (c_lmove s a b fl tl).1 = s.
Proof. unfold c_lmove, RNil, RB. crush_err. Qed.

Theorem error_no_effect_lemma : ∀ dl s now c,
  is_error (exec dl s now c).2 = true → (exec dl s now c).1 = s.
Proof.
  intros dl s now c. unfold exec. destruct (cmd_reject c); [done|].
  unfold exec_wf. destruct (key_fun dl now c) as [[k f]|] eqn:K.
  - unfold on_key. destruct (f (s !! k)) as [oe r] eqn:F. simpl. intros Hr.
    pose proof (key_fun_err dl now c k f (s !! k) K) as He. rewrite F in He. simpl in He.
    rewrite (He Hr). apply upd_id.
  - destruct c; simpl in K; try discriminate; simpl; try done.
    + destruct (existsb _ _); done.
    + destruct (del_all s ks); done.
    + apply c_rename_err.
    + apply c_rename_err.
    + apply c_lmove_err.
    + apply c_lmove_err.
Qed.

(* ------------------------------------------------------------------ C17: read-only commands *)

Lemma key_fun_ro dl now c k f oe :
  key_fun dl now c = Some (k, f) → ro_impl (tag c) = true → (f oe).1 = oe.
Proof.
  destruct c; simpl; intros H R; try (vm_compute in R; discriminate R);
    inversion H; subst; clear H R; unfold_cmds; repeat case_match; reflexivity.
Qed.

Theorem read_only_no_effect_lemma : ∀ dl s now c,
  ro_impl (tag c) = true → (exec dl s now c).1 = s.
Proof.
  intros dl s now c R. unfold exec. destruct (cmd_reject c); [done|].
  unfold exec_wf. destruct (key_fun dl now c) as [[k f]|] eqn:K.
  - unfold on_key. destruct (f (s !! k)) as [oe r] eqn:F. simpl.
    pose proof (key_fun_ro dl now c k f (s !! k) K R) as He. rewrite F in He. simpl in He.
    rewrite He. apply upd_id.
  - destruct c; simpl in K; try discriminate; try (vm_compute in R; discriminate R); done.
Qed.

(* every model command is carried by a variant of the Rust enum Command *)
Lemma tag_is_variant c : existsb (String.eqb (tag c)) command_variants = true.
Proof. destruct c; vm_compute; reflexivity. Qed.

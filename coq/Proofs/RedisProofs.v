(* Lemmas about the reference Redis model (Model/Redis.v): C01 laws (reachable-state invariant,
   deadline visibility, empty collections vanish, key locality) and the C17 laws (a command that
   replies an error changes nothing; a read-only command changes nothing). *)
From stdpp Require Import gmap.
From Coq Require Import ZArith NArith Lia String.
From RV Require Import Lib.Hex Model.Redis Gen.ReadOnly.
Local Open Scope Z_scope.

(* ------------------------------------------------------------------ advance / deadlines *)

Lemma advance_lookup (s : gmap (list N) (value * option N)) (t : N) (k : list N) :
  advance s t !! k = match s !! k with
                     | Some e => if alive t e then Some e else None
                     | None => None
                     end.
Proof.
  unfold advance. rewrite lookup_omap. destruct (s !! k); reflexivity.
Qed.

(* a key with deadline d is visible at every instant t < d and at no instant t >= d;
   a key without deadline is visible at every instant; nothing appears *)
Lemma visible_iff_before_deadline_lemma (s : gmap (list N) (value * option N)) k v :
  (∀ d t, s !! k = Some (v, Some d) →
     ((t < d)%N → advance s t !! k = Some (v, Some d)) ∧ ((d <= t)%N → advance s t !! k = None)) ∧
  (∀ t, s !! k = Some (v, None) → advance s t !! k = Some (v, None)) ∧
  (∀ t, s !! k = None → advance s t !! k = None).
Proof.
  repeat split; intros; rewrite advance_lookup, H; unfold alive; simpl; try reflexivity.
  - destruct (N.ltb_spec t d); [reflexivity | lia].
  - destruct (N.ltb_spec t d); [lia | reflexivity].
Qed.

(* ------------------------------------------------------------------ upd / on_key *)

Lemma upd_lookup (s : gmap (list N) (value * option N)) k oe : upd s k oe !! k = oe.
Proof. destruct oe; simpl; [apply lookup_insert | apply lookup_delete]. Qed.
Lemma upd_lookup_ne (s : gmap (list N) (value * option N)) k oe k' : k ≠ k' → upd s k oe !! k' = s !! k'.
Proof. intros. destruct oe; simpl; [by apply lookup_insert_ne | by apply lookup_delete_ne]. Qed.
Lemma upd_id (s : gmap (list N) (value * option N)) k : upd s k (s !! k) = s.
Proof. destruct (s !! k) eqn:E; simpl; [by apply insert_id | by apply delete_notin]. Qed.

(* ------------------------------------------------------------------ per-command lemmas *)

Ltac unfold_cmds :=
  unfold c_get, c_set, c_setnx, c_append, c_getset, c_strlen, c_getrange, c_setrange, c_getex, c_getdel,
         c_decrby, c_incrby, c_type, c_expire, c_pexpire, c_expireat, c_pexpireat, c_expire_at, c_ttl, c_persist,
         c_push, c_pop, c_llen, c_lindex, c_lrange, c_lset, c_ltrim,
         c_sadd, c_srem, c_smembers, c_sismember, c_scard,
         c_hset, c_hget, c_hdel, c_hgetall, c_hkeys, c_hvals, c_hlen, c_hexists, c_hincrby,
         c_zadd, c_zrem, c_zscore, c_zrank, c_zcard, c_zcount, c_zrange, c_zrangebyscore,
         getrange, old_str, ROk, RNil, RB in *.

Ltac crush_err :=
  intros; repeat (simpl in *; first [ discriminate | reflexivity | case_match ]).

(* every single-key command: an error reply means the entry at the key is untouched *)
Lemma key_fun_err dl now c k f oe :
  key_fun dl now c = Some (k, f) → is_error (f oe).2 = true → (f oe).1 = oe.
Proof.
  destruct c; simpl; intros H; inversion H; subst; clear H; unfold_cmds; crush_err.
Qed.

Definition oentry_ok (now : N) (oe : option (value * option N)) : Prop :=
  match oe with Some e => entry_ok now e | None => True end.

Lemma mk_ok now v d :
  match d with Some t => (now < t)%N | None => True end → oentry_ok now (mk v d).
Proof. unfold mk. destruct (value_nonempty v) eqn:E; simpl; [|done]. intros. split; done. Qed.

Lemma with_deadline_ok now v w : value_nonempty v = true → oentry_ok now (with_deadline now v w).
Proof.
  unfold with_deadline. intros Hv. destruct (Z.leb_spec w (Z.of_N now)); simpl; [done|].
  split; simpl; [done | lia].
Qed.

Ltac crush_ok :=
  repeat (simpl in *; first
    [ done
    | apply mk_ok; done
    | apply with_deadline_ok; done
    | match goal with H : entry_ok _ _ |- _ => destruct H as [? ?] end
    | match goal with |- entry_ok _ _ => split end
    | case_match; simplify_eq ]).

Lemma nonempty_linsert j (v : list N) l : value_nonempty (VList (<[j:=v]> l)) = value_nonempty (VList l).
Proof. destruct l; [done|]. destruct j; done. Qed.
Lemma nonempty_hinsert (h : gmap (list N) (list N)) f x : value_nonempty (VHash (<[f:=x]> h)) = true.
Proof.
  simpl. destruct (map_to_list (<[f:=x]> h)) eqn:E; [|done].
  apply map_to_list_empty_iff in E. by apply insert_non_empty in E.
Qed.

(* every single-key command keeps "no empty collection, deadline in the future" at its key *)
Lemma key_fun_ok dl now c k f oe :
  key_fun dl now c = Some (k, f) → oentry_ok now oe → oentry_ok now (f oe).1.
Proof.
  destruct c; simpl; intros H; inversion H; subst; clear H; unfold_cmds; intros Hok.
  all: try (destruct oe as [[v d]|]; crush_ok; fail).
  all: try (destruct oe as [[[] ?]|]; crush_ok; fail).
  - (* LSET *)
    destruct oe as [[[] ?]|]; try done. destruct Hok as [Hn Hd]. simpl in *.
    destruct (norm_index _ _); simpl; [|done]. split; [|done]. simpl fst. by rewrite nonempty_linsert.
  - (* HINCRBY *)
    destruct oe as [[[] ?]|]; try done.
    + destruct Hok as [Hn Hd]. unfold hincr. simpl.
      destruct (match h !! f0 with Some b => parse_i64 b | None => Some 0 end); simpl; [|done].
      destruct (in_i64 _); simpl; [|done]. split; [apply nonempty_hinsert | done].
    + simpl. split; [|done]. unfold singletonM, map_singleton. apply nonempty_hinsert.
Qed.

(* the key a single-key command works on does not depend on the clock *)
Lemma key_fun_key dl dl' now now' c k f :
  key_fun dl now c = Some (k, f) → ∃ f', key_fun dl' now' c = Some (k, f').
Proof. destruct c; simpl; intros H; inversion H; subst; eauto. Qed.

(* ------------------------------------------------------------------ C17: errors change nothing *)

Lemma c_rename_err s a b nx : is_error (c_rename s a b nx).2 = true → (c_rename s a b nx).1 = s.
Proof. unfold c_rename, ROk. crush_err. Qed.
Lemma c_lmove_err s a b fl tl : is_error (c_lmove s a b fl tl).2 = true → (c_lmove s a b fl tl).1 = s.
Proof. unfold c_lmove, RNil, RB. crush_err. Qed.

Theorem error_no_effect_lemma : ∀ dl s now c,
  is_error (exec dl s now c).2 = true → (exec dl s now c).1 = s.
Proof.
  intros dl s now c. unfold exec. destruct (cmd_reject dl c); [done|].
  unfold exec_wf. destruct (key_fun dl now c) as [[k f]|] eqn:K.
  - unfold on_key. destruct (f (s !! k)) as [oe r] eqn:F. simpl. intros Hr.
    pose proof (key_fun_err dl now c k f (s !! k) K) as He. rewrite F in He. simpl in He.
    rewrite (He Hr). apply upd_id.
  - destruct c; simpl in K; try discriminate; simpl; try done.
    + destruct (existsb _ _); done.
    + destruct (del_all s ks); done.
    + apply c_rename_err.
    + apply c_rename_err.
    + apply c_lmove_err.
    + apply c_lmove_err.
Qed.

(* ------------------------------------------------------------------ C17: read-only commands *)

Lemma key_fun_ro dl now c k f oe :
  key_fun dl now c = Some (k, f) → ro_impl (tag c) = true → (f oe).1 = oe.
Proof.
  destruct c; simpl; intros H R; try (vm_compute in R; discriminate R);
    inversion H; subst; clear H R; unfold_cmds; repeat case_match; reflexivity.
Qed.

Theorem read_only_no_effect_lemma : ∀ dl s now c,
  ro_impl (tag c) = true → (exec dl s now c).1 = s.
Proof.
  intros dl s now c R. unfold exec. destruct (cmd_reject dl c); [done|].
  unfold exec_wf. destruct (key_fun dl now c) as [[k f]|] eqn:K.
  - unfold on_key. destruct (f (s !! k)) as [oe r] eqn:F. simpl.
    pose proof (key_fun_ro dl now c k f (s !! k) K R) as He. rewrite F in He. simpl in He.
    rewrite He. apply upd_id.
  - destruct c; simpl in K; try discriminate; try (vm_compute in R; discriminate R); done.
Qed.

(* every model command is carried by a variant of the Rust enum Command *)
Lemma tag_is_variant c : existsb (String.eqb (tag c)) command_variants = true.
Proof. destruct c; vm_compute; reflexivity. Qed.

(* ------------------------------------------------------------------ C01: the reachable-state invariant *)

Lemma Inv_upd s now k oe : Inv (s, now) → oentry_ok now oe → Inv (upd s k oe, now).
Proof.
  intros HI Ho k' e. simpl. destruct (decide (k = k')) as [->|Hne].
  - rewrite upd_lookup. intros ->. exact Ho.
  - rewrite upd_lookup_ne by done. apply HI.
Qed.

Lemma Inv_lookup s now k : Inv (s, now) → oentry_ok now (s !! k).
Proof. intros HI. destruct (s !! k) eqn:E; simpl; [by apply (HI k)|done]. Qed.

Lemma Inv_insert s now k e : Inv (s, now) → entry_ok now e → Inv (<[k:=e]> s, now).
Proof. intros HI He. apply (Inv_upd s now k (Some e)); done. Qed.
Lemma Inv_delete s now k : Inv (s, now) → Inv (delete k s, now).
Proof. intros HI. apply (Inv_upd s now k None); done. Qed.

Lemma Inv_advance s now t : Inv (s, now) → Inv (advance s t, t).
Proof.
  intros HI k e. simpl. rewrite advance_lookup. destruct (s !! k) as [e'|] eqn:E; [|done].
  unfold alive. destruct e' as [v [d|]]; simpl.
  - destruct (N.ltb_spec t d); [|done]. intros [= <-]. split; simpl; [|done]. by apply (HI k _ E).
  - intros [= <-]. split; simpl; [|done]. by apply (HI k _ E).
Qed.

Lemma Inv_mset s now kvs : Inv (s, now) → Inv (mset_all s kvs, now).
Proof.
  unfold mset_all. revert s. induction kvs as [|p kvs IH]; intros s HI; simpl; [done|].
  apply IH. apply Inv_insert; [done|]. split; done.
Qed.

Lemma Inv_del s now ks : Inv (s, now) → Inv ((del_all s ks).1, now).
Proof.
  unfold del_all. generalize 0. revert s. induction ks as [|k ks IH]; intros s n HI; simpl; [done|].
  destruct (is_some (s !! k)); apply IH; [by apply Inv_delete | done].
Qed.

Lemma Inv_rename s now a b nx : Inv (s, now) → Inv ((c_rename s a b nx).1, now).
Proof.
  intros HI. unfold c_rename. destruct (s !! a) as [e|] eqn:E; [|done].
  destruct (bool_decide (a = b)); [done|]. destruct (nx && is_some (s !! b)); [done|]. simpl.
  apply Inv_insert; [by apply Inv_delete | by apply (HI a)].
Qed.

Lemma push_end_nonempty tl (x : list N) l : value_nonempty (VList (push_end tl x l)) = true.
Proof. destruct tl; simpl; [done|]. by destruct l. Qed.

Lemma Inv_lmove s now a b fl tl : Inv (s, now) → Inv ((c_lmove s a b fl tl).1, now).
Proof.
  intros HI. unfold c_lmove. destruct (s !! a) as [[[] d]|] eqn:E; try done.
  destruct (pop_end fl l) as [[x r]|]; [|done].
  pose proof (HI a _ E) as [_ Hd]. simpl in Hd.
  destruct (bool_decide (a = b)).
  - simpl. apply Inv_insert; [done|]. split; [apply push_end_nonempty | done].
  - destruct (s !! b) as [[[] dd]|] eqn:Eb; try done; simpl.
    + apply Inv_insert; [apply Inv_upd; [done | by apply mk_ok]|].
      split; [apply push_end_nonempty | by apply (HI b _ Eb)].
    + apply Inv_insert; [apply Inv_upd; [done | by apply mk_ok]|]. split; done.
Qed.

(* one command keeps the invariant *)
Lemma Inv_exec dl s now c : Inv (s, now) → Inv ((exec dl s now c).1, now).
Proof.
  intros HI. unfold exec. destruct (cmd_reject dl c); [done|].
  unfold exec_wf. destruct (key_fun dl now c) as [[k f]|] eqn:K.
  - unfold on_key. destruct (f (s !! k)) as [oe r] eqn:F. simpl.
    apply Inv_upd; [done|].
    pose proof (key_fun_ok dl now c k f (s !! k) K (Inv_lookup s now k HI)) as Ho. by rewrite F in Ho.
  - destruct c; simpl in K; try discriminate; simpl; try done.
    + by apply Inv_mset.
    + destruct (existsb _ _); [done|]. by apply Inv_mset.
    + pose proof (Inv_del s now ks HI). by destruct (del_all s ks).
    + by apply Inv_rename.
    + by apply Inv_rename.
    + by apply Inv_lmove.
    + by apply Inv_lmove.
Qed.

Lemma Inv_step dl st o : Inv st → Inv (step dl st o).
Proof.
  destruct st as [s now]. intros HI. destruct o; simpl; [by apply (Inv_advance s now) | by apply Inv_exec].
Qed.

Lemma Inv_run_from dl st ops : Inv st → Inv (run_from dl st ops).
Proof.
  unfold run_from. revert st. induction ops as [|o ops IH]; intros st HI; simpl; [done|].
  apply IH. by apply Inv_step.
Qed.

(* every reachable state: no empty collection, every stored deadline after the last clock reading *)
Theorem reach_inv_lemma : ∀ dl ops, Inv (run dl ops).
Proof. intros. apply Inv_run_from. intros k e. simpl. by rewrite lookup_empty. Qed.

(* what "non-empty" means *)
Lemma value_nonempty_spec v :
  value_nonempty v = true ↔
  match v with
  | VStr _ => True
  | VList l => l ≠ []
  | VSet s => s ≠ ∅
  | VHash h => h ≠ ∅
  | VZSet z => z ≠ ∅
  end.
Proof.
  destruct v; simpl.
  - done.
  - destruct l; split; done.
  - destruct (elements s) eqn:E.
    + apply elements_empty_inv in E. apply leibniz_equiv in E. subst. split; done.
    + split; [|done]. intros _ ->. by rewrite elements_empty in E.
  - destruct (map_to_list h) eqn:E.
    + apply map_to_list_empty_iff in E. subst. split; done.
    + split; [|done]. intros _ ->. by rewrite map_to_list_empty in E.
  - destruct (map_to_list z) eqn:E.
    + apply map_to_list_empty_iff in E. subst. split; done.
    + split; [|done]. intros _ ->. by rewrite map_to_list_empty in E.
Qed.

(* a collection that becomes empty stops existing: after any command (from any state satisfying
   the invariant, in particular any reachable state) no key holds an empty collection, and a key
   that is absent is reported absent by TYPE, EXISTS, TTL and PTTL *)
Theorem empty_collection_vanishes_lemma : ∀ dl s now c k v d,
  Inv (s, now) → (exec dl s now c).1 !! k = Some (v, d) →
  match v with
  | VStr _ => True | VList l => l ≠ [] | VSet x => x ≠ ∅ | VHash h => h ≠ ∅ | VZSet z => z ≠ ∅
  end.
Proof.
  intros dl s now c k v d HI E. apply value_nonempty_spec.
  by destruct (Inv_exec dl s now c HI k _ E).
Qed.

Lemma absent_observations_lemma : ∀ dl (s : gmap (list N) (value * option N)) now k, s !! k = None →
  (exec dl s now (TypeOf k)).2 = RSimple type_none ∧ (exec dl s now (ExistsC [k])).2 = RInt 0 ∧
  (exec dl s now (Ttl k)).2 = RInt (-2) ∧ (exec dl s now (Pttl k)).2 = RInt (-2) ∧
  (exec dl s now (Get k)).2 = RBulk None.
Proof.
  intros dl s now k E. unfold exec, exec_wf, on_key, count_existing. simpl. rewrite E. simpl.
  repeat split; try done. rewrite filter_cons, E. done.
Qed.

(* popping the last element, removing the last member, deleting the last field: the key is gone *)
Lemma last_element_gone_lemma : ∀ dl (s : gmap (list N) (value * option N)) now k x d,
  (s !! k = Some (VList [x], d) → (exec dl s now (LPop k)).1 !! k = None ∧ (exec dl s now (RPop k)).1 !! k = None) ∧
  (s !! k = Some (VSet {[x]}, d) → (exec dl s now (SRem k [x])).1 !! k = None) ∧
  (∀ y, s !! k = Some (VHash {[x := y]}, d) → (exec dl s now (HDel k [x])).1 !! k = None) ∧
  (∀ z, s !! k = Some (VZSet {[x := z]}, d) → (exec dl s now (ZRem k [x])).1 !! k = None).
Proof.
  intros dl s now k x d. unfold exec, exec_wf, on_key, c_srem, c_hdel, c_zrem, srem_all, hdel_all, zrem_all. simpl. repeat split.
  - rewrite H. simpl. apply lookup_delete.
  - rewrite H. simpl. apply lookup_delete.
  - intros H. rewrite H. simpl. unfold srem_all. simpl. rewrite bool_decide_true by set_solver.
    replace ({[x]} ∖ {[x]} : gset (list N)) with (∅ : gset (list N)) by set_solver.
    unfold mk. simpl. rewrite elements_empty. simpl. apply lookup_delete.
  - intros y H. rewrite H. simpl. unfold hdel_all. simpl. rewrite lookup_singleton. simpl. rewrite delete_singleton.
    unfold mk. simpl. rewrite map_to_list_empty. simpl. apply lookup_delete.
  - intros z H. rewrite H. simpl. unfold zrem_all. simpl. rewrite lookup_singleton. simpl. rewrite delete_singleton.
    unfold mk. simpl. rewrite map_to_list_empty. simpl. apply lookup_delete.
Qed.

(* ------------------------------------------------------------------ C01: key locality (frame lemma) *)

(* two states agree on a list of keys *)
Definition agree_on (ks : list (list N)) (s1 s2 : gmap (list N) (value * option N)) : Prop :=
  ∀ k, k ∈ ks → s1 !! k = s2 !! k.

Lemma agree_insert K s1 s2 a e : agree_on K s1 s2 → agree_on K (<[a:=e]> s1) (<[a:=e]> s2).
Proof.
  intros H k Hk. destruct (decide (a = k)) as [->|].
  - by rewrite !lookup_insert.
  - rewrite !lookup_insert_ne by done. by apply H.
Qed.
Lemma agree_delete K s1 s2 a : agree_on K s1 s2 → agree_on K (delete a s1) (delete a s2).
Proof.
  intros H k Hk. destruct (decide (a = k)) as [->|].
  - by rewrite !lookup_delete.
  - rewrite !lookup_delete_ne by done. by apply H.
Qed.
Lemma agree_upd K s1 s2 a oe : agree_on K s1 s2 → agree_on K (upd s1 a oe) (upd s2 a oe).
Proof. destruct oe; simpl; [apply agree_insert | apply agree_delete]. Qed.

Lemma on_key_local K s1 s2 k f : k ∈ K → agree_on K s1 s2 →
  (on_key s1 k f).2 = (on_key s2 k f).2 ∧ agree_on K (on_key s1 k f).1 (on_key s2 k f).1.
Proof.
  intros Hk Ha. unfold on_key. rewrite <- (Ha k Hk). destruct (f (s1 !! k)); simpl.
  split; [done | by apply agree_upd].
Qed.
Lemma on_key_frame s k f k' : k' ≠ k → (on_key s k f).1 !! k' = s !! k'.
Proof. intros. unfold on_key. destruct (f (s !! k)); simpl. by apply upd_lookup_ne. Qed.

Lemma mset_local K s1 s2 kvs : agree_on K s1 s2 → agree_on K (mset_all s1 kvs) (mset_all s2 kvs).
Proof.
  unfold mset_all. revert s1 s2. induction kvs as [|p kvs IH]; intros s1 s2 H; simpl; [done|].
  apply IH. by apply agree_insert.
Qed.
Lemma mset_frame s kvs k : k ∉ kvs.*1 → mset_all s kvs !! k = s !! k.
Proof.
  unfold mset_all. revert s. induction kvs as [|p kvs IH]; intros s H; simpl; [done|].
  rewrite fmap_cons, not_elem_of_cons in H. destruct H as [H1 H2].
  rewrite IH by done. by rewrite lookup_insert_ne.
Qed.

Lemma exists_any_local s1 s2 (kvs : list (list N * list N)) : agree_on kvs.*1 s1 s2 →
  existsb (λ p, is_some (s1 !! p.1)) kvs = existsb (λ p, is_some (s2 !! p.1)) kvs.
Proof.
  induction kvs as [|p kvs IH]; intros H; simpl; [done|].
  rewrite (H p.1) by (rewrite fmap_cons; left). f_equal. apply IH.
  intros k Hk. apply H. rewrite fmap_cons. by right.
Qed.

Definition del_step (a : gmap (list N) (value * option N) * Z) (k : list N) :=
  let '(s, n) := a in if is_some (s !! k) then (delete k s, n + 1) else (s, n).

Lemma del_all_eq s ks : del_all s ks = fold_left del_step ks (s, 0).
Proof.
  unfold del_all. generalize 0. revert s. induction ks as [|k ks IH]; intros s n; simpl; [done|].
  destruct (is_some (s !! k)); apply IH.
Qed.

Lemma del_local K ks : ∀ s1 s2 n, (∀ k, k ∈ ks → k ∈ K) → agree_on K s1 s2 →
  (fold_left del_step ks (s1, n)).2 = (fold_left del_step ks (s2, n)).2 ∧
  agree_on K (fold_left del_step ks (s1, n)).1 (fold_left del_step ks (s2, n)).1.
Proof.
  induction ks as [|k ks IH]; intros s1 s2 n Hsub H; simpl; [done|].
  rewrite <- (H k) by (apply Hsub; left).
  destruct (is_some (s1 !! k)); apply IH; try done.
  - intros; apply Hsub; by right.
  - by apply agree_delete.
  - intros; apply Hsub; by right.
Qed.
Lemma del_frame ks : ∀ s n k, k ∉ ks → (fold_left del_step ks (s, n)).1 !! k = s !! k.
Proof.
  induction ks as [|a ks IH]; intros s n k H; simpl; [done|].
  rewrite not_elem_of_cons in H. destruct H as [H1 H2].
  destruct (is_some (s !! a)); rewrite IH by done; [by rewrite lookup_delete_ne | done].
Qed.

Lemma count_local s1 s2 ks : agree_on ks s1 s2 → count_existing s1 ks = count_existing s2 ks.
Proof.
  unfold count_existing, zlen. intros H. f_equal. f_equal.
  induction ks as [|k ks IH]; [done|].
  rewrite !filter_cons. rewrite <- (H k) by left.
  rewrite IH; [done|]. intros k' Hk'. apply H. by right.
Qed.

Lemma rename_local s1 s2 a b nx : agree_on [a; b] s1 s2 →
  (c_rename s1 a b nx).2 = (c_rename s2 a b nx).2 ∧
  agree_on [a; b] (c_rename s1 a b nx).1 (c_rename s2 a b nx).1.
Proof.
  intros H. unfold c_rename.
  rewrite <- (H a) by set_solver. rewrite <- (H b) by set_solver.
  destruct (s1 !! a); [|done]. destruct (bool_decide (a = b)); [done|].
  destruct (nx && is_some (s1 !! b)); [done|]. simpl. split; [done|].
  apply agree_insert, agree_delete, H.
Qed.
Lemma rename_frame s a b nx k : k ∉ [a; b] → (c_rename s a b nx).1 !! k = s !! k.
Proof.
  intros H. assert (k ≠ a ∧ k ≠ b) as [Ha Hb] by set_solver. unfold c_rename.
  destruct (s !! a); [|done]. destruct (bool_decide (a = b)); [done|].
  destruct (nx && is_some (s !! b)); [done|]. simpl.
  rewrite lookup_insert_ne by done. by rewrite lookup_delete_ne.
Qed.

Lemma lmove_local s1 s2 a b fl tl : agree_on [a; b] s1 s2 →
  (c_lmove s1 a b fl tl).2 = (c_lmove s2 a b fl tl).2 ∧
  agree_on [a; b] (c_lmove s1 a b fl tl).1 (c_lmove s2 a b fl tl).1.
Proof.
  intros H. unfold c_lmove.
  rewrite <- (H a) by set_solver. rewrite <- (H b) by set_solver.
  destruct (s1 !! a) as [[[] d]|]; try done.
  destruct (pop_end fl l) as [[x r]|]; [|done].
  destruct (bool_decide (a = b)).
  - simpl. split; [done|]. by apply agree_insert.
  - destruct (s1 !! b) as [[[] dd]|]; try done; simpl; (split; [done|]);
      apply agree_insert, agree_upd, H.
Qed.
Lemma lmove_frame s a b fl tl k : k ∉ [a; b] → (c_lmove s a b fl tl).1 !! k = s !! k.
Proof.
  intros H. assert (k ≠ a ∧ k ≠ b) as [Ha Hb] by set_solver. unfold c_lmove.
  destruct (s !! a) as [[[] d]|]; try done.
  destruct (pop_end fl l) as [[x r]|]; [|done].
  destruct (bool_decide (a = b)).
  - simpl. by rewrite lookup_insert_ne.
  - destruct (s !! b) as [[[] dd]|]; try done; simpl;
      rewrite lookup_insert_ne by done; by rewrite upd_lookup_ne.
Qed.

Lemma cmd_keys_single dl now c k f : key_fun dl now c = Some (k, f) → cmd_keys c = Some [k].
Proof. destruct c; simpl; intros H; inversion H; reflexivity. Qed.

(* A command whose key list is [ks] (every command except KEYS, DBSIZE, FLUSHDB, FLUSHALL):
   its reply and what it leaves at [ks] depend only on what the state holds at [ks], and it
   touches no other key. *)
Theorem key_local_lemma : ∀ dl c ks, cmd_keys c = Some ks → ∀ s1 s2 now, agree_on ks s1 s2 →
  (exec dl s1 now c).2 = (exec dl s2 now c).2 ∧
  agree_on ks (exec dl s1 now c).1 (exec dl s2 now c).1 ∧
  ∀ k, k ∉ ks → (exec dl s1 now c).1 !! k = s1 !! k.
Proof.
  intros dl c ks Hks s1 s2 now Ha. unfold exec. destruct (cmd_reject dl c); [done|].
  unfold exec_wf. destruct (key_fun dl now c) as [[k f]|] eqn:K.
  - rewrite (cmd_keys_single _ _ _ _ _ K) in Hks. injection Hks as <-.
    destruct (on_key_local [k] s1 s2 k f) as [H1 H2]; [set_solver | done |].
    split; [done|]. split; [done|]. intros k' Hk'. apply on_key_frame. set_solver.
  - destruct c; simpl in K; try discriminate; simpl in Hks; try discriminate; injection Hks as <-; simpl.
    + (* MGET *) split; [|done]. f_equal. apply map_ext_in. intros k Hk. unfold mget_one.
      rewrite (Ha k); [done|]. by apply elem_of_list_In.
    + (* MSET *) split; [done|]. split; [by apply mset_local|]. intros; by apply mset_frame.
    + (* MSETNX *) rewrite <- (exists_any_local s1 s2 kvs Ha).
      destruct (existsb _ kvs); [done|]. split; [done|]. split; [by apply mset_local|].
      intros; by apply mset_frame.
    + (* DEL *) rewrite !del_all_eq.
      destruct (del_local ks0 ks0 s1 s2 0) as [H1 H2]; [done | done |].
      pose proof (del_frame ks0 s1 0) as H3.
      destruct (fold_left del_step ks0 (s1, 0)), (fold_left del_step ks0 (s2, 0)). simpl in *.
      split; [by f_equal|]. done.
    + (* EXISTS *) split; [|done]. f_equal. by apply count_local.
    + (* RENAME *) destruct (rename_local s1 s2 a b false Ha). split; [done|]. split; [done|].
      intros; by apply rename_frame.
    + destruct (rename_local s1 s2 a b true Ha). split; [done|]. split; [done|].
      intros; by apply rename_frame.
    + (* RPOPLPUSH / LMOVE *) destruct (lmove_local s1 s2 a b false true Ha). split; [done|]. split; [done|].
      intros; by apply lmove_frame.
    + destruct (lmove_local s1 s2 a b from_left to_left Ha). split; [done|]. split; [done|].
      intros; by apply lmove_frame.
Qed.

(* ------------------------------------------------------------------ the two dialects *)

(* outside the named class the implementation as built IS the reference *)
Theorem dialect_eq_outside_class_lemma : ∀ s now c,
  known_dev s c = false → exec AsBuilt s now c = exec Redis s now c.
Proof.
  intros s now c H. unfold exec.
  assert (cmd_reject AsBuilt c = cmd_reject Redis c) as ->.
  { destruct c; try reflexivity; simpl in *; rewrite H; simpl; by rewrite ?andb_false_r. }
  destruct (cmd_reject Redis c); [done|]. unfold exec_wf.
  destruct c; try reflexivity; simpl in *; unfold on_key.
  - (* GETSET *) unfold c_getset. destruct (s !! k) as [[[] [d|]]|]; simpl in *; done.
  - (* GETRANGE *) unfold c_getrange. destruct (s !! k) as [[[] d]|]; simpl in *; try done.
    unfold getrange. destruct b0 as [|x r]; simpl in *.
    + destruct ((a <? 0) && (b <? 0) && (a >? b)); [|done].
      repeat case_match; try done; simpl in *; lia.
    + rewrite H. done.
Qed.

Definition dev_getset_state : gmap (list N) (value * option N) := {[ [97%N] := (VStr [120%N], Some 1000%N) ]}.
Definition dev_getrange_state : gmap (list N) (value * option N) := {[ [97%N] := (VStr [49%N], None) ]}.

(* inside the class the two differ: known findings C01-getset-keeps-ttl, C01-getrange-negative-order *)
Lemma getset_keeps_ttl_refuted_lemma :
  known_dev dev_getset_state (GetSet [97%N] [121%N]) = true ∧
  (exec Redis dev_getset_state 0 (GetSet [97%N] [121%N])).1 !! [97%N] = Some (VStr [121%N], None) ∧
  (exec AsBuilt dev_getset_state 0 (GetSet [97%N] [121%N])).1 !! [97%N] = Some (VStr [121%N], Some 1000%N).
Proof. vm_compute. done. Qed.

Lemma getrange_negative_order_refuted_lemma :
  known_dev dev_getrange_state (GetRange [97%N] (-2) (-5)) = true ∧
  (exec Redis dev_getrange_state 0 (GetRange [97%N] (-2) (-5))).2 = RBulk (Some []) ∧
  (exec AsBuilt dev_getrange_state 0 (GetRange [97%N] (-2) (-5))).2 = RBulk (Some [49%N]).
Proof. vm_compute. done. Qed.

(* ------------------------------------------------------------------ laws that pin the oracle *)

(* LRANGE / LTRIM / ZRANGE index normalisation, for every pair of Z indices: with
     S = start counted from the end when negative, clamped at 0,
     E = stop counted from the end when negative, clamped at len-1,
   the result is exactly the elements at positions S..E (nothing when S > E). *)
Lemma lrange_lookup_lemma {A} (l : list A) (a b : Z) (i : nat) :
  let len := zlen l in
  let S := if a <? 0 then Z.max (len + a) 0 else a in
  let E := Z.min (if b <? 0 then len + b else b) (len - 1) in
  lrange l a b !! i = if S + Z.of_nat i <=? E then l !! Z.to_nat (S + Z.of_nat i) else None.
Proof.
  intros len S E. unfold lrange, norm_range. fold len. fold S. fold E.
  assert (0 <= len) by (unfold len, zlen; lia).
  assert (0 <= S) by (unfold S; destruct (a <? 0) eqn:?; lia).
  destruct ((S >? E) || (S >=? len)) eqn:C.
  - rewrite lookup_nil. destruct (Z.leb_spec (S + Z.of_nat i) E); [|done].
    apply orb_true_iff in C as [C|C]; [lia|].
    assert (len <= S) by lia. assert (E <= len - 1) by (unfold E; lia). lia.
  - apply orb_false_iff in C as [C1 C2].
    destruct (Z.leb_spec (S + Z.of_nat i) E).
    + rewrite lookup_take by lia. rewrite lookup_drop. f_equal. lia.
    + rewrite lookup_take_ge by lia. done.
Qed.

Lemma lrange_all_lemma {A} (l : list A) : lrange l 0 (-1) = l.
Proof.
  apply list_eq. intros i. rewrite lrange_lookup_lemma. simpl.
  assert (zlen l = Z.of_nat (List.length l)) as E by done.
  destruct (Z.leb_spec (0 + Z.of_nat i) (Z.min (zlen l + -1) (zlen l - 1))).
  - f_equal. lia.
  - symmetry. apply lookup_ge_None. unfold length. lia.
Qed.

(* LINDEX i is the one element LRANGE i i selects *)
Lemma lindex_lrange_lemma (l : list (list N)) (i : Z) : lindex l i = head (lrange l i i).
Proof.
  rewrite head_lookup, lrange_lookup_lemma. unfold lindex, norm_index.
  assert (0 <= zlen l) by (unfold zlen; lia).
  change (Z.of_nat 0) with 0. rewrite !Z.add_0_r.
  destruct (i <? 0) eqn:Hi.
  - apply Z.ltb_lt in Hi.
    destruct ((zlen l + i <? 0) || (zlen l + i >=? zlen l)) eqn:C.
    + apply orb_true_iff in C as [C|C]; [|lia].
      match goal with |- context [?a <=? ?b] => destruct (Z.leb_spec a b) end; [lia|done].
    + apply orb_false_iff in C as [C1 C2].
      match goal with |- context [?a <=? ?b] => destruct (Z.leb_spec a b) end; [|lia].
      f_equal. lia.
  - apply Z.ltb_ge in Hi.
    destruct ((i <? 0) || (i >=? zlen l)) eqn:C.
    + apply orb_true_iff in C as [C|C]; [lia|].
      match goal with |- context [?a <=? ?b] => destruct (Z.leb_spec a b) end; [lia|done].
    + apply orb_false_iff in C as [C1 C2].
      match goal with |- context [?a <=? ?b] => destruct (Z.leb_spec a b) end; [|lia].
      done.
Qed.

(* LTRIM keeps exactly what LRANGE returns *)
Lemma ltrim_keeps_lrange_lemma l d a b :
  (c_ltrim a b (Some (VList l, d))).1 = mk (VList (lrange l a b)) d ∧
  (c_lrange a b (Some (VList l, d))).2 = RArr (map RB (lrange l a b)).
Proof. done. Qed.

(* GETRANGE with non-negative indices is the same range; with negative indices Redis clamps
   differently (both ends to 0), which the example pins *)
Ltac zbool := repeat match goal with
  | |- context [?a >? ?b] => rewrite (Z.gtb_ltb a b)
  | |- context [?a >=? ?b] => rewrite (Z.geb_leb a b)
  | |- context [?a <? ?b] => destruct (Z.ltb_spec a b)
  | |- context [?a <=? ?b] => destruct (Z.leb_spec a b)
  | |- context [?a =? ?b] => destruct (Z.eqb_spec a b)
  end.

Lemma getrange_nonneg_lemma dl (s : list N) a b : 0 <= a → 0 <= b → getrange dl s a b = lrange s a b.
Proof.
  intros Ha Hb. unfold getrange, lrange, norm_range.
  assert (0 <= zlen s) by (unfold zlen; lia).
  destruct dl; zbool; simpl; try done; try (exfalso; lia);
    (f_equal; [f_equal; lia | f_equal; f_equal; lia]).
Qed.

(* INCRBY is exact and fails exactly when the string is not a canonical integer or the sum
   leaves the i64 range *)
Lemma incrby_exact_lemma (b : list N) d z :
  (c_incrby z (Some (VStr b, d))) =
  match parse_i64 b with
  | None => (Some (VStr b, d), RErr ENotInteger)
  | Some cur =>
      if (I64MIN <=? cur + z) && (cur + z <=? I64MAX)
      then (Some (VStr (fmt_Z (cur + z)), d), RInt (cur + z))
      else (Some (VStr b, d), RErr EOverflow)
  end.
Proof. reflexivity. Qed.

Lemma incrby_error_iff_lemma (b : list N) d z :
  is_error (c_incrby z (Some (VStr b, d))).2 = true ↔
  match parse_i64 b with None => True | Some cur => cur + z < I64MIN ∨ I64MAX < cur + z end.
Proof.
  rewrite incrby_exact_lemma. destruct (parse_i64 b) as [cur|]; [|done].
  destruct (Z.leb_spec I64MIN (cur + z)), (Z.leb_spec (cur + z) I64MAX); simpl; split; try done; lia.
Qed.

(* a missing key counts as 0 and gets no TTL; an existing TTL survives INCRBY *)
Lemma incrby_missing_lemma z : c_incrby z None = (Some (VStr (fmt_Z z), None), RInt z).
Proof. reflexivity. Qed.

(* the SET option table *)
Lemma set_option_table_lemma now v (oe : option (value * option N)) :
  (* plain SET: stores the value, discards the TTL, replies OK - whatever was there *)
  c_set now v XNone false false false oe = (Some (VStr v, None), ROk) ∧
  (* KEEPTTL keeps the deadline *)
  c_set now v XKeepTtl false false false oe = (Some (VStr v, entry_deadline oe), ROk) ∧
  (* NX on an existing key / XX on a missing key: nil, nothing changes *)
  (is_some oe = true → c_set now v XNone true false false oe = (oe, RNil)) ∧
  (is_some oe = false → c_set now v XNone false true false oe = (oe, RNil)) ∧
  (* GET replies the old string (nil if none) and fails on another type without writing *)
  (holds_nonstr oe = false → c_set now v XNone false false true oe = (Some (VStr v, None), old_str oe)) ∧
  (holds_nonstr oe = true → c_set now v XNone false false true oe = (oe, RErr EWrongType)) ∧
  (* PX ms: deadline now + ms; non-positive or overflowing ms is refused before anything else *)
  (∀ ms, 0 < ms → ms + Z.of_N now <= I64MAX →
     c_set now v (XPx ms) false false false oe = (Some (VStr v, Some (Z.to_N (ms + Z.of_N now))), ROk)) ∧
  (∀ ms nx xx get, ms <= 0 → c_set now v (XPx ms) nx xx get oe = (oe, RErr EInvalidExpire)) ∧
  (* PXAT t: deadline t; a deadline that is not in the future deletes the key *)
  (∀ t, Z.of_N now < t → c_set now v (XPxAt t) false false false oe = (Some (VStr v, Some (Z.to_N t)), ROk)) ∧
  (∀ t, 0 < t → t <= Z.of_N now → c_set now v (XPxAt t) false false false oe = (None, ROk)).
Proof.
  repeat split; intros.
  all: try (destruct oe as [[[] ?]|]; simpl in *; done).
  all: unfold c_set, xopt_when, with_deadline; zbool; simpl; try done; try lia.
  all: zbool; simpl; try done; try lia.
Qed.

(* TTL rounds the remaining milliseconds to the nearest second; PTTL is exact *)
Lemma ttl_rounding_lemma now v (d : N) : (now < d)%N →
  (c_ttl now false false (Some (v, Some d))).2 = RInt ((Z.of_N d - Z.of_N now + 500) / 1000) ∧
  (c_ttl now true false (Some (v, Some d))).2 = RInt (Z.of_N d - Z.of_N now) ∧
  (c_ttl now false true (Some (v, Some d))).2 = RInt ((Z.of_N d + 500) / 1000) ∧
  (c_ttl now true true (Some (v, Some d))).2 = RInt (Z.of_N d).
Proof. intros H. unfold c_ttl. simpl. rewrite Z.max_r by lia. done. Qed.

(* EXPIRE family: the option table (NX XX GT LT), then "not in the future => delete" *)
Lemma expire_table_lemma now w v (d : option N) nx xx gt lt :
  c_expire_at now w nx xx gt lt (Some (v, d)) =
  if (nx && is_some d) || (xx && negb (is_some d))
     || (gt && match d with Some c => w <=? Z.of_N c | None => true end)
     || (lt && match d with Some c => w >=? Z.of_N c | None => false end)
  then (Some (v, d), RInt 0)
  else (if w <=? Z.of_N now then None else Some (v, Some (Z.to_N w)), RInt 1).
Proof.
  unfold c_expire_at, with_deadline.
  destruct (nx && is_some d); [done|]. destruct (xx && negb (is_some d)); [done|].
  destruct (gt && _); [done|]. destruct (lt && _); done.
Qed.

(* ------------------------------------------------------------------ concrete instances *)

Definition ex_ops : list op :=
  [ OCmd (SetC [107%N] [49%N; 48%N] (XPx 100) false false false);   (* SET k 10 PX 100 *)
    OCmd (Incr [107%N]);                                               (* INCR k -> 11 *)
    OCmd (RPush [108%N] [[97%N]; [98%N]]);                             (* RPUSH l a b *)
    OTick 99%N;
    OCmd (LPop [108%N]);
    OCmd (LPop [108%N]);                                               (* list becomes empty *)
    OTick 100%N ].                                                     (* k expires *)

Lemma ex_run_lemma :
  (run Redis (firstn 4 ex_ops)).1 !! [107%N] = Some (VStr [49%N; 49%N], Some 100%N) ∧
  (run Redis (firstn 4 ex_ops)).1 !! [108%N] = Some (VList [[97%N]; [98%N]], None) ∧
  (run Redis (firstn 6 ex_ops)).1 !! [108%N] = None ∧
  map_to_list (run Redis ex_ops).1 = [] ∧ (run Redis ex_ops).2 = 100%N.
Proof. vm_compute. done. Qed.

Lemma ex_error_lemma :
  let s := (run Redis (firstn 3 ex_ops)).1 in
  (exec Redis s 0 (IncrBy [108%N] 5)).2 = RErr EWrongType ∧
  (exec Redis s 0 (RPopLPush [108%N] [107%N])).2 = RErr EWrongType ∧
  (exec Redis s 0 (LSet [108%N] 7 [120%N])).2 = RErr EIndexOutOfRange ∧
  (exec Redis s 0 (IncrBy [107%N] I64MAX)).2 = RErr EOverflow ∧
  ro_impl (tag (LRange [108%N] 0 (-1))) = true ∧ ro_impl (tag (LPop [108%N])) = false.
Proof. vm_compute. done. Qed.

(* The reference is binary safe: members are compared as byte strings.  (The implementation
   stores set members, hash fields and sorted-set members as lossy-UTF-8 Strings: known finding
   C01-lossy-members; both dialects of the model are binary safe, and the correspondence check
   only uses valid UTF-8 members.) *)
Lemma members_binary_safe_lemma : ∀ dl now (k m m' : list N),
  (exec dl (exec dl ∅ now (SAdd k [m])).1 now (SIsMember k m')).2 = RInt (if bool_decide (m' = m) then 1 else 0) ∧
  (exec dl (exec dl ∅ now (HSet k [(m, [118%N])])).1 now (HExists k m')).2 = RInt (if bool_decide (m' = m) then 1 else 0) ∧
  (exec dl (exec dl ∅ now (ZAdd k [(1, m)] false false false false false)).1 now (ZScore k m')).2 =
     RBulk (if bool_decide (m' = m) then Some [49%N] else None).
Proof.
  intros dl now k m m'. unfold exec, exec_wf, on_key. simpl. rewrite lookup_empty. simpl.
  unfold sadd_all, hset_all. simpl. rewrite lookup_empty. simpl.
  rewrite bool_decide_false by set_solver. unfold mk. simpl.
  assert (elements ({[m]} ∪ ∅ : gset (list N)) ≠ []) as He.
  { intros E. apply elements_empty_inv in E. set_solver. }
  destruct (elements ({[m]} ∪ ∅ : gset (list N))) eqn:E1; [done|]. simpl.
  pose proof (nonempty_hinsert ∅ m [118%N]) as Hh. simpl in Hh.
  destruct (map_to_list (<[m:=[118%N]]> (∅ : gmap (list N) (list N)))) eqn:E2; [done|]. simpl.
  assert (map_to_list (<[m:=1]> (∅ : gmap (list N) Z)) ≠ []) as Hz.
  { intros E. apply map_to_list_empty_iff in E. by apply insert_non_empty in E. }
  destruct (map_to_list (<[m:=1]> (∅ : gmap (list N) Z))) eqn:E3; [done|]. simpl.
  rewrite !lookup_insert. simpl.
  repeat split.
  - f_equal. destruct (decide (m' = m)) as [->|Hne].
    + rewrite !bool_decide_true; [done| done | set_solver].
    + rewrite !bool_decide_false; [done| done | set_solver].
  - f_equal. destruct (decide (m' = m)) as [->|Hne].
    + rewrite lookup_insert. by rewrite bool_decide_true.
    + rewrite lookup_insert_ne by done. rewrite lookup_empty. by rewrite bool_decide_false.
  - f_equal. destruct (decide (m' = m)) as [->|Hne].
    + rewrite lookup_insert. by rewrite bool_decide_true.
    + rewrite lookup_insert_ne by done. rewrite lookup_empty. by rewrite bool_decide_false.
Qed.

(* Lemmas about the reference Redis model (Model/Redis.v). *)
From stdpp Require Import gmap.
From Coq Require Import ZArith NArith Lia.
From RV Require Import Lib.Hex Model.Redis.
Local Open Scope Z_scope.

(* ------------------------------------------------------------------ advance / deadlines *)

Lemma advance_lookup (s : gmap (list N) (value * option N)) (t : N) (k : list N) :
  advance s t !! k = match s !! k with
                     | Some e => if alive t e then Some e else None
                     | None => None
                     end.
Proof.
  unfold advance. rewrite lookup_omap. destruct (s !! k); reflexivity.
Qed.

(* a key with deadline d is visible at every instant t < d and at no instant t >= d;
   a key without deadline is visible at every instant *)
Lemma visible_iff_before_deadline_lemma (s : gmap (list N) (value * option N)) k v :
  (∀ d t, s !! k = Some (v, Some d) →
     ((t < d)%N → advance s t !! k = Some (v, Some d)) ∧ ((d <= t)%N → advance s t !! k = None)) ∧
  (∀ t, s !! k = Some (v, None) → advance s t !! k = Some (v, None)) ∧
  (∀ t, s !! k = None → advance s t !! k = None).
Proof.
  repeat split; intros; rewrite advance_lookup, H; unfold alive; simpl; try reflexivity.
  - destruct (N.ltb_spec t d); [reflexivity | lia].
  - destruct (N.ltb_spec t d); [lia | reflexivity].
Qed.

(* Lemmas for C19 (Model/Ring.v).  Everything is proved for an arbitrary position
   function of virtual nodes and keys. *)
From Coq Require Import NArith List Bool Arith Lia Sorting.Sorted Sorting.Permutation.
From RV Require Import Lib.Hex Lib.SipHash Lib.SipFast Model.Ring.
Import ListNotations.
Local Open Scope N_scope.

(* ------------------------------------------------------------------------------------ *)
(* generic list facts                                                                     *)

Lemma mem_In : forall x l, mem x l = true <-> In x l.
Proof.
  intros x l. unfold mem. rewrite existsb_exists. split.
  - intros [y [H1 H2]]. apply N.eqb_eq in H2. subst. exact H1.
  - intro H. exists x. split; [exact H | apply N.eqb_refl].
Qed.

Lemma mem_nIn : forall x l, mem x l = false <-> ~ In x l.
Proof.
  intros x l. split; intro H.
  - intro Hin. apply mem_In in Hin. congruence.
  - destruct (mem x l) eqn:E; [|reflexivity]. apply mem_In in E. contradiction.
Qed.

Lemma filter_all {A} (p : A -> bool) (l : list A) :
  (forall x, In x l -> p x = true) -> filter p l = l.
Proof.
  induction l as [|a l IH]; intro H; cbn [filter]; [reflexivity|].
  rewrite (H a (or_introl eq_refl)). f_equal. apply IH. intros x Hx. apply H. right. exact Hx.
Qed.

Lemma filter_none {A} (p : A -> bool) (l : list A) :
  (forall x, In x l -> p x = false) -> filter p l = [].
Proof.
  induction l as [|a l IH]; intro H; cbn [filter]; [reflexivity|].
  rewrite (H a (or_introl eq_refl)). apply IH. intros x Hx. apply H. right. exact Hx.
Qed.

Lemma filter_filter_and {A} (p q : A -> bool) (l : list A) :
  filter p (filter q l) = filter (fun x => q x && p x) l.
Proof.
  induction l as [|a l IH]; cbn [filter]; [reflexivity|].
  destruct (q a); cbn [filter andb]; [destruct (p a)|]; rewrite IH; reflexivity.
Qed.

Lemma filter_ext_in' {A} (p q : A -> bool) (l : list A) :
  (forall x, In x l -> p x = q x) -> filter p l = filter q l.
Proof.
  induction l as [|a l IH]; intro H; cbn [filter]; [reflexivity|].
  rewrite (H a (or_introl eq_refl)), IH; [reflexivity|]. intros x Hx. apply H. right. exact Hx.
Qed.

Lemma filter_comm {A} (p q : A -> bool) (l : list A) :
  filter p (filter q l) = filter q (filter p l).
Proof.
  rewrite !filter_filter_and. apply filter_ext_in'. intros. apply andb_comm.
Qed.

Lemma filter_map_comm {A B} (f : A -> B) (p : B -> bool) (l : list A) :
  filter p (map f l) = map f (filter (fun x => p (f x)) l).
Proof.
  induction l as [|a l IH]; cbn [filter map]; [reflexivity|].
  destruct (p (f a)); cbn [map]; rewrite IH; reflexivity.
Qed.

Lemma Permutation_filter' {A} (p : A -> bool) (l l' : list A) :
  Permutation l l' -> Permutation (filter p l) (filter p l').
Proof.
  induction 1 as [| x l l' _ IH | x y l | l l' l'' _ IH1 _ IH2]; cbn [filter].
  - constructor.
  - destruct (p x); [constructor|]; exact IH.
  - destruct (p x), (p y); try reflexivity. apply perm_swap.
  - etransitivity; eassumption.
Qed.

Lemma NoDup_app_l {A} (l l' : list A) : NoDup (l ++ l') -> NoDup l.
Proof.
  induction l as [|a l IH]; intro H; [constructor|].
  cbn in H. inversion H as [|? ? Hn Hd]; subst. constructor.
  - intro Hin. apply Hn. apply in_or_app. left. exact Hin.
  - apply IH. exact Hd.
Qed.

Lemma NoDup_app_r {A} (l l' : list A) : NoDup (l ++ l') -> NoDup l'.
Proof.
  induction l as [|a l IH]; intro H; [exact H|].
  cbn in H. inversion H; subst. apply IH. assumption.
Qed.

Lemma NoDup_filter' {A} (p : A -> bool) (l : list A) : NoDup l -> NoDup (filter p l).
Proof.
  induction 1 as [|a l Hn Hd IH]; cbn [filter]; [constructor|].
  destruct (p a); [|exact IH]. constructor; [|exact IH].
  intro Hin. apply filter_In in Hin. apply Hn. apply Hin.
Qed.

Lemma NoDup_snoc {A} (l : list A) (x : A) : NoDup l -> ~ In x l -> NoDup (l ++ [x]).
Proof.
  induction 1 as [|a l Hn Hd IH]; intro Hx; cbn.
  - constructor; [intros []|constructor].
  - constructor.
    + intro H. apply in_app_or in H. destruct H as [H|[H|[]]]; [contradiction|].
      subst. apply Hx. left. reflexivity.
    + apply IH. intro H. apply Hx. right. exact H.
Qed.

Lemma firstn_In' {A} (n : nat) (l : list A) x : In x (firstn n l) -> In x l.
Proof.
  intro H. rewrite <- (firstn_skipn n l). apply in_or_app. left. exact H.
Qed.

Lemma firstn_min_len {A} (n m : nat) (l : list A) :
  (length l <= m)%nat -> firstn (Nat.min n m) l = firstn n l.
Proof.
  intro H. destruct (Nat.le_ge_cases n m) as [L|L].
  - rewrite Nat.min_l by exact L. reflexivity.
  - rewrite Nat.min_r by exact L. rewrite !firstn_all2 by lia. reflexivity.
Qed.

(* ------------------------------------------------------------------------------------ *)
(* first occurrences                                                                      *)

Fixpoint nub (l : list N) : list N :=
  match l with
  | [] => []
  | x :: l' => x :: filter (fun y => negb (y =? x)) (nub l')
  end.

Lemma nub_In : forall l x, In x (nub l) <-> In x l.
Proof.
  induction l as [|a l IH]; intro x; cbn [nub]; [reflexivity|].
  cbn [In]. rewrite filter_In, IH. split.
  - intros [H|[H _]]; auto.
  - intros [H|H]; auto. destruct (N.eq_dec a x) as [E|E]; auto.
    right. split; auto. apply negb_true_iff. apply N.eqb_neq. auto.
Qed.

Lemma nub_NoDup : forall l, NoDup (nub l).
Proof.
  induction l as [|a l IH]; cbn [nub]; constructor.
  - rewrite filter_In. intros [_ H]. rewrite N.eqb_refl in H. discriminate.
  - apply NoDup_filter'. exact IH.
Qed.

Lemma nub_filter : forall (p : N -> bool) l, nub (filter p l) = filter p (nub l).
Proof.
  intros p. induction l as [|a l IH]; cbn [nub filter]; [reflexivity|].
  destruct (p a) eqn:E; cbn [nub filter]; rewrite ?E.
  - rewrite IH. f_equal. apply filter_comm.
  - rewrite IH. rewrite filter_filter_and. apply filter_ext_in'.
    intros x _. destruct (x =? a) eqn:F; cbn [negb andb]; [|reflexivity].
    apply N.eqb_eq in F. subst. rewrite E. reflexivity.
Qed.

Lemma nub_id : forall l, NoDup l -> nub l = l.
Proof.
  induction 1 as [|a l Hn Hd IH]; cbn [nub]; [reflexivity|].
  rewrite IH. f_equal. apply filter_all. intros x Hx.
  apply negb_true_iff. apply N.eqb_neq. intro; subst. contradiction.
Qed.

(* ------------------------------------------------------------------------------------ *)
(* the stable sort                                                                        *)

Definition ple (a b : N * (N * N)) : Prop := e_pos a <= e_pos b.

Lemma insert_perm : forall e l, Permutation (insert e l) (e :: l).
Proof.
  intros e. induction l as [|a l IH]; cbn [insert]; [reflexivity|].
  destruct (e_pos e <=? e_pos a); [reflexivity|].
  transitivity (a :: e :: l); [constructor; exact IH | apply perm_swap].
Qed.

Lemma insert_sorted : forall e l, StronglySorted ple l -> StronglySorted ple (insert e l).
Proof.
  intros e l H. induction H as [|a l Hs IH Hf]; cbn [insert].
  - constructor; constructor.
  - destruct (e_pos e <=? e_pos a) eqn:E.
    + apply N.leb_le in E. constructor; [constructor; assumption|].
      constructor; [exact E|]. eapply Forall_impl; [|exact Hf].
      intros b Hb. unfold ple in *. lia.
    + apply N.leb_gt in E. constructor; [exact IH|].
      apply Forall_forall. intros b Hb.
      apply (Permutation_in _ (insert_perm e l)) in Hb. destruct Hb as [Hb|Hb].
      * subst. unfold ple. lia.
      * rewrite Forall_forall in Hf. apply Hf. exact Hb.
Qed.

Lemma sort_perm : forall l, Permutation (sort_by_pos l) l.
Proof.
  induction l as [|a l IH]; cbn [sort_by_pos fold_right]; [reflexivity|].
  etransitivity; [apply insert_perm|]. constructor. exact IH.
Qed.

Lemma sort_sorted : forall l, StronglySorted ple (sort_by_pos l).
Proof.
  induction l as [|a l IH]; cbn [sort_by_pos fold_right]; [constructor|].
  apply insert_sorted. exact IH.
Qed.

Lemma insert_head : forall e l, Forall (ple e) l -> insert e l = e :: l.
Proof.
  intros e [|a l] H; cbn [insert]; [reflexivity|].
  inversion H as [|? ? Ha _]; subst. unfold ple in Ha. apply N.leb_le in Ha. rewrite Ha. reflexivity.
Qed.

Lemma sort_id : forall l, StronglySorted ple l -> sort_by_pos l = l.
Proof.
  intros l H. induction H as [|a l Hs IH Hf]; cbn [sort_by_pos fold_right]; [reflexivity|].
  fold (sort_by_pos l). rewrite IH. apply insert_head. exact Hf.
Qed.

Lemma sorted_filter : forall p l, StronglySorted ple l -> StronglySorted ple (filter p l).
Proof.
  intros p l H. induction H as [|a l Hs IH Hf]; cbn [filter]; [constructor|].
  destruct (p a); [|exact IH]. constructor; [exact IH|].
  apply Forall_forall. intros b Hb. apply filter_In in Hb.
  rewrite Forall_forall in Hf. apply Hf. apply Hb.
Qed.

Lemma filter_insert : forall p e l, StronglySorted ple l ->
  filter p (insert e l) = if p e then insert e (filter p l) else filter p l.
Proof.
  intros p e l H. induction H as [|a l Hs IH Hf]; cbn [insert].
  - cbn [filter]. destruct (p e); reflexivity.
  - destruct (e_pos e <=? e_pos a) eqn:E.
    + change (filter p (e :: a :: l)) with (if p e then e :: filter p (a :: l) else filter p (a :: l)).
      destruct (p e); [|reflexivity].
      symmetry. apply insert_head. apply N.leb_le in E.
      apply Forall_forall. intros b Hb. apply filter_In in Hb. destruct Hb as [[Hb|Hb] _].
      * subst. exact E.
      * rewrite Forall_forall in Hf. specialize (Hf b Hb). unfold ple in *. lia.
    + change (filter p (a :: insert e l)) with (if p a then a :: filter p (insert e l) else filter p (insert e l)).
      rewrite IH. cbn [filter]. destruct (p a), (p e); cbn [insert]; rewrite ?E; reflexivity.
Qed.

Lemma filter_sort : forall p l, filter p (sort_by_pos l) = sort_by_pos (filter p l).
Proof.
  intros p. induction l as [|a l IH]; [reflexivity|].
  cbn [sort_by_pos fold_right filter]. fold (sort_by_pos l).
  rewrite filter_insert by apply sort_sorted. rewrite IH.
  destruct (p a); reflexivity.
Qed.

(* a sorted list without repeated positions is determined by its elements *)
Lemma sorted_perm_unique : forall l1 l2,
  StronglySorted ple l1 -> StronglySorted ple l2 -> Permutation l1 l2 ->
  NoDup (map e_pos l1) -> l1 = l2.
Proof.
  induction l1 as [|a l1 IH]; intros l2 S1 S2 P ND.
  - apply Permutation_nil in P. subst. reflexivity.
  - destruct l2 as [|b l2]; [apply Permutation_sym, Permutation_nil in P; discriminate|].
    apply StronglySorted_inv in S1. destruct S1 as [S1 F1].
    apply StronglySorted_inv in S2. destruct S2 as [S2 F2].
    cbn [map] in ND. inversion ND as [|? ? Hn Hd]; subst.
    assert (E : a = b).
    { assert (Ha : In a (b :: l2)) by (eapply Permutation_in; [exact P | left; reflexivity]).
      assert (Hb : In b (a :: l1)) by (eapply Permutation_in; [apply Permutation_sym; exact P | left; reflexivity]).
      destruct Ha as [Ha|Ha]; [auto|]. destruct Hb as [Hb|Hb]; [auto|].
      rewrite Forall_forall in F1, F2. specialize (F1 b Hb). specialize (F2 a Ha).
      unfold ple in *. exfalso. apply Hn. replace (e_pos a) with (e_pos b) by lia.
      apply in_map. exact Hb. }
    subst b. f_equal. apply IH; auto. eapply Permutation_cons_inv. exact P.
Qed.

(* ------------------------------------------------------------------------------------ *)
Section RingFacts.
  Variable vpos : N -> N -> N.
  Variable kpos : list N -> N.

  Notation vnodes_of := (Ring.vnodes_of vpos).
  Notation all_vnodes := (Ring.all_vnodes vpos).
  Notation add_node := (Ring.add_node vpos).
  Notation apply_op := (Ring.apply_op vpos).
  Notation run := (Ring.run vpos).
  Notation ring_new := (Ring.ring_new vpos).
  Notation positions_distinct := (Ring.positions_distinct vpos).

  (* the invariant of every ring the API can produce: the member list has no repetition,
     the ring vector is sorted by position and consists of exactly the virtual nodes of
     the members.  It holds whether or not positions collide. *)
  Definition ring_inv (R : ring) : Prop :=
    NoDup (r_nodes R) /\ StronglySorted ple (r_ring R) /\
    Permutation (r_ring R) (all_vnodes (r_vn R) (r_nodes R)).

  Lemma vnodes_node : forall vn x e, In e (vnodes_of vn x) -> e_node e = x.
  Proof.
    intros vn x e H. unfold Ring.vnodes_of in H. apply in_map_iff in H.
    destruct H as [i [H _]]. subst. reflexivity.
  Qed.

  Lemma all_vnodes_app : forall vn a b, all_vnodes vn (a ++ b) = all_vnodes vn a ++ all_vnodes vn b.
  Proof. intros. unfold Ring.all_vnodes. apply flat_map_app. Qed.

  Lemma all_vnodes_filter : forall vn x ns,
    filter (fun e => negb (e_node e =? x)) (all_vnodes vn ns) =
    all_vnodes vn (filter (fun n => negb (n =? x)) ns).
  Proof.
    intros vn x. induction ns as [|a ns IH]; [reflexivity|].
    unfold Ring.all_vnodes in *. cbn [flat_map filter]. rewrite filter_app, IH.
    destruct (a =? x) eqn:E; cbn [negb flat_map].
    - rewrite filter_none; [reflexivity|]. intros e He. apply vnodes_node in He. rewrite He, E. reflexivity.
    - rewrite filter_all; [reflexivity|]. intros e He. apply vnodes_node in He. rewrite He, E. reflexivity.
  Qed.

  Lemma empty_inv : forall vn rf, ring_inv (ring_empty vn rf).
  Proof. intros. repeat split; cbn; constructor. Qed.

  Lemma add_node_inv : forall R x, ring_inv R -> ring_inv (add_node R x).
  Proof.
    intros R x (Hn & Hs & Hp). unfold Ring.add_node.
    destruct (mem x (r_nodes R)) eqn:E; [repeat split; assumption|].
    apply mem_nIn in E. repeat split; cbn [r_nodes r_ring r_vn].
    - apply NoDup_snoc; assumption.
    - apply sort_sorted.
    - etransitivity; [apply sort_perm|]. rewrite all_vnodes_app.
      apply Permutation_app; [exact Hp|]. unfold Ring.all_vnodes. cbn [flat_map].
      rewrite app_nil_r. reflexivity.
  Qed.

  Lemma remove_node_inv : forall R x, ring_inv R -> ring_inv (remove_node R x).
  Proof.
    intros R x (Hn & Hs & Hp). repeat split; cbn [remove_node r_nodes r_ring r_vn].
    - apply NoDup_filter'. exact Hn.
    - apply sorted_filter. exact Hs.
    - rewrite <- all_vnodes_filter. apply Permutation_filter'. exact Hp.
  Qed.

  Lemma apply_op_inv : forall R o, ring_inv R -> ring_inv (apply_op R o).
  Proof. intros R [x|x] H; [apply add_node_inv | apply remove_node_inv]; exact H. Qed.

  Lemma run_cons : forall R o ops, run R (o :: ops) = run (apply_op R o) ops.
  Proof. reflexivity. Qed.

  Lemma run_inv : forall ops R, ring_inv R -> ring_inv (run R ops).
  Proof.
    induction ops as [|o ops IH]; intros R H; [exact H|].
    rewrite run_cons. apply IH. apply apply_op_inv. exact H.
  Qed.

  Theorem reachable_inv : forall vn rf ops, ring_inv (run (ring_empty vn rf) ops).
  Proof. intros. apply run_inv. apply empty_inv. Qed.

  Lemma apply_op_vn : forall R o, r_vn (apply_op R o) = r_vn R.
  Proof.
    intros R [x|x]; cbn; [|reflexivity]. unfold Ring.add_node.
    destruct (mem x (r_nodes R)); reflexivity.
  Qed.

  Lemma run_vn : forall ops R, r_vn (run R ops) = r_vn R.
  Proof.
    induction ops as [|o ops IH]; intros R; [reflexivity|].
    rewrite run_cons, IH. apply apply_op_vn.
  Qed.

  Lemma apply_op_rf : forall R o, r_rf (apply_op R o) = r_rf R.
  Proof.
    intros R [x|x]; cbn; [|reflexivity]. unfold Ring.add_node.
    destruct (mem x (r_nodes R)); reflexivity.
  Qed.

  Lemma run_rf : forall ops R, r_rf (run R ops) = r_rf R.
  Proof.
    induction ops as [|o ops IH]; intros R; [reflexivity|].
    rewrite run_cons, IH. apply apply_op_rf.
  Qed.

  Lemma ring_new_run : forall ns vn rf, ring_new ns vn rf = run (ring_empty vn rf) (map OpAdd ns).
  Proof.
    intros ns vn rf. unfold Ring.ring_new, Ring.run. generalize (ring_empty vn rf).
    induction ns as [|a ns IH]; intro R; [reflexivity|]. cbn. apply IH.
  Qed.

  (* membership after joining a list of distinct new nodes is that list, in join order *)
  Lemma fold_add_nodes : forall ns R, NoDup (r_nodes R ++ ns) ->
    r_nodes (fold_left add_node ns R) = r_nodes R ++ ns.
  Proof.
    induction ns as [|a ns IH]; intros R H; cbn [fold_left].
    - rewrite app_nil_r. reflexivity.
    - assert (Ha : mem a (r_nodes R) = false).
      { apply mem_nIn. intro Hin. apply NoDup_remove_2 in H. apply H.
        apply in_or_app. left. exact Hin. }
      rewrite IH.
      + unfold Ring.add_node. rewrite Ha. cbn [r_nodes]. rewrite <- app_assoc. reflexivity.
      + unfold Ring.add_node. rewrite Ha. cbn [r_nodes]. rewrite <- app_assoc. exact H.
  Qed.

  Lemma ring_new_nodes : forall ns vn rf, NoDup ns -> r_nodes (ring_new ns vn rf) = ns.
  Proof. intros. unfold Ring.ring_new. rewrite fold_add_nodes; [reflexivity | exact H]. Qed.

  Lemma ring_entry_member : forall R e, ring_inv R -> In e (r_ring R) -> In (e_node e) (r_nodes R).
  Proof.
    intros R e (_ & _ & Hp) He. apply (Permutation_in _ Hp) in He.
    unfold Ring.all_vnodes in He. apply in_flat_map in He. destruct He as [x [Hx He]].
    apply vnodes_node in He. subst. exact Hx.
  Qed.

  Lemma nseq_pos : forall n, 0 < n -> In 0 (nseq n).
  Proof.
    intros n H. unfold nseq. destruct (N.to_nat n) eqn:E; [lia|]. cbn. left. reflexivity.
  Qed.

  Lemma member_has_entry : forall R x, ring_inv R -> 0 < r_vn R -> In x (r_nodes R) ->
    exists e, In e (r_ring R) /\ e_node e = x.
  Proof.
    intros R x (_ & _ & Hp) Hv Hx. exists (vpos x 0, (x, 0)). split; [|reflexivity].
    apply (Permutation_in _ (Permutation_sym Hp)). unfold Ring.all_vnodes.
    apply in_flat_map. exists x. split; [exact Hx|].
    unfold Ring.vnodes_of. apply in_map_iff. exists 0. split; [reflexivity | apply nseq_pos; exact Hv].
  Qed.

  (* ---------------------------------------------------------------------------------- *)
  (* the ring is a function of the membership set                                          *)

  Theorem ring_canonical : forall R1 R2,
    ring_inv R1 -> ring_inv R2 -> r_vn R1 = r_vn R2 ->
    Permutation (r_nodes R1) (r_nodes R2) ->
    positions_distinct (r_nodes R1) (r_vn R1) ->
    r_ring R1 = r_ring R2.
  Proof.
    intros R1 R2 (N1 & S1 & P1) (N2 & S2 & P2) Hv Hp Hd.
    apply sorted_perm_unique; auto.
    - etransitivity; [exact P1|]. etransitivity; [|apply Permutation_sym; exact P2].
      rewrite <- Hv. unfold Ring.all_vnodes. apply Permutation_flat_map. exact Hp.
    - unfold Ring.positions_distinct in Hd. eapply Permutation_NoDup; [|exact Hd].
      apply Permutation_map. apply Permutation_sym. exact P1.
  Qed.

  Lemma ring_positions_distinct : forall R, ring_inv R ->
    positions_distinct (r_nodes R) (r_vn R) -> NoDup (map e_pos (r_ring R)).
  Proof.
    intros R (_ & _ & P) Hd. eapply Permutation_NoDup; [|exact Hd].
    apply Permutation_map. apply Permutation_sym. exact P.
  Qed.

  (* ---------------------------------------------------------------------------------- *)
  (* the clockwise walk = the first min(rf, n) distinct nodes of the rotated ring          *)

  Fixpoint take_new (seen : list N) (l : list N) (k : nat) : list N :=
    match l with
    | [] => []
    | x :: l' =>
        match k with
        | O => []
        | S k' => if mem x seen then take_new seen l' k else x :: take_new (x :: seen) l' k'
        end
    end.

  Lemma take_new_ext : forall l s1 s2 k, (forall y, mem y s1 = mem y s2) ->
    take_new s1 l k = take_new s2 l k.
  Proof.
    induction l as [|x l IH]; intros s1 s2 k H; [reflexivity|].
    cbn [take_new]. destruct k as [|k]; [reflexivity|]. rewrite (H x).
    destruct (mem x s2); [apply IH; exact H|]. f_equal. apply IH.
    intro y. unfold mem in *. cbn [existsb]. rewrite (H y). reflexivity.
  Qed.

  Lemma mem_snoc : forall y acc x, mem y (acc ++ [x]) = mem y (x :: acc).
  Proof.
    intros. unfold mem. rewrite existsb_app. cbn [existsb]. rewrite orb_false_r. apply orb_comm.
  Qed.

  Lemma walk_spec : forall l n nn acc,
    walk l n nn acc = acc ++ take_new acc (map e_node l) (Nat.min n nn - length acc).
  Proof.
    induction l as [|e l IH]; intros n nn acc; cbn [walk map take_new].
    - rewrite app_nil_r. reflexivity.
    - destruct ((length acc <? n)%nat && (length acc <? nn)%nat) eqn:C.
      + apply andb_true_iff in C. destruct C as [C1 C2].
        apply Nat.ltb_lt in C1. apply Nat.ltb_lt in C2.
        destruct (Nat.min n nn - length acc)%nat as [|k] eqn:K; [lia|].
        destruct (mem (e_node e) acc) eqn:M.
        * rewrite IH, K. reflexivity.
        * rewrite IH. rewrite app_length. cbn [length].
          replace (Nat.min n nn - (length acc + 1))%nat with k by lia.
          rewrite <- app_assoc. cbn [app]. do 2 f_equal.
          apply take_new_ext. intro y. apply mem_snoc.
      + replace (Nat.min n nn - length acc)%nat with O.
        * rewrite app_nil_r. reflexivity.
        * apply andb_false_iff in C. destruct C as [C|C]; apply Nat.ltb_ge in C; lia.
  Qed.

  Lemma take_new_nub : forall l seen k,
    take_new seen l k = firstn k (filter (fun y => negb (mem y seen)) (nub l)).
  Proof.
    induction l as [|x l IH]; intros seen k; cbn [take_new nub].
    - cbn [filter]. rewrite firstn_nil. reflexivity.
    - destruct k as [|k]; [reflexivity|].
      cbn [filter]. destruct (mem x seen) eqn:M; cbn [negb].
      + rewrite IH. f_equal. rewrite filter_filter_and. apply filter_ext_in'.
        intros y _. destruct (y =? x) eqn:E; cbn [negb andb]; [|reflexivity].
        apply N.eqb_eq in E. subst. rewrite M. reflexivity.
      + cbn [firstn]. f_equal. rewrite IH. f_equal. rewrite filter_filter_and. apply filter_ext_in'.
        intros y _. unfold mem. cbn [existsb]. rewrite negb_orb. reflexivity.
  Qed.

  Lemma rot_nil : forall A (s : nat), @rot A s [] = [].
  Proof. intros. unfold rot. rewrite skipn_nil, firstn_nil. reflexivity. Qed.

  Lemma rot_In : forall A (s : nat) (l : list A) x, In x (rot s l) <-> In x l.
  Proof.
    intros. unfold rot. rewrite <- (firstn_skipn s l) at 3. rewrite !in_app_iff. tauto.
  Qed.

  Lemma min_rf_nodes : forall rf nn,
    Nat.min (N.to_nat (N.min rf (N.of_nat nn))) nn = Nat.min (N.to_nat rf) nn.
  Proof. intros. lia. Qed.

  (* what get_replicas_with_rf computes, for whatever index the binary search returned *)
  Theorem replicas_at_spec : forall R kp rf o,
    replicas_at R kp rf o =
    firstn (Nat.min (N.to_nat rf) (length (r_nodes R)))
           (nub (map e_node (rot (bsearch (r_ring R) kp o) (r_ring R)))).
  Proof.
    intros R kp rf o. unfold replicas_at.
    destruct (r_ring R) as [|e l] eqn:E.
    - rewrite rot_nil. cbn [map nub]. rewrite firstn_nil. reflexivity.
    - rewrite walk_spec. cbn [app length]. rewrite Nat.sub_0_r, min_rf_nodes, take_new_nub.
      f_equal. apply filter_all. intros. reflexivity.
  Qed.

  Lemma nub_rot_members : forall R s x, ring_inv R ->
    In x (nub (map e_node (rot s (r_ring R)))) -> In x (r_nodes R).
  Proof.
    intros R s x HI H. rewrite nub_In in H. apply in_map_iff in H. destruct H as [e [He Hin]].
    subst. rewrite rot_In in Hin. apply ring_entry_member; assumption.
  Qed.

  Lemma nub_rot_length : forall R s, ring_inv R ->
    (length (nub (map e_node (rot s (r_ring R)))) <= length (r_nodes R))%nat.
  Proof.
    intros R s HI. apply NoDup_incl_length; [apply nub_NoDup|].
    intros x Hx. eapply nub_rot_members; eassumption.
  Qed.

  Lemma nub_rot_length_full : forall R s, ring_inv R -> 0 < r_vn R ->
    length (nub (map e_node (rot s (r_ring R)))) = length (r_nodes R).
  Proof.
    intros R s HI Hv. apply Nat.le_antisymm; [apply nub_rot_length; exact HI|].
    apply NoDup_incl_length; [apply HI|]. intros x Hx.
    destruct (member_has_entry R x HI Hv Hx) as [e [He Hn]].
    apply nub_In. apply in_map_iff. exists e. split; [exact Hn|]. apply rot_In. exact He.
  Qed.

  Theorem replicas_at_firstn : forall R kp rf o, ring_inv R ->
    replicas_at R kp rf o =
    firstn (N.to_nat rf) (nub (map e_node (rot (bsearch (r_ring R) kp o) (r_ring R)))).
  Proof.
    intros. rewrite replicas_at_spec. apply firstn_min_len. apply nub_rot_length. assumption.
  Qed.

  (* shape: min(rf, n) distinct members, for every ring the API can build, every key
     position, every rf and every choice of the binary search *)
  Theorem replicas_shape : forall R kp rf o, ring_inv R ->
    NoDup (replicas_at R kp rf o) /\
    incl (replicas_at R kp rf o) (r_nodes R) /\
    (0 < r_vn R ->
     length (replicas_at R kp rf o) = Nat.min (N.to_nat rf) (length (r_nodes R))).
  Proof.
    intros R kp rf o HI. rewrite replicas_at_spec. repeat split.
    - set (D := nub _). assert (ND : NoDup D) by apply nub_NoDup.
      rewrite <- (firstn_skipn (Nat.min (N.to_nat rf) (length (r_nodes R))) D) in ND.
      apply NoDup_app_l in ND. exact ND.
    - intros x Hx. apply firstn_In' in Hx. eapply nub_rot_members; eassumption.
    - intro Hv. rewrite firstn_length, nub_rot_length_full by assumption. lia.
  Qed.

  (* ---------------------------------------------------------------------------------- *)
  (* the start index                                                                        *)

  Definition canon_rot (l : list (N * (N * N))) (kp : N) : list (N * (N * N)) :=
    filter (fun e => kp <=? e_pos e) l ++ filter (fun e => e_pos e <? kp) l.

  Lemma lower_le : forall l kp, (lower l kp <= length l)%nat.
  Proof.
    induction l as [|e l IH]; intro kp; cbn [lower length]; [lia|].
    destruct (e_pos e <? kp); [specialize (IH kp)|]; lia.
  Qed.

  Lemma lower_split : forall l kp, StronglySorted ple l ->
    skipn (lower l kp) l = filter (fun e => kp <=? e_pos e) l /\
    firstn (lower l kp) l = filter (fun e => e_pos e <? kp) l.
  Proof.
    intros l kp H. induction H as [|a l Hs IH Hf]; [split; reflexivity|].
    cbn [lower filter]. destruct (e_pos a <? kp) eqn:E.
    - apply N.ltb_lt in E. destruct IH as [I1 I2].
      assert (kp <=? e_pos a = false) as -> by (apply N.leb_gt; exact E).
      cbn [skipn firstn]. rewrite I1, I2. split; reflexivity.
    - apply N.ltb_ge in E.
      assert (kp <=? e_pos a = true) as -> by (apply N.leb_le; exact E).
      cbn [skipn firstn]. rewrite Forall_forall in Hf. split.
      + f_equal. symmetry. apply filter_all. intros b Hb. specialize (Hf b Hb).
        unfold ple in Hf. apply N.leb_le. lia.
      + symmetry. apply filter_none. intros b Hb. specialize (Hf b Hb).
        unfold ple in Hf. apply N.ltb_ge. lia.
  Qed.

  Lemma run_eq_le1 : forall l kp, NoDup (map e_pos l) -> (run_eq l kp <= 1)%nat.
  Proof.
    intros [|a [|b l]] kp H; cbn [run_eq]; [lia | destruct (e_pos a =? kp); lia |].
    destruct (e_pos a =? kp) eqn:Ea; [|lia]. destruct (e_pos b =? kp) eqn:Eb; [|lia].
    apply N.eqb_eq in Ea, Eb. exfalso. cbn [map] in H. inversion H as [|? ? Hn _]; subst.
    apply Hn. left. congruence.
  Qed.

  (* with pairwise distinct positions binary_search's Ok(i) is unique: the choice vanishes *)
  Theorem bsearch_oracle_irrelevant : forall l kp o,
    NoDup (map e_pos l) -> bsearch l kp o = bsearch l kp 0.
  Proof.
    intros l kp o H. unfold bsearch.
    assert (C : (run_eq (skipn (lower l kp) l) kp <= 1)%nat).
    { apply run_eq_le1. rewrite <- (firstn_skipn (lower l kp) l) in H.
      rewrite map_app in H. apply NoDup_app_r in H. exact H. }
    destruct (run_eq (skipn (lower l kp) l) kp) as [|[|c]]; [reflexivity| |lia].
    rewrite Nat.mod_1_r. reflexivity.
  Qed.

  Lemma rot_bsearch0 : forall l kp, StronglySorted ple l ->
    rot (bsearch l kp 0) l = canon_rot l kp.
  Proof.
    intros l kp H. destruct (lower_split l kp H) as [Hs Hf].
    unfold bsearch, canon_rot. pose proof (lower_le l kp) as Hle.
    assert (Hrot : rot (lower l kp) l = filter (fun e => kp <=? e_pos e) l ++ filter (fun e => e_pos e <? kp) l).
    { unfold rot. rewrite Hs, Hf. reflexivity. }
    destruct (run_eq (skipn (lower l kp) l) kp) eqn:C.
    - destruct (Nat.eq_dec (lower l kp) (length l)) as [E|E].
      + rewrite E in *. rewrite skipn_all in Hs. rewrite firstn_all in Hf.
        rewrite <- Hs, <- Hf. destruct l as [|a l]; [reflexivity|].
        rewrite Nat.mod_same by (cbn; lia). unfold rot. cbn [skipn firstn app].
        rewrite app_nil_r. reflexivity.
      + rewrite Nat.mod_small by lia. exact Hrot.
    - rewrite Nat.mod_0_l by lia. rewrite Nat.add_0_r. exact Hrot.
  Qed.

  Theorem replicas_at_canon : forall R kp rf o, ring_inv R -> NoDup (map e_pos (r_ring R)) ->
    replicas_at R kp rf o = firstn (N.to_nat rf) (nub (map e_node (canon_rot (r_ring R) kp))).
  Proof.
    intros R kp rf o HI HD. rewrite replicas_at_firstn by exact HI.
    rewrite bsearch_oracle_irrelevant by exact HD.
    rewrite rot_bsearch0 by apply HI. reflexivity.
  Qed.

  (* ---------------------------------------------------------------------------------- *)
  (* placement is a function of the membership set                                         *)

  Theorem placement_function_of_membership : forall R1 R2 kp rf o1 o2,
    ring_inv R1 -> ring_inv R2 -> r_vn R1 = r_vn R2 ->
    Permutation (r_nodes R1) (r_nodes R2) ->
    positions_distinct (r_nodes R1) (r_vn R1) ->
    replicas_at R1 kp rf o1 = replicas_at R2 kp rf o2.
  Proof.
    intros R1 R2 kp rf o1 o2 I1 I2 Hv Hp Hd.
    pose proof (ring_canonical R1 R2 I1 I2 Hv Hp Hd) as E.
    pose proof (ring_positions_distinct R1 I1 Hd) as D1.
    rewrite (replicas_at_canon R1) by assumption.
    rewrite (replicas_at_canon R2) by (try assumption; rewrite <- E; assumption).
    rewrite E. reflexivity.
  Qed.

  (* ---------------------------------------------------------------------------------- *)
  (* minimal disruption                                                                    *)

  Lemma canon_rot_filter : forall p l kp, canon_rot (filter p l) kp = filter p (canon_rot l kp).
  Proof.
    intros. unfold canon_rot. rewrite filter_app. f_equal; apply filter_comm.
  Qed.

  Lemma firstn_filter_absent : forall (x : N) D k, ~ In x (firstn k D) ->
    firstn k (filter (fun y => negb (y =? x)) D) = firstn k D.
  Proof.
    intros x. induction D as [|d D IH]; intros k H; [reflexivity|].
    destruct k as [|k]; [reflexivity|]. cbn [firstn] in H. cbn [filter].
    assert (d <> x) by (intro; subst; apply H; left; reflexivity).
    assert (d =? x = false) as -> by (apply N.eqb_neq; assumption).
    cbn [negb firstn]. f_equal. apply IH. intro Hin. apply H. right. exact Hin.
  Qed.

  Lemma NoDup_map_filter : forall A B (f : A -> B) p (l : list A),
    NoDup (map f l) -> NoDup (map f (filter p l)).
  Proof.
    intros A B f p. induction l as [|a l IH]; intro H; [constructor|].
    cbn [map] in H. inversion H as [|? ? Hn Hd]; subst. cbn [filter].
    destruct (p a); [|apply IH; exact Hd]. cbn [map]. constructor; [|apply IH; exact Hd].
    intro Hin. apply Hn. apply in_map_iff in Hin. destruct Hin as [b [Hb Hin]].
    apply filter_In in Hin. rewrite <- Hb. apply in_map. apply Hin.
  Qed.

  (* the core: [small] is [big] without the entries of node x; if x is not among the
     replicas computed on [big], both rings give the same replicas *)
  Lemma replicas_filter_core : forall Rb Rs x kp rf ob os,
    ring_inv Rb -> ring_inv Rs -> NoDup (map e_pos (r_ring Rb)) ->
    r_ring Rs = filter (fun e => negb (e_node e =? x)) (r_ring Rb) ->
    ~ In x (replicas_at Rb kp rf ob) ->
    replicas_at Rs kp rf os = replicas_at Rb kp rf ob.
  Proof.
    intros Rb Rs x kp rf ob os Ib Is Db E Hx.
    assert (Ds : NoDup (map e_pos (r_ring Rs))) by (rewrite E; apply NoDup_map_filter; exact Db).
    rewrite (replicas_at_canon Rb) in * by assumption.
    rewrite (replicas_at_canon Rs) by assumption.
    rewrite E, canon_rot_filter.
    rewrite <- (filter_map_comm e_node (fun y => negb (y =? x))).
    rewrite nub_filter. apply firstn_filter_absent. exact Hx.
  Qed.

  Lemma add_node_ring_filter : forall R x, ring_inv R -> ~ In x (r_nodes R) ->
    r_ring R = filter (fun e => negb (e_node e =? x)) (r_ring (add_node R x)).
  Proof.
    intros R x HI Hx. unfold Ring.add_node.
    assert (mem x (r_nodes R) = false) as -> by (apply mem_nIn; exact Hx).
    cbn [r_ring]. rewrite filter_sort, filter_app.
    rewrite (filter_none _ (vnodes_of (r_vn R) x)).
    - rewrite app_nil_r. rewrite filter_all.
      + symmetry. apply sort_id. apply HI.
      + intros e He. apply negb_true_iff. apply N.eqb_neq. intro; subst.
        apply Hx. apply ring_entry_member; assumption.
    - intros e He. apply vnodes_node in He. rewrite He, N.eqb_refl. reflexivity.
  Qed.

  Lemma add_node_nodes : forall R x, ~ In x (r_nodes R) -> r_nodes (add_node R x) = r_nodes R ++ [x].
  Proof.
    intros R x Hx. unfold Ring.add_node.
    assert (mem x (r_nodes R) = false) as -> by (apply mem_nIn; exact Hx). reflexivity.
  Qed.

  Lemma positions_distinct_cons_snoc : forall x ns vn,
    positions_distinct (x :: ns) vn -> positions_distinct (ns ++ [x]) vn.
  Proof.
    intros x ns vn H. unfold Ring.positions_distinct in *. eapply Permutation_NoDup; [|exact H].
    apply Permutation_map. unfold Ring.all_vnodes. apply Permutation_flat_map.
    change (x :: ns) with ([x] ++ ns). apply Permutation_app_comm.
  Qed.

  Theorem minimal_disruption_add : forall R x kp rf o1 o2,
    ring_inv R -> ~ In x (r_nodes R) ->
    positions_distinct (x :: r_nodes R) (r_vn R) ->
    ~ In x (replicas_at (add_node R x) kp rf o1) ->
    replicas_at (add_node R x) kp rf o1 = replicas_at R kp rf o2.
  Proof.
    intros R x kp rf o1 o2 HI Hx Hd Hn. symmetry.
    pose proof (add_node_inv R x HI) as HI'.
    apply (replicas_filter_core (add_node R x) R x); auto.
    - apply ring_positions_distinct; [exact HI'|].
      rewrite add_node_nodes by exact Hx.
      replace (r_vn (add_node R x)) with (r_vn R) by (symmetry; apply (apply_op_vn R (OpAdd x))).
      apply positions_distinct_cons_snoc. exact Hd.
    - apply add_node_ring_filter; assumption.
  Qed.

  Theorem minimal_disruption_remove : forall R x kp rf o1 o2,
    ring_inv R -> positions_distinct (r_nodes R) (r_vn R) ->
    ~ In x (replicas_at R kp rf o1) ->
    replicas_at (remove_node R x) kp rf o2 = replicas_at R kp rf o1.
  Proof.
    intros R x kp rf o1 o2 HI Hd Hn.
    apply (replicas_filter_core R (remove_node R x) x); auto.
    - apply remove_node_inv. exact HI.
    - apply ring_positions_distinct; assumption.
  Qed.

  (* joining twice / removing a stranger changes no placement at all *)
  Lemma add_node_present : forall R x, In x (r_nodes R) -> add_node R x = R.
  Proof.
    intros R x H. unfold Ring.add_node. apply mem_In in H. rewrite H. reflexivity.
  Qed.

  Lemma remove_node_absent : forall R x kp rf o, ring_inv R -> ~ In x (r_nodes R) ->
    replicas_at (remove_node R x) kp rf o = replicas_at R kp rf o.
  Proof.
    intros R x kp rf o HI Hx. unfold replicas_at. cbn [remove_node r_ring r_nodes].
    rewrite !filter_all; [reflexivity | |].
    - intros n Hn. apply negb_true_iff. apply N.eqb_neq. intro; subst. contradiction.
    - intros e He. apply negb_true_iff. apply N.eqb_neq. intro; subst.
      apply Hx. apply ring_entry_member; assumption.
  Qed.

  (* ---------------------------------------------------------------------------------- *)
  (* routing tables                                                                        *)

  Ltac eqbs :=
    repeat match goal with
           | |- context [N.eqb ?a ?b] => destruct (N.eqb_spec a b); subst
           end; try congruence; try reflexivity.

  Lemma deliveries_cons : forall k ds r q,
    deliveries ((k, ds) :: r) q = if k =? q then ds else deliveries r q.
  Proof. intros. unfold deliveries. cbn [tbl_get]. destruct (k =? q); reflexivity. Qed.

  Lemma deliveries_nil : forall q, deliveries [] q = [].
  Proof. reflexivity. Qed.

  Lemma deliveries_push : forall t d tbl q,
    deliveries (tbl_push t d tbl) q = if q =? t then deliveries tbl q ++ [d] else deliveries tbl q.
  Proof.
    intros t d. induction tbl as [|[k ds] r IH]; intro q.
    - cbn [tbl_push]. rewrite deliveries_cons, deliveries_nil. eqbs.
    - cbn [tbl_push]. destruct (N.eqb_spec k t).
      + subst. rewrite !deliveries_cons. eqbs.
      + rewrite !deliveries_cons, IH. eqbs.
  Qed.

  Lemma mem_cons : forall q a l, mem q (a :: l) = (q =? a) || mem q l.
  Proof. reflexivity. Qed.

  Lemma mem_filter : forall q p l, mem q (filter p l) = mem q l && p q.
  Proof.
    intros q p l. apply eq_iff_eq_true. rewrite andb_true_iff, !mem_In, filter_In. tauto.
  Qed.

  Lemma deliveries_targets : forall (P : N -> bool) d ts tbl q, NoDup ts ->
    deliveries (fold_left (fun tbl t => if P t then tbl_push t d tbl else tbl) ts tbl) q =
    deliveries tbl q ++ (if mem q ts && P q then [d] else []).
  Proof.
    intros P d. induction ts as [|a ts IH]; intros tbl q H; cbn [fold_left].
    - cbn. rewrite app_nil_r. reflexivity.
    - inversion H as [|? ? Hn Hd]; subst. rewrite IH by exact Hd. rewrite mem_cons.
      destruct (N.eqb_spec q a) as [E|E].
      + subst. assert (mem a ts = false) as -> by (apply mem_nIn; exact Hn).
        cbn [orb andb]. destruct (P a).
        * rewrite deliveries_push, N.eqb_refl, app_nil_r. reflexivity.
        * reflexivity.
      + cbn [orb]. f_equal. destruct (P a); [|reflexivity].
        rewrite deliveries_push. apply N.eqb_neq in E. rewrite E. reflexivity.
  Qed.

  Lemma deliveries_route : forall (P : N -> bool) (T : (list N * (N * N)) -> list N) deltas tbl q,
    (forall d, NoDup (T d)) ->
    deliveries (fold_left (fun tbl d =>
                  fold_left (fun tbl t => if P t then tbl_push t d tbl else tbl) (T d) tbl) deltas tbl) q =
    deliveries tbl q ++ filter (fun d => mem q (T d) && P q) deltas.
  Proof.
    intros P T. induction deltas as [|d ds IH]; intros tbl q H; cbn [fold_left filter].
    - rewrite app_nil_r. reflexivity.
    - rewrite IH by exact H. rewrite deliveries_targets by apply H.
      rewrite <- app_assoc. f_equal. destruct (mem q (T d) && P q); reflexivity.
  Qed.

  Notation get_replicas := (Ring.get_replicas kpos).
  Notation get_gossip_targets := (Ring.get_gossip_targets kpos).
  Notation route_selective := (Ring.route_selective kpos).
  Notation route_deltas := (Ring.route_deltas kpos).
  Notation queue_deltas := (Ring.queue_deltas kpos).

  Lemma get_replicas_NoDup : forall R key o, ring_inv R -> NoDup (get_replicas R key o).
  Proof. intros. apply replicas_shape. assumption. Qed.

  Lemma get_replicas_members : forall R key o x, ring_inv R ->
    In x (get_replicas R key o) -> In x (r_nodes R).
  Proof. intros R key o x HI. apply (replicas_shape R (kpos key) (r_rf R) o HI). Qed.

  Lemma gossip_targets_NoDup : forall R key me o, ring_inv R -> NoDup (get_gossip_targets R key me o).
  Proof. intros. apply NoDup_filter'. apply get_replicas_NoDup. assumption. Qed.

  (* what every node is handed by selective routing, whatever the router knows *)
  Theorem route_selective_deliveries : forall r os deltas t, ring_inv (gr_ring r) ->
    deliveries (route_selective r os deltas) t =
    filter (fun d => mem t (get_replicas (gr_ring r) (d_key d) (os (kpos (d_key d)))) &&
                     negb (t =? gr_me r) && has_peer r t) deltas.
  Proof.
    intros r os deltas t HI. unfold Ring.route_selective.
    rewrite (deliveries_route (has_peer r)
               (fun d => get_gossip_targets (gr_ring r) (d_key d) (gr_me r) (os (kpos (d_key d))))).
    - rewrite deliveries_nil. cbn [app]. apply filter_ext_in'. intros d _.
      unfold Ring.get_gossip_targets. rewrite mem_filter. reflexivity.
    - intro d. apply gossip_targets_NoDup. exact HI.
  Qed.

  Notation owed := (Ring.owed kpos).

  Theorem selective_exact : forall r os deltas t, ring_inv (gr_ring r) -> knows_members r ->
    deliveries (route_selective r os deltas) t = owed r os deltas t.
  Proof.
    intros r os deltas t HI HK. rewrite route_selective_deliveries by exact HI.
    unfold Ring.owed. apply filter_ext_in'. intros d _.
    destruct (mem t (get_replicas _ _ _)) eqn:M; [|reflexivity].
    destruct (N.eqb_spec t (gr_me r)) as [E|E]; [reflexivity|]. cbn [negb andb].
    apply HK; [|exact E]. apply mem_In in M. eapply get_replicas_members; eassumption.
  Qed.

  (* shape of the table itself: one entry per target, never an empty entry *)
  Definition tbl_ok (tbl : list (N * list (list N * (N * N)))) : Prop :=
    NoDup (map fst tbl) /\ Forall (fun p => snd p <> []) tbl.

  Lemma tbl_push_keys : forall t d tbl x, In x (map fst (tbl_push t d tbl)) <-> x = t \/ In x (map fst tbl).
  Proof.
    intros t d. induction tbl as [|[k ds] r IH]; intro x; cbn [tbl_push map fst In].
    - intuition.
    - destruct (N.eqb_spec k t); cbn [map fst In].
      + subst. intuition.
      + rewrite IH. intuition.
  Qed.

  Lemma tbl_push_ok : forall t d tbl, tbl_ok tbl -> tbl_ok (tbl_push t d tbl).
  Proof.
    intros t d. induction tbl as [|[k ds] r IH]; intros [Hn Hf]; cbn [tbl_push].
    - split; cbn; repeat constructor; [intros [] | discriminate].
    - cbn [map fst] in Hn. inversion Hn as [|? ? Hk Hr]; subst. inversion Hf as [|? ? Hd Hf']; subst.
      destruct (N.eqb_spec k t).
      + subst. split; cbn [map fst]; [exact Hn|]. constructor; [|exact Hf'].
        cbn [snd]. destruct ds; discriminate.
      + destruct (IH (conj Hr Hf')) as [In' If']. split; cbn [map fst].
        * constructor; [|exact In']. rewrite tbl_push_keys. intros [E|E]; [congruence | contradiction].
        * constructor; assumption.
  Qed.

  Lemma route_selective_ok : forall r os deltas, tbl_ok (route_selective r os deltas).
  Proof.
    intros r os deltas. unfold Ring.route_selective.
    assert (H0 : tbl_ok []) by (split; constructor). revert H0. generalize (@nil (N * list (list N * (N * N)))).
    induction deltas as [|d ds IH]; intros tbl H; [exact H|].
    cbn [fold_left]. apply IH.
    generalize (get_gossip_targets (gr_ring r) (d_key d) (gr_me r) (os (kpos (d_key d)))).
    intro ts. revert tbl H. induction ts as [|a ts IHt]; intros tbl H; [exact H|].
    cbn [fold_left]. apply IHt. destruct (has_peer r a); [apply tbl_push_ok|]; exact H.
  Qed.

  Lemma tbl_get_In : forall tbl t ds, NoDup (map fst tbl) -> In (t, ds) tbl -> tbl_get tbl t = Some ds.
  Proof.
    induction tbl as [|[k ks] r IH]; intros t ds Hn Hin; [destruct Hin|].
    cbn [map fst] in Hn. inversion Hn as [|? ? Hk Hr]; subst. cbn [tbl_get].
    destruct Hin as [E|Hin].
    - inversion E; subst. rewrite N.eqb_refl. reflexivity.
    - destruct (N.eqb_spec k t).
      + subst. exfalso. apply Hk. apply in_map_iff. exists (t, ds). split; [reflexivity | exact Hin].
      + apply IH; assumption.
  Qed.

  Lemma tbl_get_Some_In : forall tbl t ds, tbl_get tbl t = Some ds -> In (t, ds) tbl.
  Proof.
    induction tbl as [|[k ks] r IH]; intros t ds H; [discriminate|].
    cbn [tbl_get] in H. destruct (N.eqb_spec k t).
    - subst. inversion H; subst. left. reflexivity.
    - right. apply IH. exact H.
  Qed.

  (* an entry of the table is exactly (t, deliveries t), and deliveries t is non-empty *)
  Lemma tbl_entry_iff : forall tbl t ds, tbl_ok tbl ->
    (In (t, ds) tbl <-> deliveries tbl t = ds /\ ds <> []).
  Proof.
    intros tbl t ds [Hn Hf]. split.
    - intro Hin. split.
      + unfold deliveries. rewrite (tbl_get_In tbl t ds Hn Hin). reflexivity.
      + rewrite Forall_forall in Hf. apply (Hf (t, ds) Hin).
    - intros [Hd Hne]. unfold deliveries in Hd. destruct (tbl_get tbl t) as [ds'|] eqn:G.
      + subst. apply tbl_get_Some_In. exact G.
      + subst. contradiction.
  Qed.

  Theorem selective_table_entries : forall r os deltas t ds, ring_inv (gr_ring r) -> knows_members r ->
    (In (t, ds) (route_selective r os deltas) <-> ds = owed r os deltas t /\ ds <> []).
  Proof.
    intros r os deltas t ds HI HK. rewrite tbl_entry_iff by apply route_selective_ok.
    rewrite selective_exact by assumption. intuition.
  Qed.

  (* ---------------------------------------------------------------------------------- *)
  (* queue_deltas                                                                          *)

  Definition targeted_msg (g : gstate) (p : N * list (list N * (N * N))) : option N * gmsg :=
    (Some (fst p), TargetedDelta (g_id g) (fst p) (snd p) (g_epoch g)).

  Lemma filter_nonempty_ok : forall tbl, tbl_ok tbl ->
    filter (fun p : N * list (list N * (N * N)) => negb (is_nil (snd p))) tbl = tbl.
  Proof.
    intros tbl [_ Hf]. apply filter_all. intros p Hp. rewrite Forall_forall in Hf.
    specialize (Hf p Hp). destruct (snd p); [contradiction | reflexivity].
  Qed.

  Theorem queue_deltas_selective : forall ord os g r deltas,
    g_router g = Some r -> gr_selective r = true -> deltas <> [] ->
    Permutation (ord (route_selective r os deltas)) (route_selective r os deltas) ->
    N.of_nat (length (g_queue g)) + N.of_nat (length (route_selective r os deltas)) <= MAX_OUTBOUND_QUEUE ->
    exists msgs,
      g_queue (queue_deltas ord os g deltas) = g_queue g ++ msgs /\
      Permutation msgs (map (targeted_msg g) (route_selective r os deltas)).
  Proof.
    intros ord os g r deltas Hr Hs Hne Hp Hcap.
    unfold Ring.queue_deltas. destruct deltas as [|d0 ds0]; [contradiction|].
    rewrite Hr, Hs. unfold Ring.route_deltas. rewrite Hs. cbn [g_queue].
    set (tbl := route_selective r os (d0 :: ds0)) in *.
    assert (Hf : filter (fun p : N * list (list N * (N * N)) => negb (is_nil (snd p))) (ord tbl) = ord tbl).
    { apply filter_all. intros p Hin. apply (Permutation_in _ Hp) in Hin.
      destruct (route_selective_ok r os (d0 :: ds0)) as [_ Hok]. rewrite Forall_forall in Hok.
      specialize (Hok p Hin). destruct (snd p); [contradiction | reflexivity]. }
    rewrite Hf. exists (map (targeted_msg g) (ord tbl)). split.
    - unfold enforce_capacity. rewrite app_length, map_length.
      rewrite (Permutation_length Hp).
      assert (MAX_OUTBOUND_QUEUE <? N.of_nat (length (g_queue g) + length tbl) = false) as ->
        by (apply N.ltb_ge; lia).
      reflexivity.
    - apply Permutation_map. exact Hp.
  Qed.

  Lemma NoDup_map_Some : forall (l : list N), NoDup l -> NoDup (map (@Some N) l).
  Proof.
    induction 1 as [|a l Hn Hd IH]; cbn [map]; constructor; [|exact IH].
    intro H. apply in_map_iff in H. destruct H as [b [E Hb]]. inversion E; subst. contradiction.
  Qed.

  (* queue_deltas in selective mode appends, per call: for every node that is owed
     something, exactly one targeted message carrying exactly what it is owed; nothing
     else.  (HashMap order [ord] arbitrary; queue below its capacity.) *)
  Theorem queue_deltas_covers : forall ord os g r deltas,
    g_router g = Some r -> gr_selective r = true -> deltas <> [] ->
    ring_inv (gr_ring r) -> knows_members r ->
    Permutation (ord (route_selective r os deltas)) (route_selective r os deltas) ->
    N.of_nat (length (g_queue g)) + N.of_nat (length (route_selective r os deltas)) <= MAX_OUTBOUND_QUEUE ->
    exists msgs,
      g_queue (queue_deltas ord os g deltas) = g_queue g ++ msgs /\
      NoDup (map fst msgs) /\
      forall m, In m msgs <->
                exists t, m = (Some t, TargetedDelta (g_id g) t (owed r os deltas t) (g_epoch g)) /\
                          owed r os deltas t <> [].
  Proof.
    intros ord os g r deltas Hr Hs Hne HI HK Hp Hcap.
    destruct (queue_deltas_selective ord os g r deltas Hr Hs Hne Hp Hcap) as [msgs [Hq Hm]].
    exists msgs. split; [exact Hq|]. split.
    - eapply Permutation_NoDup; [apply Permutation_map, Permutation_sym; exact Hm|].
      rewrite map_map. cbn [targeted_msg fst].
      rewrite <- (map_map fst (@Some N)). apply NoDup_map_Some. apply route_selective_ok.
    - intro m. split.
      + intro Hin. apply (Permutation_in _ Hm) in Hin. apply in_map_iff in Hin.
        destruct Hin as [[t ds] [E Hin]]. apply (selective_table_entries r os deltas t ds HI HK) in Hin.
        destruct Hin as [E1 E2]. exists t. subst. split; [reflexivity | exact E2].
      + intros [t [E Hne']]. apply (Permutation_in _ (Permutation_sym Hm)).
        apply in_map_iff. exists (t, owed r os deltas t). split; [subst; reflexivity|].
        apply (selective_table_entries r os deltas t _ HI HK). split; [reflexivity | exact Hne'].
  Qed.

  (* no owner is starved: a delta reaches every responsible replica other than the sender *)
  Corollary queue_deltas_no_starvation : forall ord os g r deltas d t,
    g_router g = Some r -> gr_selective r = true ->
    ring_inv (gr_ring r) -> knows_members r ->
    Permutation (ord (route_selective r os deltas)) (route_selective r os deltas) ->
    N.of_nat (length (g_queue g)) + N.of_nat (length (route_selective r os deltas)) <= MAX_OUTBOUND_QUEUE ->
    In d deltas -> In t (get_replicas (gr_ring r) (d_key d) (os (kpos (d_key d)))) -> t <> gr_me r ->
    exists ds, In (Some t, TargetedDelta (g_id g) t ds (g_epoch g)) (g_queue (queue_deltas ord os g deltas)) /\ In d ds.
  Proof.
    intros ord os g r deltas d t Hr Hs HI HK Hp Hcap Hd Ht Hme.
    assert (Hne : deltas <> []) by (intro; subst; destruct Hd).
    destruct (queue_deltas_covers ord os g r deltas Hr Hs Hne HI HK Hp Hcap) as [msgs [Hq [_ Hm]]].
    assert (Hin : In d (owed r os deltas t)).
    { unfold Ring.owed. apply filter_In. split; [exact Hd|]. apply andb_true_iff. split.
      - apply mem_In. exact Ht.
      - apply negb_true_iff. apply N.eqb_neq. exact Hme. }
    exists (owed r os deltas t). split; [|exact Hin].
    rewrite Hq. apply in_or_app. right. apply Hm. exists t. split; [reflexivity|].
    intro E. rewrite E in Hin. destruct Hin.
  Qed.

  (* broadcast mode: every known peer other than self gets every delta *)
  Theorem route_broadcast_deliveries : forall r deltas t,
    deliveries (route_broadcast r deltas) t =
    if has_peer r t && negb (t =? gr_me r) then deltas else [].
  Proof.
    intros r deltas t. unfold route_broadcast, has_peer.
    induction (gr_peers r) as [|[k a] ps IH]; [reflexivity|].
    cbn [filter fst map]. rewrite mem_cons.
    destruct (N.eqb_spec k (gr_me r)) as [E|E]; cbn [negb].
    - rewrite IH. destruct (N.eqb_spec t k) as [F|F]; cbn [orb]; [|reflexivity].
      subst. rewrite N.eqb_refl, andb_false_r. reflexivity.
    - cbn [map fst]. rewrite deliveries_cons. destruct (N.eqb_spec k t) as [F|F].
      + subst. rewrite N.eqb_refl. cbn [orb andb].
        apply N.eqb_neq in E. rewrite E. reflexivity.
      + rewrite IH. assert (t =? k = false) as -> by (apply N.eqb_neq; congruence). reflexivity.
  Qed.

  (* ---------------------------------------------------------------------------------- *)
  (* HashRing::new on two join orders (the form of DESIGN section 9)                      *)

  Theorem ring_perm : forall ns1 ns2 vn rf, Permutation ns1 ns2 -> NoDup ns1 ->
    positions_distinct ns1 vn ->
    r_ring (ring_new ns1 vn rf) = r_ring (ring_new ns2 vn rf) /\
    forall kp rf' o1 o2,
      replicas_at (ring_new ns1 vn rf) kp rf' o1 = replicas_at (ring_new ns2 vn rf) kp rf' o2.
  Proof.
    intros ns1 ns2 vn rf Hp Hn Hd.
    assert (Hn2 : NoDup ns2) by (eapply Permutation_NoDup; eassumption).
    assert (I1 : ring_inv (ring_new ns1 vn rf)) by (rewrite ring_new_run; apply reachable_inv).
    assert (I2 : ring_inv (ring_new ns2 vn rf)) by (rewrite ring_new_run; apply reachable_inv).
    assert (V1 : r_vn (ring_new ns1 vn rf) = vn) by (rewrite ring_new_run, run_vn; reflexivity).
    assert (V2 : r_vn (ring_new ns2 vn rf) = vn) by (rewrite ring_new_run, run_vn; reflexivity).
    assert (Hp' : Permutation (r_nodes (ring_new ns1 vn rf)) (r_nodes (ring_new ns2 vn rf)))
      by (rewrite !ring_new_nodes by assumption; exact Hp).
    assert (Hd' : positions_distinct (r_nodes (ring_new ns1 vn rf)) (r_vn (ring_new ns1 vn rf)))
      by (rewrite ring_new_nodes, V1 by assumption; exact Hd).
    split.
    - apply ring_canonical; auto. congruence.
    - intros. apply placement_function_of_membership; auto. congruence.
  Qed.
End RingFacts.

(* ------------------------------------------------------------------------------------ *)
(* deciding [positions_distinct] on concrete memberships                                  *)

Fixpoint nodupb (l : list N) : bool :=
  match l with
  | [] => true
  | x :: l' => negb (mem x l') && nodupb l'
  end.

Lemma nodupb_sound : forall l, nodupb l = true -> NoDup l.
Proof.
  induction l as [|a l IH]; intro H; [constructor|].
  cbn [nodupb] in H. apply andb_true_iff in H. destruct H as [H1 H2].
  constructor; [|apply IH; exact H2]. apply mem_nIn. apply negb_true_iff. exact H1.
Qed.

(* the functions the correspondence executes are the reference SipHash instances *)
Lemma fast_vpos_eq : forall x i, fast_vpos x i = sip_vpos x i.
Proof. intros. unfold fast_vpos, sip_vpos. apply sip13f_eq. Qed.
Lemma fast_kpos_eq : forall k, fast_kpos k = sip_kpos k.
Proof. intros. unfold fast_kpos, sip_kpos, hash_str. apply sip13f_eq. Qed.

(* ------------------------------------------------------------------------------------ *)
(* concrete instances (the code's SipHash positions)                                      *)

Definition ex_R3 : ring := ring_new sip_vpos [1; 2; 3] 4 2.
Definition ex_k0 : list N := [107; 48].   (* "k0" *)
Definition ex_k1 : list N := [107; 49].   (* "k1" *)

Lemma ex_positions_distinct : positions_distinct sip_vpos [4; 1; 2; 3] 4.
Proof. apply nodupb_sound. vm_compute. reflexivity. Qed.

(* node 4 joins {1,2,3} (4 vnodes each, rf 2): "k0" moves from [2;1] to [4;2] and gains
   node 4, "k1" stays at [3;2] *)
Lemma ex_disruption :
  get_replicas sip_kpos ex_R3 ex_k0 0 = [2; 1] /\
  get_replicas sip_kpos (add_node sip_vpos ex_R3 4) ex_k0 0 = [4; 2] /\
  get_replicas sip_kpos ex_R3 ex_k1 0 = [3; 2] /\
  get_replicas sip_kpos (add_node sip_vpos ex_R3 4) ex_k1 0 = [3; 2].
Proof. vm_compute. repeat split; reflexivity. Qed.

(* Remark: without the hypothesis "positions pairwise distinct" placement does depend on
   the join order - with a colliding position function the stable sort keeps join order,
   and two nodes that joined in different orders disagree on the primary replica. *)
Lemma tie_depends_on_join_order :
  let collide := fun _ _ : N => 7 in
  replicas_at (ring_new collide [1; 2] 1 1) 0 1 0 = [1] /\
  replicas_at (ring_new collide [2; 1] 1 1) 0 1 0 = [2].
Proof. vm_compute. split; reflexivity. Qed.

(* ------------------------------------------------------------------------------------ *)
(* from_config                                                                            *)

Lemma nseq_In : forall n i, In i (nseq n) <-> i < n.
Proof.
  intros n i. unfold nseq. rewrite in_map_iff. split.
  - intros [k [E H]]. apply in_seq in H. lia.
  - intro H. exists (N.to_nat i). split; [apply N2Nat.id|]. apply in_seq. lia.
Qed.

Lemma nseq_NoDup : forall n, NoDup (nseq n).
Proof.
  intro n. unfold nseq. generalize (seq_NoDup (N.to_nat n) 0).
  induction 1 as [|a l Hn Hd IH]; cbn [map]; constructor; [|exact IH].
  intro H. apply in_map_iff in H. destruct H as [b [E Hb]]. apply Nat2N.inj in E. subst. contradiction.
Qed.

Lemma pa_insert_fresh : forall k a m, ~ In k (map fst m) -> pa_insert k a m = m ++ [(k, a)].
Proof.
  intros k a. induction m as [|[k' a'] m IH]; intro H; [reflexivity|].
  cbn [pa_insert map fst In] in *. destruct (N.eqb_spec k' k); [exfalso; apply H; left; assumption|].
  cbn [app]. f_equal. apply IH. intro Hin. apply H. right. exact Hin.
Qed.

Lemma fold_pa_insert : forall (f : N -> N) l m,
  NoDup (map fst m ++ map f l) ->
  fold_left (fun m i => pa_insert (f i) i m) l m = m ++ map (fun i => (f i, i)) l.
Proof.
  intros f. induction l as [|i l IH]; intros m H; cbn [fold_left map].
  - rewrite app_nil_r. reflexivity.
  - cbn [map] in H. rewrite pa_insert_fresh.
    + rewrite IH.
      * rewrite <- app_assoc. reflexivity.
      * rewrite map_app. cbn [map fst]. rewrite <- app_assoc. exact H.
    + apply NoDup_remove_2 in H. intro Hin. apply H. apply in_or_app. left. exact Hin.
Qed.

Lemma peer_id_of_inj : forall rid i j, peer_id_of rid i = peer_id_of rid j -> i = j.
Proof.
  intros rid i j. unfold peer_id_of.
  destruct (N.leb_spec rid (i + 1)), (N.leb_spec rid (j + 1)); lia.
Qed.

(* the peer table from_config builds: the i-th configured address is filed under
   [peer_id_of rid i]; no insertion overwrites another *)
Lemma from_config_peers_eq : forall rid npeers,
  from_config_peers rid npeers = map (fun i => (peer_id_of rid i, i)) (nseq npeers).
Proof.
  intros rid npeers. unfold from_config_peers. rewrite fold_pa_insert; [reflexivity|].
  cbn [map app]. generalize (nseq_NoDup npeers).
  induction 1 as [|a l Hn Hd IH]; cbn [map]; constructor; [|exact IH].
  intro H. apply in_map_iff in H. destruct H as [b [E Hb]]. apply peer_id_of_inj in E. subst. contradiction.
Qed.

(* for 1-based ids: member rid of the cluster 1..n (n = npeers + 1) files its peers under
   exactly the other members' ids *)
Theorem from_config_ids : forall rid npeers t, 1 <= rid <= npeers + 1 ->
  (In t (map fst (from_config_peers rid npeers)) <-> 1 <= t <= npeers + 1 /\ t <> rid).
Proof.
  intros rid npeers t Hr. rewrite from_config_peers_eq, map_map. cbn [fst].
  rewrite in_map_iff. split.
  - intros [i [E Hi]]. apply nseq_In in Hi. unfold peer_id_of in E.
    destruct (N.leb_spec rid (i + 1)); lia.
  - intros [Ht Hne]. destruct (N.lt_ge_cases t rid) as [L|L].
    + exists (t - 1). split; [|apply nseq_In; lia]. unfold peer_id_of.
      destruct (N.leb_spec rid (t - 1 + 1)); lia.
    + exists (t - 2). split; [|apply nseq_In; lia]. unfold peer_id_of.
      destruct (N.leb_spec rid (t - 2 + 1)); lia.
Qed.

(* ... and in configuration order: ids increase with the position of the address *)
Lemma peer_id_of_mono : forall rid i j, i < j -> peer_id_of rid i < peer_id_of rid j.
Proof.
  intros rid i j H. unfold peer_id_of.
  destruct (N.leb_spec rid (i + 1)), (N.leb_spec rid (j + 1)); lia.
Qed.

  (* a router made by from_config for member rid of a cluster whose ring holds (a subset
     of) the nodes 1..n knows every other member *)
  Theorem from_config_knows_members : forall rid npeers sel part en R,
    1 <= rid <= npeers + 1 ->
    (forall x, In x (r_nodes R) -> 1 <= x <= npeers + 1) ->
    knows_members (from_config rid npeers sel part en R).
  Proof.
    intros rid npeers sel part en R Hr HR x Hx Hne. cbn [from_config gr_ring gr_me] in *.
    unfold has_peer. cbn [gr_peers]. apply mem_In. apply from_config_ids; [exact Hr|].
    split; [apply HR; exact Hx | exact Hne].
  Qed.

(* ------------------------------------------------------------------------------------ *)
(* the statements of Props/C19.v, over every ring the API can produce                    *)

Section Reachable.
  Variable vpos : N -> N -> N.
  Variable kpos : list N -> N.
  Notation reach vn rf ops := (run vpos (ring_empty vn rf) ops).

  Lemma reach_placement : forall (vn rf1 rf2 : N) (ops1 ops2 : list op),
    let R1 := reach vn rf1 ops1 in
    let R2 := reach vn rf2 ops2 in
    Permutation (r_nodes R1) (r_nodes R2) ->
    positions_distinct vpos (r_nodes R1) vn ->
    r_ring R1 = r_ring R2 /\
    forall kp rf o1 o2, replicas_at R1 kp rf o1 = replicas_at R2 kp rf o2.
  Proof.
    intros vn rf1 rf2 ops1 ops2 R1 R2 Hp Hd.
    assert (V1 : r_vn R1 = vn) by apply run_vn.
    assert (V2 : r_vn R2 = vn) by apply run_vn.
    split; [apply (ring_canonical vpos) | intros; apply (placement_function_of_membership vpos)];
      try apply reachable_inv; try congruence; rewrite V1; exact Hd.
  Qed.

  Lemma reach_search_choice : forall (vn rf0 : N) (ops : list op) kp rf o,
    let R := reach vn rf0 ops in
    positions_distinct vpos (r_nodes R) vn ->
    replicas_at R kp rf o = replicas_at R kp rf 0.
  Proof.
    intros vn rf0 ops kp rf o R Hd.
    assert (HI : ring_inv vpos R) by apply reachable_inv.
    assert (Hd' : NoDup (map e_pos (r_ring R))).
    { apply (ring_positions_distinct vpos); [exact HI|]. unfold R. rewrite run_vn. exact Hd. }
    rewrite !(replicas_at_canon vpos) by assumption. reflexivity.
  Qed.

  Lemma reach_shape : forall (vn rf0 : N) (ops : list op) kp rf o,
    let R := reach vn rf0 ops in
    let l := replicas_at R kp rf o in
    NoDup l /\ incl l (r_nodes R) /\
    (0 < vn -> length l = Nat.min (N.to_nat rf) (length (r_nodes R))).
  Proof.
    intros vn rf0 ops kp rf o R l.
    destruct (replicas_shape vpos R kp rf o (reachable_inv vpos vn rf0 ops)) as [A [B C]].
    repeat split; [exact A | exact B |]. intro Hv. apply C. unfold R. rewrite run_vn. exact Hv.
  Qed.

  Lemma reach_disruption_add : forall (vn rf0 : N) (ops : list op) x kp rf o1 o2,
    let R := reach vn rf0 ops in
    ~ In x (r_nodes R) ->
    positions_distinct vpos (x :: r_nodes R) vn ->
    ~ In x (replicas_at (add_node vpos R x) kp rf o1) ->
    replicas_at (add_node vpos R x) kp rf o1 = replicas_at R kp rf o2.
  Proof.
    intros vn rf0 ops x kp rf o1 o2 R Hx Hd Hn.
    apply minimal_disruption_add; auto; [apply reachable_inv|].
    unfold R. rewrite run_vn. exact Hd.
  Qed.

  Lemma reach_disruption_remove : forall (vn rf0 : N) (ops : list op) x kp rf o1 o2,
    let R := reach vn rf0 ops in
    positions_distinct vpos (r_nodes R) vn ->
    ~ In x (replicas_at R kp rf o1) ->
    replicas_at (remove_node R x) kp rf o2 = replicas_at R kp rf o1.
  Proof.
    intros vn rf0 ops x kp rf o1 o2 R Hd Hn.
    apply (minimal_disruption_remove vpos); auto; [apply reachable_inv|].
    unfold R. rewrite run_vn. exact Hd.
  Qed.

  Lemma reach_selective_exact : forall (vn rf0 : N) (ops : list op) me peers sel os deltas,
    let r := Router (reach vn rf0 ops) me peers sel in
    knows_members r ->
    (forall t, deliveries (route_selective kpos r os deltas) t = owed kpos r os deltas t) /\
    (forall t ds, In (t, ds) (route_selective kpos r os deltas) <->
                  ds = owed kpos r os deltas t /\ ds <> []).
  Proof.
    intros vn rf0 ops me peers sel os deltas r HK.
    assert (HI : ring_inv vpos (gr_ring r)) by apply reachable_inv.
    split; intros; [apply (selective_exact vpos) | apply (selective_table_entries vpos)]; assumption.
  Qed.

  Lemma reach_queue_covers : forall (vn rf0 : N) (ops : list op) me peers ord os g deltas,
    let r := Router (reach vn rf0 ops) me peers true in
    g_router g = Some r -> deltas <> [] -> knows_members r ->
    Permutation (ord (route_selective kpos r os deltas)) (route_selective kpos r os deltas) ->
    N.of_nat (length (g_queue g)) + N.of_nat (length (route_selective kpos r os deltas)) <= MAX_OUTBOUND_QUEUE ->
    exists msgs,
      g_queue (queue_deltas kpos ord os g deltas) = g_queue g ++ msgs /\
      NoDup (map fst msgs) /\
      forall m, In m msgs <->
                exists t, m = (Some t, TargetedDelta (g_id g) t (owed kpos r os deltas t) (g_epoch g)) /\
                          owed kpos r os deltas t <> [].
  Proof.
    intros vn rf0 ops me peers ord os g deltas r Hr Hne HK Hp Hcap.
    apply (queue_deltas_covers vpos); auto. apply reachable_inv.
  Qed.

  Lemma reach_no_owner_starved : forall (vn rf0 : N) (ops : list op) me peers ord os g deltas d t,
    let r := Router (reach vn rf0 ops) me peers true in
    g_router g = Some r -> knows_members r ->
    Permutation (ord (route_selective kpos r os deltas)) (route_selective kpos r os deltas) ->
    N.of_nat (length (g_queue g)) + N.of_nat (length (route_selective kpos r os deltas)) <= MAX_OUTBOUND_QUEUE ->
    In d deltas -> In t (get_replicas kpos (gr_ring r) (d_key d) (os (kpos (d_key d)))) -> t <> me ->
    exists ds, In (Some t, TargetedDelta (g_id g) t ds (g_epoch g)) (g_queue (queue_deltas kpos ord os g deltas)) /\
               In d ds.
  Proof.
    intros vn rf0 ops me peers ord os g deltas d t r Hr HK Hp Hcap Hd Ht Hme.
    apply (queue_deltas_no_starvation vpos kpos ord os g r deltas d t); auto. apply reachable_inv.
  Qed.

  (* from_config + selective routing: member rid of the cluster 1..n, configured with the
     other members' addresses in id order, hands every delta to exactly its owners minus
     itself *)
  Lemma reach_from_config_exact : forall (vn rf0 : N) (ops : list op) rid npeers sel part en os deltas,
    let R := reach vn rf0 ops in
    let r := from_config rid npeers sel part en R in
    1 <= rid <= npeers + 1 ->
    (forall x, In x (r_nodes R) -> 1 <= x <= npeers + 1) ->
    knows_members r /\
    forall t, deliveries (route_selective kpos r os deltas) t = owed kpos r os deltas t.
  Proof.
    intros vn rf0 ops rid npeers sel part en os deltas R r Hr HR.
    assert (HK : knows_members r) by (apply from_config_knows_members; assumption).
    split; [exact HK|]. intro t. apply (selective_exact vpos); [apply reachable_inv | exact HK].
  Qed.
End Reachable.

(* ------------------------------------------------------------------------------------ *)
(* routing reads the key of a delta only: relabelling payload / source_replica of the
   deltas (any [g] that keeps keys) relabels the routed copies and changes nothing else -
   in particular the excluded node is the sender, whatever replica a delta originated on *)

Section OriginIndependence.
  Variable kpos : list N -> N.

  Definition tbl_map (g : list N * (N * N) -> list N * (N * N))
             (tbl : list (N * list (list N * (N * N)))) : list (N * list (list N * (N * N))) :=
    map (fun p => (fst p, map g (snd p))) tbl.

  Lemma tbl_push_map : forall g t d tbl,
    tbl_push t (g d) (tbl_map g tbl) = tbl_map g (tbl_push t d tbl).
  Proof.
    intros g t d. induction tbl as [|[k ds] r IH]; [reflexivity|].
    cbn [tbl_map map fst snd tbl_push]. destruct (k =? t).
    - cbn [map fst snd]. rewrite map_app. reflexivity.
    - cbn [map fst snd]. f_equal. exact IH.
  Qed.

  Lemma fold_targets_map : forall g (P : N -> bool) d ts tbl,
    fold_left (fun tbl t => if P t then tbl_push t (g d) tbl else tbl) ts (tbl_map g tbl) =
    tbl_map g (fold_left (fun tbl t => if P t then tbl_push t d tbl else tbl) ts tbl).
  Proof.
    intros g P d. induction ts as [|a ts IH]; intro tbl; [reflexivity|].
    cbn [fold_left]. destruct (P a); [rewrite tbl_push_map|]; apply IH.
  Qed.

  Theorem route_independent_of_origin : forall g r os deltas,
    (forall d, d_key (g d) = d_key d) ->
    route_selective kpos r os (map g deltas) = tbl_map g (route_selective kpos r os deltas).
  Proof.
    intros g r os deltas Hg. unfold route_selective.
    change (@nil (N * list (list N * (N * N)))) with (tbl_map g []) at 1.
    generalize (@nil (N * list (list N * (N * N)))).
    induction deltas as [|d ds IH]; intro tbl; [reflexivity|].
    cbn [map fold_left]. rewrite Hg, fold_targets_map. apply IH.
  Qed.
End OriginIndependence.

(* Proofs about Model/ShardState.v: the clock dominates every stamp stored or seen,
   every locally issued stamp is strictly above everything seen (also after recovery),
   and a fresh write supersedes every value built from seen stamps. *)
From stdpp Require Import gmap.
From Coq Require Import NArith Lia.
From RV Require Import Lib.Hex Model.Crdt Proofs.CrdtProofs Model.ShardState.
Local Open Scope N_scope.

Ltac fin := split_and!; auto; try lia; try done; try (split; simpl; auto; try lia; try done).

(* ---------- the clock ---------- *)
Lemma tick_spec s :
  sh_ovf (tick s) = false →
  sh_time (tick s) = sh_time s + 1 ∧ sh_ovf s = false ∧
  sh_rid (tick s) = sh_rid s ∧ sh_keys (tick s) = sh_keys s ∧ sh_causal (tick s) = sh_causal s.
Proof.
  unfold tick. destruct (sh_time s =? U64MAX); simpl; intros H.
  - apply orb_false_iff in H as [_ H]. discriminate.
  - apply orb_false_iff in H as [H _]. auto.
Qed.

Lemma clock_update_spec s o :
  sh_ovf (clock_update s o) = false →
  sh_time (clock_update s o) = N.max (sh_time s) (st_time o) + 1 ∧ sh_ovf s = false ∧
  sh_rid (clock_update s o) = sh_rid s ∧ sh_keys (clock_update s o) = sh_keys s.
Proof.
  unfold clock_update. destruct (N.max (sh_time s) (st_time o) =? U64MAX); simpl; intros H.
  - apply orb_false_iff in H as [_ H]. discriminate.
  - apply orb_false_iff in H as [H _]. auto.
Qed.

(* ---------- overflow is sticky ---------- *)
Lemma tick_ovf s : sh_ovf s = true → sh_ovf (tick s) = true.
Proof. intros H. unfold tick. destruct (_ =? _); simpl; by rewrite H. Qed.
Lemma clock_update_ovf s o : sh_ovf s = true → sh_ovf (clock_update s o) = true.
Proof. intros H. unfold clock_update. destruct (_ =? _); simpl; by rewrite H. Qed.
Lemma hash_set_all_ovf fs : ∀ s v, sh_ovf s = true → sh_ovf (hash_set_all s v fs).1 = true.
Proof.
  induction fs as [|[f x] fs IH]; intros s v Hs; simpl; [done|].
  apply IH. simpl. by apply tick_ovf.
Qed.
Lemma rv_hash_delete_ovf s v f : sh_ovf s = true → sh_ovf (rv_hash_delete s v f).1 = true.
Proof.
  intros Hs. unfold rv_hash_delete. destruct (rv_crdt v); try done.
  destruct (_ !! f); simpl; [by apply tick_ovf|done].
Qed.
Lemma hash_delete_all_ovf fs : ∀ s v, sh_ovf s = true → sh_ovf (hash_delete_all s v fs).1 = true.
Proof.
  induction fs as [|f fs IH]; intros s v Hs; simpl; [done|].
  pose proof (rv_hash_delete_ovf s v f Hs) as H1.
  destruct (rv_hash_delete s v f) as [s1 v1]. by apply IH.
Qed.
Lemma step_ovf s e : sh_ovf s = true → sh_ovf (step s e).1 = true.
Proof.
  intros Hs. destruct e as [k val exp|k|k fs|k fs|k v|k v]; simpl.
  - unfold rv_set. simpl. pose proof (tick_ovf s Hs). destruct (sh_causal (tick s)); simpl; done.
  - destruct (_ !! k) as [v0|]; [|done]. unfold rv_delete. destruct (rv_crdt v0); simpl; try done.
    by apply tick_ovf.
  - match goal with |- context [hash_set_all s ?v fs] => pose proof (hash_set_all_ovf fs s v Hs) as H1;
      destruct (hash_set_all s v fs) as [s1 v1] end. done.
  - destruct (_ !! k) as [v0|]; [|done]. destruct (rv_crdt v0); try done.
    pose proof (hash_delete_all_ovf fs s v0 Hs) as H1. destruct (hash_delete_all s v0 fs) as [s1 v1]. done.
  - by apply clock_update_ovf.
  - by apply clock_update_ovf.
Qed.
Lemma run_ovf evs : ∀ s, sh_ovf s = true → sh_ovf (run s evs).1 = true.
Proof.
  induction evs as [|e evs IH]; intros s Hs; simpl; [done|].
  pose proof (step_ovf s e Hs) as H1. destruct (step s e) as [s1 od].
  specialize (IH s1 H1). destruct (run s1 evs) as [s2 ds]. done.
Qed.
Lemma not_ovf_before (b : bool) : (b = true → False) → b = false.
Proof. destruct b; [intros H; by exfalso; apply H|done]. Qed.

(* ---------- monotonicity of [times_le] ---------- *)
Lemma crdt_times_le_mono c a b : a ≤ b → crdt_times_le c a → crdt_times_le c b.
Proof.
  intros Hab. destruct c; simpl; try done.
  - lia.
  - intros H. eapply map_Forall_impl; [exact H|]. simpl. intros. lia.
Qed.
Lemma times_le_mono v a b : a ≤ b → times_le v a → times_le v b.
Proof. intros Hab [H1 H2]. split; [lia|]. eapply crdt_times_le_mono; eauto. Qed.

(* ---------- merge keeps stamps bounded ---------- *)
Lemma stamp_merge_time_le a b t : st_time a ≤ t → st_time b ≤ t → st_time (stamp_merge a b) ≤ t.
Proof. unfold stamp_merge. destruct (stamp_ltb a b); auto. Qed.

Lemma lww_merge_time_le a b t :
  st_time (lw_ts a) ≤ t → st_time (lw_ts b) ≤ t → st_time (lw_ts (lww_merge a b)) ≤ t.
Proof. unfold lww_merge. destruct (stamp_ltb _ _); auto. Qed.

Lemma rv_merge_times_le a b t : times_le a t → times_le b t → times_le (rv_merge a b) t.
Proof.
  intros [Ha1 Ha2] [Hb1 Hb2]. split; simpl.
  - by apply stamp_merge_time_le.
  - unfold merge_with_ts.
    destruct (rv_crdt a) as [ra| | | | |ha], (rv_crdt b) as [rb| | | | |hb]; simpl in *;
      try done; try (destruct (stamp_ltb _ _); simpl; done).
    + by apply lww_merge_time_le.
    + intros f r Hr. unfold hash_merge in Hr. apply lookup_union_with_Some in Hr as [[H _]|[[_ H]|(x&y&Hx&Hy&Hxy)]].
      * by apply (Ha2 f r).
      * by apply (Hb2 f r).
      * injection Hxy as <-. apply lww_merge_time_le; [by apply (Ha2 f x)|by apply (Hb2 f y)].
Qed.

(* ---------- the invariant ---------- *)
Definition Inv (s : shard) : Prop :=
  ∀ k v, sh_keys s !! k = Some v → times_le v (sh_time s).

Lemma Inv_init rid c : Inv (shard_init rid c).
Proof. intros k v H. unfold shard_init in H; simpl in H. by rewrite lookup_empty in H. Qed.

Lemma Inv_put s k v : Inv s → times_le v (sh_time s) → Inv (put s k v).
Proof.
  intros HI Hv k' v'. unfold put, set_keys; simpl. intros H.
  destruct (decide (k = k')) as [->|Hne].
  - rewrite lookup_insert in H. by injection H as <-.
  - rewrite lookup_insert_ne in H by done. by apply (HI k').
Qed.

Lemma Inv_time s s' : Inv s → sh_keys s' = sh_keys s → sh_time s ≤ sh_time s' → Inv s'.
Proof. intros HI Hk Ht k v H. rewrite Hk in H. eapply times_le_mono; [exact Ht|]. by apply (HI k). Qed.

(* the result of one local value operation: new state, value bounded by the new clock *)
Definition op_ok (s : shard) (r : shard * rvalue) : Prop :=
  sh_ovf r.1 = false →
  sh_ovf s = false ∧ sh_time s ≤ sh_time r.1 ∧ sh_keys r.1 = sh_keys s ∧ sh_rid r.1 = sh_rid s ∧
  times_le r.2 (sh_time r.1).

Lemma rv_set_ok s v val : op_ok s (rv_set s v val).
Proof.
  unfold op_ok, rv_set. simpl. intros Ho.
  assert (Ht : sh_ovf (tick s) = false).
  { destruct (sh_causal (tick s)); simpl in Ho; auto. }
  destruct (tick_spec s Ht) as (Htime & Hovf & Hrid & Hkeys & _).
  assert (Hsame : ∀ x : shard, x = (if sh_causal (tick s) then set_vc (tick s) (vc_incr (sh_vc (tick s)) (sh_rid (tick s))) else tick s) →
     sh_time x = sh_time (tick s) ∧ sh_keys x = sh_keys (tick s) ∧ sh_rid x = sh_rid (tick s)).
  { intros x ->. destruct (sh_causal (tick s)); simpl; auto. }
  destruct (Hsame _ eq_refl) as (E1 & E2 & E3). rewrite E1, E2, E3.
  split_and!; try done; try lia. split; simpl; lia.
Qed.

Lemma rv_delete_ok s v : times_le v (sh_time s) → op_ok s (rv_delete s v).
Proof.
  intros Hv. unfold op_ok, rv_delete. destruct (rv_crdt v) eqn:Hc; simpl; intros Ho;
    try (by fin).
  destruct (tick_spec s Ho) as (Htime & Hovf & Hrid & Hkeys & _).
  fin.
Qed.

Lemma as_hash_times_le c t : crdt_times_le c t → map_Forall (λ _ r, st_time (lw_ts r) ≤ t) (as_hash c).
Proof. destruct c; simpl; try (intros _; apply map_Forall_empty). done. Qed.

Lemma rv_hash_set_ok s v f val : times_le v (sh_time s) → op_ok s (rv_hash_set s v f val).
Proof.
  intros [Hv1 Hv2]. unfold op_ok, rv_hash_set; simpl. intros Ho.
  destruct (tick_spec s Ho) as (Htime & Hovf & Hrid & Hkeys & _).
  split_and!; auto; try lia.
  split; simpl; [lia|].
  apply map_Forall_insert_2; simpl; [lia|].
  eapply map_Forall_impl; [apply as_hash_times_le; exact Hv2|]. simpl. intros. lia.
Qed.

Lemma rv_hash_delete_ok s v f : times_le v (sh_time s) → op_ok s (rv_hash_delete s v f).
Proof.
  intros [Hv1 Hv2]. unfold op_ok, rv_hash_delete.
  destruct (rv_crdt v) as [| | | | |h] eqn:Hc; simpl; try (intros Ho; by fin).
  destruct (h !! f) eqn:Hf; simpl; intros Ho.
  - destruct (tick_spec s Ho) as (Htime & Hovf & Hrid & Hkeys & _).
    split_and!; auto; try lia.
    split; simpl; [lia|].
    apply map_Forall_insert_2; simpl; [lia|].
    eapply map_Forall_impl; [exact Hv2|]. simpl. intros. lia.
  - by fin.
Qed.

Lemma hash_set_all_ok fs : ∀ s v, times_le v (sh_time s) → op_ok s (hash_set_all s v fs).
Proof.
  induction fs as [|[f x] fs IH]; intros s v Hv; cbn [hash_set_all].
  - intros Ho. simpl in *. by fin.
  - pose proof (rv_hash_set_ok s v f x Hv) as H1.
    pose proof (hash_set_all_ovf fs (rv_hash_set s v f x).1 (rv_hash_set s v f x).2) as Hst.
    destruct (rv_hash_set s v f x) as [s1 v1] eqn:E1. simpl in Hst. intros Ho.
    assert (Ho1 : sh_ovf s1 = false).
    { apply not_ovf_before. intros Ex. rewrite (Hst Ex) in Ho. discriminate. }
    destruct (H1 Ho1) as (A1 & A2 & A3 & A4 & A5). simpl in *.
    destruct (IH s1 v1 A5 Ho) as (B1 & B2 & B3 & B4 & B5).
    split_and!; auto; try lia; congruence.
Qed.

Lemma hash_delete_all_ok fs : ∀ s v, times_le v (sh_time s) → op_ok s (hash_delete_all s v fs).
Proof.
  induction fs as [|f fs IH]; intros s v Hv; cbn [hash_delete_all].
  - intros Ho. simpl in *. by fin.
  - pose proof (rv_hash_delete_ok s v f Hv) as H1.
    destruct (rv_hash_delete s v f) as [s1 v1] eqn:E1. intros Ho.
    assert (Ho1 : sh_ovf s1 = false).
    { destruct (sh_ovf s1) eqn:Ex; [|done].
      pose proof (hash_delete_all_ovf fs s1 v1 Ex). congruence. }
    destruct (H1 Ho1) as (A1 & A2 & A3 & A4 & A5). simpl in *.
    destruct (IH s1 v1 A5 Ho) as (B1 & B2 & B3 & B4 & B5).
    split_and!; auto; try lia; congruence.
Qed.

Lemma times_le_with_exp v e t : times_le v t → times_le (with_exp v e) t.
Proof. intros [H1 H2]. split; done. Qed.

Lemma times_le_new rid t : times_le (rv_new rid) t.
Proof. split; simpl; lia. Qed.

Lemma rv_set_issue s v val :
  sh_ovf (rv_set s v val).1 = false →
  rv_ts (rv_set s v val).2 = now (rv_set s v val).1 ∧ sh_time s < sh_time (rv_set s v val).1.
Proof.
  unfold rv_set. cbn [fst snd]. intros Ho.
  assert (Ht : sh_ovf (tick s) = false) by (destruct (sh_causal (tick s)); simpl in Ho; auto).
  destruct (tick_spec s Ht) as (Htime & _ & Hrid & _).
  destruct (sh_causal (tick s)); cbn [rv_ts]; unfold now; simpl; split; try done; lia.
Qed.

Lemma hash_set_all_issue fs : ∀ s v, fs ≠ [] →
  sh_ovf (hash_set_all s v fs).1 = false →
  rv_ts (hash_set_all s v fs).2 = now (hash_set_all s v fs).1 ∧
  sh_time s < sh_time (hash_set_all s v fs).1.
Proof.
  induction fs as [|[f x] fs IH]; intros s v Hne Ho; [done|].
  cbn [hash_set_all] in *. unfold rv_hash_set in *. cbn [fst snd] in *.
  destruct fs as [|p fs'].
  - cbn [hash_set_all fst snd] in *. destruct (tick_spec s Ho) as (Ht & _). split; [done|lia].
  - set (v1 := RV _ _ _ _ _) in *.
    destruct (IH (tick s) v1 ltac:(done) Ho) as [A B]. split; [done|].
    assert (Hts : sh_ovf (tick s) = false).
    { apply not_ovf_before. intros Ex. rewrite (hash_set_all_ovf _ _ v1 Ex) in Ho. discriminate. }
    destruct (tick_spec s Hts) as (Ht & _). lia.
Qed.

Lemma hash_delete_all_outer fs : ∀ s v, fs ≠ [] →
  rv_ts (hash_delete_all s v fs).2 = now (hash_delete_all s v fs).1.
Proof.
  induction fs as [|f fs IH]; intros s v Hne; [done|].
  cbn [hash_delete_all]. destruct (rv_hash_delete s v f) as [s1 v1] eqn:E.
  destruct fs as [|f' fs'].
  - cbn [hash_delete_all fst snd]. unfold rv_hash_delete in E.
    destruct (rv_crdt v); try (injection E as <- <-; done).
    destruct (_ !! f); injection E as <- <-; done.
  - by apply IH.
Qed.

Arguments rv_set : simpl never.
Arguments rv_delete : simpl never.
Arguments rv_hash_set : simpl never.
Arguments rv_hash_delete : simpl never.
Arguments hash_set_all : simpl never.
Arguments hash_delete_all : simpl never.
Arguments tick : simpl never.
Arguments clock_update : simpl never.
Arguments put : simpl never.

(* ---------- one step ---------- *)
Lemma put_fields s k v :
  sh_time (put s k v) = sh_time s ∧ sh_ovf (put s k v) = sh_ovf s ∧ sh_rid (put s k v) = sh_rid s.
Proof. done. Qed.

Lemma step_ok s e s1 od :
  step s e = (s1, od) → Inv s → wf_event e → sh_ovf s1 = false →
  Inv s1 ∧ sh_ovf s = false ∧ sh_time s ≤ sh_time s1 ∧ sh_rid s1 = sh_rid s ∧
  (∀ v, ev_input e = Some v → times_le v (sh_time s1)) ∧
  (∀ d, od = Some d → times_le d (sh_time s1)).
Proof.
  intros Hstep HI Hwf Ho. destruct e as [k val exp|k|k fs|k fs|k v|k v]; cbn [step] in Hstep.
  - (* EWrite *)
    set (v0 := default (rv_new (sh_rid s)) (sh_keys s !! k)) in *.
    pose proof (rv_set_ok s v0 val) as Hok.
    destruct (rv_set s v0 val) as [s' v1] eqn:E. injection Hstep as <- <-.
    destruct (Hok Ho) as (A1 & A2 & A3 & A4 & A5). simpl in *.
    assert (HI' : Inv s') by (eapply Inv_time; eauto).
    split_and!; auto.
    + apply Inv_put; [done|]. by apply times_le_with_exp.
    + intros ? [=].
    + intros d [= <-]. by apply times_le_with_exp.
  - (* EDelete *)
    destruct (sh_keys s !! k) as [v0|] eqn:Hk.
    + pose proof (rv_delete_ok s v0 (HI k v0 Hk)) as Hok.
      destruct (rv_delete s v0) as [s' v1] eqn:E. injection Hstep as <- <-.
      destruct (Hok Ho) as (A1 & A2 & A3 & A4 & A5). simpl in *.
      assert (HI' : Inv s') by (eapply Inv_time; eauto).
      split_and!; auto.
      * by apply Inv_put.
      * intros ? [=].
      * by intros d [= <-].
    + injection Hstep as <- <-. split_and!; auto; try lia; intros ? [=].
  - (* EHSet *)
    set (v0 := match sh_keys s !! k with Some v => v | None => RV (CHash ∅) None None (Stamp 0 (sh_rid s)) None end) in *.
    assert (Hv0 : times_le v0 (sh_time s)).
    { unfold v0. destruct (sh_keys s !! k) eqn:Hk; [by apply (HI k)|].
      split; simpl; [lia|apply map_Forall_empty]. }
    pose proof (hash_set_all_ok fs s v0 Hv0) as Hok.
    destruct (hash_set_all s v0 fs) as [s' v1] eqn:E. injection Hstep as <- <-.
    destruct (Hok Ho) as (A1 & A2 & A3 & A4 & A5). simpl in *.
    assert (HI' : Inv s') by (eapply Inv_time; eauto).
    split_and!; auto.
    + by apply Inv_put.
    + intros ? [=].
    + by intros d [= <-].
  - (* EHDel *)
    destruct (sh_keys s !! k) as [v0|] eqn:Hk.
    2:{ injection Hstep as <- <-. split_and!; auto; try lia; intros ? [=]. }
    destruct (rv_crdt v0) eqn:Hc;
      try (injection Hstep as <- <-; split_and!; auto; try lia; intros ? [=]).
    pose proof (hash_delete_all_ok fs s v0 (HI k v0 Hk)) as Hok.
    destruct (hash_delete_all s v0 fs) as [s' v1] eqn:E. injection Hstep as <- <-.
    destruct (Hok Ho) as (A1 & A2 & A3 & A4 & A5). simpl in *.
    assert (HI' : Inv s') by (eapply Inv_time; eauto).
    split_and!; auto.
    + by apply Inv_put.
    + intros ? [=].
    + by intros d [= <-].
  - (* ERemote *)
    injection Hstep as <- <-. simpl in Ho.
    destruct (clock_update_spec s (rv_ts v) Ho) as (Ht & Hov & Hr & Hk).
    assert (HI' : Inv (clock_update s (rv_ts v))) by (eapply Inv_time; eauto; lia).
    assert (Hv : times_le v (sh_time (clock_update s (rv_ts v)))).
    { eapply times_le_mono; [|exact Hwf]. lia. }
    split_and!; auto; try (simpl; lia).
    + apply Inv_put; [done|]. destruct (sh_keys _ !! k) eqn:Hl; [|done].
      apply rv_merge_times_le; [by apply (HI' k)|done].
    + intros v' [= <-]. done.
    + intros ? [=].
  - (* ERecover *)
    injection Hstep as <- <-. simpl in Ho.
    destruct (clock_update_spec s (rv_ts v) Ho) as (Ht & Hov & Hr & Hk).
    assert (HI' : Inv (clock_update s (rv_ts v))) by (eapply Inv_time; eauto; lia).
    assert (Hv : times_le v (sh_time (clock_update s (rv_ts v)))).
    { eapply times_le_mono; [|exact Hwf]. lia. }
    split_and!; auto; try (simpl; lia).
    + by apply Inv_put.
    + intros v' [= <-]. done.
    + intros ? [=].
Qed.

(* a write event issues the freshly ticked clock, strictly above the previous clock *)
Lemma step_issue s e s1 d :
  step s e = (s1, Some d) → is_write e = true → sh_ovf s1 = false →
  rv_ts d = now s1 ∧ sh_time s < sh_time s1.
Proof.
  intros Hstep Hw Ho. destruct e as [k val exp|k|k fs|k fs|k v|k v]; try discriminate Hw; cbn [step] in Hstep.
  - set (v0 := default _ _) in *. pose proof (rv_set_issue s v0 val) as H.
    destruct (rv_set s v0 val) as [s' v1]. injection Hstep as <- <-. cbn [fst snd] in H.
    apply H. exact Ho.
  - set (v0 := match sh_keys s !! k with Some v => v | None => _ end) in *.
    pose proof (hash_set_all_issue fs s v0) as H.
    destruct (hash_set_all s v0 fs) as [s' v1]. injection Hstep as <- <-. cbn [fst snd] in H.
    apply H; [|exact Ho]. destruct fs; [discriminate Hw|done].
Qed.

(* ---------- runs ---------- *)
Lemma run_app s evs1 evs2 :
  run s (evs1 ++ evs2) =
  let '(s1, d1) := run s evs1 in let '(s2, d2) := run s1 evs2 in (s2, d1 ++ d2).
Proof.
  revert s. induction evs1 as [|e evs1 IH]; intros s; simpl.
  - by destruct (run s evs2).
  - destruct (step s e) as [s1 od]. rewrite IH.
    destruct (run s1 evs1) as [s2 d1]. destruct (run s2 evs2) as [s3 d2]. by destruct od.
Qed.

Lemma run_ok evs : ∀ s s' ds,
  run s evs = (s', ds) → Inv s → Forall wf_event evs → sh_ovf s' = false →
  Inv s' ∧ sh_ovf s = false ∧ sh_time s ≤ sh_time s' ∧ sh_rid s' = sh_rid s ∧
  (∀ x, In x (inputs evs ++ ds) → times_le x (sh_time s')).
Proof.
  induction evs as [|e evs IH]; intros s s' ds Hrun HI Hwf Ho; simpl in Hrun.
  - injection Hrun as <- <-. split_and!; auto; try lia. intros x [].
  - destruct (step s e) as [s1 od] eqn:Hs. destruct (run s1 evs) as [s2 ds2] eqn:Hr.
    injection Hrun as <- <-. inversion Hwf as [|? ? Hwe Hwr]; subst.
    assert (Ho1 : sh_ovf s1 = false).
    { apply not_ovf_before. intros Ex. pose proof (run_ovf evs s1 Ex) as Q.
      rewrite Hr in Q. simpl in Q. congruence. }
    destruct (step_ok s e s1 od Hs HI Hwe Ho1) as (A1 & A2 & A3 & A4 & A5 & A6).
    destruct (IH s1 s2 ds2 Hr A1 Hwr Ho) as (B1 & B2 & B3 & B4 & B5).
    split_and!; auto; try lia; try congruence.
    intros x Hx. unfold inputs in Hx. simpl in Hx.
    assert (Hcases : (ev_input e = Some x ∨ od = Some x) ∨ In x (inputs evs ++ ds2)).
    { apply in_app_or in Hx as [Hx|Hx].
      - destruct (ev_input e) eqn:Ei; simpl in Hx.
        + destruct Hx as [->|Hx]; [by left; left|]. right. apply in_or_app. by left.
        + right. apply in_or_app. by left.
      - destruct od; simpl in Hx.
        + destruct Hx as [->|Hx]; [by left; right|]. right. apply in_or_app. by right.
        + right. apply in_or_app. by right. }
    destruct Hcases as [[H|H]|H].
    + eapply times_le_mono; [exact B3|]. by apply A5.
    + eapply times_le_mono; [exact B3|]. by apply A6.
    + by apply B5.
Qed.

(* C08 main theorem: a locally issued stamp is strictly above every stamp the
   incarnation has seen (received, recovered, or issued earlier). *)
Theorem issued_above_seen_lemma rid causal pre e s ds s1 d :
  run (shard_init rid causal) pre = (s, ds) →
  Forall wf_event pre →
  step s e = (s1, Some d) → is_write e = true → sh_ovf s1 = false →
  st_rid (rv_ts d) = rid ∧
  ∀ x, In x (inputs pre ++ ds) → ∃ b, times_le x b ∧ b < st_time (rv_ts d).
Proof.
  intros Hrun Hwf Hstep Hw Ho.
  destruct (step_issue s e s1 d Hstep Hw Ho) as [Hts Hlt].
  assert (Hos : sh_ovf s = false).
  { apply not_ovf_before. intros Ex. pose proof (step_ovf s e Ex) as Q.
    rewrite Hstep in Q. simpl in Q. congruence. }
  destruct (run_ok pre _ _ _ Hrun (Inv_init rid causal) Hwf Hos) as (HI & _ & _ & Hrid & Hseen).
  split.
  - rewrite Hts. simpl.
    assert (H : sh_rid s1 = sh_rid s).
    { assert (Hwe : wf_event e) by (destruct e; try discriminate Hw; exact I).
      destruct (step_ok s e s1 _ Hstep HI Hwe Ho) as (_ & _ & _ & R & _). exact R. }
    rewrite H, Hrid. done.
  - intros x Hx. exists (sh_time s). split; [by apply Hseen|]. rewrite Hts. simpl. exact Hlt.
Qed.

(* stamps issued by one incarnation strictly increase *)
Lemma stamp_lt_of_time a b : st_time a < st_time b → stamp_ltb a b = true.
Proof. intros H. apply stamp_ltb_spec. by left. Qed.

(* A fresh write supersedes every value built from stamps the node has seen:
   merged in either order, the read returns the new value. *)
Theorem write_supersedes_lemma s k val exp s1 d x :
  step s (EWrite k val exp) = (s1, Some d) → sh_ovf s1 = false →
  times_le x (sh_time s) →
  rv_get (rv_merge x d) = Some val ∧ rv_get (rv_merge d x) = Some val ∧
  rv_ts (rv_merge x d) = rv_ts d ∧ rv_ts (rv_merge d x) = rv_ts d.
Proof.
  intros Hstep Ho [Hx1 Hx2].
  destruct (step_issue s _ s1 d Hstep eq_refl Ho) as [Hts Hlt].
  cbn [step] in Hstep. unfold rv_set in Hstep. injection Hstep as Hs1 Hd.
  assert (Hcr : rv_crdt d = CLww (Lww (Some val) (rv_ts d) false)).
  { rewrite <- Hd. simpl. done. }
  assert (Hlt' : st_time (rv_ts x) < st_time (rv_ts d)) by (rewrite Hts; simpl; lia).
  assert (L1 : stamp_ltb (rv_ts x) (rv_ts d) = true) by (by apply stamp_lt_of_time).
  assert (L2 : stamp_ltb (rv_ts d) (rv_ts x) = false) by (by apply stamp_ltb_asym).
  unfold rv_get, rv_merge, merge_with_ts, stamp_merge; simpl. rewrite L1, L2, Hcr.
  destruct (rv_crdt x) as [r| | | | |h] eqn:Hc; simpl; try done.
  simpl in Hx2. unfold lww_merge; simpl.
  assert (M1 : stamp_ltb (lw_ts r) (rv_ts d) = true).
  { apply stamp_lt_of_time. rewrite Hts; simpl. lia. }
  rewrite M1, (stamp_ltb_asym _ _ M1). done.
Qed.

(* Across a restart: if what the first incarnation issued was durable (every issued stamp
   is dominated by some recovered value), every stamp issued after recovery is greater than
   every stamp issued before the crash. *)
Theorem no_repeat_across_restart_lemma rid causal evs1 s1 ds1 rec evs2 e s2 ds2 s3 d :
  run (shard_init rid causal) evs1 = (s1, ds1) →
  run (shard_init rid causal) (rec ++ evs2) = (s2, ds2) →
  Forall wf_event (rec ++ evs2) →
  (∀ d1, In d1 ds1 → ∃ r, In r (inputs rec) ∧ st_time (rv_ts d1) ≤ st_time (rv_ts r)) →
  step s2 e = (s3, Some d) → is_write e = true → sh_ovf s3 = false →
  ∀ d1, In d1 ds1 → stamp_ltb (rv_ts d1) (rv_ts d) = true.
Proof.
  intros _ Hrun2 Hwf Hdur Hstep Hw Ho d1 Hd1.
  destruct (Hdur d1 Hd1) as (r & Hr & Hle).
  destruct (issued_above_seen_lemma rid causal (rec ++ evs2) e s2 ds2 s3 d Hrun2 Hwf Hstep Hw Ho) as [_ Hseen].
  destruct (Hseen r) as (b & [Hb _] & Hlt).
  { apply in_or_app. left. unfold inputs in *. rewrite omap_app. apply in_or_app. by left. }
  apply stamp_lt_of_time. lia.
Qed.

(* emitted deltas and stored values are well formed: inner stamps <= outer stamp.
   (closed-system argument: replicas fed only well-formed values emit only well-formed values) *)
Lemma tick_after_le s : sh_ovf (tick s) = false → sh_time s ≤ sh_time (tick s).
Proof. intros H. destruct (tick_spec s H) as (-> & _). lia. Qed.

(* ---------- closed system: stored and emitted values are well formed ---------- *)
Definition WfInv (s : shard) : Prop := ∀ k v, sh_keys s !! k = Some v → wf_value v.

Lemma wf_of_now v s : times_le v (sh_time s) → st_time (rv_ts v) = sh_time s → wf_value v.
Proof. intros H E. unfold wf_value. by rewrite E. Qed.

Lemma stamp_merge_time a b : st_time (stamp_merge a b) = N.max (st_time a) (st_time b).
Proof.
  unfold stamp_merge. destruct (stamp_ltb a b) eqn:E.
  - apply stamp_ltb_spec in E. lia.
  - apply not_true_iff_false in E. rewrite stamp_ltb_spec in E. lia.
Qed.

Lemma rv_merge_wf a b : wf_value a → wf_value b → wf_value (rv_merge a b).
Proof.
  intros Ha Hb. unfold wf_value.
  assert (E : st_time (rv_ts (rv_merge a b)) = N.max (st_time (rv_ts a)) (st_time (rv_ts b)))
    by apply stamp_merge_time.
  rewrite E. apply rv_merge_times_le; (eapply times_le_mono; [|eassumption]); lia.
Qed.

Lemma WfInv_put s k v : WfInv s → wf_value v → WfInv (put s k v).
Proof.
  intros HI Hv k' v'. unfold put, set_keys; simpl. intros H.
  destruct (decide (k = k')) as [->|Hne].
  - rewrite lookup_insert in H. by injection H as <-.
  - rewrite lookup_insert_ne in H by done. by apply (HI k').
Qed.
Lemma WfInv_keys s s' : WfInv s → sh_keys s' = sh_keys s → WfInv s'.
Proof. intros HI Hk k v H. rewrite Hk in H. by apply (HI k). Qed.

Lemma step_wf s e s1 od :
  step s e = (s1, od) → Inv s → WfInv s → wf_event e → sh_ovf s1 = false →
  WfInv s1 ∧ (∀ d, od = Some d → wf_value d).
Proof.
  intros Hstep HI HW Hwf Ho.
  destruct (step_ok s e s1 od Hstep HI Hwf Ho) as (HI1 & Hos & Ht & Hr & Hin & Hout).
  destruct e as [k val exp|k|k fs|k fs|k v|k v]; cbn [step] in Hstep.
  - set (v0 := default _ _) in *. pose proof (rv_set_issue s v0 val) as Hiss.
    pose proof (rv_set_ok s v0 val) as Hok.
    destruct (rv_set s v0 val) as [s' v1]. injection Hstep as <- <-. cbn [fst snd] in *.
    destruct (Hiss Ho) as [E _]. destruct (Hok Ho) as (_ & _ & Hk & _ & Hle).
    assert (wf_value (with_exp v1 exp)).
    { unfold wf_value. cbn [with_exp rv_ts]. apply times_le_with_exp. change (wf_value v1).
      eapply wf_of_now; [exact Hle|]. rewrite E. done. }
    split; [|by intros d [= <-]].
    apply WfInv_put; [|done]. eapply WfInv_keys; eauto.
  - destruct (sh_keys s !! k) as [v0|] eqn:Hk.
    2:{ injection Hstep as <- <-. split; [done|intros ? [=]]. }
    pose proof (rv_delete_ok s v0 (HI k v0 Hk)) as Hok.
    assert (Hcase : rv_ts (rv_delete s v0).2 = now (rv_delete s v0).1 ∨ (rv_delete s v0).2 = v0).
    { unfold rv_delete. destruct (rv_crdt v0); simpl; auto. }
    destruct (rv_delete s v0) as [s' v1]. injection Hstep as <- <-. cbn [fst snd] in *.
    destruct (Hok Ho) as (_ & _ & Hkk & _ & Hle).
    assert (wf_value v1).
    { destruct Hcase as [E| ->]; [|by apply (HW k)]. eapply wf_of_now; [exact Hle|]. by rewrite E. }
    split; [|by intros d [= <-]].
    apply WfInv_put; [|done]. eapply WfInv_keys; eauto.
  - set (v0 := match sh_keys s !! k with Some v => v | None => _ end) in *.
    assert (Hv0 : times_le v0 (sh_time s) ∧ wf_value v0).
    { unfold v0. destruct (sh_keys s !! k) eqn:Hk; [split; [by apply (HI k)|by apply (HW k)]|].
      split; (split; simpl; [lia|apply map_Forall_empty]). }
    pose proof (hash_set_all_ok fs s v0 (proj1 Hv0)) as Hok.
    pose proof (hash_set_all_issue fs s v0) as Hiss.
    assert (Hnil : fs = [] → hash_set_all s v0 fs = (s, v0)) by (intros ->; done).
    destruct (hash_set_all s v0 fs) as [s' v1]. injection Hstep as <- <-. cbn [fst snd] in *.
    destruct (Hok Ho) as (_ & _ & Hkk & _ & Hle).
    assert (wf_value v1).
    { destruct fs as [|p fs']; [injection (Hnil eq_refl) as _ ->; apply Hv0|].
      destruct (Hiss ltac:(done) Ho) as [E _]. eapply wf_of_now; [exact Hle|]. by rewrite E. }
    split; [|by intros d [= <-]].
    apply WfInv_put; [|done]. eapply WfInv_keys; eauto.
  - destruct (sh_keys s !! k) as [v0|] eqn:Hk.
    2:{ injection Hstep as <- <-. split; [done|intros ? [=]]. }
    destruct (rv_crdt v0) eqn:Hc; try (injection Hstep as <- <-; split; [done|intros ? [=]]).
    pose proof (hash_delete_all_ok fs s v0 (HI k v0 Hk)) as Hok.
    pose proof (hash_delete_all_outer fs s v0) as Hiss.
    assert (Hnil : fs = [] → hash_delete_all s v0 fs = (s, v0)) by (intros ->; done).
    destruct (hash_delete_all s v0 fs) as [s' v1]. injection Hstep as <- <-. cbn [fst snd] in *.
    destruct (Hok Ho) as (_ & _ & Hkk & _ & Hle).
    assert (wf_value v1).
    { destruct fs as [|p fs']; [injection (Hnil eq_refl) as _ ->; by apply (HW k)|].
      eapply wf_of_now; [exact Hle|]. by rewrite (Hiss ltac:(done)). }
    split; [|by intros d [= <-]].
    apply WfInv_put; [|done]. eapply WfInv_keys; eauto.
  - injection Hstep as <- <-. split; [|intros ? [=]].
    cbn [sh_ovf put set_keys] in Ho. destruct (clock_update_spec s (rv_ts v) Ho) as (_ & _ & _ & Hk).
    assert (HW' : WfInv (clock_update s (rv_ts v))) by (eapply WfInv_keys; eauto).
    apply WfInv_put; [done|]. destruct (sh_keys _ !! k) eqn:Hl; [|exact Hwf].
    apply rv_merge_wf; [by apply (HW' k)|exact Hwf].
  - injection Hstep as <- <-. split; [|intros ? [=]].
    cbn [sh_ovf put set_keys] in Ho. destruct (clock_update_spec s (rv_ts v) Ho) as (_ & _ & _ & Hk).
    apply WfInv_put; [eapply WfInv_keys; eauto|exact Hwf].
Qed.

Lemma run_wf evs : ∀ s s' ds,
  run s evs = (s', ds) → Inv s → WfInv s → Forall wf_event evs → sh_ovf s' = false →
  WfInv s' ∧ Forall wf_value ds.
Proof.
  induction evs as [|e evs IH]; intros s s' ds Hrun HI HW Hwf Ho; simpl in Hrun.
  - injection Hrun as <- <-. split; [done|constructor].
  - destruct (step s e) as [s1 od] eqn:Hs. destruct (run s1 evs) as [s2 ds2] eqn:Hr.
    injection Hrun as <- <-. inversion Hwf as [|? ? Hwe Hwr]; subst.
    assert (Ho1 : sh_ovf s1 = false).
    { apply not_ovf_before. intros Ex. pose proof (run_ovf evs s1 Ex) as Q.
      rewrite Hr in Q. simpl in Q. congruence. }
    destruct (step_ok s e s1 od Hs HI Hwe Ho1) as (HI1 & _).
    destruct (step_wf s e s1 od Hs HI HW Hwe Ho1) as (HW1 & Hd).
    destruct (IH s1 s2 ds2 Hr HI1 HW1 Hwr Ho) as (HW2 & Hds).
    split; [done|]. destruct od; [constructor; auto|done].
Qed.

Lemma WfInv_init rid c : WfInv (shard_init rid c).
Proof. intros k v H. unfold shard_init in H; simpl in H. by rewrite lookup_empty in H. Qed.

(* Overflow witness (known finding C08-clock-overflow): a received stamp with time 2^64-1 *)
Definition ovf_event : event :=
  ERemote [107] (RV (CLww (Lww (Some [1]) (Stamp U64MAX 2) false)) None None (Stamp U64MAX 2) None).
Lemma overflow_witness :
  wf_event ovf_event ∧
  let '(s, ds) := run (shard_init 1 false) [ovf_event; EWrite [107] [2] None] in
  sh_ovf s = true ∧ ∃ d, ds = [d] ∧ stamp_ltb (rv_ts d) (Stamp U64MAX 2) = true.
Proof.
  split.
  - split; cbn [rv_ts st_time ovf_event ev_input rv_crdt crdt_times_le lw_ts]; lia.
  - destruct (run (shard_init 1 false) [ovf_event; EWrite [107] [2] None]) as [s ds] eqn:E.
    assert (Hc : (let r := run (shard_init 1 false) [ovf_event; EWrite [107] [2] None] in
                  (sh_ovf r.1, map rv_ts r.2)) = (true, [Stamp 1 1])) by (vm_compute; reflexivity).
    rewrite E in Hc. cbn [fst snd] in Hc.
    assert (H : sh_ovf s = true ∧ map rv_ts ds = [Stamp 1 1]) by (by injection Hc).
    destruct H as [H1 H2]. split; [done|].
    destruct ds as [|d [|d' ds']]; try discriminate H2. exists d. split; [done|].
    injection H2 as ->. vm_compute. reflexivity.
Qed.

(* Non-vacuity: a run with remote, recovered and local events that does not overflow *)
Definition ex_evs : list event :=
  [ERecover [107] (RV (CLww (Lww (Some [1]) (Stamp 10 1) false)) None None (Stamp 10 1) None);
   ERemote [107] (RV (CLww (Lww (Some [2]) (Stamp 7 2) false)) None None (Stamp 7 2) None)].
Lemma ex_run_ok :
  Forall wf_event ex_evs ∧
  let '(s, _) := run (shard_init 1 false) ex_evs in
  ∃ s1 d, step s (EWrite [107] [3] None) = (s1, Some d) ∧ sh_ovf s1 = false ∧ rv_ts d = Stamp 13 1.
Proof.
  split.
  - repeat constructor; cbn [rv_ts st_time ev_input rv_crdt crdt_times_le lw_ts]; lia.
  - destruct (run (shard_init 1 false) ex_evs) as [s ds] eqn:E.
    destruct (step s (EWrite [107] [3] None)) as [s1 od] eqn:E1.
    assert (H : (let r := step (run (shard_init 1 false) ex_evs).1 (EWrite [107] [3] None) in
                 (sh_ovf r.1, option_map rv_ts r.2)) = (false, Some (Stamp 13 1))) by (vm_compute; reflexivity).
    rewrite E in H. cbn [fst snd] in H. rewrite E1 in H. cbn [fst snd] in H.
    injection H as H1 H2. destruct od as [d|]; [|discriminate H2]. injection H2 as H2.
    exists s1, d. done.
Qed.

(* Lemmas for C20: the repaired gossip round does not depend on the order in which the
   routing table (a HashMap) is iterated; the round before the repair does. *)
From Coq Require Import List NArith Bool Permutation Sorted Lia.
From RV Require Import Model.SimKernel.
Import ListNotations.
Local Open Scope N_scope.

(* ------------------------------------------------------------------------------------ *)
(* General facts the argument rests on                                                   *)
(* ------------------------------------------------------------------------------------ *)

(* folding the same step over the same list from the same state: steps need only agree on
   the elements of the list *)
Lemma fold_left_ext_in : forall (A B : Type) (f g : A -> B -> A) (l : list B) (a : A),
  (forall a x, In x l -> f a x = g a x) -> fold_left f l a = fold_left g l a.
Proof.
  intros A B f g l. induction l as [|x l IH]; intros a H; simpl.
  - reflexivity.
  - rewrite (H a x (or_introl eq_refl)). apply IH. intros a' y Hy. apply H. right. exact Hy.
Qed.

(* folding a step whose applications commute is invariant under permutation of the list *)
Lemma fold_left_perm_comm : forall (A B : Type) (f : A -> B -> A),
  (forall a x y, f (f a x) y = f (f a y) x) ->
  forall l1 l2, Permutation l1 l2 -> forall a, fold_left f l1 a = fold_left f l2 a.
Proof.
  intros A B f Hc l1 l2 HP. induction HP; intros a; simpl.
  - reflexivity.
  - apply IHHP.
  - rewrite Hc. reflexivity.
  - rewrite IHHP1. apply IHHP2.
Qed.

(* all / any / count over a list are invariant under permutation *)
Lemma forallb_perm : forall (A : Type) (p : A -> bool) l1 l2,
  Permutation l1 l2 -> forallb p l1 = forallb p l2.
Proof.
  intros A p l1 l2 HP. induction HP; simpl.
  - reflexivity.
  - rewrite IHHP. reflexivity.
  - destruct (p x), (p y); reflexivity.
  - rewrite IHHP1. exact IHHP2.
Qed.

Lemma existsb_perm : forall (A : Type) (p : A -> bool) l1 l2,
  Permutation l1 l2 -> existsb p l1 = existsb p l2.
Proof.
  intros A p l1 l2 HP. induction HP; simpl.
  - reflexivity.
  - rewrite IHHP. reflexivity.
  - destruct (p x), (p y); reflexivity.
  - rewrite IHHP1. exact IHHP2.
Qed.

Lemma count_perm : forall (A : Type) (p : A -> bool) l1 l2,
  Permutation l1 l2 -> length (filter p l1) = length (filter p l2).
Proof.
  intros A p l1 l2 HP. induction HP; simpl.
  - reflexivity.
  - destruct (p x); simpl; rewrite IHHP; reflexivity.
  - destruct (p x), (p y); reflexivity.
  - rewrite IHHP1. exact IHHP2.
Qed.

(* ------------------------------------------------------------------------------------ *)
(* Sorting the entries of a table by target                                              *)
(* ------------------------------------------------------------------------------------ *)
Section Sorting.
  Variable D : Type.
  Notation entry := (N * list D)%type.

  Definition key_lt (a b : entry) : Prop := fst a < fst b.
  Definition key_le (a b : entry) : Prop := fst a <= fst b.

  Lemma insert_perm : forall (e : entry) l, Permutation (insert_by_target D e l) (e :: l).
  Proof.
    intros e l. induction l as [|x r IH]; simpl.
    - apply Permutation_refl.
    - destruct (fst e <=? fst x).
      + apply Permutation_refl.
      + eapply Permutation_trans.
        * apply perm_skip. exact IH.
        * apply perm_swap.
  Qed.

  Lemma sort_perm : forall l : list entry, Permutation (sort_by_target D l) l.
  Proof.
    induction l as [|e l IH]; simpl.
    - apply Permutation_refl.
    - eapply Permutation_trans.
      + apply insert_perm.
      + apply perm_skip. exact IH.
  Qed.

  Lemma insert_sorted : forall (e : entry) l,
    StronglySorted key_le l -> StronglySorted key_le (insert_by_target D e l).
  Proof.
    intros e l H. induction H as [|x r Hr IH Hx]; simpl.
    - constructor; constructor.
    - destruct (fst e <=? fst x) eqn:E.
      + apply N.leb_le in E. constructor.
        * constructor; assumption.
        * constructor.
          -- exact E.
          -- rewrite Forall_forall in Hx |- *. intros y Hy. unfold key_le in *.
             specialize (Hx y Hy). lia.
      + apply N.leb_gt in E. constructor.
        * exact IH.
        * rewrite Forall_forall in Hx |- *. intros y Hy.
          apply (Permutation_in _ (insert_perm e r)) in Hy. destruct Hy as [<-|Hy].
          -- unfold key_le. lia.
          -- apply Hx. exact Hy.
  Qed.

  Lemma sort_sorted : forall l : list entry, StronglySorted key_le (sort_by_target D l).
  Proof.
    induction l as [|e l IH]; simpl.
    - constructor.
    - apply insert_sorted. exact IH.
  Qed.

  (* with distinct keys, sorted by <= is sorted by < *)
  Lemma sorted_le_nodup_lt : forall l : list entry,
    StronglySorted key_le l -> NoDup (map fst l) -> StronglySorted key_lt l.
  Proof.
    intros l H. induction H as [|x r Hr IH Hx]; intros Hnd; simpl in *.
    - constructor.
    - inversion Hnd as [|? ? Hnotin Hnd']; subst. constructor.
      + apply IH. exact Hnd'.
      + rewrite Forall_forall in Hx |- *. intros y Hy. specialize (Hx y Hy).
        unfold key_le, key_lt in *.
        assert (fst x <> fst y).
        { intros Heq. apply Hnotin. rewrite Heq. apply in_map. exact Hy. }
        lia.
  Qed.

  (* a strictly sorted list is determined by its elements *)
  Lemma sorted_lt_perm_unique : forall l1 l2 : list entry,
    StronglySorted key_lt l1 -> StronglySorted key_lt l2 -> Permutation l1 l2 -> l1 = l2.
  Proof.
    induction l1 as [|a l1 IH]; intros l2 H1 H2 HP.
    - apply Permutation_nil in HP. subst. reflexivity.
    - destruct l2 as [|b l2].
      + apply Permutation_sym, Permutation_nil in HP. discriminate.
      + inversion H1 as [|? ? H1r H1a]; subst. inversion H2 as [|? ? H2r H2b]; subst.
        assert (Hab : a = b).
        { assert (Ha : In a (b :: l2)) by (apply (Permutation_in _ HP); left; reflexivity).
          assert (Hb : In b (a :: l1)) by (apply (Permutation_in _ (Permutation_sym HP)); left; reflexivity).
          destruct Ha as [Ha|Ha]; [symmetry; exact Ha|].
          destruct Hb as [Hb|Hb]; [exact Hb|].
          rewrite Forall_forall in H1a, H2b.
          specialize (H1a b Hb). specialize (H2b a Ha). unfold key_lt in *. lia. }
        subst b. f_equal. apply IH; try assumption.
        apply Permutation_cons_inv with (a := a). exact HP.
  Qed.

  (* Sorting any permutation of a list with distinct keys yields the same list. *)
  Lemma sort_perm_eq : forall l1 l2 : list entry,
    NoDup (map fst l2) -> Permutation l1 l2 -> sort_by_target D l1 = sort_by_target D l2.
  Proof.
    intros l1 l2 Hnd HP.
    assert (Hnd1 : NoDup (map fst l1)).
    { apply (Permutation_NoDup (l := map fst l2)); [|exact Hnd].
      apply Permutation_map, Permutation_sym. exact HP. }
    apply sorted_lt_perm_unique.
    - apply sorted_le_nodup_lt; [apply sort_sorted|].
      apply (Permutation_NoDup (l := map fst l1)); [|exact Hnd1].
      apply Permutation_map, Permutation_sym, sort_perm.
    - apply sorted_le_nodup_lt; [apply sort_sorted|].
      apply (Permutation_NoDup (l := map fst l2)); [|exact Hnd].
      apply Permutation_map, Permutation_sym, sort_perm.
    - eapply Permutation_trans; [apply sort_perm|].
      eapply Permutation_trans; [exact HP|]. apply Permutation_sym, sort_perm.
  Qed.
End Sorting.

(* ------------------------------------------------------------------------------------ *)
(* The kernel                                                                            *)
(* ------------------------------------------------------------------------------------ *)
Section KernelProofs.
  Variable D : Type.
  Variable NS : Type.
  Variable apply_deltas : NS -> list D -> NS.
  Variable draw : nat -> N.
  Variable lost : N -> bool.

  Notation table := (list (N * list D)).
  Notation oracle := (nat -> table -> table).

  (* whatever order the HashMap yields, it yields exactly the table's entries *)
  Definition perm_oracle (o : oracle) : Prop := forall k l, Permutation (o k l) l.

  (* a HashMap holds one entry per key *)
  Definition plan_ok (p : plan D) : Prop :=
    match p with PS tbl => NoDup (map fst tbl) | PB _ => True end.
  Definition step_ok (st : step D) : Prop :=
    match st with SRound ps => Forall plan_ok ps | _ => True end.

  (* the fold of the step over the sorted table does not see the oracle *)
  Lemma visit_sorted_oracle_indep : forall (o1 o2 : oracle) k tbl (f : sim D NS -> N * list D -> sim D NS) s,
    perm_oracle o1 -> perm_oracle o2 -> NoDup (map fst tbl) ->
    fold_left f (sort_by_target D (o1 k tbl)) s = fold_left f (sort_by_target D (o2 k tbl)) s.
  Proof.
    intros o1 o2 k tbl f s H1 H2 Hnd.
    rewrite (sort_perm_eq D (o1 k tbl) tbl Hnd (H1 k tbl)).
    rewrite (sort_perm_eq D (o2 k tbl) tbl Hnd (H2 k tbl)).
    reflexivity.
  Qed.

  Lemma sender_step_indep : forall (o1 o2 : oracle) s fp,
    perm_oracle o1 -> perm_oracle o2 -> plan_ok (snd fp) ->
    sender_step D NS draw lost true o1 s fp = sender_step D NS draw lost true o2 s fp.
  Proof.
    intros o1 o2 s [from p] H1 H2 Hok. unfold sender_step. simpl in *.
    destruct p as [ds|tbl].
    - reflexivity.
    - apply visit_sorted_oracle_indep; assumption.
  Qed.

  Lemma in_index_plans : forall (ps : list (plan D)) fp,
    In fp (index_plans D ps) -> In (snd fp) ps.
  Proof.
    intros ps [i p] H. unfold index_plans in H. apply in_combine_r in H. exact H.
  Qed.

  Lemma gossip_round_indep : forall (o1 o2 : oracle) s plans,
    perm_oracle o1 -> perm_oracle o2 -> Forall plan_ok plans ->
    gossip_round D NS apply_deltas draw lost true o1 s plans =
    gossip_round D NS apply_deltas draw lost true o2 s plans.
  Proof.
    intros o1 o2 s plans H1 H2 Hok. unfold gossip_round. f_equal.
    apply fold_left_ext_in. intros a fp Hin. apply sender_step_indep; try assumption.
    rewrite Forall_forall in Hok. apply Hok. apply in_index_plans. exact Hin.
  Qed.

  Lemma do_step_indep : forall (o1 o2 : oracle) s st,
    perm_oracle o1 -> perm_oracle o2 -> step_ok st ->
    do_step D NS apply_deltas draw lost true o1 s st = do_step D NS apply_deltas draw lost true o2 s st.
  Proof.
    intros o1 o2 s st H1 H2 Hok. destruct st; simpl; try reflexivity.
    apply gossip_round_indep; assumption.
  Qed.

  (* the repaired kernel: any two iteration orders give the same run *)
  Lemma run_oracle_independent : forall (o1 o2 : oracle) steps s,
    perm_oracle o1 -> perm_oracle o2 -> Forall step_ok steps ->
    run D NS apply_deltas draw lost true o1 s steps = run D NS apply_deltas draw lost true o2 s steps.
  Proof.
    intros o1 o2 steps s H1 H2 Hok. unfold run. apply fold_left_ext_in.
    intros a st Hin. apply do_step_indep; try assumption.
    rewrite Forall_forall in Hok. apply Hok. exact Hin.
  Qed.

  (* ... and it is the run that visits every table in ascending target order *)
  Definition id_oracle : oracle := fun _ l => l.
  Lemma id_oracle_perm : perm_oracle id_oracle.
  Proof. intros k l. apply Permutation_refl. Qed.

  Lemma run_canonical : forall (o : oracle) steps s,
    perm_oracle o -> Forall step_ok steps ->
    run D NS apply_deltas draw lost true o s steps = run D NS apply_deltas draw lost true id_oracle s steps.
  Proof.
    intros o steps s H Hok. apply run_oracle_independent; try assumption. apply id_oracle_perm.
  Qed.

  (* the broadcast branch never consults the oracle, before or after the repair *)
  Definition broadcast_only (st : step D) : Prop :=
    match st with SRound ps => Forall (fun p => match p with PB _ => True | PS _ => False end) ps | _ => True end.

  Lemma run_broadcast_indep : forall fixed (o1 o2 : oracle) steps s,
    Forall broadcast_only steps ->
    run D NS apply_deltas draw lost fixed o1 s steps = run D NS apply_deltas draw lost fixed o2 s steps.
  Proof.
    intros fixed o1 o2 steps s Hok. unfold run. apply fold_left_ext_in.
    intros a st Hin. rewrite Forall_forall in Hok. specialize (Hok st Hin).
    destruct st; simpl; try reflexivity.
    unfold gossip_round. f_equal. apply fold_left_ext_in. intros a' fp Hin'.
    apply in_index_plans in Hin'. simpl in Hok. rewrite Forall_forall in Hok. specialize (Hok _ Hin').
    unfold sender_step. destruct (snd fp); [reflexivity|contradiction].
  Qed.
End KernelProofs.

(* ------------------------------------------------------------------------------------ *)
(* The loop before the repair depends on the oracle                                      *)
(* ------------------------------------------------------------------------------------ *)
(* deltas are numbers, a node logs what it was handed *)
Definition w_apply (ns : list N) (ds : list N) : list N := ns ++ ds.
(* first draw 0 (below the loss threshold 50: dropped), all later draws 100 (kept) *)
Definition w_draw (i : nat) : N := match i with O => 0 | _ => 100 end.
Definition w_lost (r : N) : bool := r <? 50.
Definition w_rev : nat -> list (N * list N) -> list (N * list N) := fun _ l => rev l.
(* node 0 routes delta 7 to replica 2 and delta 8 to replica 3; fixed delay 0 *)
Definition w_steps : list (step N) := [SRound [PS [(2, [7]); (3, [8])]; PB []; PB []]].
Definition w_init : sim N (list N) := sim_init N (list N) [[]; []; []] 0 0.

Lemma w_rev_perm : perm_oracle N w_rev.
Proof. intros k l. apply Permutation_sym, Permutation_rev. Qed.

Lemma w_steps_ok : Forall (step_ok N) w_steps.
Proof.
  repeat constructor; simpl; intros H; repeat (destruct H as [H|H]; try discriminate); exact H.
Qed.

Lemma prefix_run_id :
  s_nodes (run N (list N) w_apply w_draw w_lost false (id_oracle N) w_init w_steps) = [[]; []; [8]].
Proof. vm_compute. reflexivity. Qed.

Lemma prefix_run_rev :
  s_nodes (run N (list N) w_apply w_draw w_lost false w_rev w_init w_steps) = [[]; [7]; []].
Proof. vm_compute. reflexivity. Qed.

Lemma prefix_oracle_dependent :
  exists o1 o2 : nat -> list (N * list N) -> list (N * list N),
    perm_oracle N o1 /\ perm_oracle N o2 /\ Forall (step_ok N) w_steps /\
    run N (list N) w_apply w_draw w_lost false o1 w_init w_steps <>
    run N (list N) w_apply w_draw w_lost false o2 w_init w_steps.
Proof.
  exists (id_oracle N), w_rev. split; [apply id_oracle_perm|]. split; [apply w_rev_perm|].
  split; [apply w_steps_ok|]. intros H.
  assert (H' := f_equal (@s_nodes N (list N)) H).
  rewrite prefix_run_id, prefix_run_rev in H'. discriminate.
Qed.

(* the same scenario through the repaired loop: one outcome *)
Lemma fixed_witness_same :
  s_nodes (run N (list N) w_apply w_draw w_lost true (id_oracle N) w_init w_steps) = [[]; []; [8]] /\
  s_nodes (run N (list N) w_apply w_draw w_lost true w_rev w_init w_steps) = [[]; []; [8]].
Proof. split; vm_compute; reflexivity. Qed.

(* Decimal text of integers: what INCRBY/HINCRBY store (fmt_Z) parses back (parse_i64 = Redis's string2ll). *)
From stdpp Require Import gmap.
From Coq Require Import ZArith NArith Lia.
From RV Require Import Lib.Hex Model.Redis.
Local Open Scope Z_scope.

Lemma digits_val_app a l1 l2 :
  digits_val a (l1 ++ l2) = match digits_val a l1 with Some b => digits_val b l2 | None => None end.
Proof.
  revert a. induction l1 as [|c l1 IH]; intros a; simpl; [done|].
  destruct (is_digit c); [apply IH | done].
Qed.

Definition digit_of (n : N) : N := (48 + n mod 10)%N.
Lemma digit_of_ok n : is_digit (digit_of n) = true ∧ Z.of_N (digit_of n - 48) = Z.of_N (n mod 10).
Proof.
  unfold digit_of, is_digit.
  assert ((n mod 10 < 10)%N) by (apply N.mod_lt; discriminate).
  remember (n mod 10)%N as r. clear Heqr. split.
  - apply andb_true_iff. split; apply N.leb_le; lia.
  - f_equal. lia.
Qed.

Lemma fmt_N_aux_S f n acc :
  fmt_N_aux (S f) n acc =
  if (n <? 10)%N then (48 + n mod 10)%N :: acc else fmt_N_aux f (n / 10) ((48 + n mod 10)%N :: acc).
Proof. reflexivity. Qed.

(* the digits fmt_N_aux produces *)
Lemma fmt_N_aux_spec f : ∀ n acc, Z.of_N n < 10 ^ Z.of_nat (S f) →
  ∃ D, fmt_N_aux (S f) n acc = D ++ acc ∧
       (∀ a, digits_val a D = Some (a * 10 ^ Z.of_nat (List.length D) + Z.of_N n)) ∧
       (1 <= List.length D <= S f)%nat ∧
       (n = 0%N → D = [48%N]) ∧
       (0 < Z.of_N n → 10 ^ (Z.of_nat (List.length D) - 1) <= Z.of_N n ∧
                        match D with c :: _ => is_digit19 c = true | [] => False end).
Proof.
  induction f as [|f IH]; intros n acc Hn.
  - (* one digit *)
    assert (Z.of_N n < 10) by (simpl in Hn; lia).
    simpl. replace (n <? 10)%N with true by (symmetry; apply N.ltb_lt; lia).
    exists [digit_of n]. split; [done|].
    destruct (digit_of_ok n) as [Hd Hv].
    assert ((n mod 10 = n)%N) as Hm by (apply N.mod_small; lia).
    split; [|split; [simpl; lia | split]].
    + intros a. simpl. fold (digit_of n). rewrite Hd, Hv, Hm. f_equal. lia.
    + intros ->. done.
    + intros Hp. simpl. split; [lia|]. unfold is_digit19, digit_of. rewrite Hm.
      apply andb_true_iff. split; apply N.leb_le; lia.
  - rewrite fmt_N_aux_S. destruct (N.ltb_spec n 10) as [Hlt|Hge].
    + (* still one digit *)
      exists [digit_of n]. split; [done|].
      destruct (digit_of_ok n) as [Hd Hv].
      assert ((n mod 10 = n)%N) as Hm by (apply N.mod_small; lia).
      split; [|split; [simpl; lia | split]].
      * intros a. simpl. fold (digit_of n). rewrite Hd, Hv, Hm. f_equal. lia.
      * intros ->. done.
      * intros Hp. simpl. split; [lia|]. unfold is_digit19, digit_of. rewrite Hm.
        apply andb_true_iff. split; apply N.leb_le; lia.
    + (* n >= 10: digits of n/10, then the last digit *)
      assert (Z.of_N (n / 10) < 10 ^ Z.of_nat (S f)) as Hq.
      { rewrite N2Z.inj_div. apply Z.div_lt_upper_bound; [lia|].
        replace (Z.of_nat (S (S f))) with (Z.of_nat (S f) + 1) in Hn by lia.
        rewrite Z.pow_add_r in Hn by lia. lia. }
      destruct (IH (n / 10)%N ((48 + n mod 10)%N :: acc) Hq) as (D & HD & Hval & Hlen & _ & Hpos).
      exists (D ++ [digit_of n]). split; [rewrite HD, <- app_assoc; reflexivity|].
      destruct (digit_of_ok n) as [Hd Hv].
      assert (0 < Z.of_N (n / 10)) as Hq0.
      { rewrite N2Z.inj_div. apply Z.div_str_pos. lia. }
      destruct (Hpos Hq0) as [Hlow Hhd].
      assert (Z.of_N n = 10 * Z.of_N (n / 10) + Z.of_N (n mod 10)) as Hdm.
      { rewrite (N.div_mod n 10) at 1 by discriminate. rewrite N2Z.inj_add, N2Z.inj_mul. reflexivity. }
      split; [|split; [rewrite app_length; simpl; lia | split]].
      * intros a. rewrite digits_val_app, Hval. simpl. rewrite Hd, Hv. f_equal.
        rewrite app_length. simpl.
        replace (Z.of_nat (List.length D + 1)) with (Z.of_nat (List.length D) + 1) by lia.
        rewrite Z.pow_add_r by lia. lia.
      * intros ->. simpl in Hge. lia.
      * intros _. split.
        -- rewrite app_length. simpl.
           replace (Z.of_nat (List.length D + 1) - 1) with ((Z.of_nat (List.length D) - 1) + 1) by lia.
           rewrite Z.pow_add_r by lia.
           pose proof (N2Z.is_nonneg (n mod 10)). lia.
        -- destruct D; [done|]. done.
Qed.

Lemma pos_size_nat_gt p : Z.pos p < 2 ^ Z.of_nat (Pos.size_nat p).
Proof.
  induction p as [p IH|p IH|]; cbn [Pos.size_nat].
  - rewrite Nat2Z.inj_succ, Z.pow_succ_r by lia. lia.
  - rewrite Nat2Z.inj_succ, Z.pow_succ_r by lia. lia.
  - simpl. lia.
Qed.

Lemma fmt_N_spec n :
  ∃ D, fmt_N n = D ∧
       (∀ a, digits_val a D = Some (a * 10 ^ Z.of_nat (List.length D) + Z.of_N n)) ∧
       (1 <= List.length D)%nat ∧
       (n = 0%N → D = [48%N]) ∧
       (0 < Z.of_N n → 10 ^ (Z.of_nat (List.length D) - 1) <= Z.of_N n ∧
                        match D with c :: _ => is_digit19 c = true | [] => False end).
Proof.
  unfold fmt_N.
  assert (Z.of_N n < 10 ^ Z.of_nat (S (N.size_nat n))) as Hn.
  { destruct n as [|p]; [simpl; lia|]. simpl N.size_nat.
    pose proof (pos_size_nat_gt p).
    assert (2 ^ Z.of_nat (Pos.size_nat p) <= 10 ^ Z.of_nat (Pos.size_nat p)) by (apply Z.pow_le_mono_l; lia).
    rewrite Nat2Z.inj_succ, Z.pow_succ_r by lia.
    assert (0 < 10 ^ Z.of_nat (Pos.size_nat p)) by (apply Z.pow_pos_nonneg; lia).
    simpl Z.of_N. lia. }
  destruct (fmt_N_aux_spec (N.size_nat n) n [] Hn) as (D & HD & Hval & Hlen & Hz & Hpos).
  exists D. rewrite app_nil_r in HD. split; [done|]. split; [done|]. split; [lia|]. done.
Qed.

(* what INCRBY stores can be read back: the decimal text of an i64 parses to itself *)
Theorem parse_fmt_roundtrip_lemma : ∀ z, in_i64 z = true → parse_i64 (fmt_Z z) = Some z.
Proof.
  intros z Hz. unfold in_i64, I64MIN, I64MAX in Hz. apply andb_true_iff in Hz as [H1 H2].
  apply Z.leb_le in H1, H2. unfold fmt_Z.
  assert (∀ D : list N, 10 ^ (Z.of_nat (List.length D) - 1) <= 9223372036854775808 → (List.length D <= 19)%nat) as Hlen19.
  { intros D HD. destruct (le_lt_dec (List.length D) 19) as [|Hgt]; [done|]. exfalso.
    assert (10 ^ 19 <= 10 ^ (Z.of_nat (List.length D) - 1)) by (apply Z.pow_le_mono_r; lia).
    change (10 ^ 19) with 10000000000000000000 in *. lia. }
  destruct (Z.ltb_spec z 0) as [Hneg|Hpos].
  - (* negative *)
    destruct (fmt_N_spec (Z.to_N (- z))) as (D & -> & Hval & Hl & _ & Hp).
    rewrite Z2N.id in * by lia. destruct (Hp ltac:(lia)) as [Hlow Hhd].
    destruct D as [|d D']; [done|].
    pose proof (Hlen19 (d :: D') ltac:(lia)) as Hl19.
    unfold parse_i64.
    replace (21 <=? List.length (45%N :: d :: D'))%nat with false by (symmetry; apply Nat.leb_gt; simpl in *; lia).
    cbn [N.eqb Pos.eqb]. rewrite Hhd, Hval. simpl Z.mul. rewrite Z.add_0_l.
    unfold I64MIN. replace (- z <=? - -9223372036854775808) with true by (symmetry; apply Z.leb_le; lia).
    f_equal. lia.
  - (* zero or positive *)
    destruct (fmt_N_spec (Z.to_N z)) as (D & -> & Hval & Hl & Hzero & Hp).
    rewrite Z2N.id in * by lia.
    destruct (Z.eq_dec z 0) as [->|Hnz].
    + rewrite (Hzero eq_refl). reflexivity.
    + destruct (Hp ltac:(lia)) as [Hlow Hhd].
      destruct D as [|d D']; [done|].
      pose proof (Hlen19 (d :: D') ltac:(lia)) as Hl19.
      unfold parse_i64.
      replace (21 <=? List.length (d :: D'))%nat with false by (symmetry; apply Nat.leb_gt; simpl in *; lia).
      unfold is_digit19 in Hhd. apply andb_true_iff in Hhd as [Hd1 Hd2].
      apply N.leb_le in Hd1, Hd2.
      replace (d =? 48)%N with false by (symmetry; apply N.eqb_neq; lia).
      replace (d =? 45)%N with false by (symmetry; apply N.eqb_neq; lia).
      unfold is_digit19. replace ((49 <=? d)%N && (d <=? 57)%N) with true
        by (symmetry; apply andb_true_iff; split; apply N.leb_le; lia).
      rewrite Hval. simpl Z.mul. rewrite Z.add_0_l. unfold I64MAX.
      replace (z <=? 9223372036854775807) with true by (symmetry; apply Z.leb_le; lia). done.
Qed.

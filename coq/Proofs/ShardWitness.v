(* C03 - concrete witnesses over Model/MiniKV.v: the refuted class (two-key and keyless
   state-dependent commands) and a concrete run inside SingleHome (non-vacuity). *)
From stdpp Require Import gmap sorting.
From Coq Require Import NArith ZArith String Lia.
From RV Require Import Lib.Hex Lib.SipHash Gen.KeyTable Model.Shard Model.MiniKV Proofs.ShardProofs.
Local Open Scope N_scope.

(* ================================================================ the refuted class *)
Definition k0 : list N := [107; 48].   (* "k0": shard 0 of 2 *)
Definition k1 : list N := [107; 49].   (* "k1": shard 1 of 2 *)
Definition d0 : list N := [100; 48].   (* "d0": shard 0 of 2 *)
Definition d1 : list N := [100; 49].   (* "d1": shard 1 of 2 *)
Definition va : list N := [97].
Definition vb : list N := [98].

(* a class command, run after [init] on 2 shards and on 1 shard, then a probe *)
Definition refuted_by (init : list (req arg)) (c : cmd arg) (probe : req arg) : Prop :=
  let shN := (runN mini home_str home_bytes (replicate 2 ∅) init).1 in
  let sh1 := (runN mini home_str home_bytes [∅] init).1 in
  Forall (SingleHome mini home_str 2) init /\
  KnownClass mini home_str 2 (Generic c) /\ SingleHome mini home_str 2 probe /\
  (runN mini home_str home_bytes shN [Generic c; probe]).2 <> (runN mini home_str home_bytes sh1 [Generic c; probe]).2.

Local Open Scope string_scope.
Ltac single_home_op :=
  split; [split; [by vm_compute|eexists _, _; split; [by vm_compute|by vm_compute]]|
          split; [intros [x [y [Hx [Hy Hne]]]]; cbn in Hx, Hy;
                  repeat (apply elem_of_cons in Hx as [->|Hx]); repeat (apply elem_of_cons in Hy as [->|Hy]);
                  try (by apply elem_of_nil in Hx); try (by apply elem_of_nil in Hy); try done
                 |intros _; by vm_compute]].
Ltac cross_op a b :=
  left; exists a, b; split; [cbn; set_solver|split; [cbn; set_solver|vm_compute; lia]].
Ltac differs := let H := fresh in intros H; vm_compute in H; discriminate H.

Ltac init_ok := (apply Forall_cons; split; [single_home_op; try exact I|apply Forall_nil]); try exact I.
Ltac refute a b :=
  unfold refuted_by; (split; [init_ok|split; [cross_op a b|split; [try exact I; try (single_home_op; try exact I)|differs]]]); try exact I.

Lemma w_rpoplpush :
  refuted_by [Generic (COp "LPush" [d1] (ArgL [va]))] (COp "RPopLPush" [d1; d0] ArgNone) (Generic (COp "LLen" [d0] ArgNone)).
Proof. refute d1 d0. Qed.
Lemma w_lmove :
  refuted_by [Generic (COp "LPush" [d1] (ArgL [va]))] (COp "LMove" [d1; d0] (ArgDir false true)) (Generic (COp "LLen" [d0] ArgNone)).
Proof. refute d1 d0. Qed.
Lemma w_rename :
  refuted_by [Generic (COp "Set" [k1] (ArgB va))] (COp "Rename" [k1; k0] ArgNone) (Generic (COp "Get" [k0] ArgNone)).
Proof. refute k1 k0. Qed.
Lemma w_renamenx :
  refuted_by [Generic (COp "Set" [k1] (ArgB va))] (COp "RenameNx" [k1; k0] ArgNone) (Generic (COp "Get" [k0] ArgNone)).
Proof. refute k1 k0. Qed.
Lemma w_msetnx :
  refuted_by [Generic (COp "Set" [k0] (ArgB va))] (COp "MSetNx" [k1; k0] (ArgL [va; vb])) (FastGet false k0).
Proof. refute k1 k0. Qed.
Lemma w_sort_store :
  refuted_by [Generic (COp "RPush" [d1] (ArgL [vb; va]))] (COp "Sort" [d1; d0] ArgNone) (Generic (COp "LLen" [d0] ArgNone)).
Proof. refute d1 d0. Qed.

Lemma two_key_witnesses :
  refuted_by [Generic (COp "LPush" [d1] (ArgL [va]))] (COp "RPopLPush" [d1; d0] ArgNone) (Generic (COp "LLen" [d0] ArgNone)) /\
  refuted_by [Generic (COp "LPush" [d1] (ArgL [va]))] (COp "LMove" [d1; d0] (ArgDir false true)) (Generic (COp "LLen" [d0] ArgNone)) /\
  refuted_by [Generic (COp "Set" [k1] (ArgB va))] (COp "Rename" [k1; k0] ArgNone) (Generic (COp "Get" [k0] ArgNone)) /\
  refuted_by [Generic (COp "Set" [k1] (ArgB va))] (COp "RenameNx" [k1; k0] ArgNone) (Generic (COp "Get" [k0] ArgNone)) /\
  refuted_by [Generic (COp "Set" [k0] (ArgB va))] (COp "MSetNx" [k1; k0] (ArgL [va; vb])) (FastGet false k0) /\
  refuted_by [Generic (COp "RPush" [d1] (ArgL [vb; va]))] (COp "Sort" [d1; d0] ArgNone) (Generic (COp "LLen" [d0] ArgNone)).
Proof.
  exact (conj w_rpoplpush (conj w_lmove (conj w_rename (conj w_renamenx (conj w_msetnx w_sort_store))))).
Qed.

Lemma keyless_witness :
  refuted_by [Generic (COp "Set" [k1] (ArgB va))] (COp "RandomKey" [] ArgNone) (Generic (CPing None)).
Proof.
  unfold refuted_by. split; [init_ok|split; [|split; [|differs]]].
  - right. split; [done|]. by vm_compute.
  - split; [done|split; [|by intros []]]. intros [x [y [Hx _]]]. by apply elem_of_nil in Hx.
Qed.

(* ================================================================ a concrete run (non-vacuity) *)
Definition ex_run : list (req arg) :=
  [ FastSet false d0 va;
    Generic (COp "Get" [d0] ArgNone);
    Generic (CMSet [(d1, vb); (k0, va); (k1, vb)]);
    Generic (CMGet [d0; d1; k0; k1; d0]);
    PipeSet [(d1, va); (k1, va)];
    PipeGet [k1; d1; d0];
    FastSet true k0 vb;
    FastGet true k0;
    Generic (COp "Append" [k0] (ArgB va));
    Generic (COp "RPush" [[100; 50]] (ArgL [va; vb]));
    Generic (COp "LPop" [[100; 50]] ArgNone);
    Generic (CExists [d0; d1; [120]; d0]);
    Generic CDbSize;
    Generic (CKeys [100; 49]);
    Generic (CScan 0 None (Some 2%N));
    Generic (CScan 2 None (Some 2%N));
    Generic (CDel [d0; k1; [120]]);
    Generic (CDel [d1]);
    Generic CDbSize;
    Generic (CFlush false);
    Generic CDbSize ].
Definition ex_replies : list reply :=
  Eval vm_compute in (runN mini home_str home_bytes [∅] ex_run).2.

Ltac single_home_arm :=
  split; [done|split; [intros [x [y [Hx _]]]; by apply elem_of_nil in Hx|by intros []]].
Lemma ex_run_ok :
  Forall (SingleHome mini home_str 3) ex_run /\
  home_str 3 d0 <> home_str 3 d1 /\
  (runN mini home_str home_bytes (replicate 3 ∅) ex_run).2 = (runN mini home_str home_bytes [∅] ex_run).2 /\
  (runN mini home_str home_bytes (replicate 3 ∅) ex_run).2 = ex_replies.
Proof.
  split; [|split; [by vm_compute|split; by vm_compute]].
  unfold ex_run.
  repeat (apply Forall_cons; split;
          [first [exact I | single_home_arm | (single_home_op; try exact I)]|]).
  all: try apply Forall_nil; try exact I.
Qed.

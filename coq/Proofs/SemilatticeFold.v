(* A fold of an operation that is associative, commutative and idempotent on a class closed
   under it depends only on the SET of elements folded - the algebraic core of strong
   eventual consistency: replicas that have incorporated the same set of updates, in any
   order and with any repetition, are in the same state. *)
From Coq Require Import List.
Import ListNotations.

Section fold.
  Context {A : Type} (f : A -> A -> A) (C : A -> Prop).
  Hypothesis closed : forall a b, C a -> C b -> C (f a b).
  Hypothesis idem : forall a, C a -> f a a = a.
  Hypothesis comm : forall a b, C a -> C b -> f a b = f b a.
  Hypothesis assoc : forall a b c, C a -> C b -> C c -> f a (f b c) = f (f a b) c.

  (* y <= z in the induced order *)
  Definition le (y z : A) : Prop := f z y = z.

  Lemma le_trans x y z : C x -> C y -> C z -> le x y -> le y z -> le x z.
  Proof.
    unfold le. intros Cx Cy Cz Hxy Hyz.
    rewrite <- Hyz at 1. rewrite <- assoc by assumption. rewrite Hxy. exact Hyz.
  Qed.

  Lemma le_join_l x a : C x -> C a -> le x (f x a).
  Proof.
    unfold le. intros Cx Ca.
    rewrite (comm (f x a) x) by auto. rewrite assoc by auto. rewrite idem by auto. reflexivity.
  Qed.

  Lemma le_join_r x a : C x -> C a -> le a (f x a).
  Proof.
    unfold le. intros Cx Ca. rewrite <- assoc by auto. rewrite idem by auto. reflexivity.
  Qed.

  Lemma le_join_lub x a z : C x -> C a -> C z -> le x z -> le a z -> le (f x a) z.
  Proof.
    unfold le. intros Cx Ca Cz Hx Ha. rewrite assoc by auto. rewrite Hx. exact Ha.
  Qed.

  Lemma fold_closed xs : forall x, C x -> Forall C xs -> C (fold_left f xs x).
  Proof.
    induction xs as [|a xs IH]; intros x Cx Hxs; simpl; [exact Cx|].
    inversion Hxs; subst. apply IH; auto.
  Qed.

  (* the fold is an upper bound of everything folded ... *)
  Lemma fold_upper xs : forall x, C x -> Forall C xs ->
    le x (fold_left f xs x) /\ forall y, In y xs -> le y (fold_left f xs x).
  Proof.
    induction xs as [|a xs IH]; intros x Cx Hxs; simpl.
    - split; [exact (idem x Cx)|intros y []].
    - inversion Hxs as [|? ? Ca Hxs']; subst.
      assert (Cxa : C (f x a)) by auto.
      destruct (IH (f x a) Cxa Hxs') as [H1 H2].
      assert (Cr : C (fold_left f xs (f x a))) by (apply fold_closed; auto).
      split.
      + apply (le_trans x (f x a)); auto. apply le_join_l; auto.
      + intros y [<-|Hy].
        * apply (le_trans a (f x a)); auto. apply le_join_r; auto.
        * apply H2; exact Hy.
  Qed.

  (* ... and the least one *)
  Lemma fold_least xs : forall x z, C x -> Forall C xs -> C z ->
    le x z -> (forall y, In y xs -> le y z) -> le (fold_left f xs x) z.
  Proof.
    induction xs as [|a xs IH]; intros x z Cx Hxs Cz Hx Hys; simpl; [exact Hx|].
    inversion Hxs as [|? ? Ca Hxs']; subst.
    apply IH; auto.
    - apply le_join_lub; auto. apply Hys. left; reflexivity.
    - intros y Hy. apply Hys. right; exact Hy.
  Qed.

  Lemma le_antisym x y : C x -> C y -> le x y -> le y x -> x = y.
  Proof.
    unfold le. intros Cx Cy Hxy Hyx.
    transitivity (f x y); [symmetry; exact Hyx|]. rewrite comm by auto. exact Hxy.
  Qed.

  Theorem fold_set_eq x xs y ys :
    Forall C (x :: xs) -> Forall C (y :: ys) ->
    (forall e, In e (x :: xs) <-> In e (y :: ys)) ->
    fold_left f xs x = fold_left f ys y.
  Proof.
    intros H1 H2 Hset.
    inversion H1 as [|? ? Cx Hxs]; subst. inversion H2 as [|? ? Cy Hys]; subst.
    assert (C1 : C (fold_left f xs x)) by (apply fold_closed; auto).
    assert (C2 : C (fold_left f ys y)) by (apply fold_closed; auto).
    destruct (fold_upper xs x Cx Hxs) as [U1 U1'].
    destruct (fold_upper ys y Cy Hys) as [U2 U2'].
    assert (In1 : forall e, In e (x :: xs) -> le e (fold_left f xs x)).
    { intros e [<-|He]; auto. }
    assert (In2 : forall e, In e (y :: ys) -> le e (fold_left f ys y)).
    { intros e [<-|He]; auto. }
    apply le_antisym; auto.
    - apply fold_least; auto.
      + apply In2. apply Hset. left; reflexivity.
      + intros e He. apply In2. apply Hset. right; exact He.
    - apply fold_least; auto.
      + apply In1. apply Hset. left; reflexivity.
      + intros e He. apply In1. apply Hset. right; exact He.
  Qed.
End fold.

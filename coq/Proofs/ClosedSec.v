(* Closed-system form of C06's convergence theorem: the hypotheses are conditions on the
   client inputs and on the run (no clock overflow), nothing about the deltas themselves. *)
From stdpp Require Import gmap.
From Coq Require Import NArith Lia.
From RV Require Import Lib.Hex Model.Crdt Proofs.CrdtProofs Model.ShardState
  Proofs.ShardStateProofs Model.Cluster Proofs.ClusterProofs Proofs.ServeProofs Proofs.UniqueStamps.
Local Open Scope N_scope.

Definition regs_list (v : rvalue) : list lww :=
  match rv_crdt v with
  | CLww r => [r]
  | CHash h => map snd (map_to_list h)
  | _ => []
  end.

Lemma regs_list_spec r v : In r (regs_list v) ↔ reg_in r v.
Proof.
  unfold regs_list, reg_in. destruct (rv_crdt v) as [r'| | | | |h]; simpl; try tauto.
  - split; [intros [->|[]]; done|intros ->; by left].
  - rewrite <- elem_of_list_In, elem_of_list_fmap. split.
    + intros ([f x] & -> & Hin). apply elem_of_map_to_list in Hin. eauto.
    + intros [f Hf]. exists (f, r). split; [done|]. by apply elem_of_map_to_list.
Qed.

Definition all_regs (log : list (nat * list N * rvalue)) : list lww :=
  concat (map (λ e, regs_list e.2) log).

Lemma all_regs_spec log r : In r (all_regs log) ↔ log_reg log r.
Proof.
  unfold all_regs, log_reg. rewrite in_concat. split.
  - intros (l & Hl & Hr). apply in_map_iff in Hl as ([[o k] d] & <- & Hin). simpl in Hr.
    exists o, k, d. split; [done|]. by apply regs_list_spec.
  - intros (o & k & d & Hin & Hr). exists (regs_list d). split; [|by apply regs_list_spec].
    apply in_map_iff. exists (o, k, d). done.
Qed.

(* the register a stamp was used for, read off the log *)
Definition U_of (log : list (nat * list N * rvalue)) (st : stamp) : option lww :=
  head (filter (λ r, lw_ts r = st) (all_regs log)).

Lemma U_of_spec log r :
  (∀ r r', log_reg log r → log_reg log r' → lw_ts r = lw_ts r' → r = r') →
  log_reg log r → U_of log (lw_ts r) = Some r.
Proof.
  intros Hfun Hr. unfold U_of.
  destruct (filter (λ r0, lw_ts r0 = lw_ts r) (all_regs log)) as [|r0 l] eqn:Hf.
  - exfalso. assert (Hin : r ∈ filter (λ r0, lw_ts r0 = lw_ts r) (all_regs log)).
    { apply elem_of_list_filter. split; [done|]. apply elem_of_list_In. by apply all_regs_spec. }
    rewrite Hf in Hin. by apply elem_of_nil in Hin.
  - simpl. f_equal. assert (Hin : r0 ∈ filter (λ r0, lw_ts r0 = lw_ts r) (all_regs log)) by (rewrite Hf; left).
    apply elem_of_list_filter in Hin as [Hts Hin]. apply elem_of_list_In, all_regs_spec in Hin.
    by apply Hfun.
Qed.

Lemma valid_run_deliveries K evs : ∀ c log, valid_run K c log evs → deliveries_from_log c log evs.
Proof.
  induction evs as [|e evs IH]; intros c log Hv; simpl in *; [done|].
  destruct Hv as [He Hv]. split; [destruct e; done|by apply IH].
Qed.

(* Closed-system strong eventual consistency. *)
Theorem sec_closed_lemma (K : list N → N) :
  (∀ k, K k = 0 ∨ K k = 5) →
  ∀ n evs i j ni nj k,
  valid_run K (cluster_init n) [] evs →
  let c := (crun (cluster_init n) [] evs).1 in
  no_ovf c → c !! i = Some ni → c !! j = Some nj →
  same_set (hist_of ni k) (hist_of nj k) →
  sh_keys (n_sh ni) !! k = sh_keys (n_sh nj) !! k.
Proof.
  intros HK n evs i j ni nj k Hv c Hno Hi Hj Hs.
  pose proof (crun_ginv evs _ _ (GInv_init n) (valid_run_deliveries K evs _ _ Hv) Hno) as (G1 & G2 & G3).
  pose proof (crun_cinv K evs _ _ (CInv_init K n) Hv) as [_ Hlogk].
  destruct (crun (cluster_init n) [] evs) as [c' log] eqn:Hr. cbn [fst snd] in *. subst c.
  apply (sec_lemma (U_of log) K HK n evs c' log i j ni nj k Hr); auto.
  intros i0 n0 Hi0. split; [|by apply (Hno i0)].
  destruct (G2 i0 n0 Hi0) as (_ & _ & _ & _ & _ & F & _ & _).
  intros k0. apply Forall_forall. intros d Hd.
  apply elem_of_list_In in Hd. destruct (F k0 d Hd) as [o Ho]. destruct (G3 o k0 d Ho) as [Hwf Hpl].
  pose proof (Hlogk o k0 d Ho) as Hvk.
  split; [|done]. split_and!; [| |done].
  - destruct Hvk as [(HK0 & r & Hr0 & _)|(HK5 & h & Hh & _)]; [by rewrite Hr0, HK0|by rewrite Hh, HK5].
  - unfold crdt_respects. destruct Hvk as [(_ & r & Hr0 & _)|(_ & h & Hh & _)].
    + rewrite Hr0. apply U_of_spec; [done|]. exists o, k0, d. split; [done|]. unfold reg_in. by rewrite Hr0.
    + rewrite Hh. intros f r Hf. simpl. apply U_of_spec; [done|]. exists o, k0, d. split; [done|].
      unfold reg_in. rewrite Hh. eauto.
Qed.

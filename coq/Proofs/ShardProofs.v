(* C03 - proofs about Model/Shard.v: both routing functions agree; an N-shard dispatcher over any
   executor satisfying [exec_ok] refines the one-store reference for every single-home request
   (abstraction = union of the shards, invariant = every key is stored in its home shard);
   the classification is what the table generated from command.rs says; two-key and keyless
   state-dependent commands are a refuted class. *)
From stdpp Require Import gmap sorting.
From Coq Require Import NArith ZArith String Lia.
From RV Require Import Lib.Hex Lib.SipHash Lib.SipHashFast Gen.KeyTable Model.Shard Model.MiniKV.
Local Open Scope N_scope.

(* ================================================================ routing *)
Lemma routes_agree_lemma : forall k n, route_str k n = route_bytes k n.
Proof. reflexivity. Qed.

(* the tree before /repo 36d66e2: "foo" on 16 shards *)
Lemma routes_disagreed_before_fix :
  exists k n, route_str_before_fix k n <> route_bytes k n.
Proof. exists [102; 111; 111], 16. vm_compute. discriminate. Qed.

Lemma home_bytes_lt n k : (0 < n)%nat -> (home_bytes n k < n)%nat.
Proof.
  intros Hn. unfold home_bytes, route_bytes.
  assert (hash_slice k mod N.of_nat n < N.of_nat n) by (apply N.mod_lt; lia). lia.
Qed.
Lemma home_str_lt n k : (0 < n)%nat -> (home_str n k < n)%nat.
Proof. apply home_bytes_lt. Qed.
Lemma home_str_bytes n k : home_str n k = home_bytes n k.
Proof. reflexivity. Qed.

(* ================================================================ the order SCAN sorts by *)
Lemma bytes_leb_refl a : bytes_leb a a = true.
Proof. induction a as [|x a IH]; cbn; [done|]. rewrite N.ltb_irrefl, N.eqb_refl. done. Qed.
Lemma bytes_leb_total a b : bytes_leb a b = true \/ bytes_leb b a = true.
Proof.
  revert b; induction a as [|x a IH]; intros [|y b]; cbn; auto.
  destruct (N.ltb_spec x y), (N.ltb_spec y x), (N.eqb_spec x y), (N.eqb_spec y x); auto; try lia.
Qed.
Lemma bytes_leb_trans a b c : bytes_leb a b = true -> bytes_leb b c = true -> bytes_leb a c = true.
Proof.
  revert b c; induction a as [|x a IH]; intros [|y b] [|z c]; cbn; auto; try discriminate.
  destruct (N.ltb_spec x y), (N.ltb_spec y z), (N.ltb_spec x z), (N.eqb_spec x y), (N.eqb_spec y z), (N.eqb_spec x z);
    auto; try discriminate; try lia. eauto.
Qed.
Lemma bytes_leb_antisym a b : bytes_leb a b = true -> bytes_leb b a = true -> a = b.
Proof.
  revert b; induction a as [|x a IH]; intros [|y b]; cbn; auto; try discriminate.
  destruct (N.ltb_spec x y), (N.ltb_spec y x), (N.eqb_spec x y), (N.eqb_spec y x); try discriminate; try lia.
  intros. subst. f_equal. auto.
Qed.
Global Instance bytes_le_total : Total bytes_le.
Proof. intros a b. apply bytes_leb_total. Qed.
Global Instance bytes_le_trans : Transitive bytes_le.
Proof. intros a b c. apply bytes_leb_trans. Qed.
Global Instance bytes_le_antisym : AntiSymm (=) bytes_le.
Proof. intros a b. apply bytes_leb_antisym. Qed.

Lemma merge_sort_perm_eq (l1 l2 : list (list N)) :
  l1 ≡ₚ l2 -> merge_sort bytes_le l1 = merge_sort bytes_le l2.
Proof.
  intros Hp. apply (Sorted_unique bytes_le); try apply Sorted_merge_sort; try apply _.
  rewrite !merge_sort_Permutation. done.
Qed.
Lemma scan_page_perm l1 l2 c n : l1 ≡ₚ l2 -> scan_page l1 c n = scan_page l2 c n.
Proof. intros Hp. unfold scan_page. rewrite (merge_sort_perm_eq _ _ Hp). done. Qed.

(* ================================================================ unions of disjoint maps *)
Section Maps.
  Context {V : Type}.
  Notation st := (gmap (list N) V).
  Implicit Types (s : st) (sh : list st).

  Lemma lookup_union_list_None sh k : (⋃ sh) !! k = None <-> Forall (fun s => s !! k = None) sh.
  Proof.
    induction sh as [|s sh IH]; cbn.
    - rewrite lookup_empty. split; auto.
    - rewrite lookup_union_None, IH, Forall_cons. done.
  Qed.

  (* if only the map at position i can hold k, the union holds what that map holds *)
  Lemma lookup_union_list_at sh i s k :
    sh !! i = Some s ->
    (forall j t, sh !! j = Some t -> is_Some (t !! k) -> j = i) ->
    (⋃ sh) !! k = s !! k.
  Proof.
    revert i; induction sh as [|t sh IH]; intros i Hi Hu; [done|].
    cbn [union_list foldr]. destruct i as [|i]; cbn in Hi.
    - inversion Hi; subst t. destruct (s !! k) as [v|] eqn:E.
      + by apply lookup_union_Some_l.
      + apply lookup_union_None; split; [done|]. apply lookup_union_list_None.
        apply Forall_forall; intros u Hu'. apply elem_of_list_lookup in Hu' as [j Hj].
        destruct (u !! k) eqn:E'; [|done]. specialize (Hu (S j) u Hj). rewrite E' in Hu.
        specialize (Hu ltac:(eauto)). lia.
    - assert (t !! k = None) as Ht.
      { destruct (t !! k) eqn:E'; [|done]. specialize (Hu O t eq_refl). rewrite E' in Hu.
        specialize (Hu ltac:(eauto)). lia. }
      rewrite lookup_union_r by done. apply (IH i Hi). intros j u Hj Hs.
      specialize (Hu (S j) u Hj Hs). lia.
  Qed.

  Definition Disj sh : Prop :=
    forall i j s t, i <> j -> sh !! i = Some s -> sh !! j = Some t -> s ##ₘ t.
  Lemma Disj_cons s sh : Disj (s :: sh) -> s ##ₘ ⋃ sh /\ Disj sh.
  Proof.
    intros H; split.
    - apply map_disjoint_union_list_r_2, Forall_forall. intros t Ht.
      apply elem_of_list_lookup in Ht as [j Hj]. symmetry. apply (H O (S j)); auto.
    - intros i j a b Hij Ha Hb. apply (H (S i) (S j)); auto.
  Qed.

  Definition zsum (l : list Z) : Z := foldr Z.add 0%Z l.
  Definition zsize s : Z := Z.of_nat (size s).
  Lemma size_union_list sh : Disj sh -> zsize (⋃ sh) = zsum (zsize <$> sh).
  Proof.
    induction sh as [|s sh IH]; intros HD; cbn.
    - unfold zsize. by rewrite map_size_empty.
    - apply Disj_cons in HD as [H1 H2].
      change (zsize (s ∪ ⋃ sh) = (zsize s + zsum (zsize <$> sh))%Z).
      rewrite <- IH by done. unfold zsize. rewrite map_size_disj_union by done. lia.
  Qed.

  Lemma elem_of_map_keys s k : k ∈ map_keys s <-> is_Some (s !! k).
  Proof.
    unfold map_keys. rewrite elem_of_list_fmap. split.
    - intros [[k' v] [-> H]]. apply elem_of_map_to_list in H. eauto.
    - intros [v H]. exists (k, v). split; [done|]. by apply elem_of_map_to_list.
  Qed.
  Lemma map_keys_union s1 s2 : s1 ##ₘ s2 -> map_keys (s1 ∪ s2) ≡ₚ map_keys s1 ++ map_keys s2.
  Proof.
    intros HD. apply NoDup_Permutation.
    - apply NoDup_fst_map_to_list.
    - apply NoDup_app; split; [apply NoDup_fst_map_to_list|]. split; [|apply NoDup_fst_map_to_list].
      intros k H1 H2. apply elem_of_map_keys in H1 as [v1 H1]. apply elem_of_map_keys in H2 as [v2 H2].
      by pose proof (map_disjoint_spec s1 s2) as [Hs _]; eapply Hs.
    - intros k. rewrite elem_of_app, !elem_of_map_keys.
      unfold is_Some. setoid_rewrite lookup_union_Some; [|done]. naive_solver.
  Qed.
  Lemma map_keys_union_list sh : Disj sh -> map_keys (⋃ sh) ≡ₚ List.concat (map_keys <$> sh).
  Proof.
    induction sh as [|s sh IH]; intros HD; cbn.
    - unfold map_keys. by rewrite map_to_list_empty.
    - apply Disj_cons in HD as [H1 H2]. rewrite map_keys_union by done. by rewrite IH.
  Qed.
End Maps.

(* ================================================================ grouping and writing back *)
Section Lists.
  Context {A B : Type}.

  Definition ins (res : list B) (iv : nat * B) : list B := <[iv.1 := iv.2]> res.

  Lemma foldl_ins_length (ws : list (nat * B)) res : List.length (foldl ins res ws) = List.length res.
  Proof. revert res; induction ws as [|w ws IH]; intros res; cbn; [done|]. rewrite IH. apply insert_length. Qed.

  Lemma foldl_ins_lookup (ws : list (nat * B)) res j v :
    (forall j' v', (j', v') ∈ ws -> j' = j -> v' = v) -> (j, v) ∈ ws -> (j < List.length res)%nat ->
    foldl ins res ws !! j = Some v.
  Proof.
    revert res. induction ws as [|[j' v'] ws IH] using rev_ind; intros res Hc Hin Hj.
    - by apply elem_of_nil in Hin.
    - rewrite foldl_app. cbn. unfold ins at 1. cbn.
      destruct (decide (j' = j)) as [->|Hne].
      + rewrite (Hc j v') by (rewrite ?elem_of_app, ?elem_of_list_singleton; auto).
        apply list_lookup_insert. by rewrite foldl_ins_length.
      + rewrite list_lookup_insert_ne by done. apply IH; auto.
        * intros a b Hab. apply Hc. rewrite elem_of_app; auto.
        * apply elem_of_app in Hin as [?|Hin]; [done|].
          apply elem_of_list_singleton in Hin. congruence.
  Qed.

  Lemma foldl_concat (f : B -> A -> B) a (ls : list (list A)) :
    foldl (fun a l => foldl f a l) a ls = foldl f a (List.concat ls).
  Proof. revert a; induction ls as [|l ls IH]; intros a; cbn; [done|]. by rewrite foldl_app, IH. Qed.

  Lemma zip_fst_snd_fmap (G : A -> B) (l : list (nat * A)) :
    zip l.*1 (G <$> l.*2) = (fun p => (p.1, G p.2)) <$> l.
  Proof. induction l as [|[j a] l IH]; cbn; [done|]. by rewrite IH. Qed.
End Lists.

Lemma foldl_fmap_l {A B C} (g : A -> B -> A) (h : C -> B) a (l : list C) :
  foldl (fun a o => g a (h o)) a l = foldl g a (h <$> l).
Proof. revert a; induction l as [|x l IH]; intros a; cbn; [done|]. by rewrite IH. Qed.

Section WriteBack.
  Context {A : Type}.

  Lemma write_back_writes init len outs :
    write_back init len outs = foldl ins (replicate len init) (List.concat ((fun o => zip o.1 o.2) <$> outs)).
  Proof.
    unfold write_back. rewrite <- foldl_concat.
    rewrite <- (foldl_fmap_l (fun res l => foldl ins res l) (fun o => zip o.1 o.2)). done.
  Qed.

  Lemma write_back_spec (G : A -> reply) init (items : list A) outs :
    (forall o j v, o ∈ outs -> (j, v) ∈ zip o.1 o.2 -> exists a, items !! j = Some a /\ v = G a) ->
    (forall j a, items !! j = Some a -> exists o, o ∈ outs /\ (j, G a) ∈ zip o.1 o.2) ->
    write_back init (List.length items) outs = G <$> items.
  Proof.
    intros Hs Hc. rewrite write_back_writes. set (ws := List.concat _).
    assert (forall j v, (j, v) ∈ ws <-> exists o, o ∈ outs /\ (j, v) ∈ zip o.1 o.2) as Hws.
    { intros j v. unfold ws. rewrite elem_of_list_In, in_concat. split.
      - intros [l [Hl Hin]]. apply elem_of_list_In, elem_of_list_fmap in Hl as [o [-> Ho]].
        exists o; split; [done|]. by apply elem_of_list_In.
      - intros [o [Ho Hin]]. exists (zip o.1 o.2). split; [|by apply elem_of_list_In].
        apply elem_of_list_In, elem_of_list_fmap. eauto. }
    apply list_eq; intros j. rewrite list_lookup_fmap.
    destruct (items !! j) as [a|] eqn:E; cbn.
    - apply foldl_ins_lookup.
      + intros j' v' Hin ->. apply Hws in Hin as [o [Ho Hin]].
        destruct (Hs o j v' Ho Hin) as [a' [Ha' ->]]. congruence.
      + apply Hws. auto.
      + rewrite replicate_length. by apply lookup_lt_Some in E.
    - apply lookup_ge_None. rewrite foldl_ins_length, replicate_length. by apply lookup_ge_None in E.
  Qed.
End WriteBack.

Section Batches.
  Context {A : Type}.
  Variable rt : A -> nat.

  Lemma batch_of_snd_gen (g : nat -> nat) i (items : list A) :
    (filter (fun p : nat * A => rt p.2 = i) (imap (fun j a => (g j, a)) items)).*2 = filter (fun a => rt a = i) items.
  Proof.
    revert g; induction items as [|a items IH]; intros g; [done|].
    rewrite imap_cons.
    change (imap ((fun j a => (g j, a)) ∘ S) items) with (imap (fun j a => ((g ∘ S) j, a)) items).
    rewrite !filter_cons. cbn. destruct (decide (rt a = i)); cbn; by rewrite (IH (fun j => g (S j))).
  Qed.
  Lemma batch_of_snd i items : (batch_of rt i items).*2 = filter (fun a => rt a = i) items.
  Proof. apply (batch_of_snd_gen id). Qed.

  Lemma elem_of_batch_of i items j a :
    (j, a) ∈ batch_of rt i items <-> items !! j = Some a /\ rt a = i.
  Proof.
    unfold batch_of. rewrite elem_of_list_filter, elem_of_lookup_imap. cbn. split.
    - intros [Hr [j' [a' [Heq Hl]]]]. inversion Heq; subst. done.
    - intros [Hl Hr]. split; [done|]. eauto.
  Qed.
End Batches.

Lemma filter_key_batch {A} (keyof : A -> list N) (home : list N -> nat) i k (items : list A) :
  filter (fun a => keyof a = k) (filter (fun a => home (keyof a) = i) items)
  = if decide (home k = i) then filter (fun a => keyof a = k) items else [].
Proof.
  induction items as [|a items IH]; [by destruct (decide _)|].
  rewrite (filter_cons (fun a => home (keyof a) = i)). rewrite (filter_cons (fun a => keyof a = k) a items).
  destruct (decide (home (keyof a) = i)) as [Hh|Hh], (decide (keyof a = k)) as [Hk|Hk]; subst;
    rewrite ?filter_cons, ?IH; repeat case_decide; done || congruence.
Qed.

(* ================================================================ the refinement *)
Section Refine.
  Context {V P : Type}.
  Variable X : executor V P.
  Variable home_s home_b : nat -> list N -> nat.
  Hypothesis HX : exec_ok X.
  Hypothesis home_lt : forall n k, (0 < n)%nat -> (home_s n k < n)%nat.
  Hypothesis home_eq : forall n k, home_b n k = home_s n k.
  Notation st := (gmap (list N) V).
  Notation Homed := (Homed home_s).
  Implicit Types (s : st) (sh : list st) (k : list N).

  Lemma home_some sh k : (0 < List.length sh)%nat -> exists s, sh !! home_s (List.length sh) k = Some s.
  Proof. intros Hn. apply lookup_lt_is_Some_2. by apply home_lt. Qed.

  Lemma Homed_Disj sh : Homed sh -> Disj sh.
  Proof.
    intros HH i j s t Hij Hs Ht. apply map_disjoint_spec. intros k x y Hx Hy.
    pose proof (HH i s k Hs ltac:(eauto)). pose proof (HH j t k Ht ltac:(eauto)). congruence.
  Qed.

  Lemma lookup_abs sh s k :
    Homed sh -> sh !! home_s (List.length sh) k = Some s -> abs sh !! k = s !! k.
  Proof.
    intros HH Hs. unfold abs. apply (lookup_union_list_at sh _ s k Hs).
    intros j t Hj Ht. symmetry. by apply (HH j t k).
  Qed.
  Lemma lookup_not_home sh i s k : Homed sh -> sh !! i = Some s -> home_s (List.length sh) k <> i -> s !! k = None.
  Proof.
    intros HH Hs Hne. destruct (s !! k) eqn:E; [|done]. exfalso. apply Hne. apply (HH i s k Hs). eauto.
  Qed.

  (* the shape every state-changing arm has: shard i may change only the keys homed at i *)
  Lemma family_update sh sh' (T : st) :
    Homed sh -> List.length sh' = List.length sh -> (0 < List.length sh)%nat ->
    (forall i s s' k, sh !! i = Some s -> sh' !! i = Some s' ->
       (home_s (List.length sh) k = i -> s' !! k = T !! k) /\
       (home_s (List.length sh) k <> i -> s' !! k = s !! k)) ->
    Homed sh' /\ abs sh' = T.
  Proof.
    intros HH Hlen Hn Hpt.
    assert (Homed sh') as HH'.
    { intros i s' k Hs' Hsome. rewrite Hlen.
      destruct (lookup_lt_is_Some_2 sh i) as [s Hs]. { rewrite <- Hlen. by eapply lookup_lt_Some. }
      destruct (decide (home_s (List.length sh) k = i)) as [|Hne]; [done|].
      destruct (Hpt i s s' k Hs Hs') as [_ H2]. rewrite (H2 Hne) in Hsome.
      rewrite (lookup_not_home sh i s k HH Hs Hne) in Hsome. by destruct Hsome. }
    split; [done|]. apply map_eq; intros k.
    destruct (home_some sh' k) as [s' Hs']; [lia|].
    rewrite (lookup_abs sh' s' k HH' Hs'). rewrite Hlen in Hs'.
    destruct (home_some sh k Hn) as [s Hs].
    by destruct (Hpt _ s s' k Hs Hs') as [H1 _]; apply H1.
  Qed.

  (* ---------------------------------------------------------------- run_batches *)
  (* what shard i does with its batch *)
  Definition bstep {A} (rt : A -> nat) (run : st -> list A -> st * list reply) (items : list A)
      (i : nat) (s : st) : st * option (list nat * list reply) :=
    let b := batch_of rt i items in
    match b with
    | [] => (s, None)
    | _ => let '(s', rs) := run s (b.*2) in (s', Some (b.*1, rs))
    end.
  Lemma run_batches_bstep {A} (rt : A -> nat) run (items : list A) sh :
    run_batches rt run items sh = ((imap (bstep rt run items) sh).*1, omap snd (imap (bstep rt run items) sh)).
  Proof. reflexivity. Qed.
  Lemma run_batches_ext_rt {A} (rt rt' : A -> nat) run (items : list A) sh :
    (forall a, rt a = rt' a) -> run_batches rt run items sh = run_batches rt' run items sh.
  Proof.
    intros Hrt. rewrite !run_batches_bstep.
    assert (imap (bstep rt run items) sh = imap (bstep rt' run items) sh) as ->; [|done].
    apply imap_ext. intros i s _. unfold bstep.
    assert (batch_of rt i items = batch_of rt' i items) as ->; [|done].
    unfold batch_of. apply list_filter_iff. intros [j a]; cbn. by rewrite Hrt.
  Qed.

  Section RunBatches.
    Context {A : Type}.
    Variable keyof : A -> list N.
    Variable run : st -> list A -> st * list reply.
    Variable upd : list N -> option V -> list A -> option V.
    Hypothesis run_pt : forall s b k, (run s b).1 !! k = upd k (s !! k) (filter (fun a => keyof a = k) b).
    Hypothesis upd_nil : forall k o, upd k o [] = o.

    Local Notation F n items := (bstep (fun a => home_s n (keyof a)) run items).

    Lemma run_batches_unfold (n : nat) (items : list A) sh :
      run_batches (fun a => home_s n (keyof a)) run items sh = ((imap (F n items) sh).*1, omap snd (imap (F n items) sh)).
    Proof. reflexivity. Qed.

    Lemma F_fst (n : nat) (items : list A) (i : nat) s :
      (F n items i s).1 = (run s (batch_of (fun a => home_s n (keyof a)) i items).*2).1 \/
      ((F n items i s).1 = s /\ batch_of (fun a => home_s n (keyof a)) i items = []).
    Proof.
      unfold bstep. destruct (batch_of _ i items) as [|p b] eqn:E; [right; done|left].
      by destruct (run s _).
    Qed.

    Lemma F_lookup (n : nat) (items : list A) (i : nat) s k :
      (F n items i s).1 !! k =
      if decide (home_s n k = i) then upd k (s !! k) (filter (fun a => keyof a = k) items) else s !! k.
    Proof.
      assert (upd k (s !! k) (filter (fun a => keyof a = k) (batch_of (fun a => home_s n (keyof a)) i items).*2)
              = if decide (home_s n k = i) then upd k (s !! k) (filter (fun a => keyof a = k) items) else s !! k) as Hgen.
      { rewrite batch_of_snd. rewrite (filter_key_batch keyof (home_s n)).
        destruct (decide _); [done|]. apply upd_nil. }
      destruct (F_fst n items i s) as [->|[-> Hb]].
      - by rewrite run_pt.
      - rewrite <- Hgen, Hb. cbn. by rewrite upd_nil.
    Qed.

    Lemma run_batches_state (items : list A) sh (T : st) :
      Homed sh -> (0 < List.length sh)%nat ->
      (forall k, T !! k = upd k (abs sh !! k) (filter (fun a => keyof a = k) items)) ->
      let sh' := (run_batches (fun a => home_s (List.length sh) (keyof a)) run items sh).1 in
      Homed sh' /\ abs sh' = T /\ List.length sh' = List.length sh.
    Proof.
      intros HH Hn HT sh'.
      assert (List.length sh' = List.length sh) as Hlen.
      { unfold sh'. rewrite run_batches_unfold. cbn. by rewrite fmap_length, imap_length. }
      destruct (family_update sh sh' T HH Hlen Hn) as [H1 H2]; [|done].
      intros i s s' k Hs Hs'. unfold sh' in Hs'. rewrite run_batches_unfold in Hs'. cbn in Hs'.
      rewrite list_lookup_fmap, list_lookup_imap, Hs in Hs'. cbn in Hs'. inversion Hs'; subst s'.
      rewrite F_lookup. split; intros Hh.
      - rewrite decide_True by done. rewrite HT. subst i. by rewrite (lookup_abs sh s k HH Hs).
      - by rewrite decide_False.
    Qed.

    (* what the shards answered: one entry per shard with a non-empty batch *)
    Lemma run_batches_outs_sound (items : list A) sh o :
      o ∈ (run_batches (fun a => home_s (List.length sh) (keyof a)) run items sh).2 ->
      exists i s, sh !! i = Some s /\
        let b := batch_of (fun a => home_s (List.length sh) (keyof a)) i items in
        b <> [] /\ o = (b.*1, (run s b.*2).2).
    Proof.
      rewrite run_batches_unfold. cbn. rewrite elem_of_list_omap. intros [x [Hx Ho]].
      apply elem_of_lookup_imap in Hx as [i [s [-> Hs]]]. exists i, s. split; [done|].
      unfold bstep in Ho. destruct (batch_of _ i items) as [|p b] eqn:E; [done|].
      remember (run s (p :: b).*2) as rr eqn:E2. destruct rr as [s1 rs1]. cbn in Ho. inversion Ho; subst. done.
    Qed.
    Lemma run_batches_outs_complete (items : list A) sh (i : nat) s :
      sh !! i = Some s ->
      let b := batch_of (fun a => home_s (List.length sh) (keyof a)) i items in
      b <> [] -> (b.*1, (run s b.*2).2) ∈ (run_batches (fun a => home_s (List.length sh) (keyof a)) run items sh).2.
    Proof.
      intros Hs b Hb. rewrite run_batches_unfold. cbn. rewrite elem_of_list_omap.
      exists (F (List.length sh) items i s). split; [by apply elem_of_lookup_imap_2|].
      unfold bstep. fold b. destruct b as [|p b'] eqn:E; [done|]. by destruct (run s _).
    Qed.

    (* replies written back by original index: if every shard answers [G] of each item of its
       batch, the result is [G] of each item *)
    Lemma run_batches_write_back (G : A -> reply) init (items : list A) sh :
      (0 < List.length sh)%nat ->
      (forall i s, sh !! i = Some s ->
         let b := batch_of (fun a => home_s (List.length sh) (keyof a)) i items in
         (run s b.*2).2 = G <$> b.*2) ->
      write_back init (List.length items) (run_batches (fun a => home_s (List.length sh) (keyof a)) run items sh).2
      = G <$> items.
    Proof.
      intros Hn HG. apply write_back_spec.
      - intros o j v Ho Hin. apply run_batches_outs_sound in Ho as [i [s [Hs [Hb ->]]]]. cbn in Hin.
        rewrite (HG i s Hs), zip_fst_snd_fmap in Hin. apply elem_of_list_fmap in Hin as [[j' a] [Heq Hin]].
        cbn in Heq. inversion Heq; subst. apply elem_of_batch_of in Hin as [Hl _]. eauto.
      - intros j a Hl. destruct (home_some sh (keyof a) Hn) as [s Hs].
        set (i := home_s (List.length sh) (keyof a)) in *.
        assert ((j, a) ∈ batch_of (fun a => home_s (List.length sh) (keyof a)) i items) as Hin
          by (apply elem_of_batch_of; done).
        eexists. split.
        + apply (run_batches_outs_complete items sh i s Hs). intros E. rewrite E in Hin. by apply elem_of_nil in Hin.
        + cbn. rewrite (HG i s Hs), zip_fst_snd_fmap. apply elem_of_list_fmap. by exists (j, a).
    Qed.
  End RunBatches.

  (* ---------------------------------------------------------------- one step, arm by arm *)
  Definition StepOK sh (rq : req P) (res : list st * reply) : Prop :=
    reply_equiv rq res.2 (ref1 X (abs sh) rq).2 /\ abs res.1 = (ref1 X (abs sh) rq).1 /\
    Homed res.1 /\ List.length res.1 = List.length sh.

  Lemma abs_empties sh : abs ((fun _ => (∅ : st)) <$> sh) = ∅.
  Proof.
    apply map_eq; intros k. rewrite lookup_empty. apply lookup_union_list_None.
    apply Forall_fmap, Forall_forall. intros; cbn. apply lookup_empty.
  Qed.

  Lemma step_flush sh (b : bool) : Homed sh -> StepOK sh (Generic (CFlush b)) (exec_generic X home_s sh (CFlush b)).
  Proof.
    intros HH. unfold StepOK; cbn.
    assert (((fun s => (exec X s (CFlush false)).1) <$> sh) = ((fun _ => ∅) <$> sh)) as ->.
    { apply list_fmap_ext; intros; apply (flush_spec X HX). }
    split; [done|]. split; [apply abs_empties|]. split; [|by rewrite fmap_length].
    intros i s k Hs Hk. rewrite list_lookup_fmap in Hs. destruct (sh !! i); inversion Hs; subst.
    rewrite lookup_empty in Hk. by destruct Hk.
  Qed.

  (* KEYS on every shard: the states do not change, the concatenated answer lists the keys of
     the union up to order *)
  Lemma keys_fanout (p : list N) sh :
    let rs := (fun s => exec X s (CKeys p)) <$> sh in
    rs.*1 = sh /\ exists L, List.concat ((fun r => arr_items r.2) <$> rs) = kbulk <$> L /\
                          L ≡ₚ filter (fun k => kmatch X p k = true) (List.concat (map_keys <$> sh)).
  Proof.
    induction sh as [|s sh IH]; cbn.
    - split; [done|]. exists []. done.
    - destruct IH as [IH1 [L [IH2 IH3]]]. destruct (keys_spec X HX s p) as [l [Hl Hp]].
      rewrite Hl. cbn. split; [by f_equal|]. exists (l ++ L). split.
      + rewrite fmap_app. by f_equal.
      + rewrite filter_app. by rewrite Hp, IH3.
  Qed.
  Lemma omap_bulk_kbulk (l : list (list N)) : omap bulk_key (kbulk <$> l) = l.
  Proof. induction l; cbn; [done|]. by f_equal. Qed.

  Lemma step_keys sh (p : list N) : Homed sh -> StepOK sh (Generic (CKeys p)) (exec_generic X home_s sh (CKeys p)).
  Proof.
    intros HH. unfold StepOK; cbn. destruct (keys_fanout p sh) as [H1 [L [H2 H3]]].
    rewrite H1, H2. destruct (keys_spec X HX (abs sh) p) as [l [Hl Hp]]. rewrite Hl; cbn.
    split; [|done]. exists (kbulk <$> L), (kbulk <$> l). split; [done|]. split; [done|].
    apply fmap_Permutation. rewrite H3, Hp. apply filter_Permutation.
    symmetry. apply map_keys_union_list. by apply Homed_Disj.
  Qed.

  Lemma step_scan sh (c : N) (p : option (list N)) (n : option N) : Homed sh -> StepOK sh (Generic (CScan c p n)) (exec_generic X home_s sh (CScan c p n)).
  Proof.
    intros HH. unfold StepOK; cbn. destruct (keys_fanout (default [42] p) sh) as [H1 [L [H2 H3]]].
    rewrite H1, H2. destruct (keys_spec X HX (abs sh) (default [42] p)) as [l [Hl Hp]]. rewrite Hl; cbn.
    split; [|done]. rewrite !omap_bulk_kbulk. apply scan_page_perm.
    rewrite H3, Hp. apply filter_Permutation. symmetry. apply map_keys_union_list. by apply Homed_Disj.
  Qed.

  Lemma step_dbsize sh : Homed sh -> StepOK sh (Generic CDbSize) (exec_generic X home_s sh CDbSize).
  Proof.
    intros HH. unfold StepOK; cbn.
    assert (((fun s => exec X s CDbSize) <$> sh) = ((fun s => (s, RInt (zsize s))) <$> sh)) as ->.
    { apply list_fmap_ext; intros; apply (dbsize_spec X HX). }
    assert (((fun s : st => (s, RInt (zsize s))) <$> sh).*1 = sh) as ->.
    { rewrite <- list_fmap_compose. apply list_fmap_id. }
    split; [|done]. f_equal. change (Z.of_nat (size (abs sh))) with (zsize (abs sh)).
    unfold abs. rewrite (size_union_list sh (Homed_Disj sh HH)).
    clear HH. induction sh as [|s sh IH]; cbn; [done|]. f_equal. exact IH.
  Qed.

  Lemma step_ping sh (m : option (list N)) : Homed sh -> StepOK sh (Generic (CPing m)) (exec_generic X home_s sh (CPing m)).
  Proof. intros HH. unfold StepOK; destruct m; cbn; done. Qed.

  Lemma at_shard_some sh (i : nat) s (f : st -> st * reply) :
    sh !! i = Some s -> at_shard sh i f = (<[i := (f s).1]> sh, (f s).2).
  Proof. intros Hs. unfold at_shard. rewrite Hs. by destruct (f s). Qed.

  (* one shard changes *)
  Lemma single_update sh (i : nat) s s' (T : st) :
    Homed sh -> (0 < List.length sh)%nat -> sh !! i = Some s ->
    (forall k, home_s (List.length sh) k = i -> s' !! k = T !! k) ->
    (forall k, home_s (List.length sh) k <> i -> s' !! k = s !! k) ->
    (forall k, home_s (List.length sh) k <> i -> T !! k = abs sh !! k) ->
    abs (<[i := s']> sh) = T /\ Homed (<[i := s']> sh) /\ List.length (<[i := s']> sh) = List.length sh.
  Proof.
    intros HH Hn Hs H1 H2 H3.
    destruct (family_update sh (<[i := s']> sh) T HH (insert_length _ _ _) Hn) as [Ha Hb];
      [|by rewrite insert_length].
    intros j t t' k Ht Ht'. destruct (decide (j = i)) as [->|Hne].
    - rewrite list_lookup_insert in Ht' by (by eapply lookup_lt_Some). inversion Ht'; subst t'.
      rewrite Hs in Ht; inversion Ht; subst t. split; auto.
    - rewrite list_lookup_insert_ne in Ht' by done. rewrite Ht in Ht'; inversion Ht'; subst t'.
      split; [|done]. intros Hk. rewrite H3 by congruence. subst j. symmetry. by apply lookup_abs.
  Qed.

  Lemma step_fastget sh (b : bool) k : Homed sh -> (0 < List.length sh)%nat ->
    StepOK sh (FastGet b k) (execN X home_s home_b sh (FastGet b k)).
  Proof.
    intros HH Hn. unfold StepOK; cbn. rewrite home_eq. destruct (home_some sh k Hn) as [s Hs]. rewrite Hs.
    rewrite (get_direct_spec X HX), (lookup_abs sh s k HH Hs). done.
  Qed.

  Lemma step_fastset sh (b : bool) k (v : list N) : Homed sh -> (0 < List.length sh)%nat ->
    StepOK sh (FastSet b k v) (execN X home_s home_b sh (FastSet b k v)).
  Proof.
    intros HH Hn. unfold StepOK; cbn. rewrite home_eq. destruct (home_some sh k Hn) as [s Hs].
    rewrite (at_shard_some sh _ s _ Hs), (set_direct_spec X HX). cbn. split; [done|].
    apply (single_update sh _ s); auto.
    - intros k' Hk'. destruct (decide (k' = k)) as [->|Hne]; [by rewrite !lookup_insert|].
      rewrite !lookup_insert_ne by done. symmetry. apply lookup_abs; [done|]. by rewrite Hk'.
    - intros k' Hk'. apply lookup_insert_ne. congruence.
    - intros k' Hk'. apply lookup_insert_ne. congruence.
  Qed.

  (* a command sent as a whole to the shard that homes all its keys *)
  Lemma step_whole sh (i : nat) s (c : cmd P) :
    Homed sh -> (0 < List.length sh)%nat -> sh !! i = Some s -> respects X c ->
    (forall k, k ∈ cmd_keys c -> home_s (List.length sh) k = i) ->
    let res := at_shard sh i (fun s => exec X s c) in
    res.2 = (exec X (abs sh) c).2 /\ abs res.1 = (exec X (abs sh) c).1 /\ Homed res.1 /\
    List.length res.1 = List.length sh.
  Proof.
    intros HH Hn Hs Hr Hk res. unfold res. rewrite (at_shard_some sh i s _ Hs). cbn.
    assert (forall k, k ∈ cmd_keys c -> s !! k = abs sh !! k) as Hag.
    { intros k Hin. symmetry. apply lookup_abs; [done|]. by rewrite (Hk k Hin). }
    destruct (key_local X HX c Hr s (abs sh) Hag) as [Hrep Hst]. split; [done|].
    assert (forall k, home_s (List.length sh) k <> i -> k ∉ cmd_keys c) as Hout.
    { intros k Hne Hin. by apply Hne, Hk. }
    destruct (single_update sh i s (exec X s c).1 (exec X (abs sh) c).1 HH Hn Hs) as [H1 [H2 H3]]; auto.
    - intros k Hh. destruct (decide (k ∈ cmd_keys c)) as [Hin|Hnin]; [by apply Hst|].
      rewrite !(key_frame X HX c Hr) by done. symmetry. apply lookup_abs; [done|]. by rewrite Hh.
    - intros k Hh. apply (key_frame X HX c Hr). by apply Hout.
    - intros k Hh. apply (key_frame X HX c Hr). by apply Hout.
  Qed.

  (* ---- the table: every variant with keys and no arm of its own is routed by its first key *)
  Lemma rows_ok : forallb row_ok key_table = true.
  Proof. vm_compute. reflexivity. Qed.
  Lemma assoc_In {B} (t : string) (l : list (string * B)) (b : B) : assoc t l = Some b -> In (t, b) l.
  Proof.
    induction l as [|[x y] l IH]; cbn; [done|]. destruct (String.eqb t x) eqn:E.
    - apply String.eqb_eq in E. intros [= ->]. subst. by left.
    - intros H. right. auto.
  Qed.
  Lemma table_row_ok (t : string) (p : kprimary) (spec : list kfield) : table_row t = Some (p, spec) -> row_ok (t, (p, spec)) = true.
  Proof.
    intros H. apply assoc_In in H. pose proof rows_ok as Hall. rewrite forallb_forall in Hall. by apply Hall.
  Qed.

  Lemma primary_of_wf (c : cmd P) :
    WfCmd c -> default_routed c -> cmd_keys c <> [] -> primary_key c = hd_error (cmd_keys c).
  Proof.
    destruct c as [| | | | | | | | |ks0|kvs0|tag ks p0]; try (by intros _ []); try (intros _ _ _; reflexivity).
    intros [Harm [p1 [spec [Hrow Hconf]]]] _ Hne. unfold primary_key. cbn [tag_of cmd_keys]. rewrite Hrow.
    pose proof (table_row_ok _ _ _ Hrow) as Hok. unfold row_ok in Hok. rewrite Harm in Hok.
    rewrite !orb_false_l in Hok. apply andb_prop in Hok as [_ Hok].
    destruct p1; try done. cbn in Hok.
    destruct spec; [|done]. cbn in Hconf. cbn in Hne. destruct ks; done.
  Qed.

  Lemma default_target sh (c : cmd P) :
    (0 < List.length sh)%nat -> WfCmd c -> default_routed c -> ~ CrossShard home_s (List.length sh) c ->
    exists i s, sh !! i = Some s /\ exec_default X home_s sh c = at_shard sh i (fun s => exec X s c) /\
                (forall k, k ∈ cmd_keys c -> home_s (List.length sh) k = i).
  Proof.
    intros Hn Hwf Hd Hcs.
    assert (routed_keys c = cmd_keys c) as Hrk by (by destruct c).
    assert (forall k1 k2, k1 ∈ cmd_keys c -> k2 ∈ cmd_keys c ->
              home_s (List.length sh) k1 = home_s (List.length sh) k2) as Hsame.
    { intros k1 k2 H1 H2. destruct (decide (home_s (List.length sh) k1 = home_s (List.length sh) k2)); [done|].
      exfalso. apply Hcs. exists k1, k2. by rewrite Hrk. }
    unfold exec_default. destruct (cmd_keys c) as [|k0 ks] eqn:EK.
    - assert (primary_key c = None) as ->.
      { unfold primary_key. rewrite EK. by destruct (table_row _) as [[[] ?]|]. }
      destruct (lookup_lt_is_Some_2 sh 0 Hn) as [s Hs]. exists O, s. split; [done|]. split; [done|].
      intros k Hk. by apply elem_of_nil in Hk.
    - rewrite (primary_of_wf c Hwf Hd) by (by rewrite EK). rewrite EK. cbn.
      destruct (home_some sh k0 Hn) as [s Hs]. eexists _, s. split; [done|]. split; [done|].
      intros k Hk. apply Hsame; [done|]. apply elem_of_cons; auto.
  Qed.

  Lemma step_default sh (c : cmd P) :
    Homed sh -> (0 < List.length sh)%nat -> WfCmd c -> default_routed c ->
    ~ CrossShard home_s (List.length sh) c -> respects X c ->
    let res := exec_default X home_s sh c in
    res.2 = (exec X (abs sh) c).2 /\ abs res.1 = (exec X (abs sh) c).1 /\ Homed res.1 /\
    List.length res.1 = List.length sh.
  Proof.
    intros HH Hn Hwf Hd Hcs Hr res.
    destruct (default_target sh c Hn Hwf Hd Hcs) as [i [s [Hs [Heq Hk]]]].
    unfold res. rewrite Heq. by apply (step_whole sh i s c).
  Qed.

  (* ---------------------------------------------------------------- EXISTS *)
  Lemma count_present_cons (S : st) k ks :
    count_present S (k :: ks) = (count_present S [k] + count_present S ks)%Z.
  Proof.
    unfold count_present. rewrite !filter_cons, filter_nil. destruct (decide _); cbn [List.length]; lia.
  Qed.
  Lemma count_present_nil (S : st) : count_present S [] = 0%Z.
  Proof. reflexivity. Qed.
  Lemma count_present_one_ext (S S' : st) k : S !! k = S' !! k -> count_present S [k] = count_present S' [k].
  Proof. intros E. unfold count_present. rewrite !filter_cons, !filter_nil. rewrite E. done. Qed.

  Lemma exists_fold sh (ks : list (list N)) (z : Z) : Homed sh -> (0 < List.length sh)%nat ->
    foldl (fun acc k =>
        let '(sh', r) := at_shard acc.1 (home_s (List.length sh) k) (fun s => exec X s (CExists [k])) in
        (sh', (acc.2 + int_of r)%Z)) (sh, z) ks
    = (sh, (z + count_present (abs sh) ks)%Z).
  Proof.
    intros HH Hn. revert z. induction ks as [|k ks IH]; intros z.
    - cbn. f_equal. rewrite count_present_nil. lia.
    - cbn [foldl]. cbn [fst snd]. destruct (home_some sh k Hn) as [s Hs].
      rewrite (at_shard_some sh _ s _ Hs), (exists_spec X HX). cbn [fst snd int_of].
      rewrite (list_insert_id sh _ s Hs). rewrite IH. f_equal.
      rewrite (count_present_cons _ k ks).
      rewrite (count_present_one_ext s (abs sh) k) by (symmetry; by apply lookup_abs). lia.
  Qed.

  Lemma step_exists sh (ks : list (list N)) : Homed sh -> (0 < List.length sh)%nat ->
    StepOK sh (Generic (CExists ks)) (exec_generic X home_s sh (CExists ks)).
  Proof.
    intros HH Hn. unfold StepOK. cbn [exec_generic ref1 ref_generic]. rewrite (exists_fold sh ks 0 HH Hn).
    cbn. rewrite Z.add_0_l. done.
  Qed.

  (* ---------------------------------------------------------------- DEL *)
  Lemma del_run_fst {W} (s : gmap (list N) W) k ks : (del_run s (k :: ks)).1 = (del_run (delete k s) ks).1.
  Proof. cbn. by destruct (del_run (delete k s) ks). Qed.
  Lemma del_run_snd {W} (s : gmap (list N) W) k ks :
    (del_run s (k :: ks)).2 = ((if bool_decide (is_Some (s !! k)) then 1 else 0) + (del_run (delete k s) ks).2)%Z.
  Proof. cbn. by destruct (del_run (delete k s) ks). Qed.

  Definition upd_del (k : list N) (o : option V) (l : list (list N)) : option V :=
    match l with [] => o | _ => None end.
  Lemma del_run_lookup s (ks : list (list N)) k :
    (del_run s ks).1 !! k = upd_del k (s !! k) (filter (fun a => a = k) ks).
  Proof.
    revert s; induction ks as [|a ks IH]; intros s; [done|].
    rewrite del_run_fst, IH, filter_cons. destruct (decide (a = k)) as [->|Hne].
    - rewrite lookup_delete. cbn. by destruct (filter _ ks).
    - by rewrite lookup_delete_ne.
  Qed.
  Lemma del_run_count s (ks : list (list N)) : (del_run s ks).2 = (zsize s - zsize (del_run s ks).1)%Z.
  Proof.
    revert s; induction ks as [|a ks IH]; intros s; [cbn; lia|].
    rewrite del_run_snd, del_run_fst, IH. unfold zsize.
    destruct (s !! a) as [v|] eqn:E.
    - rewrite bool_decide_eq_true_2 by eauto. rewrite (map_size_delete_Some a s) by eauto.
      assert (0 < size s)%nat. { destruct (decide (size s = 0)%nat) as [Hz|]; [|lia].
        apply map_size_empty_inv in Hz. subst. by rewrite lookup_empty in E. }
      lia.
    - rewrite bool_decide_eq_false_2 by (intros [? ?]; congruence).
      rewrite (map_size_delete_None a s) by done. lia.
  Qed.

  Lemma sum_ints_app l1 l2 : sum_ints (l1 ++ l2) = (sum_ints l1 + sum_ints l2)%Z.
  Proof.
    induction l1 as [|r l1 IH]; [change (sum_ints []) with 0%Z; cbn [app]; lia|].
    rewrite <- app_comm_cons. change (sum_ints (r :: l1 ++ l2)) with (int_of r + sum_ints (l1 ++ l2))%Z.
    change (sum_ints (r :: l1)) with (int_of r + sum_ints l1)%Z. lia.
  Qed.

  Lemma sum_del_outs (G : nat -> st -> st * option (list nat * list reply)) sh :
    (forall i s, sh !! i = Some s ->
       match (G i s).2 with Some o => sum_ints o.2 | None => 0%Z end = (zsize s - zsize (G i s).1)%Z) ->
    sum_ints (List.concat (omap snd (imap G sh)).*2) = (zsum (zsize <$> sh) - zsum (zsize <$> (imap G sh).*1))%Z.
  Proof.
    revert G; induction sh as [|s sh IH]; intros G HG; [done|].
    rewrite imap_cons. pose proof (HG O s eq_refl) as H0.
    specialize (IH (G ∘ S) (fun i t Ht => HG (S i) t Ht)).
    cbn [omap list_omap fmap list_fmap]. destruct (G O s) as [s' [o|]]; cbn [snd fst] in *.
    - cbn. rewrite sum_ints_app. cbn in IH. rewrite IH. unfold zsum in *. lia.
    - cbn. cbn in IH. rewrite IH. unfold zsum in *. lia.
  Qed.

  Lemma step_del sh (ks : list (list N)) : Homed sh -> (0 < List.length sh)%nat ->
    StepOK sh (Generic (CDel ks)) (exec_generic X home_s sh (CDel ks)).
  Proof.
    intros HH Hn. unfold StepOK. cbn [exec_generic ref1 ref_generic].
    destruct (1 <? List.length ks)%nat eqn:Elen.
    - (* fan-out *)
      set (run := fun (s : st) (b : list (list N)) => let '(s', r) := exec X s (CDel b) in (s', [r])).
      assert (forall s b, run s b = ((del_run s b).1, [RInt (del_run s b).2])) as Hrun.
      { intros s b. unfold run. by rewrite (del_spec X HX). }
      change (home_s (List.length sh)) with (fun a : list N => home_s (List.length sh) (id a)).
      destruct (run_batches_state id run upd_del) with (items := ks) (sh := sh) (T := (del_run (abs sh) ks).1)
        as [H1 [H2 H3]]; auto.
      { intros s b k. rewrite Hrun. cbn. apply del_run_lookup. }
      { intros k. apply del_run_lookup. }
      destruct (run_batches _ run ks sh) as [sh' outs] eqn:E. cbn [fst snd] in *.
      split; [|done]. f_equal.
      assert (outs = (run_batches (fun a => home_s (List.length sh) (id a)) run ks sh).2) as -> by (by rewrite E).
      assert (sh' = (run_batches (fun a => home_s (List.length sh) (id a)) run ks sh).1) as Esh by (by rewrite E).
      rewrite run_batches_bstep in *. cbn [fst snd] in *.
      rewrite sum_del_outs.
      + rewrite <- Esh. rewrite <- !size_union_list by (by apply Homed_Disj).
        change (⋃ sh) with (abs sh). change (⋃ sh') with (abs sh'). rewrite H2. by rewrite (del_run_count (abs sh) ks).
      + intros i s Hs. unfold bstep. destruct (batch_of _ i ks) as [|p b]; [cbn; lia|].
        rewrite Hrun. cbn [fst snd sum_ints foldr int_of]. rewrite del_run_count. lia.
    - (* at most one key: the default arm *)
      assert (primary_key (CDel ks : cmd P) = hd_error ks) as Hp by reflexivity.
      unfold exec_default. rewrite Hp. destruct ks as [|k [|k2 ks]]; [| |cbn in Elen; done].
      + cbn [hd_error]. destruct (lookup_lt_is_Some_2 sh 0 Hn) as [s Hs].
        rewrite (at_shard_some sh _ s _ Hs), (del_spec X HX). cbn. rewrite (list_insert_id sh _ s Hs). done.
      + cbn [hd_error]. destruct (home_some sh k Hn) as [s Hs].
        rewrite (at_shard_some sh _ s _ Hs), (del_spec X HX). cbn [fst snd].
        rewrite !del_run_fst, !del_run_snd. cbn [del_run fst snd].
        rewrite (lookup_abs sh s k HH Hs). split; [done|].
        apply (single_update sh _ s); auto.
        * intros k' Hk'. destruct (decide (k' = k)) as [->|Hne]; [by rewrite !lookup_delete|].
          rewrite !lookup_delete_ne by done. symmetry. apply lookup_abs; [done|]. by rewrite Hk'.
        * intros k' Hk'. apply lookup_delete_ne. congruence.
        * intros k' Hk'. apply lookup_delete_ne. congruence.
  Qed.

  (* ---------------------------------------------------------------- MGET / pipelined GET *)
  Definition upd_keep (k : list N) (o : option V) (l : list (list N)) : option V := o.

  Lemma batch_keys_home sh (i : nat) (ks : list (list N)) k :
    k ∈ (batch_of (fun a => home_s (List.length sh) (id a)) i ks).*2 -> home_s (List.length sh) k = i.
  Proof. rewrite batch_of_snd. rewrite elem_of_list_filter. by intros [? _]. Qed.

  Lemma step_mget sh (ks : list (list N)) : Homed sh -> (0 < List.length sh)%nat ->
    StepOK sh (Generic (CMGet ks)) (exec_generic X home_s sh (CMGet ks)).
  Proof.
    intros HH Hn. unfold StepOK. cbn [exec_generic ref1 ref_generic].
    set (run := fun (s : st) (b : list (list N)) => let '(s', r) := exec X s (CBatchGet b) in (s', arr_items r)).
    assert (forall s b, run s b = (s, (fun k => bget X (s !! k)) <$> b)) as Hrun.
    { intros s b. unfold run. by rewrite (batchget_spec X HX). }
    change (home_s (List.length sh)) with (fun a : list N => home_s (List.length sh) (id a)).
    destruct (run_batches_state id run upd_keep) with (items := ks) (sh := sh) (T := abs sh)
      as [H1 [H2 H3]]; auto.
    { intros s b k. by rewrite Hrun. }
    pose proof (run_batches_write_back id run (fun k => bget X (abs sh !! k)) (RBulk None) ks sh Hn) as Hwb.
    destruct (run_batches _ run ks sh) as [sh' outs] eqn:E. cbn [fst snd] in *.
    split; [|done]. rewrite Hwb; [done|].
    intros i s Hs. rewrite Hrun. cbn [snd]. apply Forall_fmap_ext_1, Forall_forall. intros k Hk.
    f_equal. symmetry. apply lookup_abs; [done|]. by rewrite (batch_keys_home sh i ks k Hk).
  Qed.

  Lemma step_pipeget sh (ks : list (list N)) : Homed sh -> (0 < List.length sh)%nat ->
    StepOK sh (PipeGet ks) (execN X home_s home_b sh (PipeGet ks)).
  Proof.
    intros HH Hn. unfold StepOK. cbn [execN ref1].
    set (run := fun (s : st) (b : list (list N)) => (s, get_direct X s <$> b)).
    rewrite (run_batches_ext_rt (home_b (List.length sh)) (fun a => home_s (List.length sh) (id a))) by (intros; apply home_eq).
    destruct (run_batches_state id run upd_keep) with (items := ks) (sh := sh) (T := abs sh)
      as [H1 [H2 H3]]; auto.
    pose proof (run_batches_write_back id run (fun k => fget X (abs sh !! k)) (RBulk None) ks sh Hn) as Hwb.
    destruct (run_batches _ run ks sh) as [sh' outs] eqn:E. cbn [fst snd] in *.
    split; [|done]. rewrite Hwb; [done|].
    intros i s Hs. unfold run. cbn [snd]. apply Forall_fmap_ext_1, Forall_forall. intros k Hk.
    rewrite (get_direct_spec X HX). f_equal. symmetry. apply lookup_abs; [done|].
    by rewrite (batch_keys_home sh i ks k Hk).
  Qed.

  (* ---------------------------------------------------------------- MSET / pipelined SET *)
  Definition fold_set (f : option V -> list N -> V) (s : st) (kvs : list (list N * list N)) : st :=
    foldl (fun s kv => <[kv.1 := f (s !! kv.1) kv.2]> s) s kvs.
  Definition upd_set (f : option V -> list N -> V) (k : list N) (o : option V) (l : list (list N * list N)) : option V :=
    foldl (fun o kv => Some (f o kv.2)) o l.
  Lemma fold_set_lookup f s kvs k :
    fold_set f s kvs !! k = upd_set f k (s !! k) (filter (fun kv : list N * list N => kv.1 = k) kvs).
  Proof.
    revert s; induction kvs as [|[a v] kvs IH]; intros s; [done|].
    unfold fold_set in *. cbn [foldl]. rewrite IH, filter_cons. cbn [fst snd].
    destruct (decide (a = k)) as [->|Hne].
    - by rewrite lookup_insert.
    - by rewrite lookup_insert_ne.
  Qed.

  Lemma step_mset sh (kvs : list (list N * list N)) : Homed sh -> (0 < List.length sh)%nat ->
    StepOK sh (Generic (CMSet kvs)) (exec_generic X home_s sh (CMSet kvs)).
  Proof.
    intros HH Hn. unfold StepOK. cbn [exec_generic ref1 ref_generic].
    set (run := fun (s : st) (b : list (list N * list N)) => ((exec X s (CBatchSet b)).1, @List.nil reply)).
    destruct (run_batches_state fst run (upd_set (bset X))) with (items := kvs) (sh := sh) (T := batch_set X (abs sh) kvs)
      as [H1 [H2 H3]]; auto.
    { intros s b k. unfold run. cbn [fst]. rewrite (batchset_spec X HX). apply (fold_set_lookup (bset X)). }
    { intros k. apply (fold_set_lookup (bset X)). }
    destruct (run_batches _ run kvs sh) as [sh' outs] eqn:E. cbn [fst snd] in *. done.
  Qed.

  Lemma run_direct_set_eq s (b : list (list N * list N)) :
    run_direct_set X s b = (fold_set (fun _ v => fset X v) s b, (fun _ => ROK) <$> b).
  Proof.
    unfold run_direct_set.
    assert (forall acc, foldl (fun acc kv => let '(s', r) := set_direct X acc.1 kv.1 kv.2 in (s', acc.2 ++ [r])) acc b
            = (fold_set (fun _ v => fset X v) acc.1 b, acc.2 ++ ((fun _ => ROK) <$> b))) as H.
    { induction b as [|[k v] b IH]; intros [s0 rs0]; cbn [foldl fst snd].
      - by rewrite app_nil_r.
      - rewrite (set_direct_spec X HX). rewrite IH. cbn [fst snd]. f_equal. by rewrite <- app_assoc. }
    by rewrite H.
  Qed.

  Lemma step_pipeset sh (kvs : list (list N * list N)) : Homed sh -> (0 < List.length sh)%nat ->
    StepOK sh (PipeSet kvs) (execN X home_s home_b sh (PipeSet kvs)).
  Proof.
    intros HH Hn. unfold StepOK. cbn [execN ref1].
    rewrite (run_batches_ext_rt (fun kv => home_b (List.length sh) kv.1) (fun a => home_s (List.length sh) (fst a))) by (intros; apply home_eq).
    destruct (run_batches_state fst (run_direct_set X) (upd_set (fun _ v => fset X v))) with (items := kvs) (sh := sh)
        (T := fold_set (fun _ v => fset X v) (abs sh) kvs) as [H1 [H2 H3]]; auto.
    { intros s b k. rewrite run_direct_set_eq. apply fold_set_lookup. }
    { intros k. apply fold_set_lookup. }
    pose proof (run_batches_write_back fst (run_direct_set X) (fun _ => ROK) ROK kvs sh Hn) as Hwb.
    destruct (run_batches _ (run_direct_set X) kvs sh) as [sh' outs] eqn:E. cbn [fst snd] in *.
    split; [|done]. rewrite Hwb; [done|].
    intros i s Hs. by rewrite run_direct_set_eq.
  Qed.

  (* ---------------------------------------------------------------- every single-home request *)
  Theorem refines_ref1 sh (rq : req P) :
    Homed sh -> (0 < List.length sh)%nat -> SingleHome X home_s (List.length sh) rq ->
    StepOK sh rq (execN X home_s home_b sh rq).
  Proof.
    intros HH Hn HS. destruct rq as [c|b k|b k v|ks|kvs].
    - cbn [execN]. destruct HS as [Hwf [Hcs Hr]].
      assert (default_routed c -> StepOK sh (Generic c) (exec_default X home_s sh c)) as Hdef.
      { intros Hd. destruct (step_default sh c HH Hn Hwf Hd Hcs (Hr Hd)) as [H1 [H2 [H3 H4]]].
        unfold StepOK. destruct c; try done. }
      destruct c; try (by apply Hdef).
      + by apply step_ping.
      + by apply step_flush.
      + by apply step_keys.
      + by apply step_mget.
      + by apply step_mset.
      + by apply step_dbsize.
      + by apply step_scan.
      + by apply step_del.
      + by apply step_exists.
    - by apply step_fastget.
    - by apply step_fastset.
    - by apply step_pipeget.
    - by apply step_pipeset.
  Qed.

  (* ---------------------------------------------------------------- N shards against one shard *)
  Lemma home_one k : home_s 1 k = O.
  Proof. pose proof (home_lt 1 k). lia. Qed.
  Lemma Homed_single (S : st) : Homed [S].
  Proof. intros i s k Hi _. cbn. rewrite home_one. destruct i; [done|]. by destruct i. Qed.
  Lemma abs_single (S : st) : abs [S] = S.
  Proof. unfold abs. cbn. apply (right_id ∅ (∪)). Qed.
  Lemma SingleHome_one n (rq : req P) : SingleHome X home_s n rq -> SingleHome X home_s 1 rq.
  Proof.
    destruct rq; try done. intros [H1 [H2 H3]]. split; [done|]. split; [|done].
    intros [k1 [k2 [_ [_ Hne]]]]. apply Hne. by rewrite !home_one.
  Qed.
  Lemma reply_equiv_join (rq : req P) a b c : reply_equiv rq a c -> reply_equiv rq b c -> reply_equiv rq a b.
  Proof.
    destruct rq as [[]| | | |]; cbn; try (intros -> ->; done).
    intros [la [lc [-> [-> Hp]]]] [lb [lc' [-> [Heq Hp']]]]. inversion Heq; subst.
    exists la, lb. split; [done|]. split; [done|]. by rewrite Hp, Hp'.
  Qed.

  Theorem refine_step sh (rq : req P) :
    Homed sh -> (0 < List.length sh)%nat -> SingleHome X home_s (List.length sh) rq ->
    let rN := execN X home_s home_b sh rq in
    let r1 := execN X home_s home_b [abs sh] rq in
    reply_equiv rq rN.2 r1.2 /\ r1.1 = [abs rN.1] /\ Homed rN.1 /\ List.length rN.1 = List.length sh.
  Proof.
    intros HH Hn HS rN r1.
    destruct (refines_ref1 sh rq HH Hn HS) as [A1 [A2 [A3 A4]]].
    destruct (refines_ref1 [abs sh] rq (Homed_single _) ltac:(cbn; lia) (SingleHome_one _ _ HS)) as [B1 [B2 [B3 B4]]].
    rewrite abs_single in B1, B2. fold rN in A1, A2, A3, A4. fold r1 in B1, B2, B3, B4.
    split; [by eapply reply_equiv_join|]. split; [|done].
    destruct r1.1 as [|x [|y l]] eqn:E; cbn in B4; try lia.
    rewrite abs_single in B2. congruence.
  Qed.

  Theorem refine_run (rqs : list (req P)) : forall sh,
    Homed sh -> (0 < List.length sh)%nat -> Forall (SingleHome X home_s (List.length sh)) rqs ->
    let rN := runN X home_s home_b sh rqs in
    let r1 := runN X home_s home_b [abs sh] rqs in
    replies_equiv rqs rN.2 r1.2 /\ r1.1 = [abs rN.1] /\ Homed rN.1 /\ List.length rN.1 = List.length sh.
  Proof.
    induction rqs as [|rq rqs IH]; intros sh HH Hn HS; cbn [runN].
    - cbn. done.
    - apply Forall_cons in HS as [HS1 HS2].
      destruct (refine_step sh rq HH Hn HS1) as [A1 [A2 [A3 A4]]].
      destruct (execN X home_s home_b sh rq) as [shN a] eqn:EN.
      destruct (execN X home_s home_b [abs sh] rq) as [sh1 a1] eqn:E1. cbn [fst snd] in *. subst sh1.
      rewrite <- A4 in HS2. specialize (IH shN A3 ltac:(lia) HS2).
      destruct (runN X home_s home_b shN rqs) as [shN' l] eqn:EN'.
      destruct (runN X home_s home_b [abs shN] rqs) as [sh1' l1] eqn:E1'. cbn [fst snd] in *.
      destruct IH as [I1 [I2 [I3 I4]]]. repeat split; try done. lia.
  Qed.
End Refine.

(* ================================================================ the concrete routing *)
Definition StepOK_str {V P} (X : executor V P) := @StepOK V P X home_str.

Lemma home_str_lt' : forall n k, (0 < n)%nat -> (home_str n k < n)%nat.
Proof. intros; by apply home_str_lt. Qed.
Lemma home_bytes_str : forall n k, home_bytes n k = home_str n k.
Proof. reflexivity. Qed.

Theorem shards_refine_one_lemma {V P} (X : executor V P) : exec_ok X ->
  forall (sh : list (gmap (list N) V)) (rq : req P),
  Homed home_str sh -> (0 < List.length sh)%nat -> SingleHome X home_str (List.length sh) rq ->
  let rN := execN X home_str home_bytes sh rq in
  let r1 := execN X home_str home_bytes [abs sh] rq in
  reply_equiv rq rN.2 r1.2 /\ r1.1 = [abs rN.1] /\ Homed home_str rN.1 /\ List.length rN.1 = List.length sh.
Proof. intros HX sh rq. apply (refine_step X home_str home_bytes HX home_str_lt' home_bytes_str). Qed.

Theorem shards_refine_one_seq_lemma {V P} (X : executor V P) : exec_ok X ->
  forall (rqs : list (req P)) (sh : list (gmap (list N) V)),
  Homed home_str sh -> (0 < List.length sh)%nat -> Forall (SingleHome X home_str (List.length sh)) rqs ->
  let rN := runN X home_str home_bytes sh rqs in
  let r1 := runN X home_str home_bytes [abs sh] rqs in
  replies_equiv rqs rN.2 r1.2 /\ r1.1 = [abs rN.1] /\ Homed home_str rN.1 /\ List.length rN.1 = List.length sh.
Proof. intros HX rqs sh. apply (refine_run X home_str home_bytes HX home_str_lt' home_bytes_str). Qed.

Theorem shards_refine_reference_lemma {V P} (X : executor V P) : exec_ok X ->
  forall (sh : list (gmap (list N) V)) (rq : req P),
  Homed home_str sh -> (0 < List.length sh)%nat -> SingleHome X home_str (List.length sh) rq ->
  let rN := execN X home_str home_bytes sh rq in
  reply_equiv rq rN.2 (ref1 X (abs sh) rq).2 /\ abs rN.1 = (ref1 X (abs sh) rq).1 /\
  Homed home_str rN.1 /\ List.length rN.1 = List.length sh.
Proof. intros HX sh rq. apply (refines_ref1 X home_str home_bytes HX home_str_lt' home_bytes_str). Qed.

(* a server always starts Homed: all shards empty *)
Lemma Homed_empty {V} n : Homed home_str (replicate n (∅ : gmap (list N) V)).
Proof.
  intros i s k Hs Hk. apply lookup_replicate in Hs as [-> _]. rewrite lookup_empty in Hk. by destruct Hk.
Qed.

(* the known-finding class is the complement of SingleHome *)
Lemma KnownClass_not_SingleHome {V P} (X : executor V P) home n (rq : req P) :
  KnownClass X home n rq -> ~ SingleHome X home n rq.
Proof.
  destruct rq; try done. intros [Hc|[Hd Hr]] [_ [H1 H2]]; [by apply H1|]. by apply Hr, H2.
Qed.

(* ================================================================ the key table *)
Lemma key_table_sound_lemma :
  (forall t, In t kt_variants -> exists p spec, table_row t = Some (p, spec)) /\
  (forall t p spec, table_row t = Some (p, spec) ->
     tag_single_home t = at_most_one_key spec || in_tags t dispatch_arms) /\
  (forall t p spec, table_row t = Some (p, spec) -> in_tags t dispatch_arms = false ->
     head_consistent p spec = true /\ (p = PNone -> spec = [])) /\
  dispatch_arms = model_arms /\ dispatch_guards = [("Del", "keys.len() > 1")]%string /\
  (forall P (home : nat -> list N -> nat) n tag ks (p : P),
     tag_single_home tag = true -> WfCmd (COp tag ks p) -> ~ CrossShard home n (COp tag ks p)).
Proof.
  assert (forall t p spec, table_row t = Some (p, spec) ->
     tag_single_home t = at_most_one_key spec || in_tags t dispatch_arms) as H2.
  { intros t p spec Hrow. pose proof (table_row_ok t p spec Hrow) as Hok. unfold row_ok in Hok.
    apply andb_prop in Hok as [Hok _]. apply andb_prop in Hok as [Hok _]. by apply Bool.eqb_prop in Hok. }
  split; [|split; [exact H2|split; [|split; [reflexivity|split; [reflexivity|]]]]].
  - assert (forallb (fun t => match table_row t with Some _ => true | None => false end) kt_variants = true) as H
      by (vm_compute; reflexivity).
    rewrite forallb_forall in H. intros t Ht. specialize (H t Ht).
    destruct (table_row t) as [[p spec]|]; [eauto|done].
  - intros t p spec Hrow Harm. pose proof (table_row_ok t p spec Hrow) as Hok. unfold row_ok in Hok.
    rewrite Harm in Hok. rewrite !orb_false_l in Hok.
    apply andb_prop in Hok as [Hok H3]. apply andb_prop in Hok as [_ Hh]. split; [done|].
    intros ->. cbn in H3. by destruct spec.
  - intros P home n tag ks p Hsh [Harm [p0 [spec [Hrow Hconf]]]] [k1 [k2 [Hk1 [Hk2 Hne]]]].
    rewrite (H2 tag p0 spec Hrow), Harm, orb_false_r in Hsh. cbn in Hk1, Hk2.
    assert (List.length ks <= 1)%nat as Hlen.
    { destruct spec as [|[] [|]]; try done; cbn in Hconf; apply Nat.eqb_eq in Hconf; lia. }
    destruct ks as [|a [|b ks]]; cbn in Hlen; try lia.
    + by apply elem_of_nil in Hk1.
    + apply elem_of_list_singleton in Hk1, Hk2. congruence.
Qed.

(* ================================================================ MiniKV satisfies exec_ok *)
Lemma apply_writes_agree (s1 s2 : gmap (list N) val) kws k :
  s1 !! k = s2 !! k -> apply_writes s1 kws !! k = apply_writes s2 kws !! k.
Proof.
  revert s1 s2; induction kws as [|[a w] kws IH]; intros s1 s2 H; [done|].
  cbn [apply_writes foldl]. apply IH. cbn [fst snd]. destruct w as [[v|]|]; [| |done].
  - destruct (decide (a = k)) as [->|]; [by rewrite !lookup_insert|by rewrite !lookup_insert_ne].
  - destruct (decide (a = k)) as [->|]; [by rewrite !lookup_delete|by rewrite !lookup_delete_ne].
Qed.
Lemma apply_writes_other (s : gmap (list N) val) kws k :
  (forall kw, kw ∈ kws -> kw.1 <> k) -> apply_writes s kws !! k = s !! k.
Proof.
  revert s; induction kws as [|[a w] kws IH]; intros s H; [done|].
  cbn [apply_writes foldl]. unfold apply_writes in IH. rewrite IH.
  - cbn [fst snd]. assert (a <> k) by (apply (H (a, w)); apply elem_of_list_here).
    destruct w as [[v|]|]; [by rewrite lookup_insert_ne|by rewrite lookup_delete_ne|done].
  - intros kw Hin. apply H. by apply elem_of_list_further.
Qed.

Lemma mini_ok : exec_ok mini.
Proof.
  split.
  - (* key_local *)
    intros c Hr s1 s2 Hag. destruct c; try done; cbn [exec mini mini_exec cmd_keys] in *.
    + split; [|intros; by apply Hag]. cbn. do 2 f_equal.
      apply Forall_fmap_ext_1, Forall_forall. intros k Hk. by rewrite (Hag k Hk).
    + split; [done|]. intros k Hk. cbn [fst].
      pose proof (fold_set_lookup (fun (_ : option val) v => VStr v)) as HF. unfold fold_set in HF.
      rewrite !HF. by rewrite (Hag k Hk).
    + cbn in Hr. rewrite Hr.
      assert (((fun k => s1 !! k) <$> ks) = ((fun k => s2 !! k) <$> ks)) as ->.
      { apply Forall_fmap_ext_1, Forall_forall. intros k Hk. by apply Hag. }
      destruct (mini_op tag ks p _) as [ws r]. cbn [fst snd]. split; [done|].
      intros k Hk. apply apply_writes_agree. by apply Hag.
  - (* key_frame *)
    intros c Hr s k Hk. destruct c; try done; cbn [exec mini mini_exec cmd_keys] in *.
    + cbn [fst]. pose proof (fold_set_lookup (fun (_ : option val) v => VStr v)) as HF. unfold fold_set in HF.
      rewrite HF.
      assert (filter (fun kv : list N * list N => kv.1 = k) kvs = []) as ->; [|done].
      apply elem_of_nil_inv. intros kv Hin. apply elem_of_list_filter in Hin as [<- Hin].
      apply Hk. apply elem_of_list_fmap. eauto.
    + cbn in Hr. rewrite Hr. destruct (mini_op tag ks p _) as [ws r]. cbn [fst].
      apply apply_writes_other. intros [a w] Hin Heq. cbn in Heq. subst a.
      apply elem_of_zip_l in Hin. done.
  - done.
  - done.
  - intros s p. eexists. split; [reflexivity|done].
  - done.
  - done.
  - done.
  - done.
  - done.
  - done.
Qed.


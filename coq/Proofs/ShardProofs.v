(* C03 - proofs about Model/Shard.v: both routing functions agree; an N-shard dispatcher over any
   executor satisfying [exec_ok] refines the one-store reference for every single-home request
   (abstraction = union of the shards, invariant = every key is stored in its home shard);
   the classification is what the table generated from command.rs says; two-key and keyless
   state-dependent commands are a refuted class. *)
From stdpp Require Import gmap sorting.
From Coq Require Import NArith ZArith String Lia.
From RV Require Import Lib.Hex Lib.SipHash Lib.SipHashFast Gen.KeyTable Model.Shard Model.MiniKV.
Local Open Scope N_scope.

(* ================================================================ routing *)
Lemma routes_agree_lemma : forall k n, route_str k n = route_bytes k n.
Proof. reflexivity. Qed.

(* the tree before /repo 36d66e2: "foo" on 16 shards *)
Lemma routes_disagreed_before_fix :
  exists k n, route_str_before_fix k n <> route_bytes k n.
Proof. exists [102; 111; 111], 16. vm_compute. discriminate. Qed.

Lemma home_bytes_lt n k : (0 < n)%nat -> (home_bytes n k < n)%nat.
Proof.
  intros Hn. unfold home_bytes, route_bytes.
  assert (hash_slice k mod N.of_nat n < N.of_nat n) by (apply N.mod_lt; lia). lia.
Qed.
Lemma home_str_lt n k : (0 < n)%nat -> (home_str n k < n)%nat.
Proof. apply home_bytes_lt. Qed.
Lemma home_str_bytes n k : home_str n k = home_bytes n k.
Proof. reflexivity. Qed.

(* ================================================================ the order SCAN sorts by *)
Lemma bytes_leb_refl a : bytes_leb a a = true.
Proof. induction a as [|x a IH]; cbn; [done|]. rewrite N.ltb_irrefl, N.eqb_refl. done. Qed.
Lemma bytes_leb_total a b : bytes_leb a b = true \/ bytes_leb b a = true.
Proof.
  revert b; induction a as [|x a IH]; intros [|y b]; cbn; auto.
  destruct (N.ltb_spec x y), (N.ltb_spec y x), (N.eqb_spec x y), (N.eqb_spec y x); auto; try lia.
Qed.
Lemma bytes_leb_trans a b c : bytes_leb a b = true -> bytes_leb b c = true -> bytes_leb a c = true.
Proof.
  revert b c; induction a as [|x a IH]; intros [|y b] [|z c]; cbn; auto; try discriminate.
  destruct (N.ltb_spec x y), (N.ltb_spec y z), (N.ltb_spec x z), (N.eqb_spec x y), (N.eqb_spec y z), (N.eqb_spec x z);
    auto; try discriminate; try lia. eauto.
Qed.
Lemma bytes_leb_antisym a b : bytes_leb a b = true -> bytes_leb b a = true -> a = b.
Proof.
  revert b; induction a as [|x a IH]; intros [|y b]; cbn; auto; try discriminate.
  destruct (N.ltb_spec x y), (N.ltb_spec y x), (N.eqb_spec x y), (N.eqb_spec y x); try discriminate; try lia.
  intros. subst. f_equal. auto.
Qed.
Global Instance bytes_le_total : Total bytes_le.
Proof. intros a b. apply bytes_leb_total. Qed.
Global Instance bytes_le_trans : Transitive bytes_le.
Proof. intros a b c. apply bytes_leb_trans. Qed.
Global Instance bytes_le_antisym : AntiSymm (=) bytes_le.
Proof. intros a b. apply bytes_leb_antisym. Qed.

Lemma merge_sort_perm_eq (l1 l2 : list (list N)) :
  l1 ≡ₚ l2 -> merge_sort bytes_le l1 = merge_sort bytes_le l2.
Proof.
  intros Hp. apply (Sorted_unique bytes_le); try apply Sorted_merge_sort; try apply _.
  rewrite !merge_sort_Permutation. done.
Qed.
Lemma scan_page_perm l1 l2 c n : l1 ≡ₚ l2 -> scan_page l1 c n = scan_page l2 c n.
Proof. intros Hp. unfold scan_page. rewrite (merge_sort_perm_eq _ _ Hp). done. Qed.

(* ================================================================ unions of disjoint maps *)
Section Maps.
  Context {V : Type}.
  Notation st := (gmap (list N) V).
  Implicit Types (s : st) (sh : list st).

  Lemma lookup_union_list_None sh k : (⋃ sh) !! k = None <-> Forall (fun s => s !! k = None) sh.
  Proof.
    induction sh as [|s sh IH]; cbn.
    - rewrite lookup_empty. split; auto.
    - rewrite lookup_union_None, IH, Forall_cons. done.
  Qed.

  (* if only the map at position i can hold k, the union holds what that map holds *)
  Lemma lookup_union_list_at sh i s k :
    sh !! i = Some s ->
    (forall j t, sh !! j = Some t -> is_Some (t !! k) -> j = i) ->
    (⋃ sh) !! k = s !! k.
  Proof.
    revert i; induction sh as [|t sh IH]; intros i Hi Hu; [done|].
    cbn [union_list foldr]. destruct i as [|i]; cbn in Hi.
    - inversion Hi; subst t. destruct (s !! k) as [v|] eqn:E.
      + by apply lookup_union_Some_l.
      + apply lookup_union_None; split; [done|]. apply lookup_union_list_None.
        apply Forall_forall; intros u Hu'. apply elem_of_list_lookup in Hu' as [j Hj].
        destruct (u !! k) eqn:E'; [|done]. specialize (Hu (S j) u Hj). rewrite E' in Hu.
        specialize (Hu ltac:(eauto)). lia.
    - assert (t !! k = None) as Ht.
      { destruct (t !! k) eqn:E'; [|done]. specialize (Hu O t eq_refl). rewrite E' in Hu.
        specialize (Hu ltac:(eauto)). lia. }
      rewrite lookup_union_r by done. apply (IH i Hi). intros j u Hj Hs.
      specialize (Hu (S j) u Hj Hs). lia.
  Qed.

  Definition Disj sh : Prop :=
    forall i j s t, i <> j -> sh !! i = Some s -> sh !! j = Some t -> s ##ₘ t.
  Lemma Disj_cons s sh : Disj (s :: sh) -> s ##ₘ ⋃ sh /\ Disj sh.
  Proof.
    intros H; split.
    - apply map_disjoint_union_list_r_2, Forall_forall. intros t Ht.
      apply elem_of_list_lookup in Ht as [j Hj]. symmetry. apply (H O (S j)); auto.
    - intros i j a b Hij Ha Hb. apply (H (S i) (S j)); auto.
  Qed.

  Definition zsum (l : list Z) : Z := foldr Z.add 0%Z l.
  Definition zsize s : Z := Z.of_nat (size s).
  Lemma size_union_list sh : Disj sh -> zsize (⋃ sh) = zsum (zsize <$> sh).
  Proof.
    induction sh as [|s sh IH]; intros HD; cbn.
    - unfold zsize. by rewrite map_size_empty.
    - apply Disj_cons in HD as [H1 H2].
      change (zsize (s ∪ ⋃ sh) = (zsize s + zsum (zsize <$> sh))%Z).
      rewrite <- IH by done. unfold zsize. rewrite map_size_disj_union by done. lia.
  Qed.

  Lemma elem_of_map_keys s k : k ∈ map_keys s <-> is_Some (s !! k).
  Proof.
    unfold map_keys. rewrite elem_of_list_fmap. split.
    - intros [[k' v] [-> H]]. apply elem_of_map_to_list in H. eauto.
    - intros [v H]. exists (k, v). split; [done|]. by apply elem_of_map_to_list.
  Qed.
  Lemma map_keys_union s1 s2 : s1 ##ₘ s2 -> map_keys (s1 ∪ s2) ≡ₚ map_keys s1 ++ map_keys s2.
  Proof.
    intros HD. apply NoDup_Permutation.
    - apply NoDup_fst_map_to_list.
    - apply NoDup_app; split; [apply NoDup_fst_map_to_list|]. split; [|apply NoDup_fst_map_to_list].
      intros k H1 H2. apply elem_of_map_keys in H1 as [v1 H1]. apply elem_of_map_keys in H2 as [v2 H2].
      by pose proof (map_disjoint_spec s1 s2) as [Hs _]; eapply Hs.
    - intros k. rewrite elem_of_app, !elem_of_map_keys.
      unfold is_Some. setoid_rewrite lookup_union_Some; [|done]. naive_solver.
  Qed.
  Lemma map_keys_union_list sh : Disj sh -> map_keys (⋃ sh) ≡ₚ List.concat (map_keys <$> sh).
  Proof.
    induction sh as [|s sh IH]; intros HD; cbn.
    - unfold map_keys. by rewrite map_to_list_empty.
    - apply Disj_cons in HD as [H1 H2]. rewrite map_keys_union by done. by rewrite IH.
  Qed.
End Maps.

(* ================================================================ grouping and writing back *)
Section Lists.
  Context {A B : Type}.

  Definition ins (res : list B) (iv : nat * B) : list B := <[iv.1 := iv.2]> res.

  Lemma foldl_ins_length (ws : list (nat * B)) res : List.length (foldl ins res ws) = List.length res.
  Proof. revert res; induction ws as [|w ws IH]; intros res; cbn; [done|]. rewrite IH. apply insert_length. Qed.

  Lemma foldl_ins_lookup (ws : list (nat * B)) res j v :
    (forall j' v', (j', v') ∈ ws -> j' = j -> v' = v) -> (j, v) ∈ ws -> (j < List.length res)%nat ->
    foldl ins res ws !! j = Some v.
  Proof.
    revert res. induction ws as [|[j' v'] ws IH] using rev_ind; intros res Hc Hin Hj.
    - by apply elem_of_nil in Hin.
    - rewrite foldl_app. cbn. unfold ins at 1. cbn.
      destruct (decide (j' = j)) as [->|Hne].
      + rewrite (Hc j v') by (rewrite ?elem_of_app, ?elem_of_list_singleton; auto).
        apply list_lookup_insert. by rewrite foldl_ins_length.
      + rewrite list_lookup_insert_ne by done. apply IH; auto.
        * intros a b Hab. apply Hc. rewrite elem_of_app; auto.
        * apply elem_of_app in Hin as [?|Hin]; [done|].
          apply elem_of_list_singleton in Hin. congruence.
  Qed.

  Lemma foldl_concat (f : B -> A -> B) a (ls : list (list A)) :
    foldl (fun a l => foldl f a l) a ls = foldl f a (List.concat ls).
  Proof. revert a; induction ls as [|l ls IH]; intros a; cbn; [done|]. by rewrite foldl_app, IH. Qed.

  Lemma zip_fst_snd_fmap (G : A -> B) (l : list (nat * A)) :
    zip l.*1 (G <$> l.*2) = (fun p => (p.1, G p.2)) <$> l.
  Proof. induction l as [|[j a] l IH]; cbn; [done|]. by rewrite IH. Qed.
End Lists.

Lemma foldl_fmap_l {A B C} (g : A -> B -> A) (h : C -> B) a (l : list C) :
  foldl (fun a o => g a (h o)) a l = foldl g a (h <$> l).
Proof. revert a; induction l as [|x l IH]; intros a; cbn; [done|]. by rewrite IH. Qed.

Section WriteBack.
  Context {A : Type}.

  Lemma write_back_writes init len outs :
    write_back init len outs = foldl ins (replicate len init) (List.concat ((fun o => zip o.1 o.2) <$> outs)).
  Proof.
    unfold write_back. rewrite <- foldl_concat.
    rewrite <- (foldl_fmap_l (fun res l => foldl ins res l) (fun o => zip o.1 o.2)). done.
  Qed.

  Lemma write_back_spec (G : A -> reply) init (items : list A) outs :
    (forall o j v, o ∈ outs -> (j, v) ∈ zip o.1 o.2 -> exists a, items !! j = Some a /\ v = G a) ->
    (forall j a, items !! j = Some a -> exists o, o ∈ outs /\ (j, G a) ∈ zip o.1 o.2) ->
    write_back init (List.length items) outs = G <$> items.
  Proof.
    intros Hs Hc. rewrite write_back_writes. set (ws := List.concat _).
    assert (forall j v, (j, v) ∈ ws <-> exists o, o ∈ outs /\ (j, v) ∈ zip o.1 o.2) as Hws.
    { intros j v. unfold ws. rewrite elem_of_list_In, in_concat. split.
      - intros [l [Hl Hin]]. apply elem_of_list_In, elem_of_list_fmap in Hl as [o [-> Ho]].
        exists o; split; [done|]. by apply elem_of_list_In.
      - intros [o [Ho Hin]]. exists (zip o.1 o.2). split; [|by apply elem_of_list_In].
        apply elem_of_list_In, elem_of_list_fmap. eauto. }
    apply list_eq; intros j. rewrite list_lookup_fmap.
    destruct (items !! j) as [a|] eqn:E; cbn.
    - apply foldl_ins_lookup.
      + intros j' v' Hin ->. apply Hws in Hin as [o [Ho Hin]].
        destruct (Hs o j v' Ho Hin) as [a' [Ha' ->]]. congruence.
      + apply Hws. auto.
      + rewrite replicate_length. by apply lookup_lt_Some in E.
    - apply lookup_ge_None. rewrite foldl_ins_length, replicate_length. by apply lookup_ge_None in E.
  Qed.
End WriteBack.

Section Batches.
  Context {A : Type}.
  Variable rt : A -> nat.

  Lemma batch_of_snd_gen (g : nat -> nat) i (items : list A) :
    (filter (fun p : nat * A => rt p.2 = i) (imap (fun j a => (g j, a)) items)).*2 = filter (fun a => rt a = i) items.
  Proof.
    revert g; induction items as [|a items IH]; intros g; [done|].
    rewrite imap_cons.
    change (imap ((fun j a => (g j, a)) ∘ S) items) with (imap (fun j a => ((g ∘ S) j, a)) items).
    rewrite !filter_cons. cbn. destruct (decide (rt a = i)); cbn; by rewrite (IH (fun j => g (S j))).
  Qed.
  Lemma batch_of_snd i items : (batch_of rt i items).*2 = filter (fun a => rt a = i) items.
  Proof. apply (batch_of_snd_gen id). Qed.

  Lemma elem_of_batch_of i items j a :
    (j, a) ∈ batch_of rt i items <-> items !! j = Some a /\ rt a = i.
  Proof.
    unfold batch_of. rewrite elem_of_list_filter, elem_of_lookup_imap. cbn. split.
    - intros [Hr [j' [a' [Heq Hl]]]]. inversion Heq; subst. done.
    - intros [Hl Hr]. split; [done|]. eauto.
  Qed.
End Batches.

Lemma filter_key_batch {A} (keyof : A -> list N) (home : list N -> nat) i k (items : list A) :
  filter (fun a => keyof a = k) (filter (fun a => home (keyof a) = i) items)
  = if decide (home k = i) then filter (fun a => keyof a = k) items else [].
Proof.
  induction items as [|a items IH]; [by destruct (decide _)|].
  rewrite (filter_cons (fun a => home (keyof a) = i)). rewrite (filter_cons (fun a => keyof a = k) a items).
  destruct (decide (home (keyof a) = i)) as [Hh|Hh], (decide (keyof a = k)) as [Hk|Hk]; subst;
    rewrite ?filter_cons, ?IH; repeat case_decide; done || congruence.
Qed.

(* ================================================================ the refinement *)
Section Refine.
  Context {V P : Type}.
  Variable X : executor V P.
  Variable home_s home_b : nat -> list N -> nat.
  Hypothesis HX : exec_ok X.
  Hypothesis home_lt : forall n k, (0 < n)%nat -> (home_s n k < n)%nat.
  Hypothesis home_eq : forall n k, home_b n k = home_s n k.
  Notation st := (gmap (list N) V).
  Notation Homed := (Homed home_s).
  Implicit Types (s : st) (sh : list st) (k : list N).

  Lemma home_some sh k : (0 < List.length sh)%nat -> exists s, sh !! home_s (List.length sh) k = Some s.
  Proof. intros Hn. apply lookup_lt_is_Some_2. by apply home_lt. Qed.

  Lemma Homed_Disj sh : Homed sh -> Disj sh.
  Proof.
    intros HH i j s t Hij Hs Ht. apply map_disjoint_spec. intros k x y Hx Hy.
    pose proof (HH i s k Hs ltac:(eauto)). pose proof (HH j t k Ht ltac:(eauto)). congruence.
  Qed.

  Lemma lookup_abs sh s k :
    Homed sh -> sh !! home_s (List.length sh) k = Some s -> abs sh !! k = s !! k.
  Proof.
    intros HH Hs. unfold abs. apply (lookup_union_list_at sh _ s k Hs).
    intros j t Hj Ht. symmetry. by apply (HH j t k).
  Qed.
  Lemma lookup_not_home sh i s k : Homed sh -> sh !! i = Some s -> home_s (List.length sh) k <> i -> s !! k = None.
  Proof.
    intros HH Hs Hne. destruct (s !! k) eqn:E; [|done]. exfalso. apply Hne. apply (HH i s k Hs). eauto.
  Qed.

  (* the shape every state-changing arm has: shard i may change only the keys homed at i *)
  Lemma family_update sh sh' (T : st) :
    Homed sh -> List.length sh' = List.length sh -> (0 < List.length sh)%nat ->
    (forall i s s' k, sh !! i = Some s -> sh' !! i = Some s' ->
       (home_s (List.length sh) k = i -> s' !! k = T !! k) /\
       (home_s (List.length sh) k <> i -> s' !! k = s !! k)) ->
    Homed sh' /\ abs sh' = T.
  Proof.
    intros HH Hlen Hn Hpt.
    assert (Homed sh') as HH'.
    { intros i s' k Hs' Hsome. rewrite Hlen.
      destruct (lookup_lt_is_Some_2 sh i) as [s Hs]. { rewrite <- Hlen. by eapply lookup_lt_Some. }
      destruct (decide (home_s (List.length sh) k = i)) as [|Hne]; [done|].
      destruct (Hpt i s s' k Hs Hs') as [_ H2]. rewrite (H2 Hne) in Hsome.
      rewrite (lookup_not_home sh i s k HH Hs Hne) in Hsome. by destruct Hsome. }
    split; [done|]. apply map_eq; intros k.
    destruct (home_some sh' k) as [s' Hs']; [lia|].
    rewrite (lookup_abs sh' s' k HH' Hs'). rewrite Hlen in Hs'.
    destruct (home_some sh k Hn) as [s Hs].
    by destruct (Hpt _ s s' k Hs Hs') as [H1 _]; apply H1.
  Qed.

  (* ---------------------------------------------------------------- run_batches *)
  Section RunBatches.
    Context {A : Type}.
    Variable keyof : A -> list N.
    Variable run : st -> list A -> st * list reply.
    Variable upd : list N -> option V -> list A -> option V.
    Hypothesis run_pt : forall s b k, (run s b).1 !! k = upd k (s !! k) (filter (fun a => keyof a = k) b).
    Hypothesis upd_nil : forall k o, upd k o [] = o.

    Let F (n : nat) (items : list A) (i : nat) (s : st) : st * option (list nat * list reply) :=
      let b := batch_of (fun a => home_s n (keyof a)) i items in
      match b with
      | [] => (s, None)
      | _ => let '(s', rs) := run s (b.*2) in (s', Some (b.*1, rs))
      end.

    Lemma run_batches_unfold (n : nat) (items : list A) sh :
      run_batches (fun a => home_s n (keyof a)) run items sh = ((imap (F n items) sh).*1, omap snd (imap (F n items) sh)).
    Proof. reflexivity. Qed.

    Lemma F_fst (n : nat) (items : list A) (i : nat) s :
      (F n items i s).1 = (run s (batch_of (fun a => home_s n (keyof a)) i items).*2).1 \/
      ((F n items i s).1 = s /\ batch_of (fun a => home_s n (keyof a)) i items = []).
    Proof.
      unfold F. destruct (batch_of _ i items) as [|p b] eqn:E; [right; done|left].
      by destruct (run s _).
    Qed.

    Lemma F_lookup (n : nat) (items : list A) (i : nat) s k :
      (F n items i s).1 !! k =
      if decide (home_s n k = i) then upd k (s !! k) (filter (fun a => keyof a = k) items) else s !! k.
    Proof.
      assert (upd k (s !! k) (filter (fun a => keyof a = k) (batch_of (fun a => home_s n (keyof a)) i items).*2)
              = if decide (home_s n k = i) then upd k (s !! k) (filter (fun a => keyof a = k) items) else s !! k) as Hgen.
      { rewrite batch_of_snd. rewrite (filter_key_batch keyof (home_s n)).
        destruct (decide _); [done|]. apply upd_nil. }
      destruct (F_fst n items i s) as [->|[-> Hb]].
      - by rewrite run_pt.
      - rewrite <- Hgen, Hb. cbn. by rewrite upd_nil.
    Qed.

    Lemma run_batches_state (items : list A) sh (T : st) :
      Homed sh -> (0 < List.length sh)%nat ->
      (forall k, T !! k = upd k (abs sh !! k) (filter (fun a => keyof a = k) items)) ->
      let sh' := (run_batches (fun a => home_s (List.length sh) (keyof a)) run items sh).1 in
      Homed sh' /\ abs sh' = T /\ List.length sh' = List.length sh.
    Proof.
      intros HH Hn HT sh'.
      assert (List.length sh' = List.length sh) as Hlen.
      { unfold sh'. rewrite run_batches_unfold. cbn. by rewrite fmap_length, imap_length. }
      destruct (family_update sh sh' T HH Hlen Hn) as [H1 H2]; [|done].
      intros i s s' k Hs Hs'. unfold sh' in Hs'. rewrite run_batches_unfold in Hs'. cbn in Hs'.
      rewrite list_lookup_fmap, list_lookup_imap, Hs in Hs'. cbn in Hs'. inversion Hs'; subst s'.
      rewrite F_lookup. split; intros Hh.
      - rewrite decide_True by done. rewrite HT. subst i. by rewrite (lookup_abs sh s k HH Hs).
      - by rewrite decide_False.
    Qed.

    (* what the shards answered: one entry per shard with a non-empty batch *)
    Lemma run_batches_outs_sound (items : list A) sh o :
      o ∈ (run_batches (fun a => home_s (List.length sh) (keyof a)) run items sh).2 ->
      exists i s, sh !! i = Some s /\
        let b := batch_of (fun a => home_s (List.length sh) (keyof a)) i items in
        b <> [] /\ o = (b.*1, (run s b.*2).2).
    Proof.
      rewrite run_batches_unfold. cbn. rewrite elem_of_list_omap. intros [x [Hx Ho]].
      apply elem_of_lookup_imap in Hx as [i [s [-> Hs]]]. exists i, s. split; [done|].
      unfold F in Ho. destruct (batch_of _ i items) as [|p b] eqn:E; [done|].
      remember (run s (p :: b).*2) as rr eqn:E2. destruct rr as [s1 rs1]. cbn in Ho. inversion Ho; subst. done.
    Qed.
    Lemma run_batches_outs_complete (items : list A) sh (i : nat) s :
      sh !! i = Some s ->
      let b := batch_of (fun a => home_s (List.length sh) (keyof a)) i items in
      b <> [] -> (b.*1, (run s b.*2).2) ∈ (run_batches (fun a => home_s (List.length sh) (keyof a)) run items sh).2.
    Proof.
      intros Hs b Hb. rewrite run_batches_unfold. cbn. rewrite elem_of_list_omap.
      exists (F (List.length sh) items i s). split; [by apply elem_of_lookup_imap_2|].
      unfold F. fold b. destruct b as [|p b'] eqn:E; [done|]. by destruct (run s _).
    Qed.

    (* replies written back by original index: if every shard answers [G] of each item of its
       batch, the result is [G] of each item *)
    Lemma run_batches_write_back (G : A -> reply) init (items : list A) sh :
      (0 < List.length sh)%nat ->
      (forall i s, sh !! i = Some s ->
         let b := batch_of (fun a => home_s (List.length sh) (keyof a)) i items in
         (run s b.*2).2 = G <$> b.*2) ->
      write_back init (List.length items) (run_batches (fun a => home_s (List.length sh) (keyof a)) run items sh).2
      = G <$> items.
    Proof.
      intros Hn HG. apply write_back_spec.
      - intros o j v Ho Hin. apply run_batches_outs_sound in Ho as [i [s [Hs [Hb ->]]]]. cbn in Hin.
        rewrite (HG i s Hs), zip_fst_snd_fmap in Hin. apply elem_of_list_fmap in Hin as [[j' a] [Heq Hin]].
        cbn in Heq. inversion Heq; subst. apply elem_of_batch_of in Hin as [Hl _]. eauto.
      - intros j a Hl. destruct (home_some sh (keyof a) Hn) as [s Hs].
        set (i := home_s (List.length sh) (keyof a)) in *.
        assert ((j, a) ∈ batch_of (fun a => home_s (List.length sh) (keyof a)) i items) as Hin
          by (apply elem_of_batch_of; done).
        eexists. split.
        + apply (run_batches_outs_complete items sh i s Hs). intros E. rewrite E in Hin. by apply elem_of_nil in Hin.
        + cbn. rewrite (HG i s Hs), zip_fst_snd_fmap. apply elem_of_list_fmap. by exists (j, a).
    Qed.
  End RunBatches.

(* Algebra used by C11 and C13: ReplicatedValue::merge respects the observable projection
   (obs is a congruence), same-kind merges preserve kind and compatibility, and the fold
   of a non-empty list of pairwise compatible same-kind values under merge depends, on obs,
   only on the set of its elements (any order, any multiplicity). *)
From stdpp Require Import gmap.
From Coq Require Import NArith Lia.
From RV Require Import Lib.Hex Model.Crdt Proofs.CrdtProofs.
Local Open Scope N_scope.

(* ---------- pointwise view of the normalisations ---------- *)
Definition getz (m : gmap N N) (i : N) : N := default 0 (m !! i).

Lemma nz_lookup (m : gmap N N) i :
  nz m !! i = match m !! i with Some x => if decide (x = 0) then None else Some x | None => None end.
Proof.
  unfold nz. rewrite map_filter_lookup. destruct (m !! i) as [x|]; simpl; [|done].
  unfold nonzero; simpl. destruct (decide (x = 0)) as [->|Hne].
  - rewrite option_guard_False; [done|]. intros H. by apply H.
  - by rewrite option_guard_True.
Qed.

Lemma nz_eq_iff (m m' : gmap N N) : nz m = nz m' ↔ ∀ i, getz m i = getz m' i.
Proof.
  split.
  - intros H i. apply (f_equal (λ x, x !! i)) in H. rewrite !nz_lookup in H. unfold getz.
    destruct (m !! i) as [x|], (m' !! i) as [y|]; simpl in *;
      repeat (match goal with H : context [decide (?a = 0)] |- _ => destruct (decide (a = 0)) end);
      simplify_eq; done.
  - intros H. apply map_eq. intros i. specialize (H i). rewrite !nz_lookup. unfold getz in H.
    destruct (m !! i) as [x|], (m' !! i) as [y|]; simpl in *;
      repeat (match goal with |- context [decide (?a = 0)] => destruct (decide (a = 0)) end);
      simplify_eq; done.
Qed.

Lemma getz_merge a b i : getz (nmap_merge a b) i = N.max (getz a i) (getz b i).
Proof.
  unfold getz, nmap_merge. rewrite lookup_union_with.
  destruct (a !! i), (b !! i); simpl; lia.
Qed.

Lemma nz_merge_congr a a' b b' :
  nz a = nz a' → nz b = nz b' → nz (nmap_merge a b) = nz (nmap_merge a' b').
Proof.
  rewrite !nz_eq_iff. intros Ha Hb i. by rewrite !getz_merge, Ha, Hb.
Qed.

Definition gett (m : gmap (list N) (gset (N * N))) (e : list N) : gset (N * N) := default ∅ (m !! e).

Lemma tagnorm_eq_iff (m m' : gmap (list N) (gset (N * N))) :
  filter nonempty_tags m = filter nonempty_tags m' ↔ ∀ e, gett m e = gett m' e.
Proof.
  split.
  - intros H e. apply (f_equal (λ x, x !! e)) in H. rewrite !filter_ne_lookup in H. unfold gett.
    destruct (m !! e) as [x|], (m' !! e) as [y|]; simpl in *;
      repeat (match goal with H : context [decide (?a = ∅)] |- _ => destruct (decide (a = ∅)) end);
      simplify_eq; done.
  - intros H. apply map_eq. intros e. specialize (H e). rewrite !filter_ne_lookup. unfold gett in H.
    destruct (m !! e) as [x|], (m' !! e) as [y|]; simpl in *;
      repeat (match goal with |- context [decide (?a = ∅)] => destruct (decide (a = ∅)) end);
      simplify_eq; done.
Qed.

Lemma gett_filter m e : gett (filter nonempty_tags m) e = gett m e.
Proof.
  unfold gett. rewrite filter_ne_lookup. destruct (m !! e) as [s|]; [|done].
  by destruct (decide (s = ∅)) as [->|].
Qed.
Lemma gett_union a b e : gett (tags_union a b) e = gett a e ∪ gett b e.
Proof.
  unfold gett. rewrite tags_union_lookup. destruct (a !! e), (b !! e); simpl; set_solver.
Qed.

Lemma or_norm_eq_iff s s' :
  or_norm s = or_norm s' ↔
  (∀ e, gett (or_elems s) e = gett (or_elems s') e) ∧ nz (or_seq s) = nz (or_seq s').
Proof.
  unfold or_norm. rewrite <- tagnorm_eq_iff. split; [intros [= H1 H2]; auto|intros [-> ->]; done].
Qed.

Lemma or_norm_merge_congr a a' b b' :
  or_norm a = or_norm a' → or_norm b = or_norm b' →
  or_norm (orset_merge a b) = or_norm (orset_merge a' b').
Proof.
  rewrite !or_norm_eq_iff. intros [Ha1 Ha2] [Hb1 Hb2]. unfold orset_merge; simpl. split.
  - intros e. by rewrite !gett_filter, !gett_union, Ha1, Hb1.
  - by apply nz_merge_congr.
Qed.

(* ---------- obs is a congruence for merge ---------- *)
Lemma obs_crdt_kind c : kind (obs_crdt c) = kind c.
Proof. by destruct c. Qed.

Lemma rv_merge_obs_congr a a' b b' :
  obs a = obs a' → obs b = obs b' → obs (rv_merge a b) = obs (rv_merge a' b').
Proof.
  destruct a as [ca va ea ta ra], a' as [ca' va' ea' ta' ra'],
           b as [cb vb eb tb rb], b' as [cb' vb' eb' tb' rb'].
  unfold obs, rv_merge; simpl. intros [= Hc Hv -> -> ->] [= Hc' Hv' -> -> ->].
  f_equal.
  - unfold merge_with_ts.
    destruct ca, ca'; simpl in Hc; try discriminate Hc;
    destruct cb, cb'; simpl in Hc'; try discriminate Hc'; simpl;
      try (destruct (stamp_ltb ta' tb'); simpl; congruence).
    + injection Hc as Hc. injection Hc' as Hc'. f_equal. by apply nz_merge_congr.
    + injection Hc as H1 H2. injection Hc' as H1' H2'. f_equal. f_equal; by apply nz_merge_congr.
    + f_equal. apply or_norm_merge_congr; congruence.
  - destruct va, va', vb, vb'; simpl in *; try discriminate; try done;
      f_equal; apply nz_merge_congr; congruence.
Qed.

(* ---------- kind and compatibility are preserved by same-kind merges ---------- *)
Lemma kind_merge a b :
  kind (rv_crdt a) = kind (rv_crdt b) → kind (rv_crdt (rv_merge a b)) = kind (rv_crdt a).
Proof.
  destruct a as [ca ? ? ? ?], b as [cb ? ? ? ?]; simpl. unfold merge_with_ts.
  destruct ca, cb; simpl; intros; try discriminate; done.
Qed.

Lemma lww_compat_sym a b : lww_compat a b → lww_compat b a.
Proof. unfold lww_compat. intros H E. symmetry. by apply H. Qed.

Lemma compatible_sym a b : Compatible a b → Compatible b a.
Proof.
  unfold Compatible. destruct (rv_crdt a), (rv_crdt b); try (intros [H|H]; [left|right]; done).
  - apply lww_compat_sym.
  - intros H f r1 r2 H1 H2. apply lww_compat_sym. eauto.
Qed.

Lemma lww_merge_cases x y : lww_merge x y = x ∨ lww_merge x y = y.
Proof. unfold lww_merge. destruct (stamp_ltb _ _); auto. Qed.

Lemma compat_merge_l a b c :
  kind (rv_crdt a) = kind (rv_crdt b) → kind (rv_crdt a) = kind (rv_crdt c) →
  Compatible a c → Compatible b c → Compatible (rv_merge a b) c.
Proof.
  destruct a as [ca ? ? ta ?], b as [cb ? ? tb ?], c as [cc ? ? tc ?]. unfold Compatible; simpl.
  unfold merge_with_ts.
  destruct ca, cb; simpl; try discriminate; intros _; destruct cc; simpl; try discriminate;
    intros _ Ha Hb; auto.
  - destruct (lww_merge_cases r r0) as [-> | ->]; done.
  - intros f r1 r2 H1 H2. unfold hash_merge in H1. rewrite lookup_union_with in H1.
    destruct (h !! f) as [x|] eqn:Hx, (h0 !! f) as [y|] eqn:Hy; simpl in H1; simplify_eq; eauto.
    destruct (lww_merge_cases x y) as [-> | ->]; eauto.
Qed.

(* ---------- folds ---------- *)
Definition eqv (a b : rvalue) : Prop := obs a = obs b.
Infix "≈" := eqv (at level 70).
Global Instance eqv_equiv : Equivalence eqv.
Proof. unfold eqv. split; [by intros ?|by intros ? ?|intros ? ? ?; congruence]. Qed.
Global Instance rv_merge_proper : Proper (eqv ==> eqv ==> eqv) rv_merge.
Proof. intros a a' Ha b b' Hb. by apply rv_merge_obs_congr. Qed.

Notation kd v := (kind (rv_crdt v)).
Definition mfold1 (x : rvalue) (xs : list rvalue) : rvalue := fold_left rv_merge xs x.
(* pairwise same kind and compatible *)
Definition Coh (l : list rvalue) : Prop :=
  ∀ a b, In a l → In b l → kd a = kd b ∧ Compatible a b.

Lemma mfold1_snoc x xs y : mfold1 x (xs ++ [y]) = rv_merge (mfold1 x xs) y.
Proof. unfold mfold1. by rewrite fold_left_app. Qed.

Lemma kind_fold x xs : (∀ y, In y xs → kd y = kd x) → kd (mfold1 x xs) = kd x.
Proof.
  induction xs as [|y xs IH] using rev_ind; intros H; [done|].
  assert (H' : ∀ z, In z xs → kd z = kd x) by (intros z Hz; apply H, in_or_app; auto).
  assert (Hy : kd y = kd x) by (apply H, in_or_app; right; by left).
  rewrite mfold1_snoc, kind_merge; rewrite (IH H'); congruence.
Qed.

Lemma compat_fold x xs c :
  (∀ y, In y xs → kd y = kd x) → kd x = kd c →
  Compatible x c → (∀ y, In y xs → Compatible y c) → Compatible (mfold1 x xs) c.
Proof.
  induction xs as [|y xs IH] using rev_ind; intros Hk Hkc Hx Hxs; [done|].
  rewrite mfold1_snoc.
  assert (Hk' : ∀ z, In z xs → kd z = kd x) by (intros z Hz; apply Hk, in_or_app; auto).
  assert (Hy : In y (xs ++ [y])) by (apply in_or_app; right; by left).
  apply compat_merge_l.
  - rewrite kind_fold by done. symmetry. by apply Hk.
  - by rewrite kind_fold.
  - apply IH; auto. intros z Hz. apply Hxs, in_or_app. auto.
  - by apply Hxs.
Qed.

Lemma rv_merge_idem_eqv a : rv_merge a a ≈ a.
Proof. apply rv_merge_idem. Qed.

(* the fold absorbs each of its elements *)
Lemma fold_absorbs x xs y :
  Coh (x :: xs) → In y (x :: xs) → rv_merge (mfold1 x xs) y ≈ mfold1 x xs.
Proof.
  induction xs as [|z xs IH] using rev_ind; intros Hc Hy.
  { destruct Hy as [<-|[]]. apply rv_merge_idem_eqv. }
  assert (Hc' : Coh (x :: xs)).
  { intros a b Ha Hb. apply Hc; (destruct Ha as [<-|Ha]; [by left|right; apply in_or_app; auto]) ||
                                 (destruct Hb as [<-|Hb]; [by left|right; apply in_or_app; auto]). }
  assert (Hz : In z (x :: xs ++ [z])) by (right; apply in_or_app; right; by left).
  assert (Hx : In x (x :: xs ++ [z])) by by left.
  assert (HkF : kd (mfold1 x xs) = kd x).
  { apply kind_fold. intros w Hw. symmetry. apply Hc; [done|]. right. apply in_or_app. auto. }
  rewrite mfold1_snoc. set (F := mfold1 x xs) in *.
  assert (Hkz : kd z = kd x) by (symmetry; by apply Hc).
  assert (Hky : kd y = kd x) by (symmetry; by apply Hc).
  assert (SK : ∀ u w, kd u = kd x → kd w = kd x → SameKind3 F u w) by (intros u w Hu Hw; split; congruence).
  destruct Hy as [<-|Hy]; [|apply in_app_or in Hy as [Hy|[<-|[]]]].
  - (* y = x, an element of the shorter list *)
    rewrite <- (rv_merge_assoc F z x) by auto.
    rewrite (rv_merge_comm z x) by (by apply Hc).
    rewrite (rv_merge_assoc F x z) by auto.
    rewrite (IH Hc' (or_introl eq_refl)). reflexivity.
  - rewrite <- (rv_merge_assoc F z y) by auto.
    rewrite (rv_merge_comm z y) by (apply Hc; [done|right; apply in_or_app; auto]).
    rewrite (rv_merge_assoc F y z) by auto.
    rewrite (IH Hc' (or_intror Hy)). reflexivity.
  - rewrite <- (rv_merge_assoc F z z) by auto.
    rewrite (rv_merge_idem_eqv z). reflexivity.
Qed.

Lemma Coh_sub l l' : (∀ z, In z l' → In z l) → Coh l → Coh l'.
Proof. intros Hs Hc a b Ha Hb. apply Hc; auto. Qed.

Lemma fold_absorbs_fold x xs y ys :
  Coh ((x :: xs) ++ (y :: ys)) → (∀ z, In z (y :: ys) → In z (x :: xs)) →
  rv_merge (mfold1 x xs) (mfold1 y ys) ≈ mfold1 x xs.
Proof.
  intros Hc. assert (Hcx : Coh (x :: xs)).
  { eapply Coh_sub; [|exact Hc]. intros z Hz. apply in_or_app. auto. }
  assert (HkF : kd (mfold1 x xs) = kd x).
  { apply kind_fold. intros w Hw. symmetry. apply Hcx; [by left|by right]. }
  induction ys as [|z ys IH] using rev_ind; intros Hsub.
  { apply fold_absorbs; [done|]. apply Hsub. by left. }
  assert (Hc' : Coh ((x :: xs) ++ y :: ys)).
  { eapply Coh_sub; [|exact Hc]. intros w Hw. apply in_app_or in Hw as [Hw|Hw]; apply in_or_app; [auto|].
    right. destruct Hw as [<-|Hw]; [by left|right; apply in_or_app; auto]. }
  assert (Hsub' : ∀ w, In w (y :: ys) → In w (x :: xs)).
  { intros w Hw. apply Hsub. destruct Hw as [<-|Hw]; [by left|right; apply in_or_app; auto]. }
  assert (Hkall : ∀ w, In w (y :: ys ++ [z]) → kd w = kd x).
  { intros w Hw. symmetry. apply Hc; apply in_or_app; [left; by left|by right]. }
  assert (HkG : kd (mfold1 y ys) = kd x).
  { rewrite kind_fold.
    - apply Hkall. by left.
    - intros w Hw. rewrite (Hkall w), (Hkall y); [done|by left|right; apply in_or_app; auto]. }
  assert (Hkz : kd z = kd x) by (apply Hkall; right; apply in_or_app; right; by left).
  rewrite mfold1_snoc.
  rewrite (rv_merge_assoc (mfold1 x xs) (mfold1 y ys) z) by (split; congruence).
  rewrite (IH Hc' Hsub').
  apply fold_absorbs; [done|]. apply Hsub. right. apply in_or_app. right. by left.
Qed.

Lemma compat_folds x xs y ys :
  Coh ((x :: xs) ++ (y :: ys)) → Compatible (mfold1 x xs) (mfold1 y ys).
Proof.
  intros Hc.
  assert (Hk : ∀ a b, In a ((x :: xs) ++ y :: ys) → In b ((x :: xs) ++ y :: ys) → kd a = kd b)
    by (intros a b Ha Hb; by apply Hc).
  assert (Hcp : ∀ a b, In a ((x :: xs) ++ y :: ys) → In b ((x :: xs) ++ y :: ys) → Compatible a b)
    by (intros a b Ha Hb; by apply Hc).
  assert (Ix : ∀ w, In w (x :: xs) → In w ((x :: xs) ++ y :: ys)) by (intros; apply in_or_app; auto).
  assert (Iy : ∀ w, In w (y :: ys) → In w ((x :: xs) ++ y :: ys)) by (intros; apply in_or_app; auto).
  assert (HkG : kd (mfold1 y ys) = kd y).
  { apply kind_fold. intros w Hw. apply Hk; apply Iy; [by right|by left]. }
  (* every element of the left list is compatible with the right fold *)
  assert (HG : ∀ w, In w (x :: xs) → Compatible w (mfold1 y ys)).
  { intros w Hw. apply compatible_sym. apply compat_fold.
    - intros u Hu. apply Hk; apply Iy; [by right|by left].
    - apply Hk; [apply Iy; by left|by apply Ix].
    - apply Hcp; [apply Iy; by left|by apply Ix].
    - intros u Hu. apply Hcp; [apply Iy; by right|by apply Ix]. }
  apply compat_fold.
  - intros u Hu. apply Hk; apply Ix; [by right|by left].
  - rewrite HkG. apply Hk; [apply Ix; by left|apply Iy; by left].
  - apply HG. by left.
  - intros u Hu. apply HG. by right.
Qed.

(* the fold depends, on obs, only on the set of elements *)
Theorem fold_set_determined x xs y ys :
  Coh ((x :: xs) ++ (y :: ys)) → (∀ z, In z (x :: xs) ↔ In z (y :: ys)) →
  mfold1 x xs ≈ mfold1 y ys.
Proof.
  intros Hc Hset.
  assert (Hc' : Coh ((y :: ys) ++ (x :: xs))).
  { eapply Coh_sub; [|exact Hc]. intros z Hz. apply in_app_or in Hz. apply in_or_app. tauto. }
  transitivity (rv_merge (mfold1 x xs) (mfold1 y ys)).
  { symmetry. apply fold_absorbs_fold; [done|]. intros z. apply Hset. }
  rewrite (rv_merge_comm (mfold1 x xs) (mfold1 y ys)) by (by apply compat_folds).
  apply fold_absorbs_fold; [done|]. intros z. apply Hset.
Qed.

(* Algebra used by C11 and C13: ReplicatedValue::merge respects the observable projection
   (obs is a congruence), same-kind merges preserve kind and compatibility, and the fold
   of a non-empty list of pairwise compatible same-kind values under merge depends, on obs,
   only on the set of its elements (any order, any multiplicity). *)
From stdpp Require Import gmap.
From Coq Require Import NArith Lia.
From RV Require Import Lib.Hex Model.Crdt Proofs.CrdtProofs.
Local Open Scope N_scope.

(* ---------- pointwise view of the normalisations ---------- *)
Definition getz (m : gmap N N) (i : N) : N := default 0 (m !! i).

Lemma nz_lookup (m : gmap N N) i :
  nz m !! i = match m !! i with Some x => if decide (x = 0) then None else Some x | None => None end.
Proof.
  unfold nz. rewrite map_filter_lookup. destruct (m !! i) as [x|]; simpl; [|done].
  unfold nonzero; simpl. destruct (decide (x = 0)) as [->|Hne].
  - rewrite option_guard_False; [done|]. intros H. by apply H.
  - by rewrite option_guard_True.
Qed.

Lemma nz_eq_iff (m m' : gmap N N) : nz m = nz m' ↔ ∀ i, getz m i = getz m' i.
Proof.
  split.
  - intros H i. apply (f_equal (λ x, x !! i)) in H. rewrite !nz_lookup in H. unfold getz.
    destruct (m !! i) as [x|], (m' !! i) as [y|]; simpl in *;
      repeat (match goal with H : context [decide (?a = 0)] |- _ => destruct (decide (a = 0)) end);
      simplify_eq; done.
  - intros H. apply map_eq. intros i. specialize (H i). rewrite !nz_lookup. unfold getz in H.
    destruct (m !! i) as [x|], (m' !! i) as [y|]; simpl in *;
      repeat (match goal with |- context [decide (?a = 0)] => destruct (decide (a = 0)) end);
      simplify_eq; done.
Qed.

Lemma getz_merge a b i : getz (nmap_merge a b) i = N.max (getz a i) (getz b i).
Proof.
  unfold getz, nmap_merge. rewrite lookup_union_with.
  destruct (a !! i), (b !! i); simpl; lia.
Qed.

Lemma nz_merge_congr a a' b b' :
  nz a = nz a' → nz b = nz b' → nz (nmap_merge a b) = nz (nmap_merge a' b').
Proof.
  rewrite !nz_eq_iff. intros Ha Hb i. by rewrite !getz_merge, Ha, Hb.
Qed.

Definition gett (m : gmap (list N) (gset (N * N))) (e : list N) : gset (N * N) := default ∅ (m !! e).

Lemma tagnorm_eq_iff (m m' : gmap (list N) (gset (N * N))) :
  filter nonempty_tags m = filter nonempty_tags m' ↔ ∀ e, gett m e = gett m' e.
Proof.
  split.
  - intros H e. apply (f_equal (λ x, x !! e)) in H. rewrite !filter_ne_lookup in H. unfold gett.
    destruct (m !! e) as [x|], (m' !! e) as [y|]; simpl in *;
      repeat (match goal with H : context [decide (?a = ∅)] |- _ => destruct (decide (a = ∅)) end);
      simplify_eq; done.
  - intros H. apply map_eq. intros e. specialize (H e). rewrite !filter_ne_lookup. unfold gett in H.
    destruct (m !! e) as [x|], (m' !! e) as [y|]; simpl in *;
      repeat (match goal with |- context [decide (?a = ∅)] => destruct (decide (a = ∅)) end);
      simplify_eq; done.
Qed.

Lemma gett_filter m e : gett (filter nonempty_tags m) e = gett m e.
Proof.
  unfold gett. rewrite filter_ne_lookup. destruct (m !! e) as [s|]; [|done].
  by destruct (decide (s = ∅)) as [->|].
Qed.
Lemma gett_union a b e : gett (tags_union a b) e = gett a e ∪ gett b e.
Proof.
  unfold gett. rewrite tags_union_lookup. destruct (a !! e), (b !! e); simpl; set_solver.
Qed.

Lemma or_norm_eq_iff s s' :
  or_norm s = or_norm s' ↔
  (∀ e, gett (or_elems s) e = gett (or_elems s') e) ∧ nz (or_seq s) = nz (or_seq s').
Proof.
  unfold or_norm. rewrite <- tagnorm_eq_iff. split; [intros [= H1 H2]; auto|intros [-> ->]; done].
Qed.

Lemma or_norm_merge_congr a a' b b' :
  or_norm a = or_norm a' → or_norm b = or_norm b' →
  or_norm (orset_merge a b) = or_norm (orset_merge a' b').
Proof.
  rewrite !or_norm_eq_iff. intros [Ha1 Ha2] [Hb1 Hb2]. unfold orset_merge; simpl. split.
  - intros e. by rewrite !gett_filter, !gett_union, Ha1, Hb1.
  - by apply nz_merge_congr.
Qed.

(* ---------- obs is a congruence for merge ---------- *)
Lemma obs_crdt_kind c : kind (obs_crdt c) = kind c.
Proof. by destruct c. Qed.

Lemma rv_merge_obs_congr a a' b b' :
  obs a = obs a' → obs b = obs b' → obs (rv_merge a b) = obs (rv_merge a' b').
Proof.
  destruct a as [ca va ea ta ra], a' as [ca' va' ea' ta' ra'],
           b as [cb vb eb tb rb], b' as [cb' vb' eb' tb' rb'].
  unfold obs, rv_merge; simpl. intros [= Hc Hv -> -> ->] [= Hc' Hv' -> -> ->].
  f_equal.
  - unfold merge_with_ts.
    destruct ca, ca'; simpl in Hc; try discriminate Hc;
    destruct cb, cb'; simpl in Hc'; try discriminate Hc'; simpl;
      try (destruct (stamp_ltb ta' tb'); simpl; congruence).
    + congruence.
    + injection Hc as Hc. injection Hc' as Hc'. f_equal. by apply nz_merge_congr.
    + injection Hc as H1 H2. injection Hc' as H1' H2'. f_equal. f_equal; by apply nz_merge_congr.
    + congruence.
    + injection Hc as Hc. injection Hc' as Hc'. f_equal. by apply or_norm_merge_congr.
    + congruence.
  - destruct va, va', vb, vb'; simpl in *; try discriminate; try done; f_equal.
    + injection Hv as Hv. injection Hv' as Hv'. by apply nz_merge_congr.
    + by injection Hv.
    + by injection Hv'.
Qed.
